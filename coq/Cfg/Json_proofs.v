(* Proofs about the key-by-key merge of Cfg/Json.v. *)
From Coq Require Import ZArith.
From Mk Require Import Lib.Bytes Cfg.Json.

(* ---------------- association lists ---------------- *)
Lemma get_app {A} k (a b : list (str * A)) :
  get k (a ++ b) = match get k a with Some v => Some v | None => get k b end.
Proof.
  induction a as [|[k' v] a IH]; simpl; [reflexivity|].
  destruct (seqb k k'); [reflexivity | exact IH].
Qed.

Lemma get_filter_notin {A B} k (d : list (str * B)) (s : list (str * A)) :
  get k d = None ->
  get k (filter (fun e => negb (has_key (fst e) d)) s) = get k s.
Proof.
  intros Hd. induction s as [|[k' v] s IH]; simpl; [reflexivity|].
  destruct (seqb k k') eqn:E.
  - apply seqb_eq in E; subst k'. unfold has_key. rewrite Hd. simpl. rewrite seqb_refl. reflexivity.
  - destruct (negb (has_key k' d)); simpl; [rewrite E|]; exact IH.
Qed.

Lemma get_filter_in {A B} k (d : list (str * B)) (s : list (str * A)) x :
  get k d = Some x ->
  get k (filter (fun e => negb (has_key (fst e) d)) s) = None.
Proof.
  intros Hd. induction s as [|[k' v] s IH]; simpl; [reflexivity|].
  destruct (negb (has_key k' d)) eqn:Hn; simpl; [|exact IH].
  destruct (seqb k k') eqn:E; [|exact IH].
  apply seqb_eq in E; subst k'. unfold has_key in Hn. rewrite Hd in Hn. discriminate.
Qed.

(* ---------------- merge: shape lemmas ---------------- *)
Lemma merge_json_obj s d : merge_json (JObj s) (JObj d) = JObj (merge_obj s d).
Proof.
  simpl. unfold merge_obj, merge_entries. f_equal. f_equal.
  induction d as [|[k dv] d IH]; simpl; [reflexivity|]. f_equal. exact IH.
Qed.

Lemma merge_json_nonobj_d s d : is_obj d = false -> merge_json s d = d.
Proof. destruct d; simpl; try reflexivity; discriminate. Qed.

Lemma merge_json_nonobj_s s d : is_obj s = false -> merge_json s d = d.
Proof. destruct d; try reflexivity. destruct s; simpl; try reflexivity; discriminate. Qed.

Lemma kind_merge s d : kind (merge_json s d) = kind d.
Proof.
  destruct d; try reflexivity. destruct s; reflexivity.
Qed.

Lemma is_obj_merge s d : is_obj (merge_json s d) = is_obj d.
Proof.
  destruct d; try reflexivity. destruct s; reflexivity.
Qed.

Lemma get_merge_entries k s d :
  get k (merge_entries s d) =
  match get k d with
  | Some dv => Some (match get k s with Some sv => merge_json sv dv | None => dv end)
  | None => None
  end.
Proof.
  unfold merge_entries. induction d as [|[k' dv] d IH]; simpl; [reflexivity|].
  destruct (seqb k k') eqn:E; [|exact IH].
  apply seqb_eq in E; subst k'. reflexivity.
Qed.

(* The map denoted by the merge: the child's binding wins; maps on both sides are merged. *)
Lemma get_merge_obj k s d :
  get k (merge_obj s d) =
  match get k d with
  | Some dv => Some (match get k s with Some sv => merge_json sv dv | None => dv end)
  | None => get k s
  end.
Proof.
  unfold merge_obj. rewrite get_app, get_merge_entries.
  destruct (get k d) as [dv|] eqn:Hd; [reflexivity|].
  apply get_filter_notin. exact Hd.
Qed.

(* ---------------- chains ---------------- *)
Lemma eff_head_kind v more e : eff (v :: more) = Some e -> kind e = kind v.
Proof.
  simpl. intros H. injection H as <-. destruct (eff more); [apply kind_merge | reflexivity].
Qed.

Lemma kind_is_obj a b : kind a = kind b -> is_obj a = is_obj b.
Proof. destruct a, b; simpl; intros H; try reflexivity; discriminate. Qed.

Lemma descend_nonobj k v more : is_obj v = false -> descend k (v :: more) = [].
Proof. destruct v; simpl; try reflexivity; discriminate. Qed.

(* The value under key k of a chain's merged value is the merged value of the chain seen at k. *)
Lemma eff_field k chain :
  match eff chain with Some e => field k e | None => None end = eff (descend k chain).
Proof.
  induction chain as [|v more IH]; [reflexivity|].
  destruct (is_obj v) eqn:Hv.
  2:{ rewrite descend_nonobj by exact Hv. simpl.
      destruct (eff more); [rewrite merge_json_nonobj_d by exact Hv|];
        destruct v; simpl in *; try reflexivity; discriminate. }
  destruct v as [| | | | |kv]; try discriminate. clear Hv.
  change (eff (JObj kv :: more)) with
    (Some (match eff more with Some p => merge_json p (JObj kv) | None => JObj kv end)).
  destruct (eff more) as [p|] eqn:Hp.
  - destruct p as [| | | | |pkv].
    1-5: (rewrite merge_json_nonobj_s by reflexivity; simpl;
          destruct more as [|w more']; [discriminate|];
          pose proof (eff_head_kind _ _ _ Hp) as Hk; apply kind_is_obj in Hk; simpl in Hk;
          rewrite (descend_nonobj k w more') by (symmetry; exact Hk);
          destruct (get k kv); reflexivity).
    rewrite merge_json_obj. simpl field. rewrite get_merge_obj.
    simpl in IH. simpl descend.
    destruct (get k kv) as [x|].
    + simpl. rewrite <- IH. reflexivity.
    + exact IH.
  - simpl in IH. simpl. destruct (get k kv) as [x|]; simpl; rewrite <- IH; reflexivity.
Qed.

Lemma resolve_nil path : resolve path [] = None.
Proof. induction path as [|k rest IH]; simpl; [reflexivity | exact IH]. Qed.

(* Main theorem about merged chains: what is visible at every key path of the merged value
   is what the specification [resolve] says. *)
Theorem look_eff path : forall chain, look_opt path (eff chain) = resolve path chain.
Proof.
  induction path as [|k rest IH]; intros chain.
  - destruct chain as [|v more]; [reflexivity|].
    destruct (eff (v :: more)) as [e|] eqn:He; [|discriminate].
    simpl. f_equal. eapply eff_head_kind. exact He.
  - simpl resolve. rewrite <- IH, <- eff_field.
    destruct (eff chain) as [e|]; [|reflexivity].
    simpl. destruct (field k e); reflexivity.
Qed.

(* Without kind conflicts on the way the specification is plain "first level that has it". *)
Lemma descend_clean k chain :
  Forall (clean (k :: nil)) chain ->
  descend k chain = flat_map (fun v => match field k v with Some x => [x] | None => [] end) chain.
Proof.
  induction chain as [|v more IH]; intros H; [reflexivity|].
  inversion H as [|? ? Hv Hm]; subst.
  destruct v; simpl in Hv; try contradiction.
  simpl. destruct (get k kv); simpl; rewrite IH by exact Hm; reflexivity.
Qed.

Lemma clean_head k rest v : clean (k :: rest) v -> clean (k :: nil) v.
Proof. destruct v; simpl; try tauto. destruct (get k kv); intros; exact I. Qed.

Theorem resolve_first_some path : forall chain,
  Forall (clean path) chain ->
  resolve path chain = first_some (map (look path) chain).
Proof.
  induction path as [|k rest IH]; intros chain H.
  - destruct chain; reflexivity.
  - simpl resolve. rewrite descend_clean.
    2:{ eapply Forall_impl; [|exact H]. intros v. apply clean_head. }
    rewrite IH.
    + induction chain as [|v more IHc]; [reflexivity|].
      inversion H as [|? ? Hv Hm]; subst. simpl.
      destruct (field k v) as [x|] eqn:Hf; simpl.
      * destruct (look rest x); [reflexivity | apply IHc; exact Hm].
      * apply IHc; exact Hm.
    + induction chain as [|v more IHc]; [constructor|].
      inversion H as [|? ? Hv Hm]; subst. simpl.
      destruct v; simpl in Hv; try contradiction. simpl.
      destruct (get k kv) as [x|]; simpl; [constructor; [exact Hv|]|]; apply IHc; exact Hm.
Qed.

(* ---------------- indistinguishability ---------------- *)
Lemma jeq_refl a : jeq a a.
Proof. intros p. reflexivity. Qed.
Lemma jeq_sym a b : jeq a b -> jeq b a.
Proof. intros H p. symmetry. apply H. Qed.
Lemma jeq_trans a b c : jeq a b -> jeq b c -> jeq a c.
Proof. intros H1 H2 p. rewrite H1. apply H2. Qed.

Lemma jeq_kind a b : jeq a b -> kind a = kind b.
Proof. intros H. specialize (H []). simpl in H. congruence. Qed.

Definition oeq (a b : option json) : Prop := forall path, look_opt path a = look_opt path b.

Lemma jeq_field k a b : jeq a b -> oeq (field k a) (field k b).
Proof.
  intros H path. specialize (H (k :: path)). simpl in H.
  destruct (field k a), (field k b); simpl; exact H.
Qed.

Lemma oeq_cases a b : oeq a b ->
  match a, b with Some x, Some y => jeq x y | None, None => True | _, _ => False end.
Proof.
  intros H. destruct a as [x|], b as [y|]; try exact I.
  - exact H.
  - specialize (H []). discriminate.
  - specialize (H []). discriminate.
Qed.

(* merging the same parent a second time changes nothing visible *)
Lemma look_merge_self path : forall v, look path (merge_json v v) = look path v.
Proof.
  induction path as [|k rest IH]; intros v.
  - simpl. f_equal. apply kind_merge.
  - destruct v; try reflexivity.
    rewrite merge_json_obj. simpl. rewrite get_merge_obj.
    destruct (get k kv) as [dv|]; [apply IH | reflexivity].
Qed.

Lemma look_merge_idem path : forall s d,
  look path (merge_json s (merge_json s d)) = look path (merge_json s d).
Proof.
  induction path as [|k rest IH]; intros s d.
  - simpl. f_equal. rewrite !kind_merge. reflexivity.
  - destruct d as [| | | | |dkv]; try reflexivity.
    destruct s as [| | | | |skv]; try reflexivity.
    rewrite !merge_json_obj. simpl. rewrite !get_merge_obj.
    destruct (get k dkv) as [dv|].
    + destruct (get k skv) as [sv|]; [apply IH | reflexivity].
    + destruct (get k skv) as [sv|]; [apply look_merge_self | reflexivity].
Qed.

Lemma merge_idem s d : jeq (merge_json s (merge_json s d)) (merge_json s d).
Proof. intros p. apply look_merge_idem. Qed.

Lemma merge_self v : jeq (merge_json v v) v.
Proof. intros p. apply look_merge_self. Qed.

(* merge respects indistinguishability of the parent *)
Lemma look_merge_congr_s path : forall s s' d,
  jeq s s' -> look path (merge_json s d) = look path (merge_json s' d).
Proof.
  induction path as [|k rest IH]; intros s s' d H.
  - simpl. rewrite !kind_merge. reflexivity.
  - destruct d as [| | | | |dkv]; try reflexivity.
    pose proof (jeq_kind _ _ H) as Hk.
    destruct s as [| | | | |skv], s' as [| | | | |skv']; try discriminate; try reflexivity.
    rewrite !merge_json_obj. simpl. rewrite !get_merge_obj.
    pose proof (oeq_cases _ _ (jeq_field k _ _ H)) as Hc. simpl in Hc.
    destruct (get k dkv) as [dv|].
    + destruct (get k skv) as [sv|], (get k skv') as [sv'|]; try contradiction;
        [apply IH; exact Hc | reflexivity].
    + destruct (get k skv) as [sv|], (get k skv') as [sv'|]; try contradiction;
        [apply Hc | reflexivity].
Qed.

Lemma merge_congr_s s s' d : jeq s s' -> jeq (merge_json s d) (merge_json s' d).
Proof. intros H p. apply look_merge_congr_s. exact H. Qed.

(* ... and of the child *)
Lemma look_merge_congr_d path : forall s d d',
  jeq d d' -> look path (merge_json s d) = look path (merge_json s d').
Proof.
  induction path as [|k rest IH]; intros s d d' H.
  - simpl. rewrite !kind_merge. f_equal. apply jeq_kind. exact H.
  - pose proof (jeq_kind _ _ H) as Hk.
    destruct d as [| | | | |dkv], d' as [| | | | |dkv']; try discriminate;
      try (specialize (H (k :: rest)); exact H).
    destruct s as [| | | | |skv];
      try (rewrite !merge_json_nonobj_s by reflexivity; apply (H (k :: rest))).
    rewrite !merge_json_obj. simpl. rewrite !get_merge_obj.
    pose proof (oeq_cases _ _ (jeq_field k _ _ H)) as Hc. simpl in Hc.
    destruct (get k dkv) as [dv|], (get k dkv') as [dv'|]; try contradiction.
    + destruct (get k skv) as [sv|]; [apply IH; exact Hc | apply Hc].
    + reflexivity.
Qed.

Lemma merge_congr_d s d d' : jeq d d' -> jeq (merge_json s d) (merge_json s d').
Proof. intros H p. apply look_merge_congr_d. exact H. Qed.

Lemma merge_congr s s' d d' : jeq s s' -> jeq d d' -> jeq (merge_json s d) (merge_json s' d').
Proof.
  intros H1 H2. eapply jeq_trans; [apply merge_congr_s; exact H1 | apply merge_congr_d; exact H2].
Qed.

(* a parent that only repeats what the child already has adds nothing:
   (x (+) y) (+) y  ~  x (+) y   in child-first notation *)
Lemma merge_absorb s d : jeq (merge_json s (merge_json s d)) (merge_json s d).
Proof. apply merge_idem. Qed.

(* the top level of a merge of two maps, as a map *)
Lemma look_merge_obj path s d :
  look path (JObj (merge_obj s d)) = look path (merge_json (JObj s) (JObj d)).
Proof. rewrite merge_json_obj. reflexivity. Qed.
