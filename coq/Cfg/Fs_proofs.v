(* Proofs about Cfg/Fs.v: what MkdirAll and WriteFile can change. *)
From Mk Require Import Lib.Bytes Cfg.Fs.

Lemma path_eqb_eq a b : path_eqb a b = true <-> a = b.
Proof.
  revert b; induction a as [|x a IH]; destruct b as [|y b]; simpl; try (split; congruence).
  rewrite andb_true_iff, seqb_eq, IH. split; [intros [-> ->]; reflexivity | intros H; injection H; auto].
Qed.
Lemma path_eqb_refl a : path_eqb a a = true.
Proof. apply path_eqb_eq; reflexivity. Qed.
Lemma path_eqb_neq a b : path_eqb a b = false <-> a <> b.
Proof.
  split; intros H.
  - intros E. apply path_eqb_eq in E. congruence.
  - destruct (path_eqb a b) eqn:E; [apply path_eqb_eq in E; contradiction | reflexivity].
Qed.
Lemma path_eqb_sym a b : path_eqb a b = path_eqb b a.
Proof.
  destruct (path_eqb a b) eqn:E.
  - apply path_eqb_eq in E; subst. symmetry; apply path_eqb_refl.
  - apply path_eqb_neq in E. symmetry. apply path_eqb_neq. congruence.
Qed.

Lemma upd_same f p n : upd f p n p = Some n.
Proof. unfold upd. now rewrite path_eqb_refl. Qed.
Lemma upd_other f p n q : q <> p -> upd f p n q = f q.
Proof. intros H. unfold upd. apply path_eqb_neq in H. now rewrite H. Qed.

Lemma is_prefix_spec a b : is_prefix a b = true <-> exists r, b = a ++ r.
Proof.
  revert b; induction a as [|x a IH]; intros b; simpl.
  - split; [intros _; exists b; reflexivity | reflexivity].
  - destruct b as [|y b]; [split; [discriminate | intros [r H]; discriminate]|].
    rewrite andb_true_iff, seqb_eq, IH. split.
    + intros [-> [r ->]]. eauto.
    + intros [r H]. injection H as -> ->. eauto.
Qed.

Lemma strict_prefix_spec a b : strict_prefix a b = true <-> exists r, r <> [] /\ b = a ++ r.
Proof.
  unfold strict_prefix. rewrite andb_true_iff, negb_true_iff, is_prefix_spec, path_eqb_neq. split.
  - intros [[r ->] N]. exists r. split; [|reflexivity]. intros ->. rewrite app_nil_r in N. congruence.
  - intros [r [N ->]]. split; [eauto|]. intros E. apply N.
    apply (f_equal (@length str)) in E. rewrite app_length in E. destruct r; [reflexivity | simpl in E; lia].
Qed.

Lemma strict_prefix_neq a b : strict_prefix a b = true -> a <> b.
Proof.
  unfold strict_prefix. rewrite andb_true_iff, negb_true_iff, path_eqb_neq. tauto.
Qed.
Lemma strict_prefix_is_prefix a b : strict_prefix a b = true -> is_prefix a b = true.
Proof. unfold strict_prefix. rewrite andb_true_iff. tauto. Qed.

(* a non-empty prefix of the parent directory is a strict prefix of the path *)
Lemma prefix_parent_strict q p :
  (exists r, parent p = q ++ r) -> q <> [] -> strict_prefix q p = true.
Proof.
  intros [r E] N. apply strict_prefix_spec. unfold parent in E.
  destruct p as [|s p] using rev_ind.
  - simpl in E. destruct q; [congruence | discriminate].
  - rewrite removelast_last in E. subst p. exists (r ++ [s]). split.
    + destruct r; discriminate.
    + now rewrite app_assoc.
Qed.

(* ---------- MkdirAll ---------- *)
Lemma mk_down_spec ro : forall rest f fresh cur ok f',
  mk_down ro f fresh cur rest = (ok, f') ->
  forall q, f' q = f q \/
            (f q = None /\ f' q = Some Dir /\
             exists pre suf, pre <> [] /\ q = cur ++ pre /\ rest = pre ++ suf).
Proof.
  induction rest as [|s r IH]; intros f fresh cur ok f' H q; simpl in H.
  - injection H as _ <-. now left.
  - destruct (f (cur ++ [s])) as [[c|]|] eqn:E.
    + injection H as _ <-. now left.
    + apply IH with (q := q) in H. destruct H as [H | (H1 & H2 & pre & suf & N & -> & ->)]; [now left|].
      right. split; [exact H1|]. split; [exact H2|].
      exists (s :: pre), suf. split; [discriminate|]. split; [now rewrite <- app_assoc | reflexivity].
    + destruct (negb fresh && ro cur); [injection H as _ <-; now left|].
      apply IH with (q := q) in H.
      destruct (path_eqb q (cur ++ [s])) eqn:Q.
      * apply path_eqb_eq in Q. subst q.
        destruct H as [H | (H1 & _)].
        -- right. rewrite H, upd_same. split; [exact E|]. split; [reflexivity|].
           exists [s], r. split; [discriminate|]. split; reflexivity.
        -- rewrite upd_same in H1. discriminate.
      * apply path_eqb_neq in Q. rewrite upd_other in H by exact Q.
        destruct H as [H | (H1 & H2 & pre & suf & N & -> & ->)]; [now left|].
        right. split; [exact H1|]. split; [exact H2|].
        exists (s :: pre), suf. split; [discriminate|]. split; [now rewrite <- app_assoc | reflexivity].
Qed.

Lemma mkdir_all_spec ro f d ok f' :
  mkdir_all ro f d = (ok, f') ->
  forall q, f' q = f q \/
            (f q = None /\ f' q = Some Dir /\ q <> [] /\ is_prefix q d = true).
Proof.
  intros H q. unfold mkdir_all in H. apply mk_down_spec with (q := q) in H.
  destruct H as [H | (H1 & H2 & pre & suf & N & -> & ->)]; [now left|].
  right. simpl. repeat split; auto. apply is_prefix_spec. eauto.
Qed.

(* MkdirAll of the directory that holds [p]: only strict ancestors of [p] can appear *)
Lemma mkdir_parent_spec ro f p ok f' :
  mkdir_all ro f (parent p) = (ok, f') ->
  forall q, f' q = f q \/ (f q = None /\ f' q = Some Dir /\ strict_prefix q p = true).
Proof.
  intros H q. apply mkdir_all_spec with (q := q) in H.
  destruct H as [H | (H1 & H2 & N & P)]; [now left|].
  right. repeat split; auto. apply prefix_parent_strict; [|exact N].
  apply is_prefix_spec in P. exact P.
Qed.

(* ---------- WriteFile ---------- *)
Lemma write_file_spec ro f p c f' :
  write_file ro f p c = Some f' ->
  f' = upd f p (File c) /\ (f p = None \/ exists c0, f p = Some (File c0)).
Proof.
  unfold write_file. intros H. destruct (f p) as [[c0|]|] eqn:E.
  - destruct (ro p); [discriminate|]. injection H as <-. split; [reflexivity|]. right; eauto.
  - discriminate.
  - destruct (f (parent p)) as [[?|]|]; try discriminate.
    destruct (ro (parent p)); [discriminate|]. injection H as <-. split; [reflexivity|]. now left.
Qed.

(* a regular file where a directory is needed makes MkdirAll fail *)
Lemma mk_down_file_blocks ro : forall rest f fresh cur pre suf c,
  rest = pre ++ suf -> pre <> [] -> f (cur ++ pre) = Some (File c) ->
  fst (mk_down ro f fresh cur rest) = false.
Proof.
  induction rest as [|s r IH]; intros f fresh cur pre suf c E N Hf.
  - destruct pre; [congruence | discriminate].
  - destruct pre as [|s' pre']; [congruence|]. simpl in E. injection E as <- E.
    simpl. destruct pre' as [|s2 pre2].
    + rewrite Hf. reflexivity.
    + assert (Hf' : f ((cur ++ [s]) ++ s2 :: pre2) = Some (File c)) by (now rewrite <- app_assoc).
      destruct (f (cur ++ [s])) as [[c0|]|] eqn:E1.
      * reflexivity.
      * eapply IH; eauto. discriminate.
      * destruct (negb fresh && ro cur); [reflexivity|].
        eapply IH with (pre := s2 :: pre2); eauto; [discriminate|].
        rewrite upd_other; [exact Hf'|].
        intros X. apply (f_equal (@length str)) in X. rewrite !app_length in X. simpl in X. lia.
Qed.

Lemma mkdir_all_file_blocks ro f d a c :
  is_prefix a d = true -> a <> [] -> f a = Some (File c) -> fst (mkdir_all ro f d) = false.
Proof.
  intros P N Hf. apply is_prefix_spec in P. destruct P as [r ->].
  unfold mkdir_all. eapply mk_down_file_blocks with (pre := a); eauto.
Qed.

Lemma strict_prefix_parent a p : strict_prefix a p = true -> is_prefix a (parent p) = true.
Proof.
  intros H. apply strict_prefix_spec in H. destruct H as (r & N & ->).
  apply is_prefix_spec. unfold parent.
  destruct r as [|x r] using rev_ind; [congruence|].
  exists r. now rewrite app_assoc, removelast_last.
Qed.
