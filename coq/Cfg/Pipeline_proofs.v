(* Proofs about Cfg/Pipeline.v (C09, C10). *)
From Mk Require Import Lib.Bytes Cfg.Fs Cfg.Fs_proofs Cfg.GoMod Cfg.Pipeline.

(* ================= parsing ================= *)
Lemma parse_pkgs_eq all l ds : parse_pkgs all l = Some ds -> ds = all_decls l.
Proof.
  revert ds; induction l as [|p t IH]; intros ds H; simpl in H.
  - now injection H as <-.
  - unfold all_decls; simpl. fold (all_decls t).
    destruct (has_files p) eqn:F; simpl in H.
    + destruct (has_errors p); [discriminate|].
      destruct (parse_pkgs all t) as [r|]; [|discriminate]. simpl in H. injection H as <-.
      now rewrite (IH r eq_refl).
    + destruct (negb (has_errors p) || has_sub all p) eqn:G.
      * simpl. now apply IH.
      * apply orb_false_iff in G. destruct G as [G _]. apply negb_false_iff in G.
        rewrite G in H. discriminate.
Qed.

Lemma all_decls_In l p d :
  In (p, d) (all_decls l) <-> In p l /\ has_files p = true /\ In d (p_decls p).
Proof.
  unfold all_decls. rewrite in_flat_map. split.
  - intros [p' [Hp H]]. destruct (has_files p') eqn:F; [|destruct H].
    apply in_map_iff in H. destruct H as [d' [E Hd]]. injection E as -> ->. auto.
  - intros (Hp & F & Hd). exists p. split; [exact Hp|]. rewrite F. now apply in_map.
Qed.

Lemma sel_In ds p q :
  In (p, q) (sel ds) <->
  exists d, In (p, d) ds /\ should_generate p (d_name d) = Some true /\ In q (d_reqs d).
Proof.
  unfold sel. rewrite in_flat_map. split.
  - intros [[p' d] [Hd H]]. unfold sel_of in H; simpl in H.
    destruct (should_generate p' (d_name d)) as [[|]|] eqn:G; try destruct H.
    apply in_map_iff in H. destruct H as [q' [E Hq]]. injection E as -> ->. eauto.
  - intros (d & Hd & G & Hq). exists (p, d). split; [exact Hd|].
    unfold sel_of; simpl. rewrite G. now apply in_map.
Qed.

Lemma selected_In w p q :
  In (p, q) (selected_reqs w) ->
  In p (w_pkgs w) /\ has_files p = true /\
  exists d, In d (p_decls p) /\ should_generate p (d_name d) = Some true /\ In q (d_reqs d).
Proof.
  unfold selected_reqs. rewrite sel_In. intros (d & Hd & G & Hq).
  apply all_decls_In in Hd. destruct Hd as (Hp & F & Hd). eauto 10.
Qed.

(* ================= grouping ================= *)
Lemma find_coll_key m x k : find_coll m x = Some k -> k_key k = x.
Proof.
  induction m as [|k0 t IH]; simpl; [discriminate|].
  destruct (seqb (k_key k0) x) eqn:E; [|exact IH].
  intros H. injection H as <-. now apply seqb_eq.
Qed.

Definition ext (k k' : coll) : Prop :=
  k_key k' = k_key k /\ k_path k' = k_path k /\ k_pkg k' = k_pkg k /\ k_first k' = k_first k /\
  k_pkgname k' = k_pkgname k /\
  k_template k' = k_template k /\ incl (k_reqs k) (k_reqs k').
Lemma ext_refl k : ext k k.
Proof. repeat split; auto. apply incl_refl. Qed.

Lemma add_req_old m p q m' :
  add_req m p q = Some m' ->
  forall x k, find_coll m x = Some k -> exists k', find_coll m' x = Some k' /\ ext k k'.
Proof.
  revert m'; induction m as [|k0 t IH]; intros m' H x k Hf; simpl in *; [discriminate|].
  destruct (seqb (k_key k0) (q_key q)) eqn:E.
  - destruct (same_group k0 p q); [|discriminate]. injection H as <-. simpl.
    destruct (seqb (k_key k0) x) eqn:E2.
    + injection Hf as <-. eexists. split; [reflexivity|].
      repeat split; simpl; auto. apply incl_appl, incl_refl.
    + eexists. split; [exact Hf | apply ext_refl].
  - destruct (add_req t p q) as [t'|] eqn:A; [|discriminate]. simpl in H. injection H as <-. simpl.
    destruct (seqb (k_key k0) x) eqn:E2.
    + injection Hf as <-. eexists. split; [reflexivity | apply ext_refl].
    + eapply IH; eauto.
Qed.

Lemma add_req_new m p q m' :
  add_req m p q = Some m' ->
  exists k', find_coll m' (q_key q) = Some k' /\ In q (k_reqs k') /\ same_group k' p q = true.
Proof.
  revert m'; induction m as [|k0 t IH]; intros m' H; simpl in *.
  - injection H as <-. simpl. rewrite seqb_refl. eexists. split; [reflexivity|]. simpl.
    split; [now left|]. unfold same_group; simpl. now rewrite !seqb_refl.
  - destruct (seqb (k_key k0) (q_key q)) eqn:E.
    + destruct (same_group k0 p q) eqn:G; [|discriminate]. injection H as <-. simpl. rewrite E.
      eexists. split; [reflexivity|]. simpl. split; [apply in_or_app; right; now left | exact G].
    + destruct (add_req t p q) as [t'|] eqn:A; [|discriminate]. simpl in H. injection H as <-.
      simpl. rewrite E. now apply IH.
Qed.

Lemma add_req_inv m p q m' :
  add_req m p q = Some m' ->
  forall x k', find_coll m' x = Some k' ->
  (exists k, find_coll m x = Some k /\ k_pkg k' = k_pkg k /\ k_path k' = k_path k /\ k_first k' = k_first k) \/
  (x = q_key q /\ k_pkg k' = p /\ k_path k' = q_path q /\ k_first k' = q).
Proof.
  revert m'; induction m as [|k0 t IH]; intros m' H x k' Hf; simpl in *.
  - injection H as <-. simpl in Hf. destruct (seqb (q_key q) x) eqn:E; [|discriminate].
    injection Hf as <-. right. simpl. apply seqb_eq in E. auto.
  - destruct (seqb (k_key k0) (q_key q)) eqn:E.
    + destruct (same_group k0 p q); [|discriminate]. injection H as <-. simpl in Hf.
      destruct (seqb (k_key k0) x) eqn:E2.
      * injection Hf as <-. left. eexists. split; [reflexivity|]. repeat split; reflexivity.
      * left. eauto.
    + destruct (add_req t p q) as [t'|] eqn:A; [|discriminate]. simpl in H. injection H as <-.
      simpl in Hf. destruct (seqb (k_key k0) x) eqn:E2.
      * injection Hf as <-. left. eauto 6.
      * eapply IH; eauto.
Qed.

(* every group comes from a selected request of its package: its key and its file *)
Definition Sound (S : list (package * request)) (m : list coll) : Prop :=
  forall x k, find_coll m x = Some k ->
  In (k_pkg k, k_first k) S /\ q_key (k_first k) = x /\ q_path (k_first k) = k_path k.
(* every processed request sits in the group of its key and agrees with it *)
Definition Complete (S : list (package * request)) (m : list coll) : Prop :=
  forall p q, In (p, q) S ->
  exists k, find_coll m (q_key q) = Some k /\ In q (k_reqs k) /\ same_group k p q = true.

Lemma same_group_ext k k' p q : ext k k' -> same_group k' p q = same_group k p q.
Proof. intros (_ & _ & E1 & _ & E2 & E3 & _). unfold same_group. now rewrite E1, E2, E3. Qed.

Lemma add_req_sound S m p q m' :
  add_req m p q = Some m' -> In (p, q) S -> Sound S m -> Sound S m'.
Proof.
  intros A Hin Hs x k' Hf.
  destruct (add_req_inv _ _ _ _ A _ _ Hf) as [(k & Hk & E & E' & E'') | (-> & E & E' & E'')].
  - rewrite E, E', E''. now apply Hs.
  - rewrite E, E', E''. auto.
Qed.

Lemma add_req_complete S m p q m' :
  add_req m p q = Some m' -> Complete S m -> Complete (S ++ [(p, q)]) m'.
Proof.
  intros A Hc p0 q0 Hin. apply in_app_or in Hin. destruct Hin as [Hin | [E|[]]].
  - destruct (Hc _ _ Hin) as (k & Hk & Hq & G).
    destruct (add_req_old _ _ _ _ A _ _ Hk) as (k' & Hk' & X).
    exists k'. split; [exact Hk'|]. split.
    + destruct X as (_ & _ & _ & _ & _ & _ & I). now apply I.
    + now rewrite (same_group_ext _ _ _ _ X).
  - injection E as <- <-. now apply add_req_new with (m := m).
Qed.

Lemma add_reqs_sound S p : forall qs m m',
  add_reqs m p qs = Some m' -> (forall q, In q qs -> In (p, q) S) -> Sound S m -> Sound S m'.
Proof.
  induction qs as [|q t IH]; intros m m' H Hin Hs; simpl in H.
  - now injection H as <-.
  - destruct (tstatus_ok (q_tstatus q) && formatter_known (q_formatter q)); [|discriminate].
    destruct (add_req m p q) as [m1|] eqn:A; [|discriminate].
    apply IH with (m := m1); auto.
    + intros q' Hq'. apply Hin. now right.
    + eapply add_req_sound; eauto. apply Hin. now left.
Qed.

Lemma add_reqs_complete p : forall qs S m m',
  add_reqs m p qs = Some m' -> Complete S m -> Complete (S ++ map (pair p) qs) m'.
Proof.
  induction qs as [|q t IH]; intros S m m' H Hc; simpl in H.
  - injection H as <-. simpl. now rewrite app_nil_r.
  - destruct (tstatus_ok (q_tstatus q) && formatter_known (q_formatter q)); [|discriminate].
    destruct (add_req m p q) as [m1|] eqn:A; [|discriminate].
    simpl. replace (S ++ (p, q) :: map (pair p) t) with ((S ++ [(p, q)]) ++ map (pair p) t)
      by (now rewrite <- app_assoc).
    apply IH with (m := m1); auto. eapply add_req_complete; eauto.
Qed.

Lemma add_reqs_tstatus p : forall qs m m',
  add_reqs m p qs = Some m' -> forall q, In q qs ->
  tstatus_ok (q_tstatus q) = true /\ formatter_known (q_formatter q) = true.
Proof.
  induction qs as [|q t IH]; intros m m' H q0 Hq; simpl in H; [destruct Hq|].
  destruct (tstatus_ok (q_tstatus q) && formatter_known (q_formatter q)) eqn:T; [|discriminate].
  destruct (add_req m p q) as [m1|] eqn:A; [|discriminate].
  destruct Hq as [<-|Hq]; [now apply andb_true_iff in T | eapply IH; eauto].
Qed.

Lemma collect_sound S : forall ds m m',
  collect m ds = Some m' -> incl (sel ds) S -> Sound S m -> Sound S m'.
Proof.
  induction ds as [|[p d] t IH]; intros m m' H Hin Hs; simpl in H.
  - now injection H as <-.
  - unfold sel in Hin; simpl in Hin. fold (sel t) in Hin. unfold sel_of in Hin; simpl in Hin.
    destruct (should_generate p (d_name d)) as [[|]|] eqn:G; [| |discriminate].
    + destruct (add_reqs m p (d_reqs d)) as [m1|] eqn:A; [|discriminate].
      apply IH with (m := m1); auto.
      * intros x Hx. apply Hin. apply in_or_app. now right.
      * eapply add_reqs_sound; eauto. intros q Hq. apply Hin. apply in_or_app. left. now apply in_map.
    + apply IH with (m := m); auto.
Qed.

Lemma collect_complete : forall ds S m m',
  collect m ds = Some m' -> Complete S m -> Complete (S ++ sel ds) m'.
Proof.
  induction ds as [|[p d] t IH]; intros S m m' H Hc; simpl in H.
  - injection H as <-. unfold sel; simpl. now rewrite app_nil_r.
  - unfold sel; simpl. fold (sel t). unfold sel_of; simpl.
    destruct (should_generate p (d_name d)) as [[|]|] eqn:G; [| |discriminate].
    + destruct (add_reqs m p (d_reqs d)) as [m1|] eqn:A; [|discriminate].
      rewrite app_assoc. apply IH with (m := m1); auto. eapply add_reqs_complete; eauto.
    + simpl. apply IH with (m := m); auto.
Qed.

Lemma collect_decided : forall ds m m',
  collect m ds = Some m' -> forall p d, In (p, d) ds -> should_generate p (d_name d) <> None.
Proof.
  induction ds as [|[p d] t IH]; intros m m' H p0 d0 Hin; simpl in H; [destruct Hin|].
  destruct (should_generate p (d_name d)) as [[|]|] eqn:G; [| |discriminate].
  - destruct (add_reqs m p (d_reqs d)) as [m1|] eqn:A; [|discriminate].
    destruct Hin as [E|Hin]; [injection E as <- <-; congruence | eapply IH; eauto].
  - destruct Hin as [E|Hin]; [injection E as <- <-; congruence | eapply IH; eauto].
Qed.

Lemma collect_tstatus : forall ds m m',
  collect m ds = Some m' -> forall p q, In (p, q) (sel ds) ->
  tstatus_ok (q_tstatus q) = true /\ formatter_known (q_formatter q) = true.
Proof.
  induction ds as [|[p d] t IH]; intros m m' H p0 q0 Hin; simpl in H; [destruct Hin|].
  unfold sel in Hin; simpl in Hin. fold (sel t) in Hin. unfold sel_of in Hin; simpl in Hin.
  destruct (should_generate p (d_name d)) as [[|]|] eqn:G; [| |discriminate].
  - destruct (add_reqs m p (d_reqs d)) as [m1|] eqn:A; [|discriminate].
    apply in_app_or in Hin. destruct Hin as [Hin|Hin]; [|eapply IH; eauto].
    apply in_map_iff in Hin. destruct Hin as [q' [E Hq]]. injection E as <- <-.
    eapply add_reqs_tstatus; eauto.
  - eapply IH; eauto.
Qed.

(* what a successful grouping of the whole world gives *)
Record grouped (w : world) (m : list coll) : Prop := {
  g_sound : Sound (selected_reqs w) m;
  g_complete : Complete (selected_reqs w) m;
  g_decided : forall p d, In (p, d) (all_decls (w_pkgs w)) -> should_generate p (d_name d) <> None;
  g_tstatus : forall p q, In (p, q) (selected_reqs w) ->
              tstatus_ok (q_tstatus q) = true /\ formatter_known (q_formatter q) = true;
  g_noerr : forall p, In p (w_pkgs w) -> has_errors p = true -> has_files p = false /\ has_sub (w_pkgs w) p = true
}.

Lemma parse_pkgs_noerr all : forall l ds,
  parse_pkgs all l = Some ds ->
  forall p, In p l -> has_errors p = true -> has_files p = false /\ has_sub all p = true.
Proof.
  induction l as [|p0 t IH]; intros ds H p Hin He; [destruct Hin|]. simpl in H.
  destruct Hin as [<-|Hin].
  - rewrite He in H. simpl in H. destruct (has_files p0); simpl in H; [discriminate|].
    destruct (has_sub all p0); [auto | discriminate].
  - destruct (negb (has_files p0) && (negb (has_errors p0) || has_sub all p0)).
    + eapply IH; eauto.
    + destruct (has_errors p0); [discriminate|].
      destruct (parse_pkgs all t) as [r|] eqn:P; [|discriminate]. eapply IH; eauto.
Qed.

Lemma collections_grouped w m : collections w = Some m -> grouped w m.
Proof.
  unfold collections. destruct (parse_pkgs (w_pkgs w) (w_pkgs w)) as [ds|] eqn:P; [|discriminate].
  intros C. pose proof (parse_pkgs_eq _ _ _ P) as ->.
  constructor.
  - eapply collect_sound; eauto; [apply incl_refl | intros x k H; discriminate].
  - change (selected_reqs w) with ([] ++ sel (all_decls (w_pkgs w))).
    eapply collect_complete; eauto. intros p q [].
  - eapply collect_decided; eauto.
  - eapply collect_tstatus; eauto.
  - eapply parse_pkgs_noerr; eauto.
Qed.

(* ================= one file ================= *)
Definition R (p : path) (a b : fs) (q : path) : Prop :=
  b q = a q \/ (a q = None /\ b q = Some Dir /\ strict_prefix q p = true).

Lemma R_trans p a b c q : R p a b q -> R p b c q -> R p a c q.
Proof.
  intros [H1 | (H1 & H2 & H3)] [K1 | (K1 & K2 & K3)]; unfold R.
  - left; congruence.
  - right. rewrite <- H1. auto.
  - right. rewrite K1. auto.
  - congruence.
Qed.

Lemma R_at_path p a b : R p a b p -> b p = a p.
Proof.
  intros [H | (_ & _ & H)]; [exact H|]. apply strict_prefix_neq in H. congruence.
Qed.

Lemma gen_step w f k r f' :
  gen_file w f k = (r, f') ->
  forall q,
    R (k_path k) f f' q \/
    (q = k_path k /\ r = FOk /\ f' q = Some (File (w_content w (k_key k))) /\ written_ok w k /\
     (f q = None \/ ((exists c, f q = Some (File c)) /\ q_force (k_first k) = true))).
Proof.
  unfold gen_file. intros H q.
  destruct (tstatus_ok (c_tstatus (p_cfg (k_pkg k)))) eqn:T; simpl in H;
    [|injection H as _ <-; left; now left].
  destruct (has_files (k_pkg k)); simpl in H; [|injection H as _ <-; left; now left].
  destruct (mkdir_all (w_ro w) f (parent (k_path k))) as [ok f1] eqn:M1.
  pose proof (mkdir_parent_spec _ _ _ _ _ M1) as R1.
  destruct ok; simpl in H; [|injection H as _ <-; left; apply R1].
  destruct (gomod_ok w f1 (parent (k_path k))); simpl in H; [|injection H as _ <-; left; apply R1].
  destruct (pure_failure w k) eqn:PF; [injection H as _ <-; left; apply R1|].
  destruct (mkdir_all (w_ro w) f1 (parent (k_path k))) as [ok2 f2] eqn:M2.
  pose proof (mkdir_parent_spec _ _ _ _ _ M2) as R2.
  assert (R12 : forall q, R (k_path k) f f2 q) by (intros q0; eapply R_trans; [apply R1 | apply R2]).
  destruct ok2; simpl in H; [|injection H as _ <-; left; apply R12].
  destruct (exists_ f2 (k_path k) && negb (q_force (k_first k))) eqn:EX;
    [injection H as _ <-; left; apply R12|].
  destruct (write_file (w_ro w) f2 (k_path k) (w_content w (k_key k))) as [f3|] eqn:W;
    [|injection H as _ <-; left; apply R12].
  injection H as <- <-. apply write_file_spec in W. destruct W as [-> W].
  destruct (path_eqb q (k_path k)) eqn:Q.
  - apply path_eqb_eq in Q. subst q. right. rewrite upd_same.
    split; [reflexivity|]. split; [reflexivity|]. split; [reflexivity|].
    split; [split; [exact PF | exact T]|].
    rewrite <- (R_at_path _ _ _ (R12 (k_path k))).
    destruct W as [W | [c W]]; [now left|]. right. split; [eauto|].
    unfold exists_ in EX. rewrite W in EX. simpl in EX. now apply negb_false_iff in EX.
  - apply path_eqb_neq in Q. left. unfold R. rewrite upd_other by exact Q. apply R12.
Qed.

Lemma gen_ok_needs w f k f' :
  gen_file w f k = (FOk, f') ->
  written_ok w k /\ has_files (k_pkg k) = true /\ f' (k_path k) = Some (File (w_content w (k_key k))).
Proof.
  unfold gen_file. intros H.
  destruct (tstatus_ok (c_tstatus (p_cfg (k_pkg k)))) eqn:T; simpl in H; [|discriminate].
  destruct (has_files (k_pkg k)); simpl in H; [|discriminate].
  destruct (mkdir_all (w_ro w) f (parent (k_path k))) as [ok f1].
  destruct ok; simpl in H; [|discriminate].
  destruct (gomod_ok w f1 (parent (k_path k))); simpl in H; [|discriminate].
  destruct (pure_failure w k) eqn:PF; [discriminate|].
  destruct (mkdir_all (w_ro w) f1 (parent (k_path k))) as [ok2 f2].
  destruct ok2; simpl in H; [|discriminate].
  destruct (exists_ f2 (k_path k) && negb (q_force (k_first k))); [discriminate|].
  destruct (write_file (w_ro w) f2 (k_path k) (w_content w (k_key k))) as [f3|] eqn:W; [|discriminate].
  injection H as <-. apply write_file_spec in W. destruct W as [-> _].
  split; [split; auto|]. split; [reflexivity | apply upd_same].
Qed.

Lemma gen_panic w f k f' : gen_file w f k = (FPanic, f') -> has_files (k_pkg k) = false.
Proof.
  unfold gen_file. intros H.
  destruct (tstatus_ok (c_tstatus (p_cfg (k_pkg k)))); simpl in H; [|discriminate].
  destruct (has_files (k_pkg k)) eqn:F; simpl in H; [|reflexivity].
  destruct (mkdir_all (w_ro w) f (parent (k_path k))) as [ok f1].
  destruct ok; simpl in H; [|discriminate].
  destruct (gomod_ok w f1 (parent (k_path k))); simpl in H; [|discriminate].
  destruct (pure_failure w k); [discriminate|].
  destruct (mkdir_all (w_ro w) f1 (parent (k_path k))) as [ok2 f2].
  destruct ok2; simpl in H; [|discriminate].
  destruct (exists_ f2 (k_path k) && negb (q_force (k_first k))); [discriminate|].
  destruct (write_file (w_ro w) f2 (k_path k) (w_content w (k_key k))); discriminate.
Qed.

(* an occupied path without force-file-write makes the file fail *)
Lemma gen_exists_noforce w f k n r f' :
  f (k_path k) = Some n -> q_force (k_first k) = false ->
  gen_file w f k = (r, f') -> r <> FOk.
Proof.
  intros Hn Hf H. unfold gen_file in H.
  destruct (tstatus_ok (c_tstatus (p_cfg (k_pkg k)))); simpl in H; [|injection H as <- _; discriminate].
  destruct (has_files (k_pkg k)); simpl in H; [|injection H as <- _; discriminate].
  destruct (mkdir_all (w_ro w) f (parent (k_path k))) as [ok f1] eqn:M1.
  pose proof (mkdir_parent_spec _ _ _ _ _ M1) as R1.
  destruct ok; simpl in H; [|injection H as <- _; discriminate].
  destruct (gomod_ok w f1 (parent (k_path k))); simpl in H; [|injection H as <- _; discriminate].
  destruct (pure_failure w k); [injection H as <- _; discriminate|].
  destruct (mkdir_all (w_ro w) f1 (parent (k_path k))) as [ok2 f2] eqn:M2.
  pose proof (mkdir_parent_spec _ _ _ _ _ M2) as R2.
  destruct ok2; simpl in H; [|injection H as <- _; discriminate].
  assert (E : f2 (k_path k) = Some n).
  { rewrite <- Hn. apply (R_at_path (k_path k)). eapply R_trans; [apply R1 | apply R2]. }
  unfold exists_ in H. rewrite E, Hf in H. simpl in H. injection H as <- _. discriminate.
Qed.

(* ================= the loop ================= *)
Definition Inv (w : world) (m : list coll) (f0 f : fs) : Prop := forall q,
  f q = f0 q
  \/ (f0 q = None /\ f q = Some Dir /\
      exists x k, find_coll m x = Some k /\ strict_prefix q (k_path k) = true)
  \/ (exists x k, find_coll m x = Some k /\ k_path k = q /\
        f q = Some (File (w_content w x)) /\ written_ok w k /\
        (f0 q = None \/ ((exists c, f0 q = Some (File c)) /\ q_force (k_first k) = true))).

Lemma Inv_refl w m f0 : Inv w m f0 f0.
Proof. intros q. now left. Qed.

Lemma Inv_step w m f0 f k r f' x :
  find_coll m x = Some k -> Inv w m f0 f -> gen_file w f k = (r, f') -> Inv w m f0 f'.
Proof.
  intros Hk I G q. pose proof (find_coll_key _ _ _ Hk) as Kx.
  destruct (gen_step _ _ _ _ _ G q) as [[E | (E1 & E2 & E3)] | (-> & _ & E2 & E3 & E4)].
  - rewrite E. apply I.
  - destruct (I q) as [J | [(J1 & J2 & _) | (x' & k' & _ & _ & J & _)]]; try congruence.
    right; left. rewrite <- J. split; [exact E1|]. split; [exact E2|]. exists x, k. auto.
  - right; right. exists x, k. split; [exact Hk|]. split; [reflexivity|].
    split; [now rewrite <- Kx|]. split; [exact E3|].
    destruct (I (k_path k)) as [J | [(J1 & J2 & _) | (x' & k' & _ & _ & J1 & _ & J2)]].
    + rewrite <- J. exact E4.
    + destruct E4 as [E4 | [[c E4] _]]; congruence.
    + destruct J2 as [J2 | [J2 _]]; [now left|]. right. split; [exact J2|].
      destruct E4 as [E4 | [_ E4]]; [congruence | exact E4].
Qed.

Lemma loop_inv w m f0 : forall ord f r f',
  Inv w m f0 f -> write_loop w m ord f = (r, f') -> Inv w m f0 f'.
Proof.
  induction ord as [|x t IH]; intros f r f' I H; simpl in H.
  - now injection H as _ <-.
  - destruct (find_coll m x) as [k|] eqn:Hk; [|eapply IH; eauto].
    destruct (gen_file w f k) as [r1 f1] eqn:G.
    pose proof (Inv_step _ _ _ _ _ _ _ _ Hk I G) as I1.
    destruct r1; [eapply IH; eauto | injection H as _ <-; exact I1 | injection H as _ <-; exact I1].
Qed.

(* distinct keys of the map denote distinct files *)
Definition inj (m : list coll) : Prop :=
  forall x k x' k', find_coll m x = Some k -> find_coll m x' = Some k' -> k_path k = k_path k' -> x = x'.

(* once written, a file keeps its content for the rest of the loop (no aliasing) *)
Lemma loop_keeps w m : inj m -> forall ord f r f' x k,
  find_coll m x = Some k -> write_loop w m ord f = (r, f') ->
  f (k_path k) = Some (File (w_content w x)) -> f' (k_path k) = Some (File (w_content w x)).
Proof.
  intros IJ. induction ord as [|y t IH]; intros f r f' x k Hk H Hx; simpl in H.
  - now injection H as _ <-.
  - destruct (find_coll m y) as [k'|] eqn:Hk'; [|eapply IH; eauto].
    destruct (gen_file w f k') as [r1 f1] eqn:G.
    assert (Hx1 : f1 (k_path k) = Some (File (w_content w x))).
    { destruct (gen_step _ _ _ _ _ G (k_path k)) as [[E | (E1 & _)] | (E0 & _ & E & _)]; try congruence.
      rewrite E. rewrite (find_coll_key _ _ _ Hk'). now rewrite (IJ _ _ _ _ Hk Hk' E0). }
    destruct r1; [eapply IH; eauto | injection H as _ <-; exact Hx1 | injection H as _ <-; exact Hx1].
Qed.

Lemma loop_ok_visited w m : forall ord f f' x k,
  write_loop w m ord f = (FOk, f') -> In x ord -> find_coll m x = Some k ->
  written_ok w k /\ has_files (k_pkg k) = true.
Proof.
  induction ord as [|y t IH]; intros f f' x k H Hin Hk; simpl in H; [destruct Hin|].
  destruct Hin as [->|Hin].
  - rewrite Hk in H. destruct (gen_file w f k) as [r1 f1] eqn:G.
    destruct r1; try (injection H; discriminate).
    destruct (gen_ok_needs _ _ _ _ G) as (A & B & _). auto.
  - destruct (find_coll m y) as [k'|] eqn:Hk'; [|eapply IH; eauto].
    destruct (gen_file w f k') as [r1 f1] eqn:G.
    destruct r1; try (injection H; discriminate). eapply IH; eauto.
Qed.

Lemma loop_ok_written w m : inj m -> forall ord f f' x k,
  write_loop w m ord f = (FOk, f') -> In x ord -> find_coll m x = Some k ->
  f' (k_path k) = Some (File (w_content w x)).
Proof.
  intros IJ. induction ord as [|y t IH]; intros f f' x k H Hin Hk; simpl in H; [destruct Hin|].
  destruct Hin as [->|Hin].
  - rewrite Hk in H. destruct (gen_file w f k) as [r1 f1] eqn:G.
    destruct r1; try (injection H; discriminate).
    destruct (gen_ok_needs _ _ _ _ G) as (_ & _ & Wr). rewrite (find_coll_key _ _ _ Hk) in Wr.
    eapply loop_keeps; eauto.
  - destruct (find_coll m y) as [k'|] eqn:Hk'; [|eapply IH; eauto].
    destruct (gen_file w f k') as [r1 f1] eqn:G.
    destruct r1; try (injection H; discriminate). eapply IH; eauto.
Qed.

Lemma loop_panic w m : forall ord f f',
  write_loop w m ord f = (FPanic, f') -> exists x k, find_coll m x = Some k /\ has_files (k_pkg k) = false.
Proof.
  induction ord as [|y t IH]; intros f f' H; simpl in H; [discriminate|].
  destruct (find_coll m y) as [k|] eqn:Hk; [|eapply IH; eauto].
  destruct (gen_file w f k) as [r1 f1] eqn:G. destruct r1.
  - eapply IH; eauto.
  - discriminate.
  - exists y, k. split; [exact Hk|]. eapply gen_panic; eauto.
Qed.

(* a file that can never be produced in any state the loop can reach makes the loop fail *)
Lemma loop_blocked w m f0 x k (B : fs -> Prop) :
  find_coll m x = Some k ->
  (forall f, Inv w m f0 f -> B f) ->
  (forall f r f', B f -> gen_file w f k = (r, f') -> r <> FOk) ->
  forall ord f r f', Inv w m f0 f -> In x ord -> write_loop w m ord f = (r, f') -> r <> FOk.
Proof.
  intros Hk HB HG. induction ord as [|y t IH]; intros f r f' I Hin H; simpl in H; [destruct Hin|].
  destruct Hin as [->|Hin].
  - rewrite Hk in H. destruct (gen_file w f k) as [r1 f1] eqn:G.
    pose proof (HG _ _ _ (HB _ I) G) as N.
    destruct r1; [congruence | injection H as <- _; discriminate | injection H as <- _; discriminate].
  - destruct (find_coll m y) as [k'|] eqn:Hk'; [|exact (IH _ _ _ I Hin H)].
    destruct (gen_file w f k') as [r1 f1] eqn:G.
    pose proof (Inv_step _ _ _ _ _ _ _ _ Hk' I G) as I1.
    destruct r1; [exact (IH _ _ _ I1 Hin H) | injection H as <- _; discriminate | injection H as <- _; discriminate].
Qed.

Lemma gen_dir_blocks w f k r f' :
  f (k_path k) = Some Dir -> gen_file w f k = (r, f') -> r <> FOk.
Proof.
  intros Hd G ->. destruct (gen_ok_needs _ _ _ _ G) as (_ & _ & Wr).
  destruct (gen_step _ _ _ _ _ G (k_path k)) as [[E | (E1 & _)] | (_ & _ & _ & _ & [E | [[c E] _]])]; congruence.
Qed.

Lemma gen_parent_file_blocks w f k a c r f' :
  strict_prefix a (k_path k) = true -> a <> [] -> f a = Some (File c) ->
  gen_file w f k = (r, f') -> r <> FOk.
Proof.
  intros P N Hf G. unfold gen_file in G.
  destruct (tstatus_ok (c_tstatus (p_cfg (k_pkg k)))); simpl in G; [|injection G as <- _; discriminate].
  destruct (has_files (k_pkg k)); simpl in G; [|injection G as <- _; discriminate].
  pose proof (mkdir_all_file_blocks (w_ro w) f (parent (k_path k)) a c (strict_prefix_parent _ _ P) N Hf) as B.
  destruct (mkdir_all (w_ro w) f (parent (k_path k))) as [ok f1]. simpl in B. subst ok. simpl in G.
  injection G as <- _. discriminate.
Qed.

(* ================= the run ================= *)
Definition exit_of (w : world) (r : fres) : exit_class :=
  match r with
  | FOk => if missing w then ExitErr else Exit0
  | FFail _ => ExitErr
  | FPanic => Panic
  end.

Lemma run_cases w ord :
  run w ord = (ExitErr, w_fs w) \/
  exists m r f1, collections w = Some m /\ write_loop w m ord (w_fs w) = (r, f1) /\
                 w_cfg w = CfgOk /\ init_ok w = true /\ w_pkgs w <> [] /\
                 run w ord = (exit_of w r, f1).
Proof.
  unfold run. destruct (w_cfg w) eqn:C; try (now left).
  destruct (init_ok w) eqn:I; simpl; [|now left].
  destruct (w_pkgs w) as [|p0 l0] eqn:P; [now left|].
  destruct (collections w) as [m|] eqn:Co; [|now left].
  destruct (write_loop w m ord (w_fs w)) as [r f1] eqn:L.
  right. exists m, r, f1. repeat split; auto; [discriminate|].
  destruct r; simpl; [destruct (missing w); reflexivity | reflexivity | reflexivity].
Qed.

Lemma run_Inv w ord :
  snd (run w ord) = w_fs w \/
  exists m, collections w = Some m /\ Inv w m (w_fs w) (snd (run w ord)).
Proof.
  destruct (run_cases w ord) as [H | (m & r & f1 & Co & L & _ & _ & _ & H)]; rewrite H; simpl; [now left|].
  right. exists m. split; [exact Co|]. eapply loop_inv; eauto. apply Inv_refl.
Qed.

Lemma sound_out w m x k :
  grouped w m -> find_coll m x = Some k ->
  In (k_path k) (out_paths w) /\ has_files (k_pkg k) = true /\ In (k_pkg k) (w_pkgs w) /\
  exists q, In (k_pkg k, q) (selected_reqs w) /\ q_key q = x /\ q_path q = k_path k.
Proof.
  intros G Hk. destruct (g_sound _ _ G _ _ Hk) as (Hq & Ek & Ep).
  split; [unfold out_paths; apply in_map_iff; exists (k_pkg k, k_first k); auto|].
  pose proof (selected_In _ _ _ Hq) as (A & B & _). repeat split; auto. eauto.
Qed.

(* ---------- C09 ---------- *)
Theorem no_panic w ord : fst (run w ord) <> Panic.
Proof.
  destruct (run_cases w ord) as [H | (m & r & f1 & Co & L & _ & _ & _ & H)]; rewrite H; simpl; [discriminate|].
  destruct r; simpl; [destruct (missing w); discriminate | discriminate |].
  exfalso. apply loop_panic in L. destruct L as (x & k & Hk & F).
  pose proof (sound_out _ _ _ _ (collections_grouped _ _ Co) Hk) as (_ & F' & _). congruence.
Qed.

Lemma exit0_inv w ord :
  fst (run w ord) = Exit0 ->
  exists m f1, collections w = Some m /\ write_loop w m ord (w_fs w) = (FOk, f1) /\
               snd (run w ord) = f1 /\ missing w = false /\
               w_cfg w = CfgOk /\ init_ok w = true /\ w_pkgs w <> [].
Proof.
  destruct (run_cases w ord) as [H | (m & r & f1 & Co & L & C & I & P & H)]; rewrite H; simpl; [discriminate|].
  destruct r; simpl; try discriminate. destruct (missing w) eqn:M; [discriminate|].
  intros _. exists m, f1. auto 10.
Qed.

Lemma no_alias_inj w m : no_alias w -> grouped w m -> inj m.
Proof.
  intros NA G x k x' k' Hk Hk' E.
  destruct (sound_out _ _ _ _ G Hk) as (_ & _ & _ & q & Hq & <- & Pq).
  destruct (sound_out _ _ _ _ G Hk') as (_ & _ & _ & q' & Hq' & <- & Pq').
  apply (NA _ _ _ _ Hq Hq'). congruence.
Qed.

Theorem zero_complete w ord :
  no_alias w ->
  fst (run w ord) = Exit0 -> incl (out_keys w) ord ->
  forall p q, In (p, q) (selected_reqs w) ->
    snd (run w ord) (q_path q) = Some (File (w_content w (q_key q))).
Proof.
  intros NA E Hord p q Hin. destruct (exit0_inv _ _ E) as (m & f1 & Co & L & -> & _).
  pose proof (collections_grouped _ _ Co) as G.
  destruct (g_complete _ _ G _ _ Hin) as (k & Hk & _).
  destruct (sound_out _ _ _ _ G Hk) as (_ & _ & _ & q0 & Hq0 & Ek & Ep).
  assert (EP : q_path q = k_path k).
  { rewrite <- Ep. symmetry. apply (NA _ _ _ _ Hq0 Hin). exact Ek. }
  rewrite EP. eapply loop_ok_written; eauto.
  - eapply no_alias_inj; eauto.
  - apply Hord. unfold out_keys. apply in_map_iff. exists (p, q). auto.
Qed.

(* two packages of the world with the same path are the same package *)
Lemma wf_same_pkg w p1 p2 :
  wf_world w -> In p1 (w_pkgs w) -> In p2 (w_pkgs w) -> p_path p1 = p_path p2 -> p1 = p2.
Proof. intros W. apply NoDup_map_inj_on. exact W. Qed.

(* the group of a selected request, when files are keyed by package path *)
Lemma group_of w m p q :
  wf_world w -> grouped w m -> In (p, q) (selected_reqs w) ->
  exists k, find_coll m (q_key q) = Some k /\ In q (k_reqs k) /\ k_pkg k = p /\
            k_pkgname k = q_pkgname q /\ k_template k = q_template q.
Proof.
  intros W G Hin. destruct (g_complete _ _ G _ _ Hin) as (k & Hk & Hq & S).
  exists k. unfold same_group in S. rewrite !andb_true_iff, !seqb_eq in S. destruct S as [[S1 S2] S3].
  repeat split; auto. eapply wf_same_pkg; eauto.
  - eapply sound_out; eauto.
  - apply selected_In in Hin. tauto.
Qed.

Lemma bad_regex_none p n : bad_regex_reached p n -> should_generate p n = None.
Proof.
  intros (A & L & [I | (mi & I & M & X)]); unfold should_generate; rewrite A, L, I; [reflexivity|].
  now rewrite M, X.
Qed.

Lemma forallb_false_In {A} (f : A -> bool) l x : In x l -> f x = false -> forallb f l = false.
Proof.
  intros Hin Hx. destruct (forallb f l) eqn:E; [|reflexivity].
  rewrite forallb_forall in E. rewrite (E _ Hin) in Hx. discriminate.
Qed.

Theorem each_class w ord c :
  has_class w c ->
  (needs_visit c = true -> wf_world w /\ incl (out_keys w) ord) ->
  fst (run w ord) = ExitErr.
Proof.
  intros HC HV.
  destruct (fst (run w ord)) eqn:E; [exfalso | reflexivity | exfalso; eapply no_panic; eauto].
  destruct (exit0_inv _ _ E) as (m & f1 & Co & L & _ & Mi & Cf & Io & Pk).
  pose proof (collections_grouped _ _ Co) as G.
  (* for the classes decided in the loop: the file of the request is visited and succeeds *)
  assert (Vis : needs_visit c = true -> forall p q, In (p, q) (selected_reqs w) ->
          exists k, In q (k_reqs k) /\ k_pkg k = p /\ find_coll m (q_key q) = Some k /\
                    k_template k = q_template q /\ written_ok w k).
  { intros NV p q Hin. destruct (HV NV) as [W Hord].
    destruct (group_of _ _ _ _ W G Hin) as (k & Hk & Hq & Ep & _ & Et).
    assert (Ho : In (q_key q) ord).
    { apply Hord. unfold out_keys. apply in_map_iff. exists (p, q). auto. }
    destruct (loop_ok_visited _ _ _ _ _ _ _ L Ho Hk) as (WO & _).
    exists k. auto. }
  (* ... and the file of a governing request *)
  assert (VisG : needs_visit c = true -> forall x g, file_gov w x = Some g ->
          exists k, find_coll m x = Some k /\ k_first k = g /\ written_ok w k).
  { intros NV x g Hg. destruct (HV NV) as [W Hord]. unfold file_gov in Hg. rewrite Co in Hg.
    destruct (find_coll m x) as [k|] eqn:Hk; [|discriminate]. simpl in Hg. injection Hg as Hg.
    destruct (sound_out _ _ _ _ G Hk) as (_ & _ & _ & q & Hq & Kq & _).
    assert (Ho : In x ord).
    { apply Hord. unfold out_keys. apply in_map_iff. exists (k_pkg k, q). auto. }
    destruct (loop_ok_visited _ _ _ _ _ _ _ L Ho Hk) as (WO & _). exists k. auto. }
  assert (Gov : forall x g k, file_gov w x = Some g -> find_coll m x = Some k -> k_first k = g).
  { intros x g k Hg Hk. unfold file_gov in Hg. rewrite Co, Hk in Hg. simpl in Hg. now injection Hg. }
  destruct c; simpl in HC.
  - (* ListedMissing *) destruct HC as (p & n & Hp & Hn & Hf).
    unfold missing in Mi. rewrite <- not_true_iff_false in Mi. apply Mi.
    apply existsb_exists. exists p. split; [exact Hp|]. unfold pkg_missing.
    apply existsb_exists. exists n. split; [exact Hn|]. now rewrite Hf.
  - (* PkgLoadError *) destruct HC as (p & Hp & He & X).
    destruct (g_noerr _ _ G _ Hp He) as [F S]. destruct X; congruence.
  - (* UnknownTemplate *) destruct HC as (p & q & Hin & _ & F).
    destruct (Vis eq_refl _ _ Hin) as (k & Hq & _ & _ & Et & [PF _]).
    unfold pure_failure in PF. rewrite Et, F in PF. destruct (forallb q_prep_ok (k_reqs k)); discriminate.
  - (* MissingRemoteTemplate *) destruct HC as (p & q & Hin & _ & F).
    destruct (Vis eq_refl _ _ Hin) as (k & Hq & _ & _ & Et & [PF _]).
    unfold pure_failure in PF. rewrite Et, F in PF. destruct (forallb q_prep_ok (k_reqs k)); discriminate.
  - (* UnknownFormatter *) destruct HC as (p & q & Hin & F).
    destruct (g_tstatus _ _ G _ _ Hin) as [_ X]. now rewrite F in X.
  - (* ConfigUnreadable *) destruct HC as [H|[H|H]]; congruence.
  - (* UnknownKey *) congruence.
  - (* BadRegexSubpkg *) destruct HC as (r & s & Hr & Hs & X).
    unfold init_ok in Io. rewrite forallb_forall in Io. specialize (Io _ Hr).
    unfold root_ok in Io. apply andb_true_iff in Io. destruct Io as [_ Io].
    rewrite forallb_forall in Io. specialize (Io _ Hs). now rewrite X in Io.
  - (* BadRegexInterface *) destruct HC as (p & d & Hd & B).
    apply (g_decided _ _ G _ _ Hd). now apply bad_regex_none.
  - (* CyclicTemplate *) destruct HC as (p & q & Hin & [T|T]).
    + destruct (g_tstatus _ _ G _ _ Hin) as [X _]. now rewrite T in X.
    + destruct (Vis eq_refl _ _ Hin) as (k & Hq & <- & _ & _ & [_ X]). now rewrite T in X.
  - (* BadTemplatedValue *) destruct HC as (p & q & Hin & [T|T]).
    + destruct (g_tstatus _ _ G _ _ Hin) as [X _]. now rewrite T in X.
    + destruct (Vis eq_refl _ _ Hin) as (k & Hq & <- & _ & _ & [_ X]). now rewrite T in X.
  - (* SchemaMissing *) destruct HC as (x & g & Hg & K & Rq & S).
    destruct (VisG eq_refl _ _ Hg) as (k & Hk & Eg & [PF _]).
    assert (Et : k_template k = q_template g).
    { destruct (g_sound _ _ G _ _ Hk) as (Hs & Kx & _). rewrite Eg in Hs, Kx.
      destruct (g_complete _ _ G _ _ Hs) as (k2 & Hk2 & _ & SG).
      rewrite Kx, Hk in Hk2. injection Hk2 as <-.
      unfold same_group in SG. rewrite !andb_true_iff, !seqb_eq in SG. tauto. }
    unfold pure_failure, is_remote in PF. rewrite Et, Eg, K, Rq, S in PF. simpl in PF.
    repeat match type of PF with (if ?b then _ else _) = None => destruct b; try discriminate end.
  - (* SchemaReject *) destruct HC as (p & q & g & Hin & D & Hg & V).
    destruct (Vis eq_refl _ _ Hin) as (k & Hq & _ & Hk & Et & [PF _]).
    rewrite <- (Gov _ _ _ Hg Hk) in V.
    unfold pure_failure in PF. rewrite Et, V, (forallb_false_In _ _ _ Hq D) in PF. simpl in PF.
    repeat match type of PF with (if ?b then _ else _) = None => destruct b; try discriminate end.
  - (* TemplateSyntax *) destruct HC as (p & q & Hin & F).
    destruct (Vis eq_refl _ _ Hin) as (k & Hq & _ & _ & Et & [PF _]).
    unfold pure_failure in PF. rewrite Et, F in PF. simpl in PF.
    repeat match type of PF with (if ?b then _ else _) = None => destruct b; try discriminate end.
  - (* TemplateExecution *) destruct HC as (p & q & Hin & F).
    destruct (Vis eq_refl _ _ Hin) as (k & Hq & _ & _ & _ & [PF _]).
    unfold pure_failure in PF. rewrite (forallb_false_In _ _ _ Hq F) in PF. simpl in PF.
    repeat match type of PF with (if ?b then _ else _) = None => destruct b; try discriminate end.
  - (* InvalidGoOutput *) destruct HC as (p & q & g & Hin & F & Hg & N).
    destruct (Vis eq_refl _ _ Hin) as (k & Hq & _ & Hk & _ & [PF _]).
    rewrite <- (Gov _ _ _ Hg Hk) in N.
    unfold pure_failure in PF. rewrite (find_coll_key _ _ _ Hk), F in PF.
    assert (X : format_ok (q_formatter (k_first k)) false = false)
      by (destruct (q_formatter (k_first k)); simpl; congruence).
    rewrite X in PF. simpl in PF.
    repeat match type of PF with (if ?b then _ else _) = None => destruct b; try discriminate end.
  - (* PrepareFailure *) destruct HC as (p & q & Hin & F).
    destruct (Vis eq_refl _ _ Hin) as (k & Hq & _ & _ & _ & [PF _]).
    unfold pure_failure in PF. rewrite (forallb_false_In _ _ _ Hq F) in PF. discriminate.
  - (* ConflictPackage *) destruct HC as (p1 & q1 & p2 & q2 & H1 & H2 & EP & N).
    destruct (g_complete _ _ G _ _ H1) as (k1 & K1 & _ & S1).
    destruct (g_complete _ _ G _ _ H2) as (k2 & K2 & _ & S2).
    rewrite EP in K1. rewrite K1 in K2. injection K2 as <-.
    unfold same_group in S1, S2. rewrite !andb_true_iff, !seqb_eq in S1, S2. apply N.
    destruct S1 as [[_ <-] _]. destruct S2 as [[_ <-] _]. reflexivity.
  - (* ConflictPkgName *) destruct HC as (p1 & q1 & p2 & q2 & H1 & H2 & EP & N).
    destruct (g_complete _ _ G _ _ H1) as (k1 & K1 & _ & S1).
    destruct (g_complete _ _ G _ _ H2) as (k2 & K2 & _ & S2).
    rewrite EP in K1. rewrite K1 in K2. injection K2 as <-.
    unfold same_group in S1, S2. rewrite !andb_true_iff, !seqb_eq in S1, S2. apply N.
    destruct S1 as [[<- _] _]. destruct S2 as [[<- _] _]. reflexivity.
  - (* ConflictTemplate *) destruct HC as (p1 & q1 & p2 & q2 & H1 & H2 & EP & N).
    destruct (g_complete _ _ G _ _ H1) as (k1 & K1 & _ & S1).
    destruct (g_complete _ _ G _ _ H2) as (k2 & K2 & _ & S2).
    rewrite EP in K1. rewrite K1 in K2. injection K2 as <-.
    unfold same_group in S1, S2. rewrite !andb_true_iff, !seqb_eq in S1, S2. apply N.
    destruct S1 as [_ <-]. destruct S2 as [_ <-]. reflexivity.
  - (* NoPackages *) congruence.
  - (* OutputIsDirectory *) destruct HC as (x & g & Hg & Hd).
    destruct (HV eq_refl) as [W Hord]. unfold file_gov in Hg. rewrite Co in Hg.
    destruct (find_coll m x) as [k|] eqn:Hk; [|discriminate]. simpl in Hg. injection Hg as Hg.
    destruct (sound_out _ _ _ _ G Hk) as (_ & _ & _ & q & Hq & Kq & _).
    destruct (g_sound _ _ G _ _ Hk) as (_ & _ & Pg). rewrite Hg in Pg.
    assert (Ho : In x ord) by (apply Hord; unfold out_keys; apply in_map_iff; exists (k_pkg k, q); auto).
    refine (loop_blocked w m (w_fs w) x k (fun f => f (k_path k) = Some Dir) Hk _ _ ord _ _ _ (Inv_refl _ _ _) Ho L eq_refl).
    + intros f I. rewrite <- Pg.
      destruct (I (q_path g)) as [J | [(J1 & _) | (x' & k' & _ & _ & _ & _ & [F | [[c F] _]])]]; congruence.
    + intros f r f'. apply gen_dir_blocks.
  - (* OutputParentIsFile *) destruct HC as (x & g & a & c & Hg & P & N & Hf).
    destruct (HV eq_refl) as [W Hord]. unfold file_gov in Hg. rewrite Co in Hg.
    destruct (find_coll m x) as [k|] eqn:Hk; [|discriminate]. simpl in Hg. injection Hg as Hg.
    destruct (sound_out _ _ _ _ G Hk) as (_ & _ & _ & q & Hq & Kq & _).
    destruct (g_sound _ _ G _ _ Hk) as (_ & _ & Pg). rewrite Hg in Pg. rewrite Pg in P.
    assert (Ho : In x ord) by (apply Hord; unfold out_keys; apply in_map_iff; exists (k_pkg k, q); auto).
    refine (loop_blocked w m (w_fs w) x k (fun f => exists c', f a = Some (File c')) Hk _ _ ord _ _ _ (Inv_refl _ _ _) Ho L eq_refl).
    + intros f I.
      destruct (I a) as [J | [(J1 & _) | (x' & k' & _ & _ & J & _)]]; [rewrite J; eauto | congruence | eauto].
    + intros f r f' [c' Hc']. eapply gen_parent_file_blocks; eauto.
  - (* InvalidRegexWritten *) congruence.
Qed.

(* ---------- C10 ---------- *)
Theorem frame w ord q :
  (forall x, In x (out_paths w) -> is_prefix q x = false) ->
  snd (run w ord) q = w_fs w q.
Proof.
  intros H. destruct (run_Inv w ord) as [-> | (m & Co & I)]; [reflexivity|].
  pose proof (collections_grouped _ _ Co) as G.
  destruct (I q) as [E | [(_ & _ & x & k & Hk & P) | (x & k & Hk & Ek & _)]]; [exact E | exfalso | exfalso].
  - destruct (sound_out _ _ _ _ G Hk) as [Hx _]. apply strict_prefix_is_prefix in P.
    rewrite (H _ Hx) in P. discriminate.
  - destruct (sound_out _ _ _ _ G Hk) as [Hx _]. rewrite Ek in Hx. specialize (H _ Hx).
    assert (is_prefix q q = true) by (apply is_prefix_spec; exists []; now rewrite app_nil_r). congruence.
Qed.

Theorem all_or_nothing w ord q :
  snd (run w ord) q = w_fs w q
  \/ (exists p r, In (p, r) (selected_reqs w) /\ q_path r = q /\
                  snd (run w ord) q = Some (File (w_content w (q_key r))))
  \/ (w_fs w q = None /\ snd (run w ord) q = Some Dir /\
      exists x, In x (out_paths w) /\ strict_prefix q x = true).
Proof.
  destruct (run_Inv w ord) as [-> | (m & Co & I)]; [now left|].
  pose proof (collections_grouped _ _ Co) as G.
  destruct (I q) as [E | [(E1 & E2 & x & k & Hk & P) | (x & k & Hk & Ek & E & _)]]; [now left | | ].
  - right; right. repeat split; auto. exists (k_path k). split; [|exact P]. eapply sound_out; eauto.
  - right; left. destruct (sound_out _ _ _ _ G Hk) as (_ & _ & _ & r & Hr & Kr & Pr).
    exists (k_pkg k), r. split; [exact Hr|]. split; [congruence|]. now rewrite Kr.
Qed.

Theorem no_clobber w ord q n :
  w_fs w q = Some n -> snd (run w ord) q <> Some n ->
  (exists c, n = File c) /\
  exists x, key_path w x = Some q /\ force_of w x = Some true /\
            snd (run w ord) q = Some (File (w_content w x)).
Proof.
  intros Hn Hc. destruct (run_Inv w ord) as [E | (m & Co & I)]; [congruence|].
  destruct (I q) as [E | [(E1 & _) | (x & k & Hk & Ek & E & _ & [F | [[c F] Fo]])]]; try congruence.
  split; [exists c; congruence|]. exists x.
  unfold key_path, force_of, file_gov. rewrite Co, Hk. simpl. rewrite Fo, Ek. auto.
Qed.

Lemma loop_noforce w m f0 q n :
  f0 q = Some n ->
  (forall x k, find_coll m x = Some k -> k_path k = q -> q_force (k_first k) = false) ->
  forall ord f r f' x k,
  Inv w m f0 f -> find_coll m x = Some k -> k_path k = q ->
  In x ord -> write_loop w m ord f = (r, f') -> r <> FOk.
Proof.
  intros H0 NF. induction ord as [|y t IH]; intros f r f' x k I Hk Ek Hin H; simpl in H; [destruct Hin|].
  assert (Fx : f q = Some n).
  { destruct (I q) as [E | [(E1 & _) | (x' & k' & Hk' & Ek' & _ & _ & [F | [_ Fo]])]]; try congruence.
    rewrite (NF _ _ Hk' Ek') in Fo. discriminate. }
  destruct Hin as [->|Hin].
  - rewrite Hk in H. destruct (gen_file w f k) as [r1 f1] eqn:G.
    rewrite <- Ek in Fx.
    pose proof (gen_exists_noforce _ _ _ _ _ _ Fx (NF _ _ Hk Ek) G) as N.
    destruct r1; [congruence | injection H as <- _; discriminate | injection H as <- _; discriminate].
  - destruct (find_coll m y) as [k'|] eqn:Hk'; [|exact (IH _ _ _ _ _ I Hk Ek Hin H)].
    destruct (gen_file w f k') as [r1 f1] eqn:G.
    pose proof (Inv_step _ _ _ _ _ _ _ _ Hk' I G) as I1.
    destruct r1; [exact (IH _ _ _ _ _ I1 Hk Ek Hin H) | injection H as <- _; discriminate | injection H as <- _; discriminate].
Qed.

Theorem no_clobber_fails w ord q n x :
  w_fs w q = Some n -> key_path w x = Some q -> In x ord ->
  (forall y, key_path w y = Some q -> force_of w y = Some false) ->
  fst (run w ord) = ExitErr /\ snd (run w ord) q = Some n.
Proof.
  intros Hn Kp Hin NF. unfold key_path in Kp.
  destruct (collections w) as [m|] eqn:Co; [|discriminate].
  destruct (find_coll m x) as [k|] eqn:Hk; [|discriminate]. simpl in Kp. injection Kp as Ek.
  assert (NF' : forall y k', find_coll m y = Some k' -> k_path k' = q -> q_force (k_first k') = false).
  { intros y k' Hy Ey. specialize (NF y). unfold key_path, force_of, file_gov in NF.
    rewrite Co, Hy in NF. simpl in NF. rewrite Ey in NF. specialize (NF eq_refl). now injection NF. }
  destruct (run_cases w ord) as [H | (m' & r & f1 & Co' & L & _ & _ & _ & H)]; rewrite H; simpl; [auto|].
  rewrite Co in Co'. injection Co' as <-.
  pose proof (loop_noforce _ _ _ _ _ Hn NF' _ _ _ _ _ _ (Inv_refl w m (w_fs w)) Hk Ek Hin L) as N.
  pose proof (loop_inv _ _ _ _ _ _ _ (Inv_refl w m (w_fs w)) L) as I.
  split.
  - destruct r; simpl; [congruence | reflexivity |].
    exfalso. apply (no_panic w ord). rewrite H. reflexivity.
  - destruct (I q) as [E | [(E1 & _) | (x' & k' & Hk' & Ek' & _ & _ & [F | [_ Fo]])]]; try congruence.
    rewrite (NF' _ _ Hk' Ek') in Fo. discriminate.
Qed.

Theorem dir_occupied w ord q : w_fs w q = Some Dir -> snd (run w ord) q = Some Dir.
Proof.
  intros H. destruct (run_Inv w ord) as [-> | (m & Co & I)]; [exact H|].
  destruct (I q) as [E | [(E1 & _) | (x & k & _ & _ & _ & _ & [F | [[c F] _]])]]; congruence.
Qed.

Theorem stage_failure_keeps w ord x q :
  stage_fails w x q ->
  snd (run w ord) q = w_fs w q
  \/ (w_fs w q = None /\ snd (run w ord) q = Some Dir /\
      exists y, In y (out_paths w) /\ strict_prefix q y = true)
  \/ (exists x', x' <> x /\ key_path w x' = Some q /\ snd (run w ord) q = Some (File (w_content w x'))).
Proof.
  intros (m & k & Co & Hk & Ek & NW).
  destruct (run_Inv w ord) as [-> | (m' & Co' & I)]; [now left|].
  rewrite Co in Co'. injection Co' as <-.
  pose proof (collections_grouped _ _ Co) as G.
  destruct (I q) as [E | [(E1 & E2 & y & k' & Hk' & P) | (x' & k' & Hk' & Ek' & E & W & _)]]; [now left | | ].
  - right; left. repeat split; auto. exists (k_path k'). split; [|exact P]. eapply sound_out; eauto.
  - right; right. exists x'. split.
    + intros ->. rewrite Hk in Hk'. injection Hk' as <-. contradiction.
    + unfold key_path. rewrite Co, Hk'. simpl. rewrite Ek'. auto.
Qed.

(* with outputs that are not nested, an output path is either untouched or complete *)
Corollary output_old_or_new w ord q :
  no_nested w -> In q (out_paths w) ->
  snd (run w ord) q = w_fs w q \/
  exists p r, In (p, r) (selected_reqs w) /\ q_path r = q /\
              snd (run w ord) q = Some (File (w_content w (q_key r))).
Proof.
  intros NN Hx. destruct (all_or_nothing w ord q) as [E | [E | (_ & _ & y & Hy & P)]]; auto.
  rewrite (NN _ _ Hx Hy) in P. discriminate.
Qed.

Lemma key_path_sound w x q :
  key_path w x = Some q -> exists p r, In (p, r) (selected_reqs w) /\ q_key r = x /\ q_path r = q.
Proof.
  unfold key_path. destruct (collections w) as [m|] eqn:Co; [|discriminate].
  destruct (find_coll m x) as [k|] eqn:Hk; [|discriminate]. simpl. intros E. injection E as <-.
  destruct (sound_out _ _ _ _ (collections_grouped _ _ Co) Hk) as (_ & _ & _ & r & Hr & Kr & Pr).
  eauto.
Qed.

Corollary stage_failure_keeps_output w ord x q :
  no_nested w -> no_alias w -> stage_fails w x q -> snd (run w ord) q = w_fs w q.
Proof.
  intros NN NA SF.
  assert (Hq : exists p r, In (p, r) (selected_reqs w) /\ q_key r = x /\ q_path r = q).
  { destruct SF as (m & k & Co & Hk & Ek & _). apply key_path_sound.
    unfold key_path. rewrite Co, Hk. simpl. now rewrite Ek. }
  destruct Hq as (p & r & Hr & Kr & Pr).
  destruct (stage_failure_keeps w ord x q SF) as [E | [(_ & _ & y & Hy & P) | (x' & N & Kp & _)]]; auto.
  - assert (Hx : In q (out_paths w)) by (unfold out_paths; apply in_map_iff; exists (p, r); auto).
    rewrite (NN _ _ Hx Hy) in P. discriminate.
  - exfalso. apply N. destruct (key_path_sound _ _ _ Kp) as (p' & r' & Hr' & Kr' & Pr').
    rewrite <- Kr, <- Kr'. apply (NA _ _ _ _ Hr' Hr). congruence.
Qed.

(* what force_of talks about *)
Lemma file_pkg_sound w x p :
  file_pkg w x = Some p -> exists q, In (p, q) (selected_reqs w) /\ q_key q = x.
Proof.
  unfold file_pkg. destruct (collections w) as [m|] eqn:Co; [|discriminate].
  destruct (find_coll m x) as [k|] eqn:Hk; [|discriminate]. simpl. intros E. injection E as <-.
  destruct (g_sound _ _ (collections_grouped _ _ Co) _ _ Hk) as (Hq & Kq & _). eauto.
Qed.

Lemma file_pkg_complete w m p q :
  wf_world w -> collections w = Some m -> In (p, q) (selected_reqs w) -> file_pkg w (q_key q) = Some p.
Proof.
  intros W Co Hin. destruct (group_of _ _ _ _ W (collections_grouped _ _ Co) Hin) as (k & Hk & _ & <- & _).
  unfold file_pkg. now rewrite Co, Hk.
Qed.

Lemma file_gov_sound w x g :
  file_gov w x = Some g -> exists p, In (p, g) (selected_reqs w) /\ q_key g = x.
Proof.
  unfold file_gov. destruct (collections w) as [m|] eqn:Co; [|discriminate].
  destruct (find_coll m x) as [k|] eqn:Hk; [|discriminate]. simpl. intros E. injection E as <-.
  destruct (g_sound _ _ (collections_grouped _ _ Co) _ _ Hk) as (Hq & Kq & _). eauto.
Qed.
