(* C06 - generation is deterministic and idempotent.  Model only (proofs: Cfg/Order_proofs.v).

   An abstract pipeline of ONE run of `mockery`, every ranged Go map being an explicit order
   argument ([orders]).  What is modelled (and nothing else):

   config/config.go
     RootConfig.Initialize (called twice per run: NewRootConfig and RootApp.Run)
       loop A  `for pkgName, pkgConfig := range c.Packages`   order [oa]: root merged into the
               package config (mergeConfigs = first writer wins per field, template-data key by
               key), PackageConfig.Initialize `range c.Interfaces` order [oi]: package merged into
               the interface config, InterfaceConfig.Initialize: interface merged into every
               `configs` entry; the recursive packages are collected in loop order;
       loop B  for every recursive package, every package returned by `go list p/...` ([ow_subs],
               given as data, in go-list order) gets the parent's config merged in (existing entry
               or NewPackageConfig()).
     GetPackages `range c.Packages` -> the pattern list for packages.Load; the order in which the
               loaded packages come back is an explicit argument [ol].
   internal/parse.go        interfaces in package order, file order, declaration order; only
                            non-_test.go files are loaded.
   internal/cmd/mockery.go  RootApp.Run: ShouldGenerateInterface (all / listed; the regex filters
               are C07's), GetInterfaceConfig, one mock per `configs` entry, output path from
               dir/filename, mockFileToInterfaces (grouping, Append's uniformity checks),
               `for outFilePath, interfacesInFile := range mockFileToInterfaces` order [of]: one
               generator per file = Cfg/Schema.gen_file (template/schema retrieval through the
               per-run cache, validation) + the exists/force-file-write check + the write; the
               loop stops at the first error; afterwards the missing-interface check.
   template/registry.go     Imports(): `range r.imports` order [oimp], then sorted by path.

   Abstract: what a template renders (a [content] record of everything that can influence the
   text: template, package name, sorted imports, file-level data, per interface name and data);
   path cleaning and config templating (C11); exclude-subpkg-regex (C07/C09); qualifier
   allocation (C15: deterministic in insertion order, no map is ranged).
   Generated files contain no interface declarations and `_test.go` files are not loaded: this
   is how [add_outputs] puts the previous output into the tree (checked by the oracle on every
   run: a rerun with all: true + recursive produces no additional file). *)
From Coq Require Import ZArith.
From Mk Require Import Lib.Bytes Cfg.Schema Gen.Alloc.

(* ------------------------------------------------------------------ Go maps *)
(* association lists with distinct keys; replacement keeps the position, a new key is appended *)
Fixpoint aset {A} (k : str) (v : A) (m : list (str * A)) : list (str * A) :=
  match m with
  | [] => [(k, v)]
  | (k', v') :: t => if seqb k k' then (k', v) :: t else (k', v') :: aset k v t
  end.
Definition keys {A} (m : list (str * A)) : list str := map fst m.

(* `for k, v := range m { m[k] = f(k, v) }` in the order [o] *)
Definition upd_in_order {A} (f : str -> A -> A) (o : list str) (m : list (str * A)) : list (str * A) :=
  fold_left (fun m k => match alookup k m with Some v => aset k (f k v) m | None => m end) o m.

(* ------------------------------------------------------------------ configuration *)
Inductive dirspec := DIface (suffix : str)      (* "{{.InterfaceDir}}" ++ suffix *)
                   | DFixed (d : str).          (* a fixed directory *)
Inductive filespec := FFixed (s : str)
                    | FIface (pre suf : str)    (* pre ++ "{{.InterfaceName}}" ++ suf *)
                    | FPkg (pre suf : str).     (* pre ++ "{{.SrcPackageName}}" ++ suf *)
Inductive pnspec := PSrc                         (* "{{.SrcPackageName}}" *)
                  | PFixed (s : str).

Record ocfg := { o_rec : option bool; o_all : option bool; o_force : option bool;
                 o_dir : option dirspec; o_file : option filespec; o_pkgname : option pnspec;
                 o_tmpl : option str; o_schema : option str; o_require : option bool;
                 o_data : obj }.

Definition cfg_empty : ocfg :=
  {| o_rec := None; o_all := None; o_force := None; o_dir := None; o_file := None; o_pkgname := None;
     o_tmpl := None; o_schema := None; o_require := None; o_data := [] |}.

(* mergeConfigs(src, dest): a field already set in dest is kept *)
Definition mg (src dest : ocfg) : ocfg :=
  {| o_rec := first_some (o_rec dest) (o_rec src);
     o_all := first_some (o_all dest) (o_all src);
     o_force := first_some (o_force dest) (o_force src);
     o_dir := first_some (o_dir dest) (o_dir src);
     o_file := first_some (o_file dest) (o_file src);
     o_pkgname := first_some (o_pkgname dest) (o_pkgname src);
     o_tmpl := first_some (o_tmpl dest) (o_tmpl src);
     o_schema := first_some (o_schema dest) (o_schema src);
     o_require := first_some (o_require dest) (o_require src);
     o_data := merge_data (o_data src) (o_data dest) |}.

Record oiface := { oi_cfg : ocfg; oi_entries : list ocfg }.
Record opkg := { op_cfg : ocfg; op_ifaces : list (str * oiface) }.
Definition pmap := list (str * opkg).
Definition pkg_fresh : opkg := {| op_cfg := cfg_empty; op_ifaces := [] |}.       (* NewPackageConfig *)

Definition flag (b : option bool) : bool := match b with Some x => x | None => false end.
Definition is_rec (p : opkg) : bool := flag (o_rec (op_cfg p)).

(* InterfaceConfig.Initialize (after the package config was merged into c.Config) *)
Definition init_iface (pc : ocfg) (i : oiface) : oiface :=
  let c := mg pc (oi_cfg i) in
  {| oi_cfg := c; oi_entries := match oi_entries i with [] => [c] | es => map (mg c) es end |}.

Definition init_pkg (root : ocfg) (oi : list str) (p : opkg) : opkg :=
  let c := mg root (op_cfg p) in
  {| op_cfg := c; op_ifaces := upd_in_order (fun _ i => init_iface c i) oi (op_ifaces p) |}.

(* loop A: returns the map and recursivePackages (in loop order) *)
Definition loopA (root : ocfg) (oi : str -> list str) (oa : list str) (pm : pmap) : pmap * list str :=
  fold_left (fun st k =>
               match alookup k (fst st) with
               | Some p => let p' := init_pkg root (oi k) p in
                           (aset k p' (fst st), if is_rec p' then snd st ++ [k] else snd st)
               | None => st
               end) oa (pm, []).

Definition subs_of (subs : list (str * list str)) (p : str) : list str :=
  match alookup p subs with Some l => l | None => [] end.

(* loop B; parentPkgConfig is a pointer: its current value is read at every merge *)
Definition mergeB (p s : str) (pm : pmap) : pmap :=
  match alookup p pm with
  | Some pp =>
    let sp := match alookup s pm with Some x => x | None => pkg_fresh end in
    aset s {| op_cfg := mg (op_cfg pp) (op_cfg sp); op_ifaces := op_ifaces sp |} pm
  | None => pm
  end.
Definition loopB (subs : list (str * list str)) (recs : list str) (pm : pmap) : pmap :=
  fold_left (fun pm p => fold_left (fun pm s => mergeB p s pm) (subs_of subs p) pm) recs pm.

Definition initialize_once (root : ocfg) (subs : list (str * list str)) (oi : str -> list str) (oa : list str) (pm : pmap) : pmap :=
  let '(pmA, recs) := loopA root oi oa pm in loopB subs recs pmA.

(* ------------------------------------------------------------------ source tree *)
Record idecl := { id_name : str; id_imports : list import_ }.   (* imports its methods mention *)
Record tfile := { tf_name : str; tf_decls : list idecl }.
Record tpkg := { tp_path : str;          (* directory = import path below the module root *)
                 tp_name : str;          (* package clause *)
                 tp_files : list tfile }.
Definition tree := list tpkg.

Fixpoint has_suffix (s suf : str) : bool :=
  if seqb s suf then true else match s with [] => false | _ :: t => has_suffix t suf end.
Definition loaded (f : tfile) : bool := negb (has_suffix (tf_name f) (B "_test.go")).
Definition decls_of (tp : tpkg) : list idecl := flat_map tf_decls (filter loaded (tp_files tp)).
Fixpoint find_pkg (k : str) (t : tree) : option tpkg :=
  match t with [] => None | tp :: r => if seqb k (tp_path tp) then Some tp else find_pkg k r end.

(* ------------------------------------------------------------------ mocks and files *)
Record mock := { m_dir : str; m_fname : str; m_pkgname : str; m_src : str; m_tmpl : str;
                 m_decl : idecl; m_data : obj }.
Definition slash : str := B "/".
Definition m_key (m : mock) : str := m_dir m ++ slash ++ m_fname m.

Definition out_dir (tp : tpkg) (e : ocfg) : str :=
  match o_dir e with Some (DFixed d) => d | Some (DIface suf) => tp_path tp ++ suf | None => tp_path tp end.
Definition out_fname (tp : tpkg) (iname : str) (e : ocfg) : str :=
  match o_file e with
  | Some (FFixed s) => s
  | Some (FIface a b) => a ++ iname ++ b
  | Some (FPkg a b) => a ++ tp_name tp ++ b
  | None => B "mocks_test.go"
  end.
Definition out_pkgname (tp : tpkg) (e : ocfg) : str :=
  match o_pkgname e with Some (PFixed s) => s | _ => tp_name tp end.
Definition tmpl_of (e : ocfg) : str := match o_tmpl e with Some t => t | None => B "testify" end.

(* ShouldGenerateInterface + GetInterfaceConfig *)
Definition entries_of (p : opkg) (iname : str) : list ocfg :=
  match alookup iname (op_ifaces p) with
  | Some i => oi_entries i
  | None => if flag (o_all (op_cfg p)) then [op_cfg p] else []
  end.

Definition mocks_of_decl (tp : tpkg) (p : opkg) (d : idecl) : list (str * mock) :=
  map (fun e => let m := {| m_dir := out_dir tp e; m_fname := out_fname tp (id_name d) e;
                            m_pkgname := out_pkgname tp e; m_src := tp_path tp; m_tmpl := tmpl_of e;
                            m_decl := d; m_data := o_data e |} in (m_key m, m))
      (entries_of p (id_name d)).

(* everything one loaded package contributes, in parse order *)
Definition arrivals_of (t : tree) (pm : pmap) (k : str) : list (str * mock) :=
  match find_pkg k t, alookup k pm with
  | Some tp, Some p => flat_map (mocks_of_decl tp p) (decls_of tp)
  | _, _ => []
  end.
Definition arrivals (t : tree) (pm : pmap) (ol : list str) : list (str * mock) :=
  flat_map (arrivals_of t pm) ol.

(* InterfaceCollection.Append: every member agrees with the first one *)
Definition same_attrs (a b : mock) : bool :=
  seqb (m_pkgname a) (m_pkgname b) && seqb (m_src a) (m_src b) && seqb (m_tmpl a) (m_tmpl b).
Definition uniform (ms : list mock) : bool :=
  match ms with [] => true | a :: t => forallb (same_attrs a) t end.

(* ------------------------------------------------------------------ one output file *)
Record content := { ct_tmpl : str; ct_pkgname : str; ct_imports : list import_;
                    ct_data : obj; ct_ifaces : list (str * obj) }.

(* Registry.addImport keeps one entry per path (insertion order) *)
Fixpoint dedup_imports (l : list import_) (seen : list str) : list import_ :=
  match l with
  | [] => []
  | i :: t => if smem (ipath i) seen then dedup_imports t seen else i :: dedup_imports t (ipath i :: seen)
  end.
Definition raw_imports (ms : list mock) : list import_ :=
  dedup_imports (flat_map (fun m => id_imports (m_decl m)) ms) [].
(* Registry.Imports(): range over the map ([oimp] permutes), then sort.Slice by path *)
Definition sort_imports (l : list import_) : list import_ := fold_right insert_by_path [] l.

Definition file_exists (t : tree) (dir fname : str) : bool :=
  match find_pkg dir t with
  | Some tp => existsb (fun f => seqb (tf_name f) fname) (tp_files tp)
  | None => false
  end.

Definition schema_of (c : ocfg) : str :=
  match o_schema c with Some s => s | None => tmpl_of c ++ B ".schema.json" end.
Definition require_of (c : ocfg) : bool := match o_require c with Some b => b | None => true end.

(* the generator's view of a group; the file-level parameters come from the package config of
   the source package (pinned code) *)
Definition filecfg_of (fl : fl_mode) (pc : ocfg) (k : str) (ms : list mock) : filecfg :=
  let members := map (fun m => (id_name (m_decl m), m_data m)) ms in
  {| f_path := k; f_template := tmpl_of pc; f_schema := schema_of pc; f_require := require_of pc;
     f_data := file_level_data fl (o_data pc) members; f_ifaces := members; f_rest_ok := true |}.

Definition render (oimp : str -> list import_ -> list import_) (fc : filecfg) (ms : list mock) : content :=
  {| ct_tmpl := f_template fc;
     ct_pkgname := match ms with m :: _ => m_pkgname m | [] => [] end;
     ct_imports := sort_imports (oimp (f_path fc) (raw_imports ms));
     ct_data := f_data fc; ct_ifaces := f_ifaces fc |}.

Record written := { wr_dir : str; wr_fname : str; wr_content : content }.
Definition wr_key (x : written) : str := wr_dir x ++ slash ++ wr_fname x.

Record oworld := { ow_root : ocfg;                       (* root config incl. the defaults *)
                   ow_pkgs : pmap;                       (* `packages:` as written in the file *)
                   ow_subs : list (str * list str);      (* result of `go list p/...` per package *)
                   ow_tree : tree;
                   ow_env : env;
                   ow_fl : fl_mode;
                   ow_km : keymode }.

(* one iteration of the file loop: None = error *)
Definition file_step (w : oworld) (oimp : str -> list import_ -> list import_) (pm : pmap)
           (c : cache) (g : str * list mock) : cache * option written :=
  match snd g with
  | [] => (c, None)
  | m :: _ =>
    match alookup (m_src m) pm with
    | None => (c, None)
    | Some p =>
      let fc := filecfg_of (ow_fl w) (op_cfg p) (fst g) (snd g) in
      let '(c', r) := gen_file (ow_km w) (ow_env w) c fc in
      match r with
      | FError => (c', None)
      | FWritten =>
        if file_exists (ow_tree w) (m_dir m) (m_fname m) && negb (flag (o_force (op_cfg p)))
        then (c', None)
        else (c', Some {| wr_dir := m_dir m; wr_fname := m_fname m; wr_content := render oimp fc (snd g) |})
      end
    end
  end.

Fixpoint file_loop (w : oworld) oimp (pm : pmap) (c : cache) (gs : list (str * list mock))
  : exit_class * list written :=
  match gs with
  | [] => (ExitOk, [])
  | g :: t =>
    match file_step w oimp pm c g with
    | (c', Some x) => let '(e, ws) := file_loop w oimp pm c' t in (e, x :: ws)
    | (_, None) => (ExitErr, [])
    end
  end.

(* missingMap: a configured interface name that no loaded file declares *)
Definition missing (w : oworld) (pm : pmap) : bool :=
  existsb (fun kp => match find_pkg (fst kp) (ow_tree w) with
                     | Some tp => existsb (fun n => negb (smem n (map id_name (decls_of tp)))) (keys (op_ifaces (snd kp)))
                     | None => negb (match keys (op_ifaces (snd kp)) with [] => true | _ => false end)
                     end) pm.

(* all the orders of one run *)
Record orders := { oa1 : list str; oi1 : str -> list str;     (* first Initialize *)
                   oa2 : list str; oi2 : str -> list str;     (* second Initialize *)
                   ol : list str;                              (* packages as loaded *)
                   ofl : list (str * list mock) -> list (str * list mock);   (* range mockFileToInterfaces *)
                   oimp : str -> list import_ -> list import_ }.            (* range r.imports, per file *)

Definition initialize (w : oworld) (o : orders) : pmap :=
  initialize_once (ow_root w) (ow_subs w) (oi2 o) (oa2 o)
    (initialize_once (ow_root w) (ow_subs w) (oi1 o) (oa1 o) (ow_pkgs w)).

Definition run_once (w : oworld) (o : orders) : exit_class * list written :=
  let pm := initialize w o in
  let gs := group (arrivals (ow_tree w) pm (ol o)) in
  if forallb (fun g => uniform (snd g)) gs then
    let '(e, ws) := file_loop w (oimp o) pm [] (ofl o gs) in
    (match e with ExitOk => if missing w pm then ExitErr else ExitOk | ExitErr => ExitErr end, ws)
  else (ExitErr, []).

(* ------------------------------------------------------------------ the tree after a run *)
Fixpoint put_file (f : tfile) (fs : list tfile) : list tfile :=
  match fs with
  | [] => [f]
  | g :: t => if seqb (tf_name g) (tf_name f) then f :: t else g :: put_file f t
  end.
Fixpoint add_output (x : written) (t : tree) : tree :=
  let f := {| tf_name := wr_fname x; tf_decls := [] |} in      (* no interface declarations *)
  match t with
  | [] => [{| tp_path := wr_dir x; tp_name := ct_pkgname (wr_content x); tp_files := [f] |}]
  | tp :: r => if seqb (wr_dir x) (tp_path tp)
               then {| tp_path := tp_path tp; tp_name := tp_name tp; tp_files := put_file f (tp_files tp) |} :: r
               else tp :: add_output x r
  end.
Definition add_outputs (ws : list written) (t : tree) : tree := fold_left (fun t x => add_output x t) ws t.

(* ------------------------------------------------------------------ order-free description *)
Definition init_pkg_spec (root : ocfg) (p : opkg) : opkg :=
  let c := mg root (op_cfg p) in
  {| op_cfg := c; op_ifaces := map (fun ki => (fst ki, init_iface c (snd ki))) (op_ifaces p) |}.
Definition initA (root : ocfg) (pm : pmap) : pmap :=
  map (fun kp => (fst kp, init_pkg_spec root (snd kp))) pm.
(* the configured packages that are recursive once the root config is merged in *)
Definition roots (w : oworld) : list str :=
  map fst (filter (fun kp => is_rec (snd kp)) (initA (ow_root w) (ow_pkgs w))).
Definition subs_w (w : oworld) (r : str) : list str := subs_of (ow_subs w) r.
(* a discovered package: the parent's config, no interfaces of its own *)
Definition inherit (pr : opkg) : opkg := {| op_cfg := op_cfg pr; op_ifaces := [] |}.

(* ------------------------------------------------------------------ guard *)
(* The input class for which order independence is proved.  Outside it the pinned code IS order
   dependent (DESIGN.md section 6 row 6: nested recursive packages; owned by C07):
     - recursive packages do not nest or overlap and no configured package lies inside the
       subtree of another, recursive, one;
     - `go list q/...` of a discovered package q stays inside its root's subtree;
     - Go maps have distinct keys (packages, interfaces, template-data at every depth). *)
Fixpoint wf_jsonb (j : json) : bool :=
  match j with
  | JObj kv => str_nodup (keys kv) &&
               (fix go (l : list (str * json)) : bool :=
                  match l with [] => true | (_, v) :: t => wf_jsonb v && go t end) kv
  | _ => true
  end.
Definition wf_cfgb (c : ocfg) : bool := wf_jsonb (JObj (o_data c)).
Definition wf_pkgb (p : opkg) : bool :=
  wf_cfgb (op_cfg p) && str_nodup (keys (op_ifaces p)) &&
  forallb (fun ki => wf_cfgb (oi_cfg (snd ki)) && forallb wf_cfgb (oi_entries (snd ki))) (op_ifaces p).
Definition disjointb (a b : list str) : bool := forallb (fun x => negb (smem x b)) a.
Definition subsetb (a b : list str) : bool := forallb (fun x => smem x b) a.

Definition guard (w : oworld) : bool :=
  str_nodup (keys (ow_pkgs w)) && wf_cfgb (ow_root w) && forallb (fun kp => wf_pkgb (snd kp)) (ow_pkgs w)
  && forallb (fun r => forallb (fun r' => seqb r r' || disjointb (subs_w w r) (subs_w w r')) (roots w)) (roots w)
  && forallb (fun k => forallb (fun r => seqb k r || negb (smem k (subs_w w r))) (roots w)) (keys (ow_pkgs w))
  && forallb (fun r => forallb (fun q => subsetb (subs_w w q) (subs_w w r)) (subs_w w r)) (roots w).

(* canonical orders (the order in which the configuration file lists things), used to run the
   model; any other valid orders give the same result (C06_order_independent) *)
Definition canonical (w : oworld) : orders :=
  let ifk := fun k => match alookup k (ow_pkgs w) with Some p => keys (op_ifaces p) | None => [] end in
  let pm1 := initialize_once (ow_root w) (ow_subs w) ifk (keys (ow_pkgs w)) (ow_pkgs w) in
  {| oa1 := keys (ow_pkgs w); oi1 := ifk; oa2 := keys pm1; oi2 := ifk; ol := keys pm1;
     ofl := fun gs => gs; oimp := fun _ l => l |}.
