(* Model of the resolver of the templated config parameters
   (dir, filename, pkgname, structname, template-schema).                         (C11)

   Mirrors /repo/config/config.go: TemplateData, Config.ParseTemplates (variable binding,
   the render-until-nothing-changes loop with its cap of 20 rounds and ErrInfiniteLoop),
   NewRootConfig (which config file is used: MOCKERY_CONFIG, --config, search) and
   /repo/internal/config/config.go FindConfig (the search).  External libraries are given
   as small explicit semantics:
     - text/template: a subset (text, {{ pipeline }} with fields of the data struct,
       double-quoted string constants without escapes, calls of the functions modelled
       below); every other syntax is answered by the explicit value [PUnsup];
     - path/filepath Clean/Dir/Base (lexical, Unix), pathlib Parts/RelativeTo;
     - strings.ToLower/ToUpper on ASCII, TrimPrefix/TrimSuffix;
     - go/ast.IsExported on ASCII and Latin-1 first runes.
   No proofs in this file. *)
From Mk Require Import Lib.Bytes.

(* ------------------------------------------------------------------ bytes *)
Definition c_lbrace : byte := x7b.   (* { *)
Definition c_rbrace : byte := x7d.   (* } *)
Definition c_quote  : byte := x22.   (* double quote *)
Definition c_dot    : byte := x2e.
Definition c_pipe   : byte := x7c.
Definition c_slash  : byte := x2f.
Definition c_bslash : byte := x5c.
Definition c_nl     : byte := x0a.

Definition is_space (b : byte) : bool :=
  match b with x20 | x09 | x0d | x0a => true | _ => false end.
Definition in_range (lo hi : nat) (b : byte) : bool := (lo <=? bnat b) && (bnat b <=? hi).
Definition is_upper_ascii (b : byte) : bool := in_range 65 90 b.
Definition is_lower_ascii (b : byte) : bool := in_range 97 122 b.
Definition is_digit (b : byte) : bool := in_range 48 57 b.
Definition is_alpha (b : byte) : bool := is_upper_ascii b || is_lower_ascii b || beqb b x5f.
Definition is_alnum (b : byte) : bool := is_alpha b || is_digit b.
Definition is_print (b : byte) : bool := in_range 32 126 b.

Definition lower_b (b : byte) : byte :=
  match b with
  | x41 => x61 | x42 => x62 | x43 => x63 | x44 => x64 | x45 => x65 | x46 => x66 | x47 => x67
  | x48 => x68 | x49 => x69 | x4a => x6a | x4b => x6b | x4c => x6c | x4d => x6d | x4e => x6e
  | x4f => x6f | x50 => x70 | x51 => x71 | x52 => x72 | x53 => x73 | x54 => x74 | x55 => x75
  | x56 => x76 | x57 => x77 | x58 => x78 | x59 => x79 | x5a => x7a | c => c
  end.
Definition upper_b (b : byte) : byte :=
  match b with
  | x61 => x41 | x62 => x42 | x63 => x43 | x64 => x44 | x65 => x45 | x66 => x46 | x67 => x47
  | x68 => x48 | x69 => x49 | x6a => x4a | x6b => x4b | x6c => x4c | x6d => x4d | x6e => x4e
  | x6f => x4f | x70 => x50 | x71 => x51 | x72 => x52 | x73 => x53 | x74 => x54 | x75 => x55
  | x76 => x56 | x77 => x57 | x78 => x58 | x79 => x59 | x7a => x5a | c => c
  end.

(* ------------------------------------------------------------------ string functions
   (the part of template_funcs.FuncMap that is modelled) *)
Definition f_lower (s : str) : str := map lower_b s.        (* strings.ToLower, ASCII *)
Definition f_upper (s : str) : str := map upper_b s.        (* strings.ToUpper, ASCII *)
Definition trim_prefix (p s : str) : str := if has_prefix s p then skipn (length p) s else s.
Definition trim_suffix (x s : str) : str := rev (trim_prefix (rev x) (rev s)).

(* split on '/': always at least one component *)
Fixpoint split_on (c : byte) (acc s : str) : list str :=
  match s with
  | [] => [rev acc]
  | x :: r => if beqb x c then rev acc :: split_on c [] r else split_on c (x :: acc) r
  end.
Definition split_slash (s : str) : list str := split_on c_slash [] s.
Fixpoint join_with (sep : str) (l : list str) : str :=
  match l with
  | [] => []
  | [x] => x
  | x :: t => x ++ sep ++ join_with sep t
  end.
Definition nonempty (s : str) : bool := match s with [] => false | _ => true end.
Definition rooted (s : str) : bool := match s with x :: _ => beqb x c_slash | [] => false end.

(* filepath.Clean (Unix): the stack of kept components, top first *)
Definition clean_step (r : bool) (stack : list str) (c : str) : list str :=
  if seqb c [] || seqb c (B ".") then stack
  else if seqb c (B "..") then
    match stack with
    | top :: rest => if seqb top (B "..") then c :: stack else rest
    | [] => if r then [] else [c]
    end
  else c :: stack.
Definition clean_comps (r : bool) (comps : list str) : str :=
  let body := join_with (B "/") (rev (fold_left (clean_step r) comps [])) in
  if r then c_slash :: body else match body with [] => B "." | _ => body end.
Definition f_clean (p : str) : str := clean_comps (rooted p) (split_slash p).
(* filepath.Dir: Clean of everything up to and including the last slash *)
Definition f_dir (p : str) : str := clean_comps (rooted p) (removelast (split_slash p)).
(* filepath.Base *)
Definition f_base (p : str) : str :=
  match p with
  | [] => B "."
  | _ => match rev (filter nonempty (split_slash p)) with [] => B "/" | c :: _ => c end
  end.

(* pathlib: normalizePathString, Parts, RelativeTo *)
Definition is_go_space (b : byte) : bool :=
  match b with x20 | x09 | x0a | x0b | x0c | x0d => true | _ => false end.
Fixpoint drop_while (f : byte -> bool) (s : str) : str :=
  match s with [] => [] | x :: r => if f x then drop_while f r else s end.
Definition trim_space (s : str) : str := rev (drop_while is_go_space (rev (drop_while is_go_space s))).
Definition norm_path (s : str) : str :=
  let s1 := trim_prefix (B "./") (trim_space s) in
  let s2 := rev (drop_while (fun b => beqb b x20) (rev s1)) in
  if 1 <? length s2 then trim_suffix (B "/") s2 else s2.
Definition parts (s : str) : list str :=
  (if rooted s then [B "/"] else []) ++ filter nonempty (split_slash (norm_path s)).
Fixpoint strip_parts (other this : list str) : option (list str) :=
  match other, this with
  | [], _ => Some this
  | o :: other', t :: this' => if seqb o t then strip_parts other' this' else None
  | _ :: _, [] => None
  end.
(* [this] relative to [other]; None = pathlib's ErrRelativeTo.
   (With an [other] without parts Go keeps relativeBase = 0 and slices this[1:]; that
   cannot happen for a working directory, which is absolute.) *)
Definition rel_to (this other : str) : option str :=
  match parts other with
  | [] => Some (join_with (B "/") (match skipn 1 (parts this) with [] => [B "."] | l => l end))
  | po => match strip_parts po (parts this) with
          | None => None
          | Some [] => Some (B ".")
          | Some l => Some (join_with (B "/") l)
          end
  end.

(* go/ast.IsExported: unicode.IsUpper of the first rune.  ASCII and U+00C0..U+00DE. *)
Definition exported (name : str) : bool :=
  match name with
  | [] => false
  | b :: r =>
    if is_upper_ascii b then true
    else if beqb b xc3 then
      match r with
      | b2 :: _ => in_range 128 158 b2 && negb (beqb b2 x97)
      | [] => false
      end
    else false
  end.

(* ------------------------------------------------------------------ template data *)
Record data := {
  ConfigDir : str; InterfaceDir : str; InterfaceDirRelative : str; InterfaceFile : str;
  InterfaceName : str; Mock : str; StructName : str; SrcPackageName : str;
  SrcPackagePath : str; Template : str }.

Definition fields (d : data) : list (str * str) :=
  [ (B "ConfigDir", ConfigDir d); (B "InterfaceDir", InterfaceDir d);
    (B "InterfaceDirRelative", InterfaceDirRelative d); (B "InterfaceFile", InterfaceFile d);
    (B "InterfaceName", InterfaceName d); (B "Mock", Mock d); (B "StructName", StructName d);
    (B "SrcPackageName", SrcPackageName d); (B "SrcPackagePath", SrcPackagePath d);
    (B "Template", Template d) ].
Fixpoint assoc (k : str) (l : list (str * str)) : option str :=
  match l with [] => None | (k', v) :: t => if seqb k k' then Some v else assoc k t end.
Definition field (d : data) (f : str) : option str := assoc f (fields d).

(* what ParseTemplates is given *)
Record iface := { i_name : str; i_file : str }.
Record env := {
  e_iface : option iface;        (* nil for the per-file call on the package config *)
  e_pkgname : str;               (* srcPkg.Types.Name() *)
  e_pkgpath : str;               (* srcPkg.Types.Path() *)
  e_template : str;              (* *c.Template *)
  e_config : str;                (* *c.ConfigFile *)
  e_cwd : str }.                 (* os.Getwd() *)

Definition mock_of (name : str) : str := if exported name then B "Mock" else B "mock".
Definition idr_of (file cwd : str) : str :=
  match rel_to (f_dir file) cwd with Some r => r | None => B "." end.

(* [structname] = *c.StructName at the time of the call: the configured, not yet
   rendered value *)
Definition bind (e : env) (structname : str) : data :=
  {| ConfigDir := f_dir (e_config e);
     InterfaceDir := match e_iface e with Some i => f_dir (i_file i) | None => [] end;
     InterfaceDirRelative := match e_iface e with Some i => idr_of (i_file i) (e_cwd e) | None => [] end;
     InterfaceFile := match e_iface e with Some i => i_file i | None => [] end;
     InterfaceName := match e_iface e with Some i => i_name i | None => [] end;
     Mock := match e_iface e with Some i => mock_of (i_name i) | None => [] end;
     StructName := structname;
     SrcPackageName := e_pkgname e;
     SrcPackagePath := e_pkgpath e;
     Template := e_template e |}.

(* ------------------------------------------------------------------ which config file
   NewRootConfig: MOCKERY_CONFIG, else --config, else FindConfig; the path of the file
   that is loaded is what the `config` parameter (hence ConfigDir) refers to. *)
Fixpoint prefixes {A} (l : list A) : list (list A) :=   (* non-empty prefixes, shortest first *)
  match l with [] => [] | x :: t => [x] :: map (cons x) (prefixes t) end.
Definition abs_of (comps : list str) : str := c_slash :: join_with (B "/") comps.
(* the directories FindConfig visits: cwd and its ancestors, nearest first, not "/" *)
Definition ancestors (cwd : str) : list str :=
  map abs_of (rev (prefixes (filter nonempty (split_slash cwd)))).
Definition conf_names : list str := [B ".mockery.yaml"; B ".mockery.yml"].
Definition candidates (cwd : str) : list str :=
  flat_map (fun a => map (fun n => a ++ B "/" ++ n) conf_names) (ancestors cwd).
Definition find_config (is_file : str -> bool) (cwd : str) : option str :=
  find is_file (candidates cwd).
Definition config_used (envv flagv : str) (is_file : str -> bool) (cwd : str) : option str :=
  if nonempty envv then Some envv else if nonempty flagv then Some flagv else find_config is_file cwd.

(* ------------------------------------------------------------------ template syntax *)
Inductive arg := AField (f : str) | AStr (s : str).
Inductive head := HArg (a : arg) | HFn (fn : str).
Record cmd := { c_head : head; c_args : list arg }.
Inductive piece := Lit (s : str) | Action (p : list cmd).
Definition tmpl := list piece.

Inductive tok := TField (f : str) | TIdent (s : str) | TStr (s : str) | TPipe.
Inductive raw := RText (s : str) | RAction (toks : list tok).

(* how the scan ended; the pieces completed before an error are kept, because
   text/template reports the first problem in reading order *)
Inductive sstat := Fin | FErr | FUnsup.
Definition sres := (list raw * sstat)%type.

Inductive lstate :=
| SText (acc : str)
| SAct (toks : list tok) (sep : bool)
| SField (toks : list tok) (acc : str)
| SIdent (toks : list tok) (acc : str)
| SStr (toks : list tok) (acc : str).

(* One pass over the value (structural recursion: no fuel).  [out] and [toks] and [acc]
   are reversed.  sep = an operand may start here. *)
Fixpoint scan (st : lstate) (out : list raw) (s : str) : sres :=
  match st with
  | SText acc =>
    match s with
    | [] => (rev (RText (rev acc) :: out), Fin)
    | x :: r =>
      if beqb x c_lbrace then
        match r with
        | y :: r' => if beqb y c_lbrace then scan (SAct [] true) (RText (rev acc) :: out) r'
                     else scan (SText (x :: acc)) out r
        | [] => scan (SText (x :: acc)) out r
        end
      else scan (SText (x :: acc)) out r
    end
  | SAct toks sep =>
    match s with
    | [] => (rev out, FErr)                                         (* unclosed action *)
    | x :: r =>
      if beqb x c_rbrace then
        match r with
        | y :: r' => if beqb y c_rbrace then scan (SText []) (RAction (rev toks) :: out) r' else (rev out, FErr)
        | [] => (rev out, FErr)                                     (* a single "}" is never accepted *)
        end
      else if is_space x then scan (SAct toks true) out r
      else if beqb x c_pipe then scan (SAct (TPipe :: toks) true) out r
      else if beqb x c_lbrace then (rev out, FErr)     (* "{" outside a string is never accepted *)
      else if negb sep then (rev out, FUnsup)
      else if beqb x c_dot then scan (SField toks []) out r
      else if beqb x c_quote then scan (SStr toks []) out r
      else if is_alpha x then scan (SIdent toks [x]) out r
      else (rev out, FUnsup)
    end
  | SField toks acc =>
    match s with
    | [] => (rev out, FErr)
    | x :: r =>
      if (match acc with [] => is_alpha x | _ => is_alnum x end) then scan (SField toks (x :: acc)) out r
      else match acc with
      | [] => (rev out, FUnsup)                                     (* "." alone, ".5" *)
      | _ =>
        let t := TField (rev acc) in
        if beqb x c_rbrace then
          match r with
          | y :: r' => if beqb y c_rbrace then scan (SText []) (RAction (rev (t :: toks)) :: out) r' else (rev out, FErr)
          | [] => (rev out, FErr)
          end
        else if is_space x then scan (SAct (t :: toks) true) out r
        else if beqb x c_pipe then scan (SAct (TPipe :: t :: toks) true) out r
        else (rev out, FUnsup)
      end
    end
  | SIdent toks acc =>
    match s with
    | [] => (rev out, FErr)
    | x :: r =>
      if is_alnum x then scan (SIdent toks (x :: acc)) out r
      else
        let t := TIdent (rev acc) in
        if beqb x c_rbrace then
          match r with
          | y :: r' => if beqb y c_rbrace then scan (SText []) (RAction (rev (t :: toks)) :: out) r' else (rev out, FErr)
          | [] => (rev out, FErr)
          end
        else if is_space x then scan (SAct (t :: toks) true) out r
        else if beqb x c_pipe then scan (SAct (TPipe :: t :: toks) true) out r
        else (rev out, FUnsup)
    end
  | SStr toks acc =>
    match s with
    | [] => (rev out, FErr)                                         (* unterminated quoted string *)
    | x :: r =>
      if beqb x c_quote then scan (SAct (TStr (rev acc) :: toks) false) out r
      else if beqb x c_nl then (rev out, FErr)
      else if beqb x c_bslash then (rev out, FUnsup)
      else if is_print x then scan (SStr toks (x :: acc)) out r
      else (rev out, FUnsup)
    end
  end.

(* functions: modelled (with arity), known to text/template or FuncMap but not modelled,
   anything else is "function not defined" (a parse error) *)
Definition modelled : list (str * nat) :=
  [ (B "lower", 1); (B "upper", 1); (B "trimPrefix", 2); (B "trimSuffix", 2);
    (B "base", 1); (B "dir", 1); (B "clean", 1) ].
Definition unmodelled : list str :=
  [ B "contains"; B "hasPrefix"; B "hasSuffix"; B "join"; B "replace"; B "replaceAll"; B "split";
    B "splitAfter"; B "splitAfterN"; B "trim"; B "trimLeft"; B "trimRight"; B "trimSpace";
    B "camelcase"; B "snakecase"; B "kebabcase"; B "firstIsLower"; B "firstLower"; B "firstUpper";
    B "exported"; B "matchString"; B "quoteMeta"; B "readFile"; B "expandEnv"; B "getenv";
    B "add"; B "decr"; B "div"; B "incr"; B "min"; B "mod"; B "mul"; B "sub"; B "ceil"; B "floor";
    B "round"; B "randInt";
    (* text/template builtins and keywords *)
    B "and"; B "call"; B "html"; B "index"; B "slice"; B "js"; B "len"; B "not"; B "or"; B "print";
    B "printf"; B "println"; B "urlquery"; B "eq"; B "ge"; B "gt"; B "le"; B "lt"; B "ne";
    B "block"; B "break"; B "continue"; B "define"; B "else"; B "end"; B "if"; B "range"; B "nil";
    B "template"; B "with"; B "true"; B "false" ].
Fixpoint arity (fn : str) (l : list (str * nat)) : option nat :=
  match l with [] => None | (k, n) :: t => if seqb fn k then Some n else arity fn t end.

Inductive pres (A : Type) := POk (x : A) | PErr | PUnsup.
Arguments POk {A} _. Arguments PErr {A}. Arguments PUnsup {A}.

Definition parse_head (t : tok) : pres head :=
  match t with
  | TField f => POk (HArg (AField f))
  | TStr s => POk (HArg (AStr s))
  | TIdent fn => match arity fn modelled with
                 | Some _ => POk (HFn fn)
                 | None => if smem fn unmodelled then PUnsup else PErr   (* function not defined *)
                 end
  | TPipe => PErr                                        (* unexpected "|" / missing value *)
  end.

(* tokens of one action -> pipeline, walking the token list once.  [first]: no command
   yet; [cur]: the command being collected (head, reversed arguments). *)
Fixpoint parse_cmds (first : bool) (ts : list tok) (cur : option (head * list arg)) (acc : list cmd)
  : pres (list cmd) :=
  let flush (c : head * list arg) := {| c_head := fst c; c_args := rev (snd c) |} in
  match ts with
  | [] => match cur with
          | Some c => POk (rev (flush c :: acc))
          | None => if first then PErr else POk (rev acc)      (* {{}} ; a trailing "|" is accepted *)
          end
  | TPipe :: rest => match cur with
                     | Some c => parse_cmds false rest None (flush c :: acc)
                     | None => PErr
                     end
  | t :: rest =>
    match cur with
    | None =>
      match parse_head t with
      | POk h =>
        match h, first with
        | HArg (AStr _), false => PErr                     (* non executable command in pipeline stage n *)
        | _, _ => parse_cmds false rest (Some (h, [])) acc
        end
      | PErr => PErr
      | PUnsup => PUnsup
      end
    | Some (h, a) =>
      match t with
      | TField f => parse_cmds false rest (Some (h, AField f :: a)) acc
      | TStr s => parse_cmds false rest (Some (h, AStr s :: a)) acc
      | _ => PUnsup
      end
    end
  end.

Definition parse_piece (r : raw) : pres piece :=
  match r with
  | RText s => POk (Lit s)
  | RAction toks => match parse_cmds true toks None [] with
                    | POk p => POk (Action p) | PErr => PErr | PUnsup => PUnsup end
  end.
Fixpoint parse_pieces (l : list raw) : pres tmpl :=
  match l with
  | [] => POk []
  | r :: t => match parse_piece r with
              | POk p => match parse_pieces t with POk ps => POk (p :: ps) | e => e end
              | PErr => PErr
              | PUnsup => PUnsup
              end
  end.
Definition parse (s : str) : pres tmpl :=
  let '(l, st) := scan (SText []) [] s in
  match parse_pieces l with
  | POk t => match st with Fin => POk t | FErr => PErr | FUnsup => PUnsup end
  | e => e
  end.

(* printer (concrete syntax of a template of the subset) *)
Definition print_arg (a : arg) : str :=
  match a with AField f => c_dot :: f | AStr s => c_quote :: s ++ [c_quote] end.
Definition print_cmd (c : cmd) : str :=
  join_with (B " ") ((match c_head c with HArg a => print_arg a | HFn fn => fn end) :: map print_arg (c_args c)).
Definition print_piece (p : piece) : str :=
  match p with
  | Lit s => s
  | Action cs => B "{{" ++ join_with (B " | ") (map print_cmd cs) ++ B "}}"
  end.
Definition print (t : tmpl) : str := concat (map print_piece t).

(* ------------------------------------------------------------------ execution *)
Definition eval_arg (d : data) (a : arg) : option str :=
  match a with AField f => field d f | AStr s => Some s end.
Fixpoint eval_args (d : data) (l : list arg) : option (list str) :=
  match l with
  | [] => Some []
  | a :: t => match eval_arg d a, eval_args d t with Some v, Some vs => Some (v :: vs) | _, _ => None end
  end.
Definition apply_fn (fn : str) (a : list str) : option str :=
  if seqb fn (B "lower") then match a with [s] => Some (f_lower s) | _ => None end
  else if seqb fn (B "upper") then match a with [s] => Some (f_upper s) | _ => None end
  else if seqb fn (B "trimPrefix") then match a with [p; s] => Some (trim_prefix p s) | _ => None end
  else if seqb fn (B "trimSuffix") then match a with [p; s] => Some (trim_suffix p s) | _ => None end
  else if seqb fn (B "base") then match a with [s] => Some (f_base s) | _ => None end
  else if seqb fn (B "dir") then match a with [s] => Some (f_dir s) | _ => None end
  else if seqb fn (B "clean") then match a with [s] => Some (f_clean s) | _ => None end
  else None.
(* None = execution error *)
Definition eval_cmd (d : data) (c : cmd) (final : option str) : option str :=
  match c_head c with
  | HArg a => match c_args c, final with
              | [], None => eval_arg d a
              | _, _ => None            (* "has arguments but cannot be invoked as function" *)
              end
  | HFn fn => match eval_args d (c_args c) with
              | Some vs => apply_fn fn (vs ++ match final with Some v => [v] | None => [] end)
              | None => None
              end
  end.
Fixpoint eval_pipe (d : data) (p : list cmd) (final : option str) : option str :=
  match p with
  | [] => final
  | c :: t => match eval_cmd d c final with Some v => eval_pipe d t (Some v) | None => None end
  end.
Fixpoint exec (d : data) (t : tmpl) : option str :=
  match t with
  | [] => Some []
  | Lit s :: r => match exec d r with Some w => Some (s ++ w) | None => None end
  | Action p :: r => match eval_pipe d p None, exec d r with Some v, Some w => Some (v ++ w) | _, _ => None end
  end.

Inductive tkind := EParse | EExec | EUnsupported.
Inductive rres := ROk (v : str) | RErr (k : tkind).
(* template.New(..).Funcs(FuncMap).Parse(v) then Execute(data) *)
Definition render (d : data) (v : str) : rres :=
  match parse v with
  | POk t => match exec d t with Some w => ROk w | None => RErr EExec end
  | PErr => RErr EParse
  | PUnsup => RErr EUnsupported
  end.

(* ------------------------------------------------------------------ the resolver *)
Inductive param := PDir | PFile | PPkg | PStruct | PSchema.
Definition all_params : list param := [PDir; PFile; PPkg; PStruct; PSchema].
Record params := { p_dir : str; p_file : str; p_pkg : str; p_struct : str; p_schema : str }.
Definition get (c : params) (p : param) : str :=
  match p with PDir => p_dir c | PFile => p_file c | PPkg => p_pkg c | PStruct => p_struct c | PSchema => p_schema c end.
Definition set (c : params) (p : param) (v : str) : params :=
  match p with
  | PDir => {| p_dir := v; p_file := p_file c; p_pkg := p_pkg c; p_struct := p_struct c; p_schema := p_schema c |}
  | PFile => {| p_dir := p_dir c; p_file := v; p_pkg := p_pkg c; p_struct := p_struct c; p_schema := p_schema c |}
  | PPkg => {| p_dir := p_dir c; p_file := p_file c; p_pkg := v; p_struct := p_struct c; p_schema := p_schema c |}
  | PStruct => {| p_dir := p_dir c; p_file := p_file c; p_pkg := p_pkg c; p_struct := v; p_schema := p_schema c |}
  | PSchema => {| p_dir := p_dir c; p_file := p_file c; p_pkg := p_pkg c; p_struct := p_struct c; p_schema := v |}
  end.

Inductive err := InfiniteLoop | TemplateError (p : param) (k : tkind).
Inductive result := Ok (c : params) | Err (e : err).

(* one pass of `for name, attributePointer := range templateMap`; [order] is the map
   iteration order of this pass *)
Definition round_step (d : data) (acc : err + params * bool) (p : param) : err + params * bool :=
  match acc with
  | inl e => inl e
  | inr (c, ch) =>
    match render d (get c p) with
    | ROk v => inr (set c p v, ch || negb (seqb v (get c p)))
    | RErr k => inl (TemplateError p k)
    end
  end.
Definition round (order : list param) (d : data) (c : params) : err + params * bool :=
  fold_left (round_step d) order (inr (c, false)).

Definition cap : nat := 20.
(* `for i := 0; changesMade; i++ { if i >= 20 { return ErrInfiniteLoop } ... }`;
   [orders k] is the iteration order of the pass with k passes still allowed *)
Fixpoint loop (fuel : nat) (orders : nat -> list param) (d : data) (c : params) : result :=
  match fuel with
  | 0 => Err InfiniteLoop
  | S k => match round (orders k) d c with
           | inl e => Err e
           | inr (c', true) => loop k orders d c'
           | inr (c', false) => Ok c'
           end
  end.
Definition resolve (orders : nat -> list param) (d : data) (c : params) : result := loop cap orders d c.

(* the same loop, also counting the passes it made *)
Fixpoint loop_count (fuel : nat) (orders : nat -> list param) (d : data) (c : params) : result * nat :=
  match fuel with
  | 0 => (Err InfiniteLoop, 0)
  | S k => match round (orders k) d c with
           | inl e => (Err e, 1)
           | inr (c', true) => let '(r, n) := loop_count k orders d c' in (r, S n)
           | inr (c', false) => (Ok c', 1)
           end
  end.

(* ParseTemplates *)
Definition parse_templates (orders : nat -> list param) (e : env) (c : params) : result :=
  resolve orders (bind e (p_struct c)) c.

(* Config.FilePath and where it lands *)
Definition file_path (c : params) : str := f_clean (p_dir c ++ B "/" ++ p_file c).
Definition abs_path (cwd p : str) : str := if rooted p then p else f_clean (cwd ++ B "/" ++ p).

(* escaping: a value whose rendering is [w]: every "{" that is followed by "{" is written
   as the action {{"{"}} *)
Definition qbrace : str := [x7b; x7b; x22; x7b; x22; x7d; x7d].
Fixpoint quote (w : str) : str :=
  match w with
  | [] => []
  | x :: r => (if beqb x c_lbrace && match r with y :: _ => beqb y c_lbrace | [] => false end
               then qbrace else [x]) ++ quote r
  end.
Fixpoint quote_n (n : nat) (w : str) : str := match n with 0 => w | S k => quote (quote_n k w) end.

(* the value contains the left delimiter *)
Fixpoint has_delim (s : str) : bool :=
  match s with
  | [] => false
  | x :: r => (beqb x c_lbrace && match r with y :: _ => beqb y c_lbrace | [] => false end) || has_delim r
  end.
