(* Proofs about the configuration model Cfg/Config.v. *)
From Coq Require Import ZArith.
From Mk Require Import Lib.Bytes Cfg.Json Cfg.Json_proofs Cfg.Config.

(* ------------------------------------------------------------------ small facts *)
Lemma orelse_assoc {A} (a b c : option A) : orelse (orelse a b) c = orelse a (orelse b c).
Proof. destruct a; reflexivity. Qed.
Lemma orelse_idem {A} (a b : option A) : orelse (orelse a b) b = orelse a b.
Proof. destruct a, b; reflexivity. Qed.
Lemma orelse_self {A} (a : option A) : orelse a a = a.
Proof. destruct a; reflexivity. Qed.
Lemma orelse_first_some {A} (a : option A) l : first_some (a :: l) = orelse a (first_some l).
Proof. destruct a; reflexivity. Qed.

Lemma rkey_eqb_eq a b : rkey_eqb a b = true <-> a = b.
Proof.
  destruct a as [a1 a2], b as [b1 b2]. unfold rkey_eqb. simpl.
  rewrite andb_true_iff, !seqb_eq. split; [intros [-> ->]; reflexivity | intros H; injection H; auto].
Qed.
Lemma rkey_eqb_refl a : rkey_eqb a a = true.
Proof. apply rkey_eqb_eq. reflexivity. Qed.

Lemma rget_app k a b : rget k (a ++ b) = orelse (rget k a) (rget k b).
Proof.
  induction a as [|[k' v] a IH]; simpl; [reflexivity|].
  destruct (rkey_eqb k k'); [reflexivity | exact IH].
Qed.

Lemma rget_filter_notin k (c p : rtmap) :
  rget k c = None ->
  rget k (filter (fun e => match rget (fst e) c with Some _ => false | None => true end) p) = rget k p.
Proof.
  intros Hc. induction p as [|[k' v] p IH]; simpl; [reflexivity|].
  destruct (rkey_eqb k k') eqn:E.
  - apply rkey_eqb_eq in E; subst k'. rewrite Hc. simpl. rewrite rkey_eqb_refl. reflexivity.
  - destruct (rget k' c); simpl; [|rewrite E]; exact IH.
Qed.

(* replace-type: an entry of the child wins, everything else is inherited *)
Lemma rget_merge_rt k parent child :
  rget k (merge_rt parent child) = orelse (rget k child) (rget k parent).
Proof.
  unfold merge_rt. rewrite rget_app.
  destruct (rget k child) eqn:Hc; [reflexivity|]. simpl. apply rget_filter_notin. exact Hc.
Qed.

(* ------------------------------------------------------------------ chains of configs *)
Definition tdj (c : cfg) : json := JObj (c_td c).

Lemma eff_cfg_cons c d more : eff_cfg (c :: d :: more) = merge_cfg (eff_cfg (d :: more)) c.
Proof. reflexivity. Qed.

Lemma ptr_eff_cfg p chain :
  c_ptr (eff_cfg chain) p = first_some (map (fun c => c_ptr c p) chain).
Proof.
  induction chain as [|c more IH]; [reflexivity|].
  destruct more as [|d more].
  - simpl. destruct (c_ptr c p); reflexivity.
  - rewrite eff_cfg_cons. unfold merge_cfg at 1. cbn [c_ptr]. rewrite IH.
    change (map (fun c0 => c_ptr c0 p) (c :: d :: more))
      with (c_ptr c p :: map (fun c0 => c_ptr c0 p) (d :: more)).
    rewrite orelse_first_some. reflexivity.
Qed.

Lemma esr_eff_cfg chain :
  c_esr (eff_cfg chain) = first_some (map c_esr chain).
Proof.
  induction chain as [|c more IH]; [reflexivity|].
  destruct more as [|d more].
  - simpl. destruct (c_esr c); reflexivity.
  - rewrite eff_cfg_cons. unfold merge_cfg at 1. cbn [c_esr]. rewrite IH.
    change (map c_esr (c :: d :: more)) with (c_esr c :: map c_esr (d :: more)).
    rewrite orelse_first_some. reflexivity.
Qed.

Lemma rt_eff_cfg k chain :
  rget k (c_rt (eff_cfg chain)) = first_some (map (fun c => rget k (c_rt c)) chain).
Proof.
  induction chain as [|c more IH]; [reflexivity|].
  destruct more as [|d more].
  - simpl. destruct (rget k (c_rt c)); reflexivity.
  - rewrite eff_cfg_cons. unfold merge_cfg at 1. cbn [c_rt]. rewrite rget_merge_rt, IH.
    change (map (fun c0 => rget k (c_rt c0)) (c :: d :: more))
      with (rget k (c_rt c) :: map (fun c0 => rget k (c_rt c0)) (d :: more)).
    rewrite orelse_first_some. reflexivity.
Qed.

Lemma tdj_merge par ch : tdj (merge_cfg par ch) = merge_json (tdj par) (tdj ch).
Proof. unfold tdj, merge_cfg. cbn [c_td]. symmetry. apply merge_json_obj. Qed.

Lemma td_eff_cfg chain :
  chain <> [] -> eff (map tdj chain) = Some (tdj (eff_cfg chain)).
Proof.
  induction chain as [|c more IH]; [congruence|]. intros _.
  destruct more as [|d more]; [reflexivity|].
  rewrite eff_cfg_cons.
  change (map tdj (c :: d :: more)) with (tdj c :: map tdj (d :: more)).
  change (eff (tdj c :: map tdj (d :: more)))
    with (Some (match eff (map tdj (d :: more)) with Some p => merge_json p (tdj c) | None => tdj c end)).
  rewrite IH by discriminate. rewrite tdj_merge. reflexivity.
Qed.

(* template-data of a merged chain: at every key path, what [resolve] specifies *)
Theorem td_chain path chain :
  chain <> [] ->
  look path (tdj (eff_cfg chain)) = resolve path (map tdj chain).
Proof.
  intros H. rewrite <- look_eff, td_eff_cfg by exact H. reflexivity.
Qed.

(* ------------------------------------------------------------------ equivalence of configs *)
Definition cfg_equiv (a b : cfg) : Prop :=
  (forall p, c_ptr a p = c_ptr b p) /\ jeq (tdj a) (tdj b)
  /\ (forall k, rget k (c_rt a) = rget k (c_rt b)) /\ c_esr a = c_esr b.

Lemma cfg_equiv_refl a : cfg_equiv a a.
Proof. repeat split; intros; try reflexivity. Qed.
Lemma cfg_equiv_sym a b : cfg_equiv a b -> cfg_equiv b a.
Proof.
  intros (H1 & H2 & H3 & H4). split; [|split; [|split]].
  - intros p. symmetry. apply H1.
  - apply jeq_sym. exact H2.
  - intros k. symmetry. apply H3.
  - symmetry. exact H4.
Qed.
Lemma cfg_equiv_trans a b c : cfg_equiv a b -> cfg_equiv b c -> cfg_equiv a c.
Proof.
  intros (H1 & H2 & H3 & H4) (G1 & G2 & G3 & G4). repeat split; intros.
  - rewrite H1. apply G1.
  - eapply jeq_trans; eassumption.
  - rewrite H3. apply G3.
  - congruence.
Qed.

Lemma merge_cfg_congr par par' ch ch' :
  cfg_equiv par par' -> cfg_equiv ch ch' -> cfg_equiv (merge_cfg par ch) (merge_cfg par' ch').
Proof.
  intros (H1 & H2 & H3 & H4) (G1 & G2 & G3 & G4). repeat split; intros.
  - simpl. rewrite H1, G1. reflexivity.
  - rewrite !tdj_merge. apply merge_congr; assumption.
  - simpl. rewrite !rget_merge_rt, H3, G3. reflexivity.
  - simpl. congruence.
Qed.

(* merging the same parent a second time changes nothing (second Initialize of RootApp.Run) *)
Lemma merge_cfg_idem par ch : cfg_equiv (merge_cfg par (merge_cfg par ch)) (merge_cfg par ch).
Proof.
  repeat split; intros.
  - simpl. apply orelse_idem.
  - rewrite !tdj_merge. apply merge_idem.
  - simpl. rewrite !rget_merge_rt. apply orelse_idem.
  - simpl. apply orelse_idem.
Qed.

(* merging a config into itself (recursive package matching its own `p/...`) *)
Lemma merge_cfg_self c : cfg_equiv (merge_cfg c c) c.
Proof.
  repeat split; intros.
  - simpl. apply orelse_self.
  - rewrite tdj_merge. apply merge_self.
  - simpl. rewrite rget_merge_rt. apply orelse_self.
  - simpl. apply orelse_self.
Qed.

(* ------------------------------------------------------------------ sources *)
Theorem sources_ptr env file flags p :
  c_ptr (new_root_config env file flags) p
  = first_some [c_ptr flags p; c_ptr file p; c_ptr env p; c_ptr default_cfg p].
Proof.
  unfold new_root_config. generalize default_cfg. intros d.
  unfold merge_cfg. cbn [c_ptr].
  destruct (c_ptr flags p), (c_ptr file p), (c_ptr env p), (c_ptr d p); reflexivity.
Qed.

Theorem sources_chain env file flags :
  new_root_config env file flags = eff_cfg [flags; file; env; default_cfg].
Proof. reflexivity. Qed.

Lemma default_total : total default_cfg = true.
Proof. reflexivity. Qed.

Lemma total_spec c : total c = true <-> forall p, c_ptr c p <> None.
Proof.
  unfold total. rewrite forallb_forall. split.
  - intros H p. assert (In p all_pparams) as Hin by (destruct p; simpl; tauto).
    specialize (H p Hin). destruct (c_ptr c p); [discriminate | discriminate].
  - intros H p _. specialize (H p). destruct (c_ptr c p); [reflexivity | congruence].
Qed.

Lemma total_merge_l par ch : total par = true -> total (merge_cfg par ch) = true.
Proof.
  rewrite !total_spec. intros H p. simpl. specialize (H p).
  destruct (c_ptr ch p); [discriminate | exact H].
Qed.

Lemma total_merge_r par ch : total ch = true -> total (merge_cfg par ch) = true.
Proof.
  rewrite !total_spec. intros H p. simpl. specialize (H p).
  destruct (c_ptr ch p); [discriminate | congruence].
Qed.

Theorem root_total env file flags : total (new_root_config env file flags) = true.
Proof. unfold new_root_config. do 3 apply total_merge_l. apply default_total. Qed.

Lemma no_panic_total_parent par ch : total par = true -> merge_panics par ch = false.
Proof.
  rewrite total_spec. intros H. unfold merge_panics.
  apply not_true_is_false. intros E. apply existsb_exists in E. destruct E as (p & _ & E).
  specialize (H p). destruct (c_ptr par p); [discriminate | congruence].
Qed.

(* a merge that does not panic leaves its destination total *)
Lemma no_panic_total par ch : merge_panics par ch = false -> total (merge_cfg par ch) = true.
Proof.
  intros H. apply total_spec. intros p. simpl.
  destruct (c_ptr ch p) eqn:Ec; [discriminate|]. simpl.
  destruct (c_ptr par p) eqn:Ep; [discriminate|]. exfalso.
  unfold merge_panics in H. apply Bool.not_true_iff_false in H. apply H.
  apply existsb_exists. exists p. split; [destruct p; simpl; tauto|]. rewrite Ec, Ep. reflexivity.
Qed.

Lemma iface_no_panic pc i : total pc = true -> iface_panics pc i = false.
Proof.
  intros H. unfold iface_panics. rewrite no_panic_total_parent by exact H. simpl.
  apply not_true_is_false. intros E. apply existsb_exists in E. destruct E as (c & _ & E).
  rewrite no_panic_total_parent in E; [discriminate|]. apply total_merge_l. exact H.
Qed.

Lemma pkg_no_panic root p : total root = true -> pkg_panics root p = false.
Proof.
  intros H. unfold pkg_panics. rewrite no_panic_total_parent by exact H. simpl.
  apply not_true_is_false. intros E. apply existsb_exists in E. destruct E as (e & _ & E).
  rewrite iface_no_panic in E; [discriminate|]. apply total_merge_l. exact H.
Qed.

(* below a total root nothing panics *)
Theorem initialize_ok rx disc t : total (t_root t) = true -> initialize rx disc t = Ok (init_pure rx disc t).
Proof.
  intros H. unfold initialize.
  destruct (existsb _ (t_pkgs t)) eqn:E; [|reflexivity].
  apply existsb_exists in E. destruct E as (e & _ & E). rewrite pkg_no_panic in E; [discriminate | exact H].
Qed.

Lemma init_pure_root rx disc t : t_root (init_pure rx disc t) = t_root t.
Proof. reflexivity. Qed.

Theorem run_config_ok rx disc t :
  total (t_root t) = true -> run_config rx disc t = Ok (init_pure rx disc (init_pure rx disc t)).
Proof.
  intros H. unfold run_config. rewrite initialize_ok by exact H.
  apply initialize_ok. exact H.
Qed.

(* the recursive step merges from a package whose config is total *)
Lemma rec_parent_total root p : pkg_panics root p = false -> total (pc_config (init_pkg root p)) = true.
Proof.
  unfold pkg_panics. intros H. apply orb_false_iff in H. destruct H as [H _].
  simpl. apply no_panic_total. exact H.
Qed.

(* ------------------------------------------------------------------ association lists *)
Lemma get_map {A B} (f : A -> B) k (l : list (str * A)) :
  get k (map (fun e => (fst e, f (snd e))) l) = option_map f (get k l).
Proof.
  induction l as [|[k' v] l IH]; simpl; [reflexivity|].
  destruct (seqb k k'); [reflexivity | exact IH].
Qed.

Lemma get_set_same {A} k (v : A) l : get k (set k v l) = Some v.
Proof.
  induction l as [|[k' v'] l IH]; simpl; [rewrite seqb_refl; reflexivity|].
  destruct (seqb k k') eqn:E; simpl; [rewrite seqb_refl; reflexivity | rewrite E; exact IH].
Qed.

Lemma get_set_other {A} k k' (v : A) l : k <> k' -> get k (set k' v l) = get k l.
Proof.
  intros Hne. induction l as [|[k2 v2] l IH]; simpl.
  - apply seqb_neq in Hne. rewrite Hne. reflexivity.
  - destruct (seqb k' k2) eqn:E; simpl.
    + apply seqb_eq in E; subst k2. apply seqb_neq in Hne. rewrite Hne. reflexivity.
    + destruct (seqb k k2); [reflexivity | exact IH].
Qed.

(* ------------------------------------------------------------------ the recursive step *)
(* package [pkg] is not a discovered sub-package of any recursive package *)
Definition untouched (disc : list (str * list str)) (pkg : str) : Prop :=
  forall parent subs, get parent disc = Some subs -> ~ In pkg subs.

Lemma fold_set_untouched {A} (f : list (str * A) -> str -> A) pkg subs : forall acc,
  ~ In pkg subs ->
  get pkg (fold_left (fun acc sub => set sub (f acc sub) acc) subs acc) = get pkg acc.
Proof.
  induction subs as [|s subs IH]; intros acc Hn; [reflexivity|].
  simpl. rewrite IH by (intros H; apply Hn; now right).
  apply get_set_other. intros ->. apply Hn. now left.
Qed.

Lemma rec_step_untouched rx disc pkgs parent pkg :
  untouched disc pkg -> get pkg (rec_step rx disc pkgs parent) = get pkg pkgs.
Proof.
  intros Hu. unfold rec_step. destruct (get parent pkgs) as [pp|]; [|reflexivity].
  destruct (get parent disc) as [subs|] eqn:Hd.
  - apply (fold_set_untouched
             (fun acc sub => {| pc_config := merge_cfg (pc_config pp)
                                  (pc_config (match get sub acc with Some x => x | None => empty_pcfg end));
                                pc_ifaces := pc_ifaces (match get sub acc with Some x => x | None => empty_pcfg end) |})).
    intros Hin. apply filter_In in Hin. destruct Hin as [Hin _]. eapply Hu; [exact Hd | exact Hin].
  - reflexivity.
Qed.

Lemma rec_fold_untouched rx disc recs pkg : forall pkgs,
  untouched disc pkg -> get pkg (fold_left (rec_step rx disc) recs pkgs) = get pkg pkgs.
Proof.
  induction recs as [|r recs IH]; intros pkgs Hu; [reflexivity|].
  simpl. rewrite IH by exact Hu. apply rec_step_untouched. exact Hu.
Qed.

(* a package that no recursive package discovers comes out of Initialize as root -> package ->
   interfaces -> configs, whatever else is in the tree *)
Lemma init_pure_untouched rx disc t pkg :
  untouched disc pkg ->
  get pkg (t_pkgs (init_pure rx disc t)) = option_map (init_pkg (t_root t)) (get pkg (t_pkgs t)).
Proof.
  intros Hu. unfold init_pure. simpl. rewrite rec_fold_untouched by exact Hu.
  apply (get_map (init_pkg (t_root t))).
Qed.

(* ------------------------------------------------------------------ one mock, two passes *)
Lemma get_iface_init c name ifaces :
  get name (pc_ifaces (init_pkg c {| pc_config := empty_cfg; pc_ifaces := ifaces |}))
  = option_map (init_iface (merge_cfg c empty_cfg)) (get name ifaces).
Proof. simpl. apply (get_map (init_iface (merge_cfg c empty_cfg))). Qed.

Lemma nth_error_map' {A B} (f : A -> B) l n : nth_error (map f l) n = option_map f (nth_error l n).
Proof. revert n; induction l as [|x l IH]; intros [|n]; simpl; auto. Qed.

(* The effective config of a mock after the two Initialize calls of a run is the top-down merge
   of its own chain. *)
Theorem effective_chain rx disc t m c :
  untouched disc (m_pkg m) ->
  mock_cfg (init_pure rx disc (init_pure rx disc t)) m = Some c ->
  cfg_equiv c (eff_cfg (written_chain t m)).
Proof.
  intros Hu. unfold mock_cfg, written_chain.
  rewrite init_pure_untouched by exact Hu. rewrite init_pure_root.
  rewrite init_pure_untouched by exact Hu.
  destruct (get (m_pkg m) (t_pkgs t)) as [pc|]; [|discriminate].
  simpl option_map. set (R := t_root t). destruct pc as [P ifaces].
  unfold iface_cfgs. simpl pc_ifaces. simpl pc_config.
  rewrite !(get_map (init_iface _)).
  (* package level, twice *)
  assert (cfg_equiv (merge_cfg R (merge_cfg R P)) (merge_cfg R P)) as HP by apply merge_cfg_idem.
  destruct (get (m_iface m) ifaces) as [[I cs]|]; simpl option_map.
  2:{ (* not listed: a copy of the package config *)
      destruct (m_idx m) as [|n]; simpl; [|destruct n; discriminate].
      intros H; injection H as <-. exact HP. }
  unfold init_iface at 1 2. simpl ic_configs. simpl ic_config.
  set (P1 := merge_cfg R P) in *. set (P2 := merge_cfg R P1) in *.
  set (I1 := merge_cfg P1 I). set (I2 := merge_cfg P2 I1).
  assert (cfg_equiv I2 I1) as HI.
  { eapply cfg_equiv_trans; [apply merge_cfg_congr; [exact HP | apply cfg_equiv_refl]|].
    apply merge_cfg_idem. }
  rewrite map_map.
  destruct cs as [|c0 cs].
  - (* no configs entry: the interface config itself *)
    simpl map. destruct (m_idx m) as [|n]; simpl; [|destruct n; discriminate].
    intros H; injection H as <-. exact HI.
  - set (l := c0 :: cs).
    assert (map (fun x => merge_cfg I2 (merge_cfg I1 x)) l <> []) as Hne by (unfold l; discriminate).
    destruct (map (fun x => merge_cfg I2 (merge_cfg I1 x)) l) as [|y ys] eqn:El; [congruence|].
    rewrite <- El. clear El Hne y ys.
    rewrite nth_error_map'.
    destruct (nth_error l (m_idx m)) as [C|] eqn:En; [|discriminate].
    simpl. intros H; injection H as <-.
    eapply cfg_equiv_trans; [apply merge_cfg_congr; [exact HI | apply cfg_equiv_refl]|].
    apply merge_cfg_idem.
Qed.

(* after the first call only (what `mockery showconfig` prints): exact, not only equivalent *)
Theorem showconfig_pkg rx disc t pkg :
  untouched disc pkg ->
  get pkg (t_pkgs (init_pure rx disc t)) = option_map (init_pkg (t_root t)) (get pkg (t_pkgs t)).
Proof. apply init_pure_untouched. Qed.

(* ------------------------------------------------------------------ consequences *)
Section Chain.
  Variables (rx : str -> str -> bool) (disc : list (str * list str)) (t : tree) (m : mock) (c : cfg).
  Hypothesis Hu : untouched disc (m_pkg m).
  Hypothesis Hc : mock_cfg (init_pure rx disc (init_pure rx disc t)) m = Some c.

  Lemma written_chain_nonempty : written_chain t m <> [].
  Proof.
    unfold mock_cfg in Hc. rewrite init_pure_untouched in Hc by exact Hu.
    rewrite init_pure_untouched in Hc by exact Hu.
    unfold written_chain. destruct (get (m_pkg m) (t_pkgs t)) as [pc|]; [|discriminate].
    destruct (get (m_iface m) (pc_ifaces pc)) as [ic|]; [|discriminate].
    destruct (nth_error (ic_configs ic) (m_idx m)); discriminate.
  Qed.

  Theorem scalar_first_set p :
    c_ptr c p = first_some (map (fun x => c_ptr x p) (written_chain t m)).
  Proof.
    destruct (effective_chain rx disc t m c Hu Hc) as (H & _). rewrite H. apply ptr_eff_cfg.
  Qed.

  Theorem esr_first_set : c_esr c = first_some (map c_esr (written_chain t m)).
  Proof.
    destruct (effective_chain rx disc t m c Hu Hc) as (_ & _ & _ & H). rewrite H. apply esr_eff_cfg.
  Qed.

  Theorem replace_type_first_set k :
    rget k (c_rt c) = first_some (map (fun x => rget k (c_rt x)) (written_chain t m)).
  Proof.
    destruct (effective_chain rx disc t m c Hu Hc) as (_ & _ & H & _). rewrite H. apply rt_eff_cfg.
  Qed.

  Theorem template_data_resolve path :
    look path (tdj c) = resolve path (map tdj (written_chain t m)).
  Proof.
    destruct (effective_chain rx disc t m c Hu Hc) as (_ & H & _). rewrite H.
    apply td_chain. exact written_chain_nonempty.
  Qed.

  Theorem template_data_first_set path :
    Forall (clean path) (map tdj (written_chain t m)) ->
    look path (tdj c) = first_some (map (fun x => look path (tdj x)) (written_chain t m)).
  Proof.
    intros H. rewrite template_data_resolve, resolve_first_some by exact H.
    rewrite map_map. reflexivity.
  Qed.
End Chain.

(* no leak: two trees that write the same chain for a mock give it the same effective config,
   whatever else they contain *)
Theorem no_leak rx disc t t' m c c' :
  untouched disc (m_pkg m) ->
  written_chain t m = written_chain t' m ->
  mock_cfg (init_pure rx disc (init_pure rx disc t)) m = Some c ->
  mock_cfg (init_pure rx disc (init_pure rx disc t')) m = Some c' ->
  cfg_equiv c c'.
Proof.
  intros Hu E H H'.
  eapply cfg_equiv_trans; [eapply effective_chain; eassumption|].
  rewrite E. apply cfg_equiv_sym. eapply effective_chain; eassumption.
Qed.

(* ------------------------------------------------------------------ the generation plan *)
Definition file_inv (f : fplan) : Prop :=
  f_mocks f <> [] /\
  forall mc, In mc (f_mocks f) ->
    out_path (snd mc) = f_path f /\ str_of (c_ptr (snd mc) PPkgName) = f_pkgname f
    /\ str_of (c_ptr (snd mc) PTemplate) = f_template f /\ m_pkg (fst mc) = f_srcpkg f.

Lemma find_file_in path fs f : find_file path fs = Some f -> In f fs /\ f_path f = path.
Proof.
  induction fs as [|g fs IH]; simpl; [discriminate|].
  destruct (seqb path (f_path g)) eqn:E.
  - intros H; injection H as ->. apply seqb_eq in E. split; [now left | congruence].
  - intros H. destruct (IH H) as [H1 H2]. split; [now right | exact H2].
Qed.

Lemma put_file_in f fs g : In g (put_file f fs) -> g = f \/ In g fs.
Proof.
  induction fs as [|h fs IH]; simpl.
  - intros [H|[]]; left; congruence.
  - destruct (seqb (f_path f) (f_path h)); simpl.
    + intros [H|H]; [left; congruence | right; now right].
    + intros [H|H]; [right; now left|]. destruct (IH H) as [G|G]; [now left | right; now right].
Qed.

Lemma add_mock_inv fs mc fs' :
  Forall file_inv fs -> add_mock (PlanOk fs) mc = PlanOk fs' -> Forall file_inv fs'.
Proof.
  intros Hall. unfold add_mock.
  destruct (find_file (out_path (snd mc)) fs) as [f|] eqn:Ef.
  - destruct (seqb (f_pkgname f) _ && seqb (f_srcpkg f) _ && seqb (f_template f) _) eqn:Ec; [|discriminate].
    intros H; injection H as <-.
    apply andb_true_iff in Ec. destruct Ec as [Ec E3]. apply andb_true_iff in Ec. destruct Ec as [E1 E2].
    apply seqb_eq in E1, E2, E3.
    destruct (find_file_in _ _ _ Ef) as [Hin Hp].
    rewrite Forall_forall in Hall. pose proof (Hall f Hin) as [Hne Hf].
    apply Forall_forall. intros g Hg. apply put_file_in in Hg. destruct Hg as [->|Hg]; [|apply Hall; exact Hg].
    split; simpl.
    + destruct (f_mocks f); discriminate.
    + intros x Hx. rewrite <- Hp. apply in_app_iff in Hx.
      destruct Hx as [Hx|[<-|[]]]; [apply Hf; exact Hx|].
      repeat split; congruence.
  - intros H; injection H as <-. apply Forall_app. split; [exact Hall|].
    constructor; [|constructor]. split; simpl; [discriminate|].
    intros x [<-|[]]. repeat split; reflexivity.
Qed.

Lemma add_mock_err mc : add_mock PlanErr mc = PlanErr.
Proof. reflexivity. Qed.

Lemma fold_add_mock_err ms : fold_left add_mock ms PlanErr = PlanErr.
Proof. induction ms as [|x ms IH]; simpl; [reflexivity | exact IH]. Qed.

Lemma fold_add_mock_inv ms : forall fs fs',
  Forall file_inv fs -> fold_left add_mock ms (PlanOk fs) = PlanOk fs' -> Forall file_inv fs'.
Proof.
  induction ms as [|x ms IH]; intros fs fs' Hall H.
  - simpl in H. injection H as <-. exact Hall.
  - cbn [fold_left] in H. destruct (add_mock (PlanOk fs) x) as [|fs1] eqn:E.
    + rewrite fold_add_mock_err in H. discriminate.
    + eapply IH; [|exact H]. eapply add_mock_inv; eassumption.
Qed.

(* Every file of a plan is non-empty and all its mocks agree with it on output path, package
   name, template and source package. *)
Theorem plan_files ms fs : make_plan ms = PlanOk fs -> Forall file_inv fs.
Proof. intros H. eapply fold_add_mock_inv; [constructor | exact H]. Qed.

(* per-file consumers: the value read for the file is the effective value of every mock in it,
   unconditionally for the template (Append refuses anything else), and for every other
   per-file parameter on which the mocks of the file agree *)
Theorem file_level_template ms fs f mc :
  make_plan ms = PlanOk fs -> In f fs -> In mc (f_mocks f) ->
  str_of (c_ptr (file_cfg f) PTemplate) = str_of (c_ptr (snd mc) PTemplate).
Proof.
  intros Hp Hf Hm. pose proof (plan_files _ _ Hp) as Hall. rewrite Forall_forall in Hall.
  destruct (Hall f Hf) as [Hne Hinv]. unfold file_cfg.
  destruct (f_mocks f) as [|m0 rest] eqn:E; [congruence|].
  destruct (Hinv m0 (or_introl eq_refl)) as (_ & _ & H0 & _).
  destruct (Hinv mc Hm) as (_ & _ & H1 & _). congruence.
Qed.

Theorem file_level_agree f mc (proj : cfg -> option scalar) :
  In mc (f_mocks f) ->
  (forall x y, In x (f_mocks f) -> In y (f_mocks f) -> proj (snd x) = proj (snd y)) ->
  proj (file_cfg f) = proj (snd mc).
Proof.
  intros Hm Hag. unfold file_cfg. destruct (f_mocks f) as [|m0 rest] eqn:E; [destruct Hm|].
  apply Hag; [now left | exact Hm].
Qed.

Theorem file_level_agree_td f mc :
  In mc (f_mocks f) ->
  (forall x y, In x (f_mocks f) -> In y (f_mocks f) -> c_td (snd x) = c_td (snd y)) ->
  c_td (file_cfg f) = c_td (snd mc).
Proof.
  intros Hm Hag. unfold file_cfg. destruct (f_mocks f) as [|m0 rest] eqn:E; [destruct Hm|].
  apply Hag; [now left | exact Hm].
Qed.

(* ------------------------------------------------------------------ scalars, for every configured package *)
(* The recursive step can add template-data / replace-type entries of the recursive package to a
   configured sub-package, but never changes a pointer parameter: below a total root every
   config is total after the first loop, and merging into a total config leaves its pointers. *)
Definition ptr_eq (a b : cfg) : Prop := forall p, c_ptr a p = c_ptr b p.
Definition irel (a b : icfg) : Prop :=
  ptr_eq (ic_config a) (ic_config b) /\ Forall2 ptr_eq (ic_configs a) (ic_configs b).
Definition prel (a b : pcfg) : Prop :=
  ptr_eq (pc_config a) (pc_config b)
  /\ Forall2 (fun x y => fst x = fst y /\ irel (snd x) (snd y)) (pc_ifaces a) (pc_ifaces b).

Lemma ptr_eq_refl a : ptr_eq a a.
Proof. intros p. reflexivity. Qed.
Lemma ptr_eq_trans a b c : ptr_eq a b -> ptr_eq b c -> ptr_eq a c.
Proof. intros H1 H2 p. rewrite H1. apply H2. Qed.

Lemma Forall2_refl {A} (R : A -> A -> Prop) l : (forall x, R x x) -> Forall2 R l l.
Proof. intros H. induction l; constructor; auto. Qed.

Lemma Forall2_trans {A} (R : A -> A -> Prop) :
  (forall x y z, R x y -> R y z -> R x z) -> forall l1 l2 l3, Forall2 R l1 l2 -> Forall2 R l2 l3 -> Forall2 R l1 l3.
Proof.
  intros HT l1 l2 l3 H12. revert l3. induction H12; intros l3 H23; inversion H23; subst; constructor; eauto.
Qed.

Lemma irel_refl a : irel a a.
Proof. split; [apply ptr_eq_refl | apply Forall2_refl, ptr_eq_refl]. Qed.
Lemma irel_trans a b c : irel a b -> irel b c -> irel a c.
Proof.
  intros [H1 H2] [G1 G2]. split; [eapply ptr_eq_trans; eassumption|].
  eapply Forall2_trans; [apply ptr_eq_trans | eassumption | eassumption].
Qed.
Lemma prel_refl a : prel a a.
Proof. split; [apply ptr_eq_refl|]. apply Forall2_refl. intros x. split; [reflexivity | apply irel_refl]. Qed.
Lemma prel_trans a b c : prel a b -> prel b c -> prel a c.
Proof.
  intros [H1 H2] [G1 G2]. split; [eapply ptr_eq_trans; eassumption|].
  eapply Forall2_trans; [|eassumption|eassumption].
  intros x y z [E1 R1] [E2 R2]. split; [congruence | eapply irel_trans; eassumption].
Qed.

Lemma ptr_eq_merge par par' ch ch' :
  ptr_eq par par' -> ptr_eq ch ch' -> ptr_eq (merge_cfg par ch) (merge_cfg par' ch').
Proof. intros H1 H2 p. simpl. rewrite H1, H2. reflexivity. Qed.

Lemma ptr_eq_merge_total par ch : total ch = true -> ptr_eq (merge_cfg par ch) ch.
Proof.
  intros H p. simpl. apply total_spec with (p := p) in H. destruct (c_ptr ch p); [reflexivity | congruence].
Qed.

Lemma init_iface_rel c c' i i' : ptr_eq c c' -> irel i i' -> irel (init_iface c i) (init_iface c' i').
Proof.
  intros Hc [H1 H2]. unfold init_iface. split; simpl.
  - apply ptr_eq_merge; assumption.
  - induction H2; simpl; constructor; [|assumption].
    apply ptr_eq_merge; [apply ptr_eq_merge; assumption | assumption].
Qed.

Lemma init_pkg_rel r a b : prel a b -> prel (init_pkg r a) (init_pkg r b).
Proof.
  intros [H1 H2]. unfold init_pkg. split; simpl.
  - apply ptr_eq_merge; [apply ptr_eq_refl | exact H1].
  - induction H2 as [|x y l l' [E R] _ IH]; simpl; constructor; [|exact IH].
    split; [exact E|]. apply init_iface_rel; [|exact R]. apply ptr_eq_merge; [apply ptr_eq_refl | exact H1].
Qed.

(* the fold over the recursive packages keeps every total entry, up to [prel] *)
Definition keeps (base acc : list (str * pcfg)) : Prop :=
  forall k a, get k base = Some a -> total (pc_config a) = true ->
              exists b, get k acc = Some b /\ prel a b.

Lemma rec_step_keeps rx disc base acc parent : keeps base acc -> keeps base (rec_step rx disc acc parent).
Proof.
  intros HK. unfold rec_step. destruct (get parent acc) as [pp|]; [|exact HK].
  generalize (filter (fun sub => negb (excluded rx (c_esr (pc_config pp)) sub))
                     (match get parent disc with Some l => l | None => [] end)). intros subs.
  revert acc HK. induction subs as [|s subs IH]; intros acc HK; [exact HK|].
  simpl. apply IH. intros k a Ha Ht. destruct (HK k a Ha Ht) as (b & Hb & Hr).
  destruct (str_dec k s) as [->|Hne].
  - rewrite get_set_same. eexists. split; [reflexivity|]. rewrite Hb. simpl.
    destruct Hr as [R1 R2]. split; simpl; [|exact R2].
    intros p. simpl. rewrite <- (R1 p).
    apply total_spec with (p := p) in Ht. destruct (c_ptr (pc_config a) p); [reflexivity | congruence].
  - rewrite get_set_other by exact Hne. eauto.
Qed.

Lemma rec_fold_keeps rx disc base recs : forall acc, keeps base acc -> keeps base (fold_left (rec_step rx disc) recs acc).
Proof.
  induction recs as [|r recs IH]; intros acc HK; [exact HK|]. simpl. apply IH. apply rec_step_keeps. exact HK.
Qed.

Lemma keeps_refl l : keeps l l.
Proof. intros k a Ha _. exists a. split; [exact Ha | apply prel_refl]. Qed.

(* one Initialize with discovery vs. without, on related trees *)
Lemma init_pure_rel rx disc root pk pk' k a :
  total root = true ->
  (forall x, get k pk = Some x -> exists y, get k pk' = Some y /\ prel x y) ->
  get k (t_pkgs (init_pure rx [] {| t_root := root; t_pkgs := pk |})) = Some a ->
  exists b, get k (t_pkgs (init_pure rx disc {| t_root := root; t_pkgs := pk' |})) = Some b /\ prel a b.
Proof.
  intros Ht Hrel Ha. unfold init_pure in *. simpl in *.
  assert (forall recs l, fold_left (rec_step rx []) recs l = l) as Hid.
  { induction recs as [|r recs IH]; intros l; [reflexivity|]. simpl. rewrite <- (IH l) at 2. f_equal.
    unfold rec_step. destruct (get r l); reflexivity. }
  rewrite Hid in Ha. rewrite (get_map (init_pkg root)) in Ha.
  destruct (get k pk) as [x|] eqn:Ex; [|discriminate]. simpl in Ha. injection Ha as <-.
  destruct (Hrel x eq_refl) as (y & Ey & Rxy).
  assert (keeps (map (fun e => (fst e, init_pkg root (snd e))) pk')
                (fold_left (rec_step rx disc)
                   (sort_desc (map fst (filter (fun e => is_true (c_ptr (pc_config (snd e)) PRecursive))
                                    (map (fun e => (fst e, init_pkg root (snd e))) pk'))))
                   (map (fun e => (fst e, init_pkg root (snd e))) pk'))) as HK
    by (apply rec_fold_keeps, keeps_refl).
  destruct (HK k (init_pkg root y)) as (b & Hb & Rb).
  - rewrite (get_map (init_pkg root)), Ey. reflexivity.
  - simpl. apply total_merge_l. exact Ht.
  - exists b. split; [exact Hb|]. eapply prel_trans; [apply init_pkg_rel; exact Rxy | exact Rb].
Qed.

Lemma get_rel_ifaces name l l' :
  Forall2 (fun x y => fst x = fst y /\ irel (snd x) (snd y)) l l' ->
  match get name l, get name l' with
  | Some i, Some i' => irel i i'
  | None, None => True
  | _, _ => False
  end.
Proof.
  induction 1 as [|[n i] [n' i'] l l' [E R] _ IH]; simpl; [exact I|].
  simpl in E. subst n'. destruct (seqb name n); [exact R | exact IH].
Qed.

Lemma nth_error_rel {A} (R : A -> A -> Prop) l l' n :
  Forall2 R l l' ->
  match nth_error l n, nth_error l' n with
  | Some a, Some b => R a b
  | None, None => True
  | _, _ => False
  end.
Proof.
  intros H. revert n. induction H as [|x y l l' Hxy _ IH]; intros [|n]; simpl; auto. apply IH.
Qed.

Lemma iface_cfgs_rel x y name : prel x y -> Forall2 ptr_eq (iface_cfgs x name) (iface_cfgs y name).
Proof.
  intros [R1 R2]. unfold iface_cfgs.
  pose proof (get_rel_ifaces name _ _ R2) as Hi.
  destruct (get name (pc_ifaces x)) as [i|], (get name (pc_ifaces y)) as [i'|]; try contradiction.
  - destruct Hi as [G1 G2]. inversion G2; subst; [constructor; [exact G1 | constructor]|].
    constructor; assumption.
  - constructor; [exact R1 | constructor].
Qed.

Lemma mock_cfg_rel r r' pk pk' m x y :
  get (m_pkg m) pk = Some x -> get (m_pkg m) pk' = Some y -> prel x y ->
  match mock_cfg {| t_root := r; t_pkgs := pk |} m, mock_cfg {| t_root := r'; t_pkgs := pk' |} m with
  | Some c, Some c' => ptr_eq c c'
  | None, None => True
  | _, _ => False
  end.
Proof.
  intros Hx Hy R. unfold mock_cfg. simpl. rewrite Hx, Hy.
  apply nth_error_rel. apply iface_cfgs_rel. exact R.
Qed.

(* C08_scalar for every configured package, recursive parents or not *)
Theorem scalar_first_set_all rx disc t m c p :
  total (t_root t) = true ->
  has_key (m_pkg m) (t_pkgs t) = true ->
  mock_cfg (init_pure rx disc (init_pure rx disc t)) m = Some c ->
  c_ptr c p = first_some (map (fun x => c_ptr x p) (written_chain t m)).
Proof.
  intros Ht Hk Hc.
  assert (untouched [] (m_pkg m)) as Hu by (intros parent subs H; discriminate).
  destruct t as [root pk]. simpl in Ht.
  set (u2 := init_pure rx [] (init_pure rx [] {| t_root := root; t_pkgs := pk |})).
  set (d2 := init_pure rx disc (init_pure rx disc {| t_root := root; t_pkgs := pk |})) in *.
  (* pass 1 relation *)
  assert (forall k a, get k (t_pkgs (init_pure rx [] {| t_root := root; t_pkgs := pk |})) = Some a ->
            exists b, get k (t_pkgs (init_pure rx disc {| t_root := root; t_pkgs := pk |})) = Some b /\ prel a b) as H1.
  { intros k a Ha. eapply init_pure_rel; [exact Ht | | exact Ha].
    intros x Hx. exists x. split; [exact Hx | apply prel_refl]. }
  (* pass 2 relation *)
  assert (forall a, get (m_pkg m) (t_pkgs u2) = Some a ->
            exists b, get (m_pkg m) (t_pkgs d2) = Some b /\ prel a b) as H2.
  { intros a Ha. unfold u2 in Ha. unfold d2.
    change (init_pure rx [] {| t_root := root; t_pkgs := pk |})
      with {| t_root := root; t_pkgs := t_pkgs (init_pure rx [] {| t_root := root; t_pkgs := pk |}) |} in Ha.
    change (init_pure rx disc {| t_root := root; t_pkgs := pk |})
      with {| t_root := root; t_pkgs := t_pkgs (init_pure rx disc {| t_root := root; t_pkgs := pk |}) |}.
    eapply init_pure_rel; [exact Ht | | exact Ha]. intros x Hx. apply H1. exact Hx. }
  unfold has_key in Hk. simpl in Hk.
  destruct (get (m_pkg m) pk) as [pc|] eqn:Epk; [|discriminate].
  assert (exists a, get (m_pkg m) (t_pkgs u2) = Some a) as (a & Ea).
  { unfold u2. rewrite !init_pure_untouched by exact Hu. simpl. rewrite Epk. simpl. eauto. }
  destruct (H2 a Ea) as (b & Eb & Rab).
  pose proof (mock_cfg_rel (t_root u2) (t_root d2) (t_pkgs u2) (t_pkgs d2) m a b Ea Eb Rab) as Hm.
  assert (mock_cfg {| t_root := t_root d2; t_pkgs := t_pkgs d2 |} m = Some c) as Hc' by (destruct d2; exact Hc).
  rewrite Hc' in Hm.
  destruct (mock_cfg {| t_root := t_root u2; t_pkgs := t_pkgs u2 |} m) as [c0|] eqn:Hc0; [|contradiction].
  rewrite <- (Hm p).
  assert (mock_cfg u2 m = Some c0) as Hc0' by (destruct u2; exact Hc0).
  exact (scalar_first_set rx [] {| t_root := root; t_pkgs := pk |} m c0 Hu Hc0' p).
Qed.

(* the guard of the chain theorems as a boolean *)
Definition untouchedb (disc : list (str * list str)) (pkg : str) : bool :=
  forallb (fun e => negb (smem pkg (snd e))) disc.

Lemma get_in {A} k (l : list (str * A)) v : get k l = Some v -> In (k, v) l.
Proof.
  induction l as [|[k' v'] l IH]; simpl; [discriminate|].
  destruct (seqb k k') eqn:E; [|intros H; right; apply IH; exact H].
  apply seqb_eq in E. subst. intros H; injection H as ->. now left.
Qed.

Lemma untouchedb_spec disc pkg : untouchedb disc pkg = true -> untouched disc pkg.
Proof.
  unfold untouchedb. rewrite forallb_forall. intros H parent subs Hg Hin.
  specialize (H _ (get_in _ _ _ Hg)). simpl in H.
  apply smem_In in Hin. rewrite Hin in H. discriminate.
Qed.

(* ------------------------------------------------------------------ sub-package exclusion *)
(* The list consulted for the sub-packages of a recursive package is that package's own merged
   list: the package's list if it writes one - also an explicitly empty one - else the top
   level's; an excluded sub-package is left exactly as it was by this package's step. *)
Lemma esr_of_package root p :
  c_esr (pc_config (init_pkg root p)) = orelse (c_esr (pc_config p)) (c_esr root).
Proof. reflexivity. Qed.

Lemma rec_step_excluded rx disc pkgs parent pp sub :
  get parent pkgs = Some pp ->
  excluded rx (c_esr (pc_config pp)) sub = true ->
  get sub (rec_step rx disc pkgs parent) = get sub pkgs.
Proof.
  intros Hp Hex. unfold rec_step. rewrite Hp.
  apply (fold_set_untouched
           (fun acc s => {| pc_config := merge_cfg (pc_config pp)
                                (pc_config (match get s acc with Some x => x | None => empty_pcfg end));
                            pc_ifaces := pc_ifaces (match get s acc with Some x => x | None => empty_pcfg end) |})).
  intros Hin. apply filter_In in Hin. destruct Hin as [_ H]. rewrite Hex in H. discriminate.
Qed.

Lemma explicit_empty_excludes_nothing rx pkg : excluded rx (Some []) pkg = false.
Proof. reflexivity. Qed.
