(* C12 - template-data is validated against the template's JSON schema at every level.
   Model only (no proofs; they are in Cfg/Schema_proofs.v).  Mirrors
     internal/template_generator.go  getTemplate / validateSchema / Generate (the part up to
                                     the write), internal/remote_template.go (RemoteTemplate,
                                     download), template/template_data.go (VerifyJSONSchema),
     config/config.go                mergeStringMaps (template-data, key by key) and the places
                                     where it is applied (root -> package -> interface config ->
                                     configs entry), internal/cmd/mockery.go (file loop of
                                     RootApp.Run: one generator per output file, stop at the
                                     first error, the per-run remoteTemplateCache).
   gojsonschema is NOT verified: [validate] is an explicit draft-07 semantics of the subset
   {type, properties, required, additionalProperties : bool}.
   The cache key is a parameter ([keymode]): [KTemplate] is the pinned code (key = template
   name only), [KTemplateSchema] is the behaviour after fixes/c12-schema-cache-key.diff. *)
From Coq Require Import ZArith.
From Mk Require Import Lib.Bytes.

(* ------------------------------------------------------------------ JSON values *)
(* [JNum m k] is the decimal number m / 10^k (what encoding/json prints for the Go value and
   gojsonschema re-reads as a json.Number). *)
Inductive json :=
| JNull
| JBool (b : bool)
| JNum (m : Z) (k : nat)
| JStr (s : str)
| JArr (l : list json)
| JObj (kv : list (str * json)).

Definition obj := list (str * json).

Fixpoint alookup {A} (k : str) (l : list (str * A)) : option A :=
  match l with
  | [] => None
  | (k', v) :: t => if seqb k k' then Some v else alookup k t
  end.

Definition has_key {A} (k : str) (l : list (str * A)) : bool :=
  match alookup k l with Some _ => true | None => false end.

(* ------------------------------------------------------------------ schema subset *)
Inductive jtype := TString | TNumber | TInteger | TBoolean | TObject | TArray | TNull.

(* [ty = []]: no "type" keyword; several entries: "type": [..] (any of them).
   no "properties" = [], no "required" = [], no "additionalProperties" = true. *)
Inductive schema :=
| Sch (ty : list jtype) (props : list (str * schema)) (req : list str) (addl : bool).

Definition s_ty (s : schema) := match s with Sch t _ _ _ => t end.
Definition s_props (s : schema) := match s with Sch _ p _ _ => p end.
Definition s_req (s : schema) := match s with Sch _ _ r _ => r end.
Definition s_addl (s : schema) := match s with Sch _ _ _ a => a end.

Definition num_is_int (m : Z) (k : nat) : bool := Z.eqb (Z.modulo m (Z.pow 10 (Z.of_nat k))) 0.

Definition type_match (t : jtype) (j : json) : bool :=
  match t, j with
  | TString, JStr _ => true
  | TNumber, JNum _ _ => true
  | TInteger, JNum m k => num_is_int m k
  | TBoolean, JBool _ => true
  | TObject, JObj _ => true
  | TArray, JArr _ => true
  | TNull, JNull => true
  | _, _ => false
  end.

Definition type_ok (ty : list jtype) (j : json) : bool :=
  match ty with [] => true | _ => existsb (fun t => type_match t j) ty end.

(* draft-07 on the subset: "type" applies to every instance; "required", "properties",
   "additionalProperties" only constrain objects. *)
Fixpoint validate (s : schema) (j : json) : bool :=
  match s with
  | Sch ty props req addl =>
    type_ok ty j &&
    match j with
    | JObj kv =>
      forallb (fun r => has_key r kv) req
      && (fix vprops (ps : list (str * schema)) : bool :=
            match ps with
            | [] => true
            | (k, ps1) :: t =>
              match alookup k kv with Some v => validate ps1 v | None => true end && vprops t
            end) props
      && forallb (fun e => addl || has_key (fst e) props) kv
    | _ => true
    end
  end.

(* the same function, named pieces (used in statements; equal by computation) *)
Fixpoint props_ok (kv : obj) (ps : list (str * schema)) : bool :=
  match ps with
  | [] => true
  | (k, ps1) :: t =>
    match alookup k kv with Some v => validate ps1 v | None => true end && props_ok kv t
  end.
Definition required_ok (kv : obj) (req : list str) : bool := forallb (fun r => has_key r kv) req.
Definition unknown_keys (kv : obj) (props : list (str * schema)) : list str :=
  map fst (filter (fun e => negb (has_key (fst e) props)) kv).
Definition addl_ok (kv : obj) (props : list (str * schema)) (addl : bool) : bool :=
  forallb (fun e => addl || has_key (fst e) props) kv.

(* ------------------------------------------------------------------ template-data merge *)
(* config.mergeStringMaps(src, dest): every key of src that dest lacks is copied; a key that
   both have keeps dest's value, except that two maps are merged recursively.  Every key of
   src is touched exactly once and independently of the others, so Go's `range src` order
   only changes the order of the entries appended below, never the resulting map. *)
Fixpoint merge_json (dest : json) (src : obj) {struct dest} : json :=
  match dest with
  | JObj dkv =>
    JObj ((fix upd (d : obj) : obj :=
             match d with
             | [] => []
             | (k, dv) :: t =>
               (k, match dv, alookup k src with
                   | JObj _, Some (JObj skv) => merge_json dv skv
                   | _, _ => dv
                   end) :: upd t
             end) dkv
          ++ filter (fun e => negb (has_key (fst e) dkv)) src)
  | _ => dest
  end.

Definition unobj (j : json) : obj := match j with JObj kv => kv | _ => [] end.
(* mergeStringMaps(src, dest), result = the new contents of dest *)
Definition merge_data (src dest : obj) : obj := unobj (merge_json (JObj dest) src).

(* named pieces of the same function (equal by computation, see Schema_proofs.merge_data_eq) *)
Definition merge_val (src : obj) (k : str) (dv : json) : json :=
  match dv, alookup k src with
  | JObj dkv, Some (JObj skv) => JObj (merge_data skv dkv)
  | _, _ => dv
  end.
Definition merge_upd (src dest : obj) : obj :=
  map (fun e => (fst e, merge_val src (fst e) (snd e))) dest.
Definition src_only (src dest : obj) : obj := filter (fun e => negb (has_key (fst e) dest)) src.

(* ------------------------------------------------------------------ retrieval *)
(* What a URL holds, seen through the two readers that exist: text/template (does the text
   parse and execute as a template?) and gojsonschema.NewSchema (is it a schema, which one?).
   The map is read-only during a run; [None] from [download] is any retrieval error
   (missing file, non-200 answer, unsupported protocol). *)
Record fcontent := { c_tmpl_ok : bool; c_schema : option schema }.
Definition fsys := list (str * fcontent).

Definition is_remote (u : str) : bool :=
  has_prefix u (B "file://") || has_prefix u (B "https://") || has_prefix u (B "http://").
Definition download (fs : fsys) (u : str) : option fcontent :=
  if is_remote u then alookup u fs else None.

Record env := { e_fs : fsys;
                e_builtins : list (str * schema);   (* styleTemplates / jsonSchemas *)
                e_empty_ok : bool                   (* does the empty template "" survive the later stages *) }.

(* RemoteTemplate: the flags are set BEFORE the download, so a second call after a failed
   one returns ("" , nil) resp. (nil, nil). *)
Record rtemplate := { rt_turl : str; rt_surl : str;
                      rt_tdl : bool; rt_t : option fcontent;
                      rt_sdl : bool; rt_s : option schema }.
Definition new_rt (t s : str) : rtemplate :=
  {| rt_turl := t; rt_surl := s; rt_tdl := false; rt_t := None; rt_sdl := false; rt_s := None |}.

(* outer None = error returned *)
Definition rt_template (fs : fsys) (r : rtemplate) : rtemplate * option (option fcontent) :=
  if rt_tdl r then (r, Some (rt_t r))
  else match download fs (rt_turl r) with
       | Some c => ({| rt_turl := rt_turl r; rt_surl := rt_surl r; rt_tdl := true; rt_t := Some c;
                       rt_sdl := rt_sdl r; rt_s := rt_s r |}, Some (Some c))
       | None => ({| rt_turl := rt_turl r; rt_surl := rt_surl r; rt_tdl := true; rt_t := rt_t r;
                     rt_sdl := rt_sdl r; rt_s := rt_s r |}, None)
       end.
Definition rt_schema (fs : fsys) (r : rtemplate) : rtemplate * option (option schema) :=
  if rt_sdl r then (r, Some (rt_s r))
  else let r' := {| rt_turl := rt_turl r; rt_surl := rt_surl r; rt_tdl := rt_tdl r; rt_t := rt_t r;
                    rt_sdl := true; rt_s := rt_s r |} in
       match download fs (rt_surl r) with
       | Some c => match c_schema c with
                   | Some s => ({| rt_turl := rt_turl r; rt_surl := rt_surl r; rt_tdl := rt_tdl r;
                                   rt_t := rt_t r; rt_sdl := true; rt_s := Some s |}, Some (Some s))
                   | None => (r', None)
                   end
       | None => (r', None)
       end.

Inductive keymode := KTemplate | KTemplateSchema.
Definition ckey := (str * str)%type.
Definition cache_key (km : keymode) (t s : str) : ckey :=
  match km with KTemplate => (t, []) | KTemplateSchema => (t, s) end.
Definition ckey_eqb (a b : ckey) : bool := seqb (fst a) (fst b) && seqb (snd a) (snd b).
Definition cache := list (ckey * rtemplate).
Fixpoint cfind (k : ckey) (c : cache) : option rtemplate :=
  match c with [] => None | (k', r) :: t => if ckey_eqb k k' then Some r else cfind k t end.
(* the Go map holds a pointer that is mutated in place: newest binding first *)
Definition cput (k : ckey) (r : rtemplate) (c : cache) : cache := (k, r) :: c.

(* one output file as the generator sees it *)
Record filecfg := { f_path : str;
                    f_template : str; f_schema : str; f_require : bool;
                    f_data : obj;                    (* pkgConfig.TemplateData *)
                    f_ifaces : list (str * obj);     (* interface name, its Config.TemplateData *)
                    f_rest_ok : bool                 (* every other stage succeeds (render, format, write) *) }.

(* getTemplate: Some (template usable?, schema or nil) / None = error *)
Definition get_template (km : keymode) (e : env) (c : cache) (f : filecfg)
  : cache * option (bool * option schema) :=
  if is_remote (f_template f) then
    let k := cache_key km (f_template f) (f_schema f) in
    let r0 := match cfind k c with Some r => r | None => new_rt (f_template f) (f_schema f) end in
    let '(r1, t) := rt_template (e_fs e) r0 in
    match t with
    | None => (cput k r1 c, None)
    | Some tc =>
      let tok := match tc with Some x => c_tmpl_ok x | None => e_empty_ok e end in
      if f_require f then
        let '(r2, s) := rt_schema (e_fs e) r1 in
        match s with
        | None => (cput k r2 c, None)
        | Some so => (cput k r2 c, Some (tok, so))
        end
      else (cput k r1 c, Some (tok, None))
    end
  else match alookup (f_template f) (e_builtins e) with
       | Some s => (c, Some (true, Some s))
       | None => (c, None)
       end.

(* validateSchema: file level first, then every interface *)
Definition data_valid (s : schema) (f : filecfg) : bool :=
  validate s (JObj (f_data f)) && forallb (fun i => validate s (JObj (snd i))) (f_ifaces f).

Inductive fres := FWritten | FError.

Definition gen_file (km : keymode) (e : env) (c : cache) (f : filecfg) : cache * fres :=
  let '(c', g) := get_template km e c f in
  match g with
  | None => (c', FError)
  | Some (tok, so) =>
    let valid := match so with Some s => data_valid s f | None => true end in
    (c', if valid && tok && f_rest_ok f then FWritten else FError)
  end.

Inductive exit_class := ExitOk | ExitErr.

(* the loop over mockFileToInterfaces in the given (map) order: stop at the first error;
   result: exit class, paths written *)
Fixpoint run_files (km : keymode) (e : env) (c : cache) (fs : list filecfg) : exit_class * list str :=
  match fs with
  | [] => (ExitOk, [])
  | f :: t =>
    match gen_file km e c f with
    | (c', FWritten) => let '(x, w) := run_files km e c' t in (x, f_path f :: w)
    | (_, FError) => (ExitErr, [])
    end
  end.
Definition run (km : keymode) (e : env) (fs : list filecfg) := run_files km e [] fs.

(* ------------------------------------------------------------------ specification (no cache) *)
Inductive sel := SelError | SelNoValidation | SelSchema (s : schema).

Definition select_schema (e : env) (f : filecfg) : sel :=
  if is_remote (f_template f) then
    if f_require f then
      match download (e_fs e) (f_schema f) with
      | Some c => match c_schema c with Some s => SelSchema s | None => SelError end
      | None => SelError
      end
    else SelNoValidation
  else match alookup (f_template f) (e_builtins e) with
       | Some s => SelSchema s
       | None => SelError
       end.

(* None: template not retrievable *)
Definition template_ok (e : env) (f : filecfg) : option bool :=
  if is_remote (f_template f) then
    match download (e_fs e) (f_template f) with Some c => Some (c_tmpl_ok c) | None => None end
  else match alookup (f_template f) (e_builtins e) with Some _ => Some true | None => None end.

Definition spec_file (e : env) (f : filecfg) : fres :=
  match template_ok e f with
  | None => FError
  | Some tok =>
    match select_schema e f with
    | SelError => FError
    | SelNoValidation => if tok && f_rest_ok f then FWritten else FError
    | SelSchema s => if data_valid s f && tok && f_rest_ok f then FWritten else FError
    end
  end.

(* ------------------------------------------------------------------ configuration levels *)
Record lvl := { l_template : option str; l_schema : option str; l_require : option bool;
                l_data : obj }.
Record entry := { en_file : str; en_data : obj }.           (* one element of `configs` *)
Inductive ifspec :=
| Unlisted                                                    (* only generated under all: true *)
| Listed (d : obj) (file : str) (entries : list entry).       (* `config` data, its file, `configs` *)
Record pkg := { p_path : str; p_lvl : lvl; p_all : bool;
                p_file : str;                                 (* file of the unlisted interfaces *)
                p_rest_ok : bool;
                p_ifaces : list (str * ifspec) }.             (* source order *)
(* Which config supplies the FILE-level template-data handed to the template and validated
   first.  [FLPackage]: the package config (root merged under package) - the pinned code,
   `packageConfig.Config` in RootApp.Run.  [FLFirstMock]: the config of the first mock added
   to the file (the behaviour if file-level parameters are taken from the mocks of the file,
   cf. fixes/c08-file-level-config.diff).  The harness observes which one the tree under test
   uses (the probe template prints .TemplateData) and passes it here. *)
Inductive fl_mode := FLPackage | FLFirstMock.
Record world := { w_root : lvl; w_pkgs : list pkg; w_env : env; w_fl : fl_mode }.

Definition first_some {A} (a b : option A) : option A := match a with Some _ => a | None => b end.
Definition eff_template (r p : lvl) : str :=
  match first_some (l_template p) (l_template r) with Some t => t | None => B "testify" end.
(* default "{{.Template}}.schema.json" *)
Definition eff_schema (r p : lvl) : str :=
  match first_some (l_schema p) (l_schema r) with
  | Some s => s
  | None => eff_template r p ++ B ".schema.json"
  end.
Definition eff_require (r p : lvl) : bool :=
  match first_some (l_require p) (l_require r) with Some b => b | None => true end.

(* template-data of the package config and of every mock of an interface *)
Definition pkg_data (r p : lvl) : obj := merge_data (l_data r) (l_data p).
Definition mocks_of_iface (pd : obj) (all : bool) (pfile : str) (i : str * ifspec)
  : list (str * (str * obj)) :=
  match snd i with
  | Unlisted => if all then [(pfile, (fst i, pd))] else []
  | Listed d file [] => [(file, (fst i, merge_data pd d))]
  | Listed d _ es => map (fun en => (en_file en, (fst i, merge_data (merge_data pd d) (en_data en)))) es
  end.

(* mockFileToInterfaces: members of a file in arrival order *)
Fixpoint group_add {X} (k : str) (x : X) (g : list (str * list X)) : list (str * list X) :=
  match g with
  | [] => [(k, [x])]
  | (k', xs) :: t => if seqb k k' then (k', xs ++ [x]) :: t else (k', xs) :: group_add k x t
  end.
Definition group {X} (l : list (str * X)) : list (str * list X) :=
  fold_left (fun g kx => group_add (fst kx) (snd kx) g) l [].

Definition file_level_data (m : fl_mode) (pd : obj) (members : list (str * obj)) : obj :=
  match m, members with
  | FLFirstMock, (_, d) :: _ => d
  | _, _ => pd
  end.

Definition files_of_pkg (m : fl_mode) (r : lvl) (p : pkg) : list filecfg :=
  let pd := pkg_data r (p_lvl p) in
  map (fun g => {| f_path := fst g;
                   f_template := eff_template r (p_lvl p);
                   f_schema := eff_schema r (p_lvl p);
                   f_require := eff_require r (p_lvl p);
                   f_data := file_level_data m pd (snd g); f_ifaces := snd g;
                   f_rest_ok := p_rest_ok p |})
      (group (flat_map (mocks_of_iface pd (p_all p) (p_file p)) (p_ifaces p))).

Fixpoint str_nodup (l : list str) : bool :=
  match l with [] => true | x :: t => negb (smem x t) && str_nodup t end.

(* None: two packages map to one output file ("must come from the same source package") *)
Definition world_files (w : world) : option (list filecfg) :=
  let fs := flat_map (files_of_pkg (w_fl w) (w_root w)) (w_pkgs w) in
  if str_nodup (map f_path fs) then Some fs else None.

(* builtin schemas of the pinned tree (internal/mock_*.templ.schema.json) *)
Definition ps (t : jtype) : schema := Sch [t] [] [] true.
Definition testify_schema : schema :=
  Sch [TObject] [(B "boilerplate-file", ps TString); (B "mock-build-tags", ps TString);
                 (B "unroll-variadic", ps TBoolean)] [] false.
Definition matryer_schema : schema :=
  Sch [TObject] [(B "boilerplate-file", ps TString); (B "mock-build-tags", ps TString);
                 (B "skip-ensure", ps TBoolean); (B "stub-impl", ps TBoolean);
                 (B "with-resets", ps TBoolean)] [] false.
Definition pinned_builtins := [(B "matryer", matryer_schema); (B "testify", testify_schema)].
