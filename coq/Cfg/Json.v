(* Values of `map[string]any` configuration fields (template-data) as decoded from YAML, and
   the key-by-key merge of config/config.go mergeStringMaps (which is also the semantics of
   koanf's maps.Merge used when the configuration sources are layered).      (C08)
   Model only; proofs are in Cfg/Json_proofs.v.

   A Go map is an association list; [get] returns the first binding of a key, so lists with
   repeated keys denote the map of their first bindings and no well-formedness hypothesis
   is needed anywhere.  Numbers are integers (the generators emit no floats). *)
From Coq Require Import ZArith.
From Mk Require Import Lib.Bytes.

Inductive json :=
| JNull
| JBool (b : bool)
| JNum (z : Z)
| JStr (s : str)
| JArr (l : list json)
| JObj (kv : list (str * json)).

Definition obj := list (str * json).

Fixpoint get {A} (k : str) (l : list (str * A)) : option A :=
  match l with
  | [] => None
  | (k', v) :: t => if seqb k k' then Some v else get k t
  end.

Definition has_key {A} (k : str) (l : list (str * A)) : bool :=
  match get k l with Some _ => true | None => false end.

Definition is_obj (v : json) : bool := match v with JObj _ => true | _ => false end.

(* mergeStringMaps(src, dest) seen as a function on values:
     - dest has the key: both values are maps -> merge recursively; otherwise dest's value stays
       (the more specific level wins on scalars and on kind conflicts);
     - dest lacks the key: it receives (a deep copy of) src's value.
   [merge_json s d] is the result for one key present on both sides; [s] = parent, [d] = child.
   The deep copy is the identity in a pure model: this is the behaviour AFTER
   fixes/c08-template-data-deep-copy.diff (before it, `dest[k] = srcValue` shares the nested
   map and later merges write through it). *)
Fixpoint merge_json (s d : json) {struct d} : json :=
  match d with
  | JObj dkv =>
    match s with
    | JObj skv =>
      JObj ((fix go (l : obj) : obj :=
               match l with
               | [] => []
               | (k, dv) :: t =>
                 (k, match get k skv with Some sv => merge_json sv dv | None => dv end) :: go t
               end) dkv
            ++ filter (fun e => negb (has_key (fst e) dkv)) skv)
    | _ => d
    end
  | _ => d
  end.

Definition merge_entries (s d : obj) : obj :=
  map (fun e => (fst e, match get (fst e) s with Some sv => merge_json sv (snd e) | None => snd e end)) d.

Definition merge_obj (s d : obj) : obj :=
  merge_entries s d ++ filter (fun e => negb (has_key (fst e) d)) s.

(* ---- observation of a value along a key path ---- *)
(* What a template can see at a position: a map (whose keys are further positions) or a
   leaf, verbatim.  Arrays are leaves: they are never merged. *)
Inductive obs := OObj | OLeaf (v : json).

Definition kind (v : json) : obs := match v with JObj _ => OObj | _ => OLeaf v end.

Definition field (k : str) (v : json) : option json :=
  match v with JObj kv => get k kv | _ => None end.

Fixpoint look (path : list str) (v : json) : option obs :=
  match path with
  | [] => Some (kind v)
  | k :: rest => match field k v with Some x => look rest x | None => None end
  end.

Definition look_opt (path : list str) (o : option json) : option obs :=
  match o with Some v => look path v | None => None end.

(* Two values are indistinguishable when they agree on every path. *)
Definition jeq (a b : json) : Prop := forall path, look path a = look path b.

(* ---- a chain of levels, most specific first ---- *)
(* Top-down merging root -> package -> interface -> configs entry: the value of a chain
   [v1; v2; ...; vn] (v1 most specific) is v1 merged with the value of [v2; ...; vn]. *)
Fixpoint eff (chain : list json) : option json :=
  match chain with
  | [] => None
  | v :: more => Some (match eff more with Some p => merge_json p v | None => v end)
  end.

(* The chain seen at sub-position k: the values under k of the leading run of maps.  A level
   that has no k is transparent; a level that is not a map hides all less specific ones. *)
Fixpoint descend (k : str) (chain : list json) : list json :=
  match chain with
  | JObj kv :: more => match get k kv with Some x => x :: descend k more | None => descend k more end
  | _ => []
  end.

(* Specification of "the most specific level wins, maps merged key by key at every depth". *)
Fixpoint resolve (path : list str) (chain : list json) : option obs :=
  match path with
  | [] => match chain with v :: _ => Some (kind v) | [] => None end
  | k :: rest => resolve rest (descend k chain)
  end.

Fixpoint first_some {A} (l : list (option A)) : option A :=
  match l with
  | [] => None
  | Some x :: _ => Some x
  | None :: t => first_some t
  end.

(* No level sets a non-map at a proper prefix of [path] (no kind conflict on the way). *)
Fixpoint clean (path : list str) (v : json) : Prop :=
  match path with
  | [] => True
  | k :: rest => match v with
                 | JObj kv => match get k kv with Some x => clean rest x | None => True end
                 | _ => False
                 end
  end.

(* ---- canonical form for comparing with observed JSON: keys sorted, first binding kept ---- *)
Fixpoint insert_kv (k : str) (v : json) (l : obj) : obj :=
  match l with
  | [] => [(k, v)]
  | (k', v') :: t => if seqb k k' then (k, v) :: t
                     else if sltb k k' then (k, v) :: l else (k', v') :: insert_kv k v t
  end.

Fixpoint norm (v : json) : json :=
  match v with
  | JObj kv => JObj ((fix go (l : obj) : obj :=
                        match l with
                        | [] => []
                        | (k, x) :: t => insert_kv k (norm x) (go t)
                        end) kv)
  | JArr l => JArr (map norm l)
  | _ => v
  end.

Fixpoint json_eqb (a b : json) {struct a} : bool :=
  match a, b with
  | JNull, JNull => true
  | JBool x, JBool y => Bool.eqb x y
  | JNum x, JNum y => Z.eqb x y
  | JStr x, JStr y => seqb x y
  | JArr x, JArr y =>
    (fix go (l m : list json) : bool :=
       match l, m with
       | [], [] => true
       | u :: l', w :: m' => json_eqb u w && go l' m'
       | _, _ => false
       end) x y
  | JObj x, JObj y =>
    (fix go (l m : obj) : bool :=
       match l, m with
       | [], [] => true
       | (k, u) :: l', (k', w) :: m' => seqb k k' && json_eqb u w && go l' m'
       | _, _ => false
       end) x y
  | _, _ => false
  end.
