(* Model of one run of mockery (internal/cmd/mockery.go: GetRootApp + RootApp.Run, with
   internal/parse.go ParsePackages, config.Initialize / ShouldExcludeSubpkg /
   ShouldGenerateInterface / ParseTemplates, internal/template_generator.go
   NewTemplateGenerator / findPkgPath / Generate) at the level of: which mocks are requested,
   which stage fails for which output file, what happens to the file system, how the
   process ends.                                                                (C09, C10)

   The world is what the run sees after the configuration has been resolved: the decode
   status of the config file, the recursive roots with their sub-packages, the loaded
   packages with their discovered interfaces and, per (interface, config entry), the
   effective output path / package name / template / schema settings / formatter /
   force-file-write; what each template name denotes; whether the package-level templated
   values can be evaluated; the file system and its permission faults.  Go map iteration
   orders are arguments: the world lists recursive roots and packages in the order they are
   visited, [run] takes the iteration order of the output-file map.

   The model describes /repo with the repairs of fixes/ applied, in particular: an invalid
   exclude-subpkg-regex is an error and the list is the recursive package's own; load errors of
   file-less packages are reported; go.mod is read by modfile (Cfg/GoMod.v); the settings of an
   output file (schema settings, formatter, force-file-write) are those of the first mock added
   to it and its template is the collection's (c08-file-level-config); an unknown formatter name
   on any mock is refused when the mock is added (c09-formatter-per-mock).
   No proofs in this file. *)
From Mk Require Import Lib.Bytes Cfg.Fs Cfg.GoMod.

Inductive exit_class := Exit0 | ExitErr | Panic.

(* outcome of config.ParseTemplates on one config: fixpoint reached, 20 rounds exceeded
   (ErrInfiniteLoop), or a value that text/template cannot parse / execute *)
Inductive tstatus := TOk | TCyclic | TBad.
Definition tstatus_ok (t : tstatus) : bool := match t with TOk => true | _ => false end.

(* a regular expression as the run uses it: does it compile, and which names it matches *)
Inductive rx := RxBad | RxOk (m : str -> bool).

Inductive formatter := FGofmt | FGoimports | FNoop | FUnknown.

(* one requested mock = (interface, one entry of its `configs` list) after ParseTemplates.
   The settings that apply to an output file as a whole (schema settings, formatter,
   force-file-write) are read from the FIRST mock added to the file's collection
   (fileConfig := interfacesInFile.interfaces[0].Config): every request carries its own. *)
Record request := {
  q_iface : str;
  q_tstatus : tstatus;          (* ParseTemplates of this entry *)
  q_key : str;                  (* Config.FilePath().String() = Clean(dir/filename): the map key *)
  q_path : path;                (* the file that this string denotes (relative: below the cwd) *)
  q_pkgname : str;
  q_template : str;             (* `template` value of this entry *)
  q_require_schema : bool;      (* require-template-schema-exists *)
  q_schema_ok : bool;           (* its template-schema can be read and is a JSON schema *)
  q_force : bool;               (* force-file-write *)
  q_formatter : formatter;
  q_prep_ok : bool;             (* method data can be built (replace-type targets exist) *)
  q_data_ok : bool;             (* the schema accepts this entry's template-data *)
  q_exec_ok : bool              (* executing the template does not fail on this interface *)
}.

(* an interface type found in the package source, with the config entries that apply to it
   when it is selected (listed: its `configs`; otherwise: one copy of the package config) *)
Record decl := { d_name : str; d_reqs : list request }.

Inductive tkind := TBuiltin | TRemote.       (* testify/matryer  |  file:// http:// https:// *)

(* what a `template` value denotes *)
Record tinfo := {
  ti_kind : tkind;
  ti_found : bool;              (* builtin: name is known; remote: can be read *)
  ti_parses : bool              (* text/template parses it *)
}.

(* what the write loop still reads from the package config: packageConfig.Config.ParseTemplates
   with iface = nil must succeed *)
Record pkgcfg := { c_tstatus : tstatus }.

Record package := {
  p_path : str;                 (* import path *)
  p_nfiles : nat;               (* len(pkg.GoFiles) *)
  p_nerrors : nat;              (* len(pkg.Errors) *)
  p_decls : list decl;          (* discovery order *)
  p_listed : list str;          (* keys of `interfaces:` *)
  p_all : bool;
  p_include : option rx;        (* None = "" *)
  p_exclude : option rx;
  p_cfg : pkgcfg
}.

(* NewRootConfig: reading and decoding the configuration *)
Inductive cfg_status :=
| CfgOk
| CfgNotFound        (* no config file *)
| CfgBadYaml         (* not YAML / not a mapping *)
| CfgUnknownKey      (* ErrorUnused *)
| CfgBadType         (* a value of the wrong shape *)
| CfgBadRegex.       (* a regular expression, at any level, that does not compile: refused when the
                        configuration is initialised (fixes/c09-validate-regexes.diff), read or not *)

(* a package with recursive: true: packages.Load(p/...) and what it found *)
(* rr_exclude: the exclude-subpkg-regex list of that package (its own, else the inherited one) *)
Record rec_root := { rr_load_ok : bool; rr_subpkgs : list str; rr_exclude : list rx }.

Record world := {
  w_cfg : cfg_status;
  w_roots : list rec_root;          (* in c.Packages iteration order *)
  w_pkgs : list package;            (* packages.Load result, in its order *)
  w_tinfo : str -> tinfo;           (* the templates by name / URL *)
  w_modaux : list (str * list str) -> bool;   (* see Cfg/GoMod.v *)
  w_fs : fs;
  w_ro : romap;
  w_content : str -> str;           (* what Generate returns for the collection with this key *)
  w_valid_go : str -> bool          (* is that text accepted by gofmt / goimports *)
}.

(* ---------- config.Initialize: recursive packages ---------- *)
(* Config.ShouldExcludeSubpkg: the regexes are tried in order, the first match wins, an
   invalid one that is reached is an error (the pinned code panics there) *)
Fixpoint should_exclude (l : list rx) (s : str) : option bool :=
  match l with
  | [] => Some false
  | RxBad :: _ => None
  | RxOk m :: t => if m s then Some true else should_exclude t s
  end.

Definition root_ok (r : rec_root) : bool :=
  rr_load_ok r &&
  forallb (fun s => match should_exclude (rr_exclude r) s with Some _ => true | None => false end) (rr_subpkgs r).

Definition init_ok (w : world) : bool := forallb root_ok (w_roots w).

(* ---------- Parser.ParsePackages ---------- *)
Definition has_files (p : package) : bool := negb (Nat.eqb (p_nfiles p) 0).
Definition has_errors (p : package) : bool := negb (Nat.eqb (p_nerrors p) 0).

(* some loaded package with Go files lives below p *)
Definition has_sub (all : list package) (p : package) : bool :=
  existsb (fun q => has_files q && has_prefix (p_path q) (p_path p ++ B "/")) all.

Fixpoint parse_pkgs (all : list package) (l : list package) : option (list (package * decl)) :=
  match l with
  | [] => Some []
  | p :: t =>
    if negb (has_files p) && (negb (has_errors p) || has_sub all p) then parse_pkgs all t
    else if has_errors p then None
    else option_map (app (map (pair p) (p_decls p))) (parse_pkgs all t)
  end.

(* ---------- PackageConfig.ShouldGenerateInterface ---------- *)
Definition should_generate (p : package) (name : str) : option bool :=
  if p_all p then Some true
  else if smem name (p_listed p) then Some true
  else match p_include p with
       | None => Some false
       | Some RxBad => None
       | Some (RxOk mi) =>
         if mi name then
           match p_exclude p with
           | None => Some true
           | Some RxBad => None
           | Some (RxOk me) => Some (negb (me name))
           end
         else Some false
       end.

(* ---------- grouping by output file (mockFileToInterfaces, InterfaceCollection) ---------- *)
Record coll := {
  k_key : str;                  (* the map key *)
  k_path : path;                (* outFilePath: the file the key denotes *)
  k_pkg : package;              (* srcPkg of the first interface *)
  k_first : request;            (* interfaces[0]: its config governs the file *)
  k_pkgname : str;
  k_template : str;
  k_reqs : list request
}.

Definition same_group (k : coll) (p : package) (q : request) : bool :=
  seqb (k_pkgname k) (q_pkgname q) && seqb (p_path (k_pkg k)) (p_path p) &&
  seqb (k_template k) (q_template q).

(* NewInterfaceCollection on first sight of the path, then Append with its checks *)
Fixpoint add_req (m : list coll) (p : package) (q : request) : option (list coll) :=
  match m with
  | [] => Some [ {| k_key := q_key q; k_path := q_path q; k_pkg := p; k_first := q; k_pkgname := q_pkgname q;
                    k_template := q_template q; k_reqs := [q] |} ]
  | k :: t =>
    if seqb (k_key k) (q_key q) then
      if same_group k p q
      then Some ({| k_key := k_key k; k_path := k_path k; k_pkg := k_pkg k; k_first := k_first k;
                    k_pkgname := k_pkgname k;
                    k_template := k_template k; k_reqs := k_reqs k ++ [q] |} :: t)
      else None
    else option_map (cons k) (add_req t p q)
  end.

(* Append also refuses a mock whose formatter name is unknown (fixes/c09-formatter-per-mock.diff:
   without it only the first mock's formatter is ever looked at) *)
Definition formatter_known (f : formatter) : bool := match f with FUnknown => false | _ => true end.

Fixpoint add_reqs (m : list coll) (p : package) (qs : list request) : option (list coll) :=
  match qs with
  | [] => Some m
  | q :: t =>
    if tstatus_ok (q_tstatus q) && formatter_known (q_formatter q) then
      match add_req m p q with
      | Some m' => add_reqs m' p t
      | None => None
      end
    else None
  end.

Fixpoint collect (m : list coll) (ds : list (package * decl)) : option (list coll) :=
  match ds with
  | [] => Some m
  | (p, d) :: t =>
    match should_generate p (d_name d) with
    | None => None
    | Some false => collect m t
    | Some true =>
      match add_reqs m p (d_reqs d) with
      | Some m' => collect m' t
      | None => None
      end
    end
  end.

Fixpoint find_coll (m : list coll) (key : str) : option coll :=
  match m with
  | [] => None
  | k :: t => if seqb (k_key k) key then Some k else find_coll t key
  end.

(* ---------- the missing map ---------- *)
Definition decl_names (p : package) : list str := map d_name (p_decls p).
Definition listed_found (p : package) (n : str) : bool := has_files p && smem n (decl_names p).
Definition pkg_missing (p : package) : bool := existsb (fun n => negb (listed_found p n)) (p_listed p).
Definition missing (w : world) : bool := existsb pkg_missing (w_pkgs w).

(* ---------- one output file ---------- *)
Inductive stage :=
| SPkgTemplates | SMkOutDir | SGoMod | SPrepare | SGetTemplate | SGetSchema | SValidate
| SParseTemplate | SExecute | SFormat | SExists | SWrite.

Inductive fres := FOk | FFail (s : stage) | FPanic.

Definition format_ok (fm : formatter) (valid : bool) : bool :=
  match fm with
  | FNoop => true
  | FGofmt | FGoimports => valid
  | FUnknown => false
  end.

Definition is_remote (t : tinfo) : bool := match ti_kind t with TRemote => true | TBuiltin => false end.
(* a schema is present (hence validation happens) for builtin templates always, for remote
   ones only when require-template-schema-exists *)
Definition validates (t : tinfo) (g : request) : bool := negb (is_remote t) || q_require_schema g.

(* Generate: the stages that do not touch the file system, in the order of the code.
   The file-level template-data that validateSchema checks first is the first mock's own
   map, which is checked again in the loop over the interfaces. *)
Definition pure_failure (w : world) (k : coll) : option stage :=
  let g := k_first k in
  let t := w_tinfo w (k_template k) in
  if negb (forallb q_prep_ok (k_reqs k)) then Some SPrepare
  else if negb (ti_found t) then Some SGetTemplate
  else if is_remote t && q_require_schema g && negb (q_schema_ok g) then Some SGetSchema
  else if validates t g && negb (forallb q_data_ok (k_reqs k)) then Some SValidate
  else if negb (ti_parses t) then Some SParseTemplate
  else if negb (forallb q_exec_ok (k_reqs k)) then Some SExecute
  else if negb (format_ok (q_formatter g) (w_valid_go w (k_key k))) then Some SFormat
  else None.

Definition gomod_ok (w : world) (f : fs) (dir : path) : bool :=
  match find_up f (B "go.mod") (rev dir) with
  | Found c _ => match module_path (w_modaux w) c with MOk _ => true | _ => false end
  | _ => false
  end.

(* the body of the `for outFilePath, interfacesInFile := range mockFileToInterfaces` loop *)
Definition gen_file (w : world) (f : fs) (k : coll) : fres * fs :=
  let c := p_cfg (k_pkg k) in
  if negb (tstatus_ok (c_tstatus c)) then (FFail SPkgTemplates, f)
  else if negb (has_files (k_pkg k)) then (FPanic, f)              (* srcPkg.GoFiles[0] *)
  else
    let '(ok, f1) := mkdir_all (w_ro w) f (parent (k_path k)) in   (* findPkgPath: MkdirAll *)
    if negb ok then (FFail SMkOutDir, f1)
    else if negb (gomod_ok w f1 (parent (k_path k))) then (FFail SGoMod, f1)
    else match pure_failure w k with
         | Some s => (FFail s, f1)
         | None =>
           let '(ok2, f2) := mkdir_all (w_ro w) f1 (parent (k_path k)) in
           if negb ok2 then (FFail SMkOutDir, f2)
           else if exists_ f2 (k_path k) && negb (q_force (k_first k)) then (FFail SExists, f2)
           else match write_file (w_ro w) f2 (k_path k) (w_content w (k_key k)) with
                | Some f3 => (FOk, f3)
                | None => (FFail SWrite, f2)
                end
         end.

(* the loop; [ord] = iteration order of the map (strings that are not keys are skipped) *)
Fixpoint write_loop (w : world) (m : list coll) (ord : list str) (f : fs) : fres * fs :=
  match ord with
  | [] => (FOk, f)
  | p :: t =>
    match find_coll m p with
    | None => write_loop w m t f
    | Some k =>
      match gen_file w f k with
      | (FOk, f') => write_loop w m t f'
      | r => r
      end
    end
  end.

(* ---------- the run ---------- *)
Definition collections (w : world) : option (list coll) :=
  match parse_pkgs (w_pkgs w) (w_pkgs w) with
  | None => None
  | Some ds => collect [] ds
  end.

Definition run (w : world) (ord : list str) : exit_class * fs :=
  let f0 := w_fs w in
  match w_cfg w with
  | CfgOk =>
    if negb (init_ok w) then (ExitErr, f0)
    else match w_pkgs w with
    | [] => (ExitErr, f0)                                  (* no packages specified in config *)
    | _ =>
      match collections w with
      | None => (ExitErr, f0)
      | Some m =>
        match write_loop w m ord f0 with
        | (FOk, f1) => if missing w then (ExitErr, f1) else (Exit0, f1)
        | (FFail _, f1) => (ExitErr, f1)
        | (FPanic, f1) => (Panic, f1)
        end
      end
    end
  | _ => (ExitErr, f0)
  end.

(* ---------- vocabulary of the theorems (Properties/C09.v, C10.v) ---------- *)
(* the mocks that the configuration asks for: every config entry of every interface that is
   declared in a loaded package and selected by all / listed / include-exclude regex *)
Definition all_decls (l : list package) : list (package * decl) :=
  flat_map (fun p => if has_files p then map (pair p) (p_decls p) else []) l.
Definition sel_of (pd : package * decl) : list (package * request) :=
  match should_generate (fst pd) (d_name (snd pd)) with
  | Some true => map (pair (fst pd)) (d_reqs (snd pd))
  | _ => []
  end.
Definition sel (ds : list (package * decl)) : list (package * request) := flat_map sel_of ds.
Definition selected_reqs (w : world) : list (package * request) := sel (all_decls (w_pkgs w)).
(* the designated output files, and the keys of the output-file map *)
Definition out_paths (w : world) : list path := map (fun pq => q_path (snd pq)) (selected_reqs w).
Definition out_keys (w : world) : list str := map (fun pq => q_key (snd pq)) (selected_reqs w).

(* the source package of the output file with key x (None: no such output file, or the run
   stops before the files are grouped) *)
Definition file_pkg (w : world) (x : str) : option package :=
  match collections w with
  | Some m => option_map k_pkg (find_coll m x)
  | None => None
  end.
(* the mock whose config governs the output file with key x: the first one added to it *)
Definition file_gov (w : world) (x : str) : option request :=
  match collections w with
  | Some m => option_map k_first (find_coll m x)
  | None => None
  end.
(* the force-file-write value that the run uses for the output file with key x *)
Definition force_of (w : world) (x : str) : option bool := option_map q_force (file_gov w x).

(* producing the file at x fails in template retrieval, schema retrieval / validation,
   template parsing / execution, formatting, data preparation, or in the package-level
   templated values *)
Definition written_ok (w : world) (k : coll) : Prop :=
  pure_failure w k = None /\ tstatus_ok (c_tstatus (p_cfg (k_pkg k))) = true.
Definition stage_fails (w : world) (x : str) (q : path) : Prop :=
  exists m k, collections w = Some m /\ find_coll m x = Some k /\ k_path k = q /\ ~ written_ok w k.
(* the file that the output with key x is written to *)
Definition key_path (w : world) (x : str) : option path :=
  match collections w with
  | Some m => option_map k_path (find_coll m x)
  | None => None
  end.

(* package paths are the keys of a Go map *)
Definition wf_world (w : world) : Prop := NoDup (map p_path (w_pkgs w)).
(* one map key per file and one file per map key.  (Violated when the same directory is
   spelled once relative to the working directory and once absolute: known finding
   C09-output-path-alias.) *)
Definition no_alias (w : world) : Prop :=
  forall p1 q1 p2 q2, In (p1, q1) (selected_reqs w) -> In (p2, q2) (selected_reqs w) ->
    (q_key q1 = q_key q2 <-> q_path q1 = q_path q2).
(* no output file is a directory on the way to another output file *)
Definition no_nested (w : world) : Prop :=
  forall x y, In x (out_paths w) -> In y (out_paths w) -> strict_prefix x y = false.

(* failure classes of C09 *)
Inductive fclass :=
| ListedMissing | PkgLoadError | UnknownTemplate | MissingRemoteTemplate | UnknownFormatter
| ConfigUnreadable | UnknownKey | BadRegexSubpkg | BadRegexInterface | CyclicTemplate
| BadTemplatedValue | SchemaMissing | SchemaReject | TemplateSyntax | TemplateExecution
| InvalidGoOutput | PrepareFailure | ConflictPackage | ConflictPkgName | ConflictTemplate
| NoPackages | OutputIsDirectory | OutputParentIsFile | InvalidRegexWritten.

(* an invalid include- / exclude-interface-regex that the selection of [name] reaches *)
Definition bad_regex_reached (p : package) (name : str) : Prop :=
  p_all p = false /\ smem name (p_listed p) = false /\
  (p_include p = Some RxBad \/
   exists mi, p_include p = Some (RxOk mi) /\ mi name = true /\ p_exclude p = Some RxBad).

Definition has_class (w : world) (c : fclass) : Prop :=
  match c with
  | ListedMissing => exists p n, In p (w_pkgs w) /\ In n (p_listed p) /\ listed_found p n = false
  | PkgLoadError => exists p, In p (w_pkgs w) /\ has_errors p = true /\
                              (has_files p = true \/ has_sub (w_pkgs w) p = false)
  | UnknownTemplate => exists p q, In (p, q) (selected_reqs w) /\
                                   ti_kind (w_tinfo w (q_template q)) = TBuiltin /\
                                   ti_found (w_tinfo w (q_template q)) = false
  | MissingRemoteTemplate => exists p q, In (p, q) (selected_reqs w) /\
                                   ti_kind (w_tinfo w (q_template q)) = TRemote /\
                                   ti_found (w_tinfo w (q_template q)) = false
  | UnknownFormatter => exists p q, In (p, q) (selected_reqs w) /\ q_formatter q = FUnknown
  | ConfigUnreadable => w_cfg w = CfgNotFound \/ w_cfg w = CfgBadYaml \/ w_cfg w = CfgBadType
  | UnknownKey => w_cfg w = CfgUnknownKey
  | BadRegexSubpkg => exists r s, In r (w_roots w) /\ In s (rr_subpkgs r) /\
                                  should_exclude (rr_exclude r) s = None
  | BadRegexInterface => exists p d, In (p, d) (all_decls (w_pkgs w)) /\ bad_regex_reached p (d_name d)
  | CyclicTemplate => exists p q, In (p, q) (selected_reqs w) /\
                                  (q_tstatus q = TCyclic \/ c_tstatus (p_cfg p) = TCyclic)
  | BadTemplatedValue => exists p q, In (p, q) (selected_reqs w) /\
                                  (q_tstatus q = TBad \/ c_tstatus (p_cfg p) = TBad)
  | SchemaMissing => exists x g, file_gov w x = Some g /\
                                 ti_kind (w_tinfo w (q_template g)) = TRemote /\
                                 q_require_schema g = true /\ q_schema_ok g = false
  | SchemaReject => exists p q g, In (p, q) (selected_reqs w) /\ q_data_ok q = false /\
                                  file_gov w (q_key q) = Some g /\
                                  validates (w_tinfo w (q_template q)) g = true
  | TemplateSyntax => exists p q, In (p, q) (selected_reqs w) /\
                                  ti_parses (w_tinfo w (q_template q)) = false
  | TemplateExecution => exists p q, In (p, q) (selected_reqs w) /\ q_exec_ok q = false
  | InvalidGoOutput => exists p q g, In (p, q) (selected_reqs w) /\ w_valid_go w (q_key q) = false /\
                                     file_gov w (q_key q) = Some g /\ q_formatter g <> FNoop
  | PrepareFailure => exists p q, In (p, q) (selected_reqs w) /\ q_prep_ok q = false
  | ConflictPackage => exists p1 q1 p2 q2, In (p1, q1) (selected_reqs w) /\ In (p2, q2) (selected_reqs w) /\
                                           q_key q1 = q_key q2 /\ p_path p1 <> p_path p2
  | ConflictPkgName => exists p1 q1 p2 q2, In (p1, q1) (selected_reqs w) /\ In (p2, q2) (selected_reqs w) /\
                                           q_key q1 = q_key q2 /\ q_pkgname q1 <> q_pkgname q2
  | ConflictTemplate => exists p1 q1 p2 q2, In (p1, q1) (selected_reqs w) /\ In (p2, q2) (selected_reqs w) /\
                                            q_key q1 = q_key q2 /\ q_template q1 <> q_template q2
  | NoPackages => w_pkgs w = []
  (* the file cannot be written: a directory occupies the output path (whatever force-file-write
     says), or a regular file stands where one of its parent directories should be *)
  | InvalidRegexWritten => w_cfg w = CfgBadRegex
  | OutputIsDirectory => exists x g, file_gov w x = Some g /\ w_fs w (q_path g) = Some Dir
  | OutputParentIsFile => exists x g a c, file_gov w x = Some g /\ strict_prefix a (q_path g) = true /\
                                          a <> [] /\ w_fs w a = Some (File c)
  end.

(* the classes that are decided while the files are produced need the file to be visited
   (ord = iteration order of the map: every key occurs) and package paths to be map keys *)
Definition needs_visit (c : fclass) : bool :=
  match c with
  | UnknownTemplate | MissingRemoteTemplate | SchemaMissing | SchemaReject
  | TemplateSyntax | TemplateExecution | InvalidGoOutput | PrepareFailure
  | CyclicTemplate | BadTemplatedValue | OutputIsDirectory | OutputParentIsFile => true
  | _ => false
  end.
