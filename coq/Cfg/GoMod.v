(* The module path of a go.mod text, as findPkgPath (internal/template_generator.go)
   obtains it.                                                              (C09)

   [module_path]      the repaired code: golang.org/x/mod/modfile.ParseLax, then
                      File.Module.Mod.Path.  ParseLax is an external library; what is written
                      here is an explicit small semantics of its lexer (read.go: readToken),
                      its statement parser (parseStmt / parseLineBlock / parseLine) and of
                      the part of rule.go (parseToFile, add, parseString) that concerns the
                      module directive, in lax mode.  The checks that the library applies to
                      `go`, `require` and `retract` statements are not modelled: they are the
                      parameter [aux] (list of those statements, in order -> accepted?).
                      Bytes >= 0x80 outside comments and backslash escapes inside quoted
                      strings are outside the model: explicit result [MUnsup].
   [module_path_old]  the pinned code: bufio line scan, HasPrefix "module",
                      strings.Split(line, "module ")[1] (panics, wrong paths).
   No proofs in this file. *)
From Mk Require Import Lib.Bytes.

(* ---------- bytes ---------- *)
Definition is_ws (b : byte) : bool := match b with x20 | x09 | x0d => true | _ => false end.
Definition is_punct (b : byte) : bool :=
  match b with x28 | x29 | x5b | x5d | x7b | x7d | x2c => true | _ => false end.
Definition is_high (b : byte) : bool := Nat.leb 128 (bnat b).
(* isIdent on ASCII: printable, not a space, not one of ( ) [ ] { } , *)
Definition is_identc (b : byte) : bool :=
  Nat.leb 33 (bnat b) && Nat.leb (bnat b) 126 && negb (is_punct b).
Definition is_quote (b : byte) : bool := match b with x22 | x27 | x60 => true | _ => false end.

(* ---------- lexer, one line at a time (no token contains a newline) ---------- *)
Inductive tok := TId (s : str) | TStr (s : str) | TRaw (s : str) | TP (b : byte).
Inductive lres := LOk (ts : list tok) | LErr | LUnsup.
Inductive lstate := SNone | SId (acc : str) | SStr (acc : str) | SRaw (acc : str).

Definition lcons (t : tok) (r : lres) : lres :=
  match r with LOk ts => LOk (t :: ts) | e => e end.
Definition next_is (b : byte) (r : str) : bool :=
  match r with d :: _ => beqb d b | [] => false end.

Fixpoint lexs (st : lstate) (l : str) : lres :=
  match l with
  | [] => match st with
          | SNone => LOk []
          | SId a => LOk [TId (rev a)]
          | SStr _ | SRaw _ => LErr            (* unexpected newline / EOF in string *)
          end
  | c :: r =>
    match st with
    | SNone =>
      if is_ws c then lexs SNone r
      else if beqb c x2f && next_is x2f r then LOk []          (* // comment to end of line *)
      else if beqb c x2f && next_is x2a r then LErr            (* slash-star comment: error *)
      else if is_punct c then lcons (TP c) (lexs SNone r)
      else if beqb c x22 then lexs (SStr []) r
      else if beqb c x60 then lexs (SRaw []) r
      else if is_identc c then lexs (SId [c]) r
      else if is_high c then LUnsup
      else LErr                                                (* unexpected input character *)
    | SId a =>
      if beqb c x2f && next_is x2f r then LOk [TId (rev a)]
      else if beqb c x2f && next_is x2a r then LErr
      else if is_identc c then lexs (SId (c :: a)) r
      else if is_ws c then lcons (TId (rev a)) (lexs SNone r)
      else if is_punct c then lcons (TId (rev a)) (lcons (TP c) (lexs SNone r))
      else if is_high c then LUnsup
      else LErr
    | SStr a =>
      if beqb c x22 then lcons (TStr (rev a)) (lexs SNone r)
      else if beqb c x5c then LUnsup                           (* escape sequence *)
      else if is_high c then LUnsup
      else lexs (SStr (c :: a)) r
    | SRaw a =>
      if beqb c x60 then lcons (TRaw (rev a)) (lexs SNone r)
      else if is_high c then LUnsup
      else lexs (SRaw (c :: a)) r
    end
  end.
Definition lex_line (l : str) : lres := lexs SNone l.

Definition tok_text (t : tok) : str :=
  match t with
  | TId s => s
  | TStr s => x22 :: s ++ [x22]
  | TRaw s => x60 :: s ++ [x60]
  | TP b => [b]
  end.

Inductive llres := LLOk (tls : list (list tok)) | LLErr | LLUnsup.
Fixpoint lex_all (ls : list str) : llres :=
  match ls with
  | [] => LLOk []
  | l :: t =>
    match lex_line l with
    | LErr => LLErr
    | LUnsup => LLUnsup
    | LOk ts => match lex_all t with LLOk r => LLOk (ts :: r) | e => e end
    end
  end.

(* ---------- statements ---------- *)
Inductive stmt := SLine (toks : list tok) | SBlock (verb : list tok) (lines : list (list tok)).
Inductive pstate := PTop | PIn (verb : list tok) (acc : list (list tok)).
Inductive scanres := ScLine (toks : list tok) | ScOpen (verb : list tok) | ScEmpty (verb : list tok).

Definition is_tp (b : byte) (t : tok) : bool := match t with TP c => beqb c b | _ => false end.

(* parseStmt after its first token: an opening parenthesis as the last token of the line opens
   a block, an empty pair as the last two tokens is an empty block, otherwise parentheses are
   ordinary tokens *)
Fixpoint scan (acc : list tok) (rest : list tok) : scanres :=
  match rest with
  | [] => ScLine (rev acc)
  | t :: r1 =>
    if is_tp x28 t then
      match r1 with
      | [] => ScOpen (rev acc)
      | t2 :: r2 =>
        if is_tp x29 t2 then
          match r2 with
          | [] => ScEmpty (rev acc)
          | _ => scan (t2 :: t :: acc) r2
          end
        else scan (t :: acc) r1
      end
    else scan (t :: acc) r1
  end.

(* parseFile / parseLineBlock over the token lines; None = syntax error *)
Fixpoint parse (st : pstate) (ls : list (list tok)) : option (list stmt) :=
  match ls with
  | [] => match st with PTop => Some [] | PIn _ _ => None end   (* unterminated block *)
  | l :: t =>
    match st with
    | PTop =>
      match l with
      | [] => parse PTop t
      | f :: r =>
        match scan [f] r with
        | ScLine toks => option_map (cons (SLine toks)) (parse PTop t)
        | ScOpen v => parse (PIn v []) t
        | ScEmpty v => option_map (cons (SBlock v [])) (parse PTop t)
        end
      end
    | PIn v acc =>
      match l with
      | [] => parse (PIn v acc) t
      | f :: r =>
        if is_tp x29 f then
          match r with
          | [] => option_map (cons (SBlock v (rev acc))) (parse PTop t)
          | _ => None                             (* expected newline after closing paren *)
          end
        else parse (PIn v (l :: acc)) t
      end
    end
  end.

(* ---------- directives (rule.go: parseToFile, add with strict = false) ---------- *)
Record est := { e_seen : bool; e_mod : str; e_err : bool; e_others : list (str * list str) }.
Definition e0 : est := {| e_seen := false; e_mod := []; e_err := false; e_others := [] |}.

(* parseString: a double-quoted token is unquoted; any other token must not contain a
   double quote, single quote or backquote *)
Definition parse_string (t : tok) : option str :=
  match t with
  | TStr s => Some s
  | TId s => if existsb is_quote s then None else Some s
  | TRaw _ => None
  | TP b => Some [b]
  end.

Definition set_err (e : est) : est :=
  {| e_seen := e_seen e; e_mod := e_mod e; e_err := true; e_others := e_others e |}.

Definition add_module (args : list tok) (e : est) : est :=
  if e_seen e then set_err e                          (* repeated module statement *)
  else
    let e1 := {| e_seen := true; e_mod := []; e_err := e_err e; e_others := e_others e |} in
    match args with
    | [a] => match parse_string a with
             | Some p => {| e_seen := true; e_mod := p; e_err := e_err e; e_others := e_others e |}
             | None => set_err e1
             end
    | _ => set_err e1                                 (* usage: module module/path *)
    end.

Definition is_other_verb (v : str) : bool :=
  seqb v (B "go") || seqb v (B "retract") || seqb v (B "require").

Definition add (verb : str) (args : list tok) (e : est) : est :=
  if seqb verb (B "module") then add_module args e
  else if is_other_verb verb then
    {| e_seen := e_seen e; e_mod := e_mod e; e_err := e_err e;
       e_others := e_others e ++ [(verb, map tok_text args)] |}
  else e.

Definition block_verb (v : str) : bool :=
  smem v [B "module"; B "godebug"; B "require"; B "exclude"; B "replace"; B "retract"; B "tool"].

Definition eval_stmt (e : est) (s : stmt) : est :=
  match s with
  | SLine [] => e
  | SLine (v :: args) => add (tok_text v) args e
  | SBlock [v] lines =>
    if block_verb (tok_text v) then fold_left (fun e l => add (tok_text v) l e) lines e else e
  | SBlock _ _ => e
  end.

Inductive mres := MOk (p : str) | MErr | MUnsup.

Definition mp_lines (aux : list (str * list str) -> bool) (ls : list str) : mres :=
  match lex_all ls with
  | LLErr => MErr
  | LLUnsup => MUnsup
  | LLOk tls =>
    match parse PTop tls with
    | None => MErr
    | Some stmts =>
      let e := fold_left eval_stmt stmts e0 in
      if e_err e || negb (aux (e_others e)) then MErr
      else if e_seen e then match e_mod e with [] => MErr | p => MOk p end
      else MErr                                        (* no module directive *)
    end
  end.

(* split on \n (a text ending in \n has a last empty line: harmless) *)
Fixpoint split_lines_acc (acc : str) (s : str) : list str :=
  match s with
  | [] => [rev acc]
  | c :: r => if beqb c x0a then rev acc :: split_lines_acc [] r else split_lines_acc (c :: acc) r
  end.
Definition split_lines (s : str) : list str := split_lines_acc [] s.

Fixpoint join_lines (ls : list str) : str :=
  match ls with
  | [] => []
  | [l] => l
  | l :: t => l ++ x0a :: join_lines t
  end.

Definition module_path (aux : list (str * list str) -> bool) (s : str) : mres :=
  mp_lines aux (split_lines s).

(* ---------- the pinned code ---------- *)
Inductive ores := OOk (p : str) | OErr | OPanic.

Fixpoint find_sub (pat s : str) : option (str * str) :=
  if has_prefix s pat then Some ([], skipn (length pat) s)
  else match s with
       | [] => None
       | c :: r => match find_sub pat r with Some (b, a) => Some (c :: b, a) | None => None end
       end.

Definition drop_cr (l : str) : str :=
  match rev l with x0d :: r => rev r | _ => l end.

(* strings.Split(line, "module ")[1] *)
Definition old_line (l : str) : ores :=
  match find_sub (B "module ") l with
  | None => OPanic                                     (* index out of range [1] with length 1 *)
  | Some (_, after) =>
    match find_sub (B "module ") after with
    | Some (b, _) => OOk b
    | None => OOk after
    end
  end.

Fixpoint old_scan (ls : list str) : ores :=
  match ls with
  | [] => OErr
  | l :: t => if has_prefix (drop_cr l) (B "module") then old_line (drop_cr l) else old_scan t
  end.
Definition module_path_old (s : str) : ores := old_scan (split_lines s).

(* ---------- specification of the module directive (vocabulary of C09_modpath) ---------- *)
Definition ws_str (s : str) : Prop := forallb is_ws s = true.
Definition no_nl (s : str) : Prop := forallb (fun b => negb (beqb b x0a)) s = true.
(* what may follow the last token of a line: nothing, or a // comment (any bytes) *)
Definition comment_str (s : str) : Prop := s = [] \/ has_prefix s (B "//") = true.
Definition blank_line (l : str) : Prop := exists w c, l = w ++ c /\ ws_str w /\ comment_str c.

(* a module path written without quotes: printable ASCII except space ( ) [ ] { } , and the
   three quote characters; no // or slash-star inside; not ending in a slash *)
Definition bare_char (b : byte) : bool := is_identc b && negb (is_quote b).
Fixpoint no_slash_pair (s : str) : bool :=
  match s with
  | c :: r => match r with
              | d :: _ => negb (beqb c x2f && (beqb d x2f || beqb d x2a)) && no_slash_pair r
              | [] => true
              end
  | [] => true
  end.
Definition bare_path (p : str) : Prop :=
  p <> [] /\ forallb bare_char p = true /\ no_slash_pair p = true /\ last p x00 <> x2f.
(* written in double quotes: any ASCII byte except the double quote, backslash, newline *)
Definition quoted_char (b : byte) : bool :=
  negb (is_high b) && negb (beqb b x22) && negb (beqb b x5c) && negb (beqb b x0a).
Definition quoted_path (p : str) : Prop := p <> [] /\ forallb quoted_char p = true.

Inductive path_text (p : str) : str -> Prop :=
| PT_bare : bare_path p -> path_text p p
| PT_quoted : quoted_path p -> path_text p (x22 :: p ++ [x22]).

(* the lines of a module directive: on one line, with spaces or tabs (at least one) between
   the keyword and the path and an optional trailing comment; or in block form *)
Inductive directive (p : str) : list str -> Prop :=
| D_line w0 w1 t w2 c :
    ws_str w0 -> ws_str w1 -> w1 <> [] -> path_text p t -> ws_str w2 -> comment_str c ->
    directive p [w0 ++ B "module" ++ w1 ++ t ++ w2 ++ c]
| D_block w0 w1 w2 c1 bl1 w3 t w4 c2 bl2 w5 w6 c3 :
    ws_str w0 -> ws_str w1 -> ws_str w2 -> comment_str c1 -> Forall blank_line bl1 ->
    ws_str w3 -> path_text p t -> ws_str w4 -> comment_str c2 -> Forall blank_line bl2 ->
    ws_str w5 -> ws_str w6 -> comment_str c3 ->
    directive p ([w0 ++ B "module" ++ w1 ++ x28 :: w2 ++ c1] ++ bl1 ++
                 [w3 ++ t ++ w4 ++ c2] ++ bl2 ++ [w5 ++ x29 :: w6 ++ c3]).

(* the remainder of the file: any lines that the parser accepts, that contain no further
   module directive and whose go / require / retract statements the library accepts *)
Definition rest_ok (aux : list (str * list str) -> bool) (rest : list str) : Prop :=
  exists tls stmts, lex_all rest = LLOk tls /\ parse PTop tls = Some stmts /\
    e_seen (fold_left eval_stmt stmts e0) = false /\
    aux (e_others (fold_left eval_stmt stmts e0)) = true.
