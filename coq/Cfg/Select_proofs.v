(* Proofs about Cfg/Select.v  (C07). *)
From Coq Require Import Permutation Sorted.
From Mk Require Import Lib.Bytes Lib.Regex Cfg.Select.

(* ------------------------------------------------------------------ *)
(* association lists                                                   *)

Lemma lookup_in {A} k (m : list (str * A)) : lookup k m <> None <-> In k (map fst m).
Proof.
  induction m as [|[k' v] t IH]; simpl; [tauto|].
  destruct (seqb k k') eqn:E.
  - apply seqb_eq in E; subst. split; [intros _; now left | intros _; discriminate].
  - apply seqb_neq in E. rewrite IH. split; [auto | intros [H|H]; [congruence | exact H]].
Qed.
Lemma lookup_none {A} k (m : list (str * A)) : lookup k m = None <-> ~ In k (map fst m).
Proof.
  rewrite <- lookup_in. destruct (lookup k m); split; intros H.
  - discriminate.
  - exfalso. apply H. discriminate.
  - intros X. now apply X.
  - reflexivity.
Qed.
Lemma lookup_some_in {A} k (m : list (str * A)) v : lookup k m = Some v -> In (k, v) m.
Proof.
  induction m as [|[k' v'] t IH]; simpl; [discriminate|].
  destruct (seqb k k') eqn:E.
  - apply seqb_eq in E; subst. intros H; injection H as ->. now left.
  - intros H. right. auto.
Qed.
Lemma in_lookup {A} k v (m : list (str * A)) : NoDup (map fst m) -> In (k, v) m -> lookup k m = Some v.
Proof.
  induction m as [|[k' v'] t IH]; simpl; [tauto|]. intros ND [H|H].
  - injection H as -> ->. now rewrite seqb_refl.
  - inversion ND as [|? ? N1 N2]; subst. destruct (seqb k k') eqn:E.
    + apply seqb_eq in E; subst. exfalso. apply N1. change k' with (fst (k', v)). now apply in_map.
    + auto.
Qed.

Lemma lookup_app {A} k (m1 m2 : list (str * A)) :
  lookup k (m1 ++ m2) = match lookup k m1 with Some v => Some v | None => lookup k m2 end.
Proof.
  induction m1 as [|[k' v] t IH]; simpl; [reflexivity|]. destruct (seqb k k'); auto.
Qed.

Lemma lookup_update {A} k k' (v : A) m :
  lookup k (update k' v m) = if seqb k k' then (match lookup k m with Some _ => Some v | None => None end)
                             else lookup k m.
Proof.
  induction m as [|[k0 v0] t IH]; simpl; [now destruct (seqb k k')|].
  destruct (seqb k' k0) eqn:E0; simpl.
  - apply seqb_eq in E0; subst k0. destruct (seqb k k') eqn:E; reflexivity.
  - destruct (seqb k k0) eqn:E1.
    + apply seqb_eq in E1; subst k0. destruct (seqb k k') eqn:E; [|reflexivity].
      apply seqb_eq in E; subst. rewrite seqb_refl in E0. discriminate.
    + exact IH.
Qed.

Lemma map_fst_update {A} k (v : A) m : map fst (update k v m) = map fst m.
Proof.
  induction m as [|[k0 v0] t IH]; simpl; [reflexivity|].
  destruct (seqb k k0); simpl; [reflexivity | now rewrite IH].
Qed.

Lemma NoDup_app_intro {A} (l1 l2 : list A) :
  NoDup l1 -> NoDup l2 -> (forall x, In x l1 -> In x l2 -> False) -> NoDup (l1 ++ l2).
Proof.
  induction l1 as [|a l1 IH]; simpl; intros N1 N2 D; [exact N2|].
  inversion N1 as [|? ? Na N1']; subst. constructor.
  - rewrite in_app_iff. intros [H|H]; [contradiction | eapply D; [now left | exact H]].
  - apply IH; auto. intros x H1 H2. eapply D; [right; exact H1 | exact H2].
Qed.

(* ------------------------------------------------------------------ *)
(* selection predicate                                                 *)

(* every pointer field is set (exclude-subpkg-regex is a slice and may be nil) *)
Definition full (c : cfg) : Prop :=
  c_all c <> None /\ c_inc c <> None /\ c_exc c <> None /\ c_rec c <> None /\ c_mark c <> None.

Definition listed (p : pcfg) (n : str) : Prop := In n (map fst (p_ifaces p)).

(* the documented rule *)
Definition selected (p : pcfg) (n : str) : Prop :=
  c_all (p_cfg p) = Some true \/ listed p n \/
  exists pi, c_inc (p_cfg p) = Some (ReOk pi) /\ pat_matches pi n /\
    (c_exc (p_cfg p) = Some ReUnset \/
     exists pe, c_exc (p_cfg p) = Some (ReOk pe) /\ ~ pat_matches pe n).

(* the regular expressions that are evaluated for this name, and one does not compile *)
Definition bad_regex_reached (p : pcfg) (n : str) : Prop :=
  c_all (p_cfg p) = Some false /\ ~ listed p n /\
  (c_inc (p_cfg p) = Some ReBad \/
   exists pi, c_inc (p_cfg p) = Some (ReOk pi) /\ pat_matches pi n /\ c_exc (p_cfg p) = Some ReBad).

Lemma select_iff p n : full (p_cfg p) -> (should_generate p n = Ok true <-> selected p n).
Proof.
  intros (Fa & Fi & Fe & _ & _). unfold should_generate, selected, listed.
  rewrite <- lookup_in.
  destruct (c_all (p_cfg p)) as [[|]|] eqn:Ea; simpl; [split; auto | | congruence].
  destruct (lookup n (p_ifaces p)) as [ic|] eqn:El; simpl.
  { split; [intros _; right; left; congruence | reflexivity]. }
  destruct (c_inc (p_cfg p)) as [inc|] eqn:Ei; [|congruence].
  destruct (c_exc (p_cfg p)) as [exc|] eqn:Ee; [|congruence]. simpl.
  split.
  - intros H. right. right. destruct inc as [| |pi]; try discriminate.
    destruct (pat_match pi n) eqn:Em; simpl in H; [|discriminate].
    exists pi. split; [reflexivity|]. split; [now apply pat_match_spec|].
    destruct exc as [| |pe]; [now left | discriminate |].
    right. exists pe. split; [reflexivity|]. apply pat_match_false.
    injection H as H. now destruct (pat_match pe n).
  - intros [H|[H|(pi & Hi & Hm & Hx)]]; [discriminate | congruence |].
    injection Hi as ->. apply pat_match_spec in Hm. rewrite Hm. simpl.
    destruct Hx as [Hx|(pe & Hx & Hn)]; injection Hx as ->; [reflexivity|].
    apply pat_match_false in Hn. now rewrite Hn.
Qed.

Lemma select_err p n e : full (p_cfg p) -> (should_generate p n = Err e <-> bad_regex_reached p n).
Proof.
  intros (Fa & Fi & Fe & _ & _). unfold should_generate, bad_regex_reached, listed.
  rewrite <- lookup_in. destruct e.
  destruct (c_all (p_cfg p)) as [[|]|] eqn:Ea; simpl; [split; [discriminate | intros [H _]; discriminate] | | congruence].
  destruct (lookup n (p_ifaces p)) as [ic|] eqn:El; simpl.
  { split; [discriminate | intros (_ & H & _); exfalso; apply H; congruence]. }
  destruct (c_inc (p_cfg p)) as [inc|] eqn:Ei; [|congruence].
  destruct (c_exc (p_cfg p)) as [exc|] eqn:Ee; [|congruence]. simpl.
  split.
  - intros H. split; [reflexivity|]. split; [tauto|].
    destruct inc as [| |pi]; [discriminate | now left |].
    destruct (pat_match pi n) eqn:Em; simpl in H; [|discriminate].
    right. exists pi. split; [reflexivity|]. split; [now apply pat_match_spec|].
    destruct exc; try discriminate. reflexivity.
  - intros (_ & _ & [H|(pi & Hi & Hm & Hx)]).
    + injection H as ->. reflexivity.
    + injection Hi as ->. injection Hx as ->. apply pat_match_spec in Hm. now rewrite Hm.
Qed.

Lemma select_no_panic p n : full (p_cfg p) -> should_generate p n <> Panic.
Proof.
  intros (Fa & Fi & Fe & _ & _). unfold should_generate.
  destruct (c_all (p_cfg p)) as [[|]|]; simpl; try congruence.
  destruct (lookup n (p_ifaces p)); simpl; try congruence.
  destruct (c_inc (p_cfg p)) as [inc|]; [|congruence].
  destruct (c_exc (p_cfg p)) as [exc|]; [|congruence]. simpl.
  destruct inc as [| |pi]; try congruence.
  destruct (negb (pat_match pi n)); try congruence. destruct exc; congruence.
Qed.

(* regexes are ignored under all: even ones that do not compile *)
Lemma all_ignores_regexes p n :
  c_all (p_cfg p) = Some true -> should_generate p n = Ok true.
Proof. intros H. unfold should_generate. rewrite H. reflexivity. Qed.

(* exclude is ignored without include: the result does not depend on it *)
Definition set_exc (p : pcfg) (e : re_src) : pcfg :=
  with_cfg p {| c_all := c_all (p_cfg p); c_inc := c_inc (p_cfg p); c_exc := Some e;
                c_rec := c_rec (p_cfg p); c_exsub := c_exsub (p_cfg p); c_mark := c_mark (p_cfg p) |}.

Lemma exclude_ignored_without_include p n e1 e2 :
  c_inc (p_cfg p) = Some ReUnset ->
  should_generate (set_exc p e1) n = should_generate (set_exc p e2) n.
Proof.
  intros Hi. unfold should_generate, set_exc. simpl. rewrite Hi.
  destruct (c_all (p_cfg p)) as [[|]|]; simpl; reflexivity.
Qed.

(* ------------------------------------------------------------------ *)
(* discovery                                                           *)

(* package-level names of the loaded files are unique (the compiler guarantees it) *)
Definition wf_decls (decls : list decl) : Prop := NoDup (map d_name (filter visible decls)).

(* a declaration that can be mocked: a package-level, non-alias declaration of an interface
   type in a file of the build, with a right-hand side the visitor accepts *)
Definition mockable (d : decl) : bool :=
  d_active d && is_pkglevel d && visitor_accepts d && negb (seqb (d_name d) blank) &&
  negb (d_alias d) && d_iface d.

Lemma scope_lookup_self decls d :
  wf_decls decls -> In d decls -> visible d = true -> scope_lookup decls (d_name d) = Some d.
Proof.
  unfold wf_decls, scope_lookup. induction decls as [|x t IH]; simpl; [tauto|].
  intros ND Hin Hv. destruct (visible x) eqn:Vx; simpl in *.
  - inversion ND as [|? ? N1 N2]; subst. destruct (seqb (d_name x) (d_name d)) eqn:E.
    + apply seqb_eq in E. destruct Hin as [->|Hin]; [reflexivity|]. exfalso. apply N1.
      rewrite E. apply in_map. apply filter_In. auto.
    + destruct Hin as [->|Hin]; [rewrite seqb_refl in E; discriminate|]. auto.
  - destruct Hin as [->|Hin]; [congruence|]. auto.
Qed.

Lemma scope_lookup_some decls n d :
  scope_lookup decls n = Some d -> In d decls /\ visible d = true /\ d_name d = n.
Proof.
  unfold scope_lookup. intros H. apply find_some in H as [H1 H2].
  apply andb_true_iff in H2 as [H2 H3]. apply seqb_eq in H3. auto.
Qed.

Lemma resolve_some decls n x :
  resolve decls n = Some x ->
  x = n /\ exists d, In d decls /\ d_name d = n /\ visible d = true /\ d_alias d = false /\ d_iface d = true.
Proof.
  unfold resolve. destruct (scope_lookup decls n) as [d|] eqn:E; [|discriminate].
  apply scope_lookup_some in E as (H1 & H2 & H3).
  destruct (d_alias d) eqn:Ea; [discriminate|]. destruct (d_iface d) eqn:Ei; [|discriminate].
  intros H; injection H as <-. split; [exact H3|]. exists d. auto.
Qed.

Lemma discover_from_in decls names x :
  In x (discover_from decls names) <-> In x names /\ resolve decls x = Some x.
Proof.
  induction names as [|n t IH]; simpl; [tauto|].
  destruct (resolve decls n) as [y|] eqn:E.
  - pose proof (resolve_some _ _ _ E) as [-> _]. simpl. rewrite IH. split.
    + intros [<-|[H1 H2]]; auto.
    + intros [[<-|H1] H2]; auto.
  - rewrite IH. split; [intros [H1 H2]; auto|]. intros [[<-|H1] H2]; [congruence | auto].
Qed.

Lemma visible_of_mockable d : mockable d = true -> visible d = true.
Proof.
  unfold mockable, visible. intros H. rewrite !andb_true_iff in H.
  destruct H as (((((A & P) & _) & Bk) & _) & _). rewrite A, P, Bk. reflexivity.
Qed.

Theorem discover_spec decls n :
  wf_decls decls ->
  (In n (discover decls) <-> exists d, In d decls /\ d_name d = n /\ mockable d = true).
Proof.
  intros WF. unfold discover. rewrite discover_from_in. split.
  - intros [Hc Hr]. apply resolve_some in Hr as (_ & d & Hd & Hn & Hv & Ha & Hi).
    unfold candidates in Hc. apply in_map_iff in Hc as (d' & Hn' & Hf).
    apply filter_In in Hf as [Hd' Hq]. apply andb_true_iff in Hq as [Hq Hacc].
    assert (visible d' = true) as Hv'.
    { unfold visible in *. rewrite Hq. simpl. rewrite Hn', <- Hn.
      apply andb_true_iff in Hv as [_ Hv]. exact Hv. }
    assert (d' = d) as ->.
    { eapply NoDup_map_inj_on; [exact WF | | | congruence]; apply filter_In; auto. }
    exists d. split; [exact Hd|]. split; [exact Hn|].
    unfold mockable. unfold visible in Hv. apply andb_true_iff in Hv as [Hv Hb].
    rewrite Hv, Hacc, Hb, Ha, Hi. reflexivity.
  - intros (d & Hd & Hn & Hm). pose proof (visible_of_mockable _ Hm) as Hv.
    unfold mockable in Hm. rewrite !andb_true_iff in Hm.
    destruct Hm as (((((A & P) & Acc) & Bk) & Al) & If). split.
    + unfold candidates. apply in_map_iff. exists d. split; [exact Hn|].
      apply filter_In. split; [exact Hd|]. rewrite A, P, Acc. reflexivity.
    + unfold resolve. rewrite <- Hn, (scope_lookup_self _ _ WF Hd Hv).
      apply negb_true_iff in Al. rewrite Al, If. reflexivity.
Qed.

Lemma discover_from_filter decls names :
  discover_from decls names = filter (fun n => match resolve decls n with Some _ => true | None => false end) names.
Proof.
  induction names as [|n t IH]; simpl; [reflexivity|].
  destruct (resolve decls n) as [y|] eqn:E; [|exact IH].
  apply resolve_some in E as [-> _]. now rewrite IH.
Qed.

Lemma nodup_filtered_names (g : str -> bool) (q : decl -> bool) decls :
  (forall n, g n = true -> n <> blank) ->
  (forall d, q d = true -> d_active d && is_pkglevel d = true) ->
  NoDup (map d_name (filter visible decls)) ->
  NoDup (filter g (map d_name (filter q decls))).
Proof.
  intros Hg Hq. induction decls as [|x t IH]; simpl; [constructor|].
  intros ND.
  assert (NoDup (map d_name (filter visible t))) as NDt.
  { destruct (visible x); [now inversion ND | exact ND]. }
  destruct (q x) eqn:Qx; simpl; [|auto].
  destruct (g (d_name x)) eqn:Gx; [|auto].
  assert (visible x = true) as Vx.
  { unfold visible. rewrite (Hq _ Qx). simpl. apply negb_true_iff. apply seqb_neq. now apply Hg. }
  rewrite Vx in ND. simpl in ND. inversion ND as [|? ? N1 N2]; subst.
  constructor; [|auto]. intros Hin. apply N1.
  apply filter_In in Hin as [Hin _]. apply in_map_iff in Hin as (d & Hn & Hf).
  apply filter_In in Hf as [Hd Qd]. apply in_map_iff. exists d. split; [exact Hn|].
  apply filter_In. split; [exact Hd|]. unfold visible. rewrite (Hq _ Qd). simpl.
  apply negb_true_iff. apply seqb_neq. rewrite Hn. now apply Hg.
Qed.

Theorem discover_nodup decls : wf_decls decls -> NoDup (discover decls).
Proof.
  intros WF. unfold discover. rewrite discover_from_filter. unfold candidates.
  apply nodup_filtered_names; [| |exact WF].
  - intros n H. destruct (resolve decls n) as [x|] eqn:E; [|discriminate].
    apply resolve_some in E as (_ & d & _ & Hn & Hv & _). unfold visible in Hv.
    apply andb_true_iff in Hv as [_ Hv]. apply negb_true_iff in Hv. apply seqb_neq in Hv. congruence.
  - intros d H. apply andb_true_iff in H as [H _]. exact H.
Qed.

(* ------------------------------------------------------------------ *)
(* mocks of one package                                                *)

Definition entries_of (p : pcfg) (n : str) : list (option str) :=
  match lookup n (p_ifaces p) with Some ic => i_entries ic | None => [] end.

Lemma entries_from_ok pkg n pm imark es : forall i,
  exists l, entries_from pkg n (Some pm) imark i es = Ok l /\
            length l = length es /\ map m_entry l = seq i (length es) /\
            Forall (fun mk => m_pkg mk = pkg /\ m_iface mk = n) l.
Proof.
  induction es as [|e t IH]; intros i; simpl.
  - exists []. repeat split; constructor.
  - destruct (IH (S i)) as (l & -> & Hl & Hs & Hf).
    assert (exists sn, struct_name n [e; imark; Some pm] = Ok sn) as [sn ->].
    { unfold struct_name. simpl. destruct e; simpl; [eauto|]. destruct imark; simpl; eauto. }
    simpl. eexists. split; [reflexivity|]. simpl. rewrite Hl, Hs. repeat split.
    constructor; [split; reflexivity | exact Hf].
Qed.

Lemma mocks_for_ok pkg p n :
  c_mark (p_cfg p) <> None ->
  exists l, mocks_for pkg p n = Ok l /\
            length l = Nat.max 1 (length (entries_of p n)) /\
            map m_entry l = seq 0 (length l) /\
            Forall (fun mk => m_pkg mk = pkg /\ m_iface mk = n) l.
Proof.
  intros Hm. destruct (c_mark (p_cfg p)) as [pm|] eqn:Em; [|congruence].
  unfold mocks_for, entries_of. rewrite Em.
  destruct (lookup n (p_ifaces p)) as [ic|].
  - destruct (i_entries ic) as [|e es] eqn:Ees.
    + destruct (entries_from_ok pkg n pm (i_mark ic) [None] 0) as (l & -> & Hl & Hs & Hf).
      exists l. rewrite Hl. simpl in *. auto.
    + destruct (entries_from_ok pkg n pm (i_mark ic) (e :: es) 0) as (l & -> & Hl & Hs & Hf).
      exists l. rewrite Hl. simpl in *. auto.
  - destruct (entries_from_ok pkg n pm None [None] 0) as (l & -> & Hl & Hs & Hf).
    exists l. rewrite Hl. simpl in *. auto.
Qed.

Definition count_mocks (pkg n : str) (l : list mock) : nat :=
  length (filter (fun mk => seqb (m_pkg mk) pkg && seqb (m_iface mk) n) l).

Lemma count_app pkg n l1 l2 : count_mocks pkg n (l1 ++ l2) = count_mocks pkg n l1 + count_mocks pkg n l2.
Proof. unfold count_mocks. now rewrite filter_app, app_length. Qed.

Lemma count_all pkg n l :
  Forall (fun mk => m_pkg mk = pkg /\ m_iface mk = n) l -> count_mocks pkg n l = length l.
Proof.
  unfold count_mocks. induction 1 as [|mk l [H1 H2] _ IH]; simpl; [reflexivity|].
  rewrite H1, H2, !seqb_refl. simpl. now rewrite IH.
Qed.
Lemma count_none pkg n l :
  Forall (fun mk => m_pkg mk <> pkg \/ m_iface mk <> n) l -> count_mocks pkg n l = 0.
Proof.
  unfold count_mocks. induction 1 as [|mk l H _ IH]; simpl; [reflexivity|].
  destruct (seqb (m_pkg mk) pkg) eqn:E1; simpl; [|exact IH].
  destruct (seqb (m_iface mk) n) eqn:E2; simpl; [|exact IH].
  apply seqb_eq in E1, E2. tauto.
Qed.

(* what [mocks_of_names] returns, for any list of names *)
Lemma mocks_of_names_spec pkg p names l :
  full (p_cfg p) -> mocks_of_names pkg p names = Ok l ->
  (forall mk, In mk l -> m_pkg mk = pkg /\ In (m_iface mk) names /\ should_generate p (m_iface mk) = Ok true) /\
  (forall n, NoDup names -> In n names -> should_generate p n = Ok true ->
             count_mocks pkg n l = Nat.max 1 (length (entries_of p n))) /\
  (forall n k, should_generate p n <> Ok true \/ ~ In n names -> count_mocks k n l = 0) /\
  (forall k n, k <> pkg -> count_mocks k n l = 0) /\
  (NoDup names -> NoDup (map (fun mk => (m_iface mk, m_entry mk)) l)).
Proof.
  intros F. assert (c_mark (p_cfg p) <> None) as Fm by apply F.
  revert l. induction names as [|n t IH]; simpl; intros l H.
  - injection H as <-. split; [intros mk []|]. split; [intros n _ []|].
    split; [reflexivity|]. split; [reflexivity|]. intros _. constructor.
  - destruct (should_generate p n) as [g| |] eqn:Eg; simpl in H; try discriminate.
    assert (exists here, (if g then mocks_for pkg p n else Ok []) = Ok here /\
              Forall (fun mk => m_pkg mk = pkg /\ m_iface mk = n) here /\
              (g = true -> length here = Nat.max 1 (length (entries_of p n)) /\ map m_entry here = seq 0 (length here)) /\
              (g = false -> here = [])) as (here & Eh & Fh & Gt & Gf).
    { destruct g.
      - destruct (mocks_for_ok pkg p n Fm) as (h & Eh & Hl & Hs & Hf). exists h.
        split; [exact Eh|]. split; [exact Hf|]. split; [intros _; split; assumption | discriminate].
      - exists []. split; [reflexivity|]. split; [constructor|]. split; [discriminate | reflexivity]. }
    rewrite Eh in H. simpl in H.
    destruct (mocks_of_names pkg p t) as [rest| |] eqn:Er; simpl in H; try discriminate.
    injection H as <-.
    destruct (IH rest eq_refl) as (I1 & I2 & I3 & I4 & I5). clear IH.
    repeat split.
    + apply in_app_or in H as [H|H].
      * rewrite Forall_forall in Fh. now apply Fh.
      * now apply I1.
    + apply in_app_or in H as [H|H].
      * rewrite Forall_forall in Fh. left. symmetry. now apply Fh.
      * right. now apply I1.
    + apply in_app_or in H as [H|H].
      * rewrite Forall_forall in Fh. destruct (Fh _ H) as [_ ->].
        destruct g; [exact Eg|]. rewrite (Gf eq_refl) in H. destruct H.
      * now apply I1.
    + intros n0 ND Hin Hs. inversion ND as [|? ? N1 N2]; subst. rewrite count_app.
      destruct Hin as [<-|Hin].
      * rewrite Hs in Eg. injection Eg as <-. destruct (Gt eq_refl) as [Hl _].
        rewrite (count_all _ _ _ Fh), Hl, (I3 n pkg); [|now right].
        rewrite Nat.add_0_r. destruct (length (entries_of p n)); reflexivity.
      * rewrite (I2 _ N2 Hin Hs). rewrite count_none; [reflexivity|].
        eapply Forall_impl; [|exact Fh]. simpl. intros mk [_ ->]. right. intros ->. contradiction.
    + intros n0 k [Hs|Hn]; rewrite count_app.
      * rewrite (I3 n0 k (or_introl Hs)). rewrite count_none; [reflexivity|].
        destruct g; [|rewrite (Gf eq_refl); constructor].
        eapply Forall_impl; [|exact Fh]. simpl. intros mk [_ ->]. right. intros ->. congruence.
      * rewrite (I3 n0 k); [|right; tauto]. rewrite count_none; [reflexivity|].
        eapply Forall_impl; [|exact Fh]. simpl. intros mk [_ ->]. right. intros ->. tauto.
    + intros k n0 Hk. rewrite count_app, (I4 k n0 Hk). rewrite count_none; [reflexivity|].
      eapply Forall_impl; [|exact Fh]. simpl. intros mk [-> _]. left. congruence.
    + intros ND. inversion ND as [|? ? N1 N2]; subst. rewrite map_app.
      apply NoDup_app_intro; [| now apply I5 |].
      * destruct g; [|rewrite (Gf eq_refl); constructor].
        destruct (Gt eq_refl) as [_ Hs].
        apply (NoDup_map_inv snd). rewrite map_map.
        rewrite (map_ext _ m_entry) by reflexivity. rewrite Hs. apply seq_NoDup.
      * intros [a b] Ha Hb. apply in_map_iff in Ha as (mk1 & E1 & H1). apply in_map_iff in Hb as (mk2 & E2 & H2).
        rewrite Forall_forall in Fh. destruct (Fh _ H1) as [_ X]. destruct (I1 _ H2) as (_ & Y & _).
        injection E1 as <- _. injection E2 as E2 _. rewrite X in E2. rewrite E2 in Y. contradiction.
Qed.

(* ------------------------------------------------------------------ *)
(* mocks of all configured packages                                    *)

Definition all_full (m : pkgmap) : Prop := forall k p, In (k, p) m -> full (p_cfg p).
Definition wf_srcs (ss : srcs) : Prop := forall k decls, lookup k ss = Some decls -> wf_decls decls.

Lemma mocks_of_pkg_spec ss k p here :
  full (p_cfg p) -> wf_srcs ss -> mocks_of_pkg ss k p = Ok here ->
  (forall mk, In mk here -> m_pkg mk = k /\ exists decls, lookup k ss = Some decls /\
                 In (m_iface mk) (discover decls) /\ should_generate p (m_iface mk) = Ok true) /\
  (forall decls n, lookup k ss = Some decls -> In n (discover decls) -> should_generate p n = Ok true ->
                   count_mocks k n here = Nat.max 1 (length (entries_of p n))) /\
  (forall k' n, k' <> k -> count_mocks k' n here = 0) /\
  (forall n, should_generate p n <> Ok true \/ (forall decls, lookup k ss = Some decls -> ~ In n (discover decls)) ->
             count_mocks k n here = 0) /\
  NoDup (map (fun mk => (m_iface mk, m_entry mk)) here).
Proof.
  intros F WS. unfold mocks_of_pkg. destruct (lookup k ss) as [decls|] eqn:El.
  - intros H. destruct (mocks_of_names_spec _ _ _ _ F H) as (S1 & S2 & S3 & S4 & S5).
    pose proof (discover_nodup _ (WS _ _ El)) as ND. repeat split.
    + now apply S1.
    + exists decls. split; [reflexivity|]. split; now apply S1.
    + intros d n E. injection E as <-. now apply S2.
    + intros k' n Hk. now apply S4.
    + intros n [Hs|Hn]; apply S3; [now left | right; now apply Hn].
    + now apply S5.
  - intros H. injection H as <-. repeat split; try (intros; reflexivity); try constructor.
    + destruct H.
    + destruct H.
    + intros d n E. discriminate.
Qed.

Lemma mocks_of_map_spec ss m : forall l,
  all_full m -> wf_srcs ss -> NoDup (map fst m) -> mocks_of_map ss m = Ok l ->
  (forall mk, In mk l -> exists p decls, In (m_pkg mk, p) m /\ lookup (m_pkg mk) ss = Some decls /\
                 In (m_iface mk) (discover decls) /\ should_generate p (m_iface mk) = Ok true) /\
  (forall k p decls n, In (k, p) m -> lookup k ss = Some decls -> In n (discover decls) ->
                 should_generate p n = Ok true ->
                 count_mocks k n l = Nat.max 1 (length (entries_of p n))) /\
  (forall k n, ~ In k (map fst m) -> count_mocks k n l = 0) /\
  (forall k p n, In (k, p) m ->
                 should_generate p n <> Ok true \/ (forall decls, lookup k ss = Some decls -> ~ In n (discover decls)) ->
                 count_mocks k n l = 0) /\
  NoDup (map (fun mk => (m_pkg mk, m_iface mk, m_entry mk)) l).
Proof.
  induction m as [|[k p] t IH]; intros l AF WS ND H; simpl in H.
  - injection H as <-. repeat split; try (intros; reflexivity); try constructor; intros; simpl in *; tauto.
  - destruct (mocks_of_pkg ss k p) as [here| |] eqn:Eh; simpl in H; try discriminate.
    destruct (mocks_of_map ss t) as [rest| |] eqn:Er; simpl in H; try discriminate.
    injection H as <-. simpl in ND. inversion ND as [|? ? N1 N2]; subst.
    assert (full (p_cfg p)) as F by (apply (AF k); now left).
    assert (all_full t) as AFt by (intros k' p' Hin; apply (AF k'); now right).
    destruct (mocks_of_pkg_spec _ _ _ _ F WS Eh) as (P1 & P2 & P3 & P4 & P5).
    destruct (IH rest AFt WS N2 eq_refl) as (I1 & I2 & I3 & I4 & I5). clear IH.
    split; [|split; [|split; [|split]]].
    + intros mk Hin. apply in_app_or in Hin as [Hin|Hin].
      * destruct (P1 _ Hin) as (Hk & decls & Hd & Hn & Hs). exists p, decls. rewrite Hk.
        split; [now left|]. auto.
      * destruct (I1 _ Hin) as (p' & decls & Hp & Hd & Hn & Hs). exists p', decls. split; [now right|]. auto.
    + intros k0 p0 decls n [E|Hin] Hd Hn Hs; rewrite count_app.
      * injection E as <- <-. rewrite (P2 _ _ Hd Hn Hs), (I3 k n N1). lia.
      * assert (k0 <> k) as Hk.
        { intros ->. apply N1. change k with (fst (k, p0)). now apply in_map. }
        rewrite (P3 _ n Hk), (I2 _ _ _ _ Hin Hd Hn Hs). reflexivity.
    + intros k0 n Hk. simpl in Hk. rewrite count_app, P3, I3; [reflexivity | tauto | intros ->; tauto].
    + intros k0 p0 n [E|Hin] Hc; rewrite count_app.
      * injection E as <- <-. rewrite (P4 n Hc), (I3 k n N1). reflexivity.
      * assert (k0 <> k) as Hk.
        { intros ->. apply N1. change k with (fst (k, p0)). now apply in_map. }
        rewrite (P3 _ n Hk), (I4 _ _ _ Hin Hc). reflexivity.
    + rewrite map_app. apply NoDup_app_intro; [| exact I5 |].
      * apply (NoDup_map_inv (fun x => (snd (fst x), snd x))). rewrite map_map. exact P5.
      * intros [[a b] c] Ha Hb. apply in_map_iff in Ha as (mk1 & E1 & H1).
        apply in_map_iff in Hb as (mk2 & E2 & H2).
        destruct (P1 _ H1) as (K1 & _). destruct (I1 _ H2) as (p' & _ & Hp & _).
        injection E1 as <- _ _. injection E2 as E2 _ _. rewrite K1 in E2. rewrite E2 in Hp.
        apply N1. change k with (fst (k, p')). now apply in_map.
Qed.

(* ------------------------------------------------------------------ *)
(* package paths: sub-package relation and the descending order         *)

Lemma sltb_prefix a x r : sltb a (a ++ x :: r) = true.
Proof. induction a as [|c a IH]; simpl; [reflexivity|]. now rewrite Nat.ltb_irrefl. Qed.

Lemma is_subpkg_cases parent s :
  is_subpkg parent s = true <-> s = parent \/ exists x, s = parent ++ slash :: x.
Proof.
  unfold is_subpkg. rewrite orb_true_iff, seqb_eq, has_prefix_spec. split.
  - intros [H|[x H]]; [now left | right]. exists x. now rewrite H, <- app_assoc.
  - intros [H|[x H]]; [now left | right]. exists x. now rewrite H, <- app_assoc.
Qed.

Lemma is_subpkg_refl a : is_subpkg a a = true.
Proof. apply is_subpkg_cases. now left. Qed.

(* an ancestor sorts before its descendants *)
Lemma is_subpkg_le parent s : is_subpkg parent s = true -> sltb s parent = false.
Proof.
  intros H. apply is_subpkg_cases in H as [->|[x ->]]; [apply sltb_irrefl|].
  apply sltb_asym. apply sltb_prefix.
Qed.

Lemma is_subpkg_trans a b c : is_subpkg a b = true -> is_subpkg b c = true -> is_subpkg a c = true.
Proof.
  rewrite !is_subpkg_cases. intros [->|[x ->]] [->|[y ->]].
  - now left.
  - right. now exists y.
  - right. now exists x.
  - right. exists (x ++ slash :: y). now rewrite <- app_assoc.
Qed.

(* the ancestors of a package form a chain *)
Lemma is_subpkg_chain a b k :
  is_subpkg a k = true -> is_subpkg b k = true -> sltb a b = true -> is_subpkg a b = true.
Proof.
  rewrite !is_subpkg_cases. intros [->|[x ->]] [Hb|[y Hb]] Hlt.
  - subst. rewrite sltb_irrefl in Hlt. discriminate.
  - subst. pose proof (sltb_prefix b slash y) as H. apply sltb_asym in H. congruence.
  - right. eauto.
  - apply app_eq_app in Hb as [l [[H1 H2]|[H1 H2]]].
    + (* a = b ++ l *) destruct l as [|c l].
      * rewrite app_nil_r in H1. subst. rewrite sltb_irrefl in Hlt. discriminate.
      * subst a. pose proof (sltb_prefix b c l) as H. apply sltb_asym in H. congruence.
    + (* b = a ++ l *) destruct l as [|c l].
      * rewrite app_nil_r in H1. now left.
      * simpl in H2. injection H2 as <- _. right. eauto.
Qed.

Definition ge_str (a b : str) : Prop := sltb a b = false.

Lemma ge_trans a b c : ge_str a b -> ge_str b c -> ge_str a c.
Proof.
  unfold ge_str. intros H1 H2. destruct (sltb a c) eqn:E; [|reflexivity].
  destruct (sltb b a) eqn:E2.
  - pose proof (sltb_trans _ _ _ E2 E). congruence.
  - pose proof (sltb_total _ _ H1 E2). subst. congruence.
Qed.

Lemma insert_desc_perm x l : Permutation (insert_desc x l) (x :: l).
Proof.
  induction l as [|y t IH]; simpl; [reflexivity|]. destruct (sltb x y); [|reflexivity].
  rewrite IH. apply perm_swap.
Qed.
Lemma sort_desc_perm l : Permutation (sort_desc l) l.
Proof.
  induction l as [|x t IH]; simpl; [reflexivity|]. rewrite insert_desc_perm. now constructor.
Qed.

Lemma insert_desc_sorted x l : StronglySorted ge_str l -> StronglySorted ge_str (insert_desc x l).
Proof.
  induction l as [|y t IH]; simpl; intros S.
  - constructor; constructor.
  - apply StronglySorted_inv in S as [S1 S2]. destruct (sltb x y) eqn:E.
    + constructor; [now apply IH|]. apply Forall_forall. intros z Hz.
      apply (Permutation_in _ (insert_desc_perm x t)) in Hz as [<-|Hz].
      * unfold ge_str. now apply sltb_asym.
      * rewrite Forall_forall in S2. now apply S2.
    + constructor; [constructor; assumption|]. constructor; [exact E|].
      eapply Forall_impl; [|exact S2]. intros z Hz. eapply ge_trans; eassumption.
Qed.
Lemma sort_desc_sorted l : StronglySorted ge_str (sort_desc l).
Proof. induction l as [|x t IH]; simpl; [constructor | now apply insert_desc_sorted]. Qed.

(* ------------------------------------------------------------------ *)
(* merging                                                             *)

Definition core (c : cfg) := (c_all c, c_inc c, c_exc c, c_rec c, c_mark c).

Lemma or_else_some {A} (d s : option A) : d <> None -> or_else d s = d.
Proof. destruct d; [reflexivity | congruence]. Qed.

Lemma merge_core_full src dst : full dst -> core (merge_cfg src dst) = core dst.
Proof.
  intros (H1 & H2 & H3 & H4 & H5). unfold core, merge_cfg. simpl.
  now rewrite !or_else_some by assumption.
Qed.
Lemma merge_full_l src dst : full src -> full (merge_cfg src dst).
Proof.
  intros (H1 & H2 & H3 & H4 & H5). unfold full, merge_cfg. simpl.
  repeat split; match goal with |- or_else ?d _ <> None => destruct d; simpl; congruence end.
Qed.
Lemma merge_empty src : merge_cfg src empty_cfg = src.
Proof. destruct src. reflexivity. Qed.
Lemma full_core c c' : core c = core c' -> full c -> full c'.
Proof. unfold core, full. intros H. injection H as -> -> -> -> ->. auto. Qed.
Lemma merge_exsub_some src dst l : c_exsub dst = Some l -> c_exsub (merge_cfg src dst) = Some l.
Proof. intros H. simpl. now rewrite H. Qed.

(* ------------------------------------------------------------------ *)
(* one recursive package                                               *)

Definition injected_entry (parent : cfg) (old : option pcfg) : pcfg :=
  match old with
  | Some p => with_cfg p (merge_cfg parent (p_cfg p))
  | None => {| p_cfg := merge_cfg parent empty_cfg; p_ifaces := [] |}
  end.

Lemma lookup_inject_one parent m s k :
  lookup k (inject_one parent m s) =
  if seqb k s && negb (exclude parent s) then Some (injected_entry parent (lookup s m)) else lookup k m.
Proof.
  unfold inject_one. destruct (exclude parent s); simpl; [now rewrite andb_false_r|].
  rewrite andb_true_r. destruct (lookup s m) as [p|] eqn:E; simpl.
  - rewrite lookup_update. destruct (seqb k s) eqn:Ek; [|reflexivity].
    apply seqb_eq in Ek; subst. now rewrite E.
  - rewrite lookup_app. simpl. destruct (seqb k s) eqn:Ek.
    + apply seqb_eq in Ek; subst. now rewrite E.
    + now destruct (lookup k m).
Qed.

Lemma lookup_inject_all parent l : NoDup l -> forall m k,
  lookup k (fold_left (inject_one parent) l m) =
  if existsb (seqb k) l && negb (exclude parent k) then Some (injected_entry parent (lookup k m)) else lookup k m.
Proof.
  induction l as [|s t IH]; intros ND m k; simpl; [reflexivity|].
  inversion ND as [|? ? N1 N2]; subst. rewrite (IH N2), lookup_inject_one.
  destruct (seqb k s) eqn:Ek; simpl; [|reflexivity].
  apply seqb_eq in Ek; subst k.
  assert (existsb (seqb s) t = false) as ->.
  { destruct (existsb (seqb s) t) eqn:E; [|reflexivity]. apply existsb_exists in E as (x & Hx & Hs).
    apply seqb_eq in Hs; subst. contradiction. }
  simpl. reflexivity.
Qed.

Lemma sub_packages_nodup t r : NoDup (map fst t) -> NoDup (sub_packages t r).
Proof.
  unfold sub_packages. induction t as [|e t IH]; simpl; intros ND; [constructor|].
  inversion ND as [|? ? N1 N2]; subst. destruct (snd e && is_subpkg r (fst e)); simpl; [|auto].
  constructor; [|auto]. intros H. apply N1. apply in_map_iff in H as (x & Hx & Hf).
  apply filter_In in Hf as [Hf _]. rewrite <- Hx. now apply in_map.
Qed.

Lemma in_sub_packages t r k :
  existsb (seqb k) (sub_packages t r) = true <-> In (k, true) t /\ is_subpkg r k = true.
Proof.
  rewrite existsb_exists. unfold sub_packages. split.
  - intros (x & Hx & Hk). apply seqb_eq in Hk; subst x. apply in_map_iff in Hx as ([p g] & E & Hf).
    simpl in E; subst p. apply filter_In in Hf as [Hin Hc]. simpl in Hc.
    apply andb_true_iff in Hc as [-> Hs]. auto.
  - intros [Hin Hs]. exists k. split; [|apply seqb_refl]. apply in_map_iff. exists (k, true).
    split; [reflexivity|]. apply filter_In. split; [exact Hin|]. simpl. exact Hs.
Qed.

(* does the recursive package r with settings c pull in k? *)
Definition adopts (t : tree) (c : cfg) (r k : str) : bool :=
  existsb (seqb k) (sub_packages t r) && negb (exclude c k).

Lemma lookup_process t m r pr k :
  NoDup (map fst t) -> lookup r m = Some pr ->
  lookup k (process_recursive t m r) =
  if adopts t (p_cfg pr) r k then Some (injected_entry (p_cfg pr) (lookup k m)) else lookup k m.
Proof.
  intros ND E. unfold process_recursive, adopts. rewrite E.
  apply lookup_inject_all. now apply sub_packages_nodup.
Qed.

(* ------------------------------------------------------------------ *)
(* all recursive packages, descendants first: closed form               *)

Definition cfg_of (m : pkgmap) (r : str) : cfg :=
  match lookup r m with Some p => p_cfg p | None => empty_cfg end.

Definition absorb (cs : list cfg) (old : option pcfg) : option pcfg :=
  fold_left (fun acc c => Some (injected_entry c acc)) cs old.

Lemma expand_closed_form t m1 L : NoDup (map fst t) ->
  StronglySorted ge_str L -> NoDup L -> forall m,
  (forall r, In r L -> lookup r m = lookup r m1 /\ lookup r m1 <> None) ->
  forall k, lookup k (fold_left (process_recursive t) L m) =
            absorb (map (cfg_of m1) (filter (fun r => adopts t (cfg_of m1 r) r k) L)) (lookup k m).
Proof.
  intros NDt. induction L as [|r L IH]; intros S ND m H1 k; simpl; [reflexivity|].
  apply StronglySorted_inv in S as [S1 S2]. inversion ND as [|? ? N1 N2]; subst.
  destruct (H1 r (or_introl eq_refl)) as [Er Hr].
  destruct (lookup r m1) as [pr|] eqn:Epr; [|congruence].
  assert (cfg_of m1 r = p_cfg pr) as Ec by (unfold cfg_of; now rewrite Epr).
  rewrite IH; [| assumption | assumption |].
  - rewrite (lookup_process t m r pr k NDt Er), Ec.
    destruct (adopts t (p_cfg pr) r k); simpl; [now rewrite Ec | reflexivity].
  - intros r' Hin. destruct (H1 r' (or_intror Hin)) as [E' H'].
    split; [|exact H']. rewrite (lookup_process t m r pr r' NDt Er).
    assert (adopts t (p_cfg pr) r r' = false) as ->; [|exact E'].
    unfold adopts. destruct (existsb (seqb r') (sub_packages t r)) eqn:Ex; [|reflexivity].
    apply in_sub_packages in Ex as [_ Hs]. apply is_subpkg_le in Hs.
    rewrite Forall_forall in S2. pose proof (S2 _ Hin) as G. unfold ge_str in G.
    pose proof (sltb_total _ _ G Hs). subst. contradiction.
Qed.

Lemma absorb_some cs : forall p, full (p_cfg p) ->
  exists p', absorb cs (Some p) = Some p' /\ p_ifaces p' = p_ifaces p /\ core (p_cfg p') = core (p_cfg p) /\
             (forall l, c_exsub (p_cfg p) = Some l -> c_exsub (p_cfg p') = Some l).
Proof.
  induction cs as [|c cs IH]; intros p F; simpl.
  - exists p. auto.
  - destruct (IH (with_cfg p (merge_cfg c (p_cfg p)))) as (p' & E & Hi & Hc & Hx).
    { simpl. eapply full_core; [symmetry; apply merge_core_full; exact F | exact F]. }
    exists p'. split; [exact E|]. split; [exact Hi|]. split.
    + rewrite Hc. simpl. now apply merge_core_full.
    + intros l Hl. apply Hx. simpl. now rewrite Hl.
Qed.

Lemma absorb_none c cs : full c ->
  exists p', absorb (c :: cs) None = Some p' /\ p_ifaces p' = [] /\ core (p_cfg p') = core c /\
             (forall l, c_exsub c = Some l -> c_exsub (p_cfg p') = Some l).
Proof.
  intros F. simpl. rewrite merge_empty.
  destruct (absorb_some cs {| p_cfg := c; p_ifaces := [] |} F) as (p' & E & Hi & Hc & Hx).
  exists p'. auto.
Qed.

(* ------------------------------------------------------------------ *)
(* Initialize                                                          *)

Lemma init_pkgs_keys root m : map fst (init_pkgs root m) = map fst m.
Proof. unfold init_pkgs. rewrite map_map. apply map_ext. reflexivity. Qed.

Lemma lookup_init_pkgs root m k :
  lookup k (init_pkgs root m) =
  match lookup k m with Some p => Some (with_cfg p (merge_cfg root (p_cfg p))) | None => None end.
Proof.
  induction m as [|[k' p] t IH]; simpl; [reflexivity|]. destruct (seqb k k'); [reflexivity | exact IH].
Qed.

Lemma init_pkgs_full root m : full root -> all_full (init_pkgs root m).
Proof.
  intros F k p H. unfold init_pkgs in H. apply in_map_iff in H as ([k' p'] & E & _).
  injection E as _ <-. simpl. now apply merge_full_l.
Qed.

(* r is a configured recursive package that pulls in k *)
Definition adopter (t : tree) (m1 : pkgmap) (r k : str) : Prop :=
  is_recursive m1 r = true /\ In (k, true) t /\ is_subpkg r k = true /\ exclude (cfg_of m1 r) k = false.

Lemma adopts_adopter t m1 r k :
  is_recursive m1 r = true -> (adopts t (cfg_of m1 r) r k = true <-> adopter t m1 r k).
Proof.
  intros Hr. unfold adopts, adopter. rewrite andb_true_iff, in_sub_packages, negb_true_iff. tauto.
Qed.

Lemma is_recursive_key m r : is_recursive m r = true -> lookup r m <> None.
Proof. unfold is_recursive. destruct (lookup r m); [discriminate | discriminate]. Qed.

(* the list of recursive packages in processing order *)
Definition rec_order (o : list str) (m1 : pkgmap) : list str := sort_desc (recursive_keys o m1).

Lemma rec_order_in o m1 r :
  Permutation o (map fst m1) -> (In r (rec_order o m1) <-> is_recursive m1 r = true).
Proof.
  intros P. unfold rec_order, recursive_keys. split.
  - intros H. apply (Permutation_in _ (sort_desc_perm _)) in H. apply filter_In in H. tauto.
  - intros H. apply (Permutation_in _ (Permutation_sym (sort_desc_perm _))). apply filter_In.
    split; [|exact H]. apply (Permutation_in _ (Permutation_sym P)). apply lookup_in.
    now apply is_recursive_key.
Qed.

Lemma rec_order_nodup o m1 : Permutation o (map fst m1) -> NoDup (map fst m1) -> NoDup (rec_order o m1).
Proof.
  intros P ND. unfold rec_order, recursive_keys.
  apply (Permutation_NoDup (Permutation_sym (sort_desc_perm _))). apply NoDup_filter.
  apply (Permutation_NoDup (Permutation_sym P)). exact ND.
Qed.

(* in a descending list without duplicates the first element satisfying f dominates all others *)
Lemma first_of_sorted (f : str -> bool) L r rest :
  StronglySorted ge_str L -> NoDup L -> filter f L = r :: rest ->
  forall r', In r' L -> f r' = true -> r' = r \/ sltb r' r = true.
Proof.
  induction L as [|x L IH]; simpl; intros S ND E r' Hin Hf; [discriminate|].
  apply StronglySorted_inv in S as [S1 S2]. inversion ND as [|? ? N1 N2]; subst.
  destruct (f x) eqn:Fx.
  - injection E as -> _. destruct Hin as [->|Hin]; [now left | right].
    rewrite Forall_forall in S2. pose proof (S2 _ Hin) as G. unfold ge_str in G.
    destruct (sltb r' r) eqn:E2; [reflexivity|]. pose proof (sltb_total _ _ G E2). subst. contradiction.
  - destruct Hin as [->|Hin]; [congruence|]. eapply IH; eassumption.
Qed.

Section Recursive.
  Variables (t : tree) (root : cfg) (o : list str) (m0 : pkgmap).
  Hypothesis Froot : full root.
  Hypothesis NDm : NoDup (map fst m0).
  Hypothesis NDt : NoDup (map fst t).
  Hypothesis Perm : Permutation o (map fst m0).

  Let m1 := init_pkgs root m0.
  Let final := expand_recursive t root o m0.
  Let L := rec_order o m1.

  Lemma Perm1 : Permutation o (map fst m1).
  Proof. unfold m1. now rewrite init_pkgs_keys. Qed.
  Lemma NDm1 : NoDup (map fst m1).
  Proof. unfold m1. now rewrite init_pkgs_keys. Qed.

  Lemma final_closed_form k :
    lookup k final = absorb (map (cfg_of m1) (filter (fun r => adopts t (cfg_of m1 r) r k) L)) (lookup k m1).
  Proof.
    unfold final, expand_recursive. fold m1. fold (rec_order o m1). fold L.
    apply expand_closed_form; [exact NDt | apply sort_desc_sorted | apply rec_order_nodup; [apply Perm1 | apply NDm1] |].
    intros r Hin. split; [reflexivity|]. apply is_recursive_key. now apply (rec_order_in o m1 r Perm1).
  Qed.

  Lemma m1_full k p : lookup k m1 = Some p -> full (p_cfg p).
  Proof. intros H. apply lookup_some_in in H. eapply init_pkgs_full; [exact Froot | exact H]. Qed.

  Lemma cfg_of_full r : is_recursive m1 r = true -> full (cfg_of m1 r).
  Proof.
    intros H. apply is_recursive_key in H. unfold cfg_of. destruct (lookup r m1) as [p|] eqn:E; [|congruence].
    now apply (m1_full r).
  Qed.

  (* explicitly configured packages keep their own settings and interfaces *)
  Lemma explicit_kept k p :
    lookup k m1 = Some p ->
    exists p', lookup k final = Some p' /\ p_ifaces p' = p_ifaces p /\ core (p_cfg p') = core (p_cfg p) /\
               (forall l, c_exsub (p_cfg p) = Some l -> c_exsub (p_cfg p') = Some l).
  Proof.
    intros E. rewrite final_closed_form, E. apply absorb_some. now apply (m1_full k).
  Qed.

  Lemma filter_adopters_in k r :
    In r (filter (fun r => adopts t (cfg_of m1 r) r k) L) <-> adopter t m1 r k.
  Proof.
    rewrite filter_In. unfold L. rewrite (rec_order_in o m1 r Perm1). split.
    - intros [Hr Ha]. now apply adopts_adopter.
    - intros Ha. split; [apply Ha|]. apply adopts_adopter; [apply Ha | exact Ha].
  Qed.

  (* a package that is not configured and has no adopter is not added *)
  Lemma not_adopted_absent k :
    lookup k m1 = None -> (forall r, ~ adopter t m1 r k) -> lookup k final = None.
  Proof.
    intros E H. rewrite final_closed_form, E.
    destruct (filter (fun r => adopts t (cfg_of m1 r) r k) L) as [|r rest] eqn:Ef; [reflexivity|].
    exfalso. apply (H r). apply filter_adopters_in. rewrite Ef. now left.
  Qed.

  (* the nearest adopter exists whenever there is one *)
  Lemma nearest_exists k r0 :
    adopter t m1 r0 k ->
    exists r, adopter t m1 r k /\ forall r', adopter t m1 r' k -> is_subpkg r' r = true.
  Proof.
    intros H0. apply filter_adopters_in in H0.
    destruct (filter (fun r => adopts t (cfg_of m1 r) r k) L) as [|r rest] eqn:Ef; [destruct H0|].
    exists r. assert (adopter t m1 r k) as Hr by (apply filter_adopters_in; rewrite Ef; now left).
    split; [exact Hr|]. intros r' Hr'. pose proof Hr' as Hin. apply filter_adopters_in in Hin.
    apply filter_In in Hin as [Hin Hf].
    destruct (first_of_sorted _ L r rest (sort_desc_sorted _)
                (rec_order_nodup o m1 Perm1 NDm1) Ef r' Hin Hf) as [->|Hlt].
    - apply is_subpkg_refl.
    - destruct Hr as (_ & _ & Hs & _). destruct Hr' as (_ & _ & Hs' & _).
      eapply is_subpkg_chain; eassumption.
  Qed.

  (* an adopted package is added with the settings of its nearest adopter *)
  Lemma adopted_nearest k r :
    lookup k m1 = None -> adopter t m1 r k ->
    (forall r', adopter t m1 r' k -> is_subpkg r' r = true) ->
    exists p', lookup k final = Some p' /\ p_ifaces p' = [] /\ core (p_cfg p') = core (cfg_of m1 r) /\
               (forall l, c_exsub (cfg_of m1 r) = Some l -> c_exsub (p_cfg p') = Some l).
  Proof.
    intros E Hr Hn. rewrite final_closed_form, E.
    destruct (filter (fun r => adopts t (cfg_of m1 r) r k) L) as [|r1 rest] eqn:Ef.
    { apply filter_adopters_in in Hr. rewrite Ef in Hr. destruct Hr. }
    assert (adopter t m1 r1 k) as Hr1 by (apply filter_adopters_in; rewrite Ef; now left).
    assert (r1 = r) as ->.
    { pose proof (Hn _ Hr1) as H1. (* r1 is an ancestor of r *)
      pose proof Hr as Hin. apply filter_adopters_in in Hin. apply filter_In in Hin as [Hin Hf].
      destruct (first_of_sorted _ L r1 rest (sort_desc_sorted _)
                  (rec_order_nodup o m1 Perm1 NDm1) Ef r Hin Hf) as [->|Hlt]; [reflexivity|].
      apply is_subpkg_le in H1. congruence. }
    simpl map. apply absorb_none. apply cfg_of_full. apply Hr1.
  Qed.
End Recursive.

(* ------------------------------------------------------------------ *)
(* keys stay unique                                                    *)

Lemma inject_one_nodup parent m s : NoDup (map fst m) -> NoDup (map fst (inject_one parent m s)).
Proof.
  intros ND. unfold inject_one. destruct (exclude parent s); [exact ND|].
  destruct (lookup s m) as [p|] eqn:E.
  - now rewrite map_fst_update.
  - rewrite map_app. simpl. apply NoDup_app_snoc; [exact ND|]. now apply lookup_none.
Qed.
Lemma process_nodup t m r : NoDup (map fst m) -> NoDup (map fst (process_recursive t m r)).
Proof.
  intros ND. unfold process_recursive. destruct (lookup r m) as [p|]; [|exact ND].
  generalize (sub_packages t r). intros l. revert m ND.
  induction l as [|s l IH]; simpl; intros m ND; [exact ND|]. apply IH. now apply inject_one_nodup.
Qed.
Lemma expand_nodup t root o m : NoDup (map fst m) -> NoDup (map fst (expand_recursive t root o m)).
Proof.
  intros ND. unfold expand_recursive.
  assert (NoDup (map fst (init_pkgs root m))) as ND1 by now rewrite init_pkgs_keys.
  generalize (sort_desc (recursive_keys o (init_pkgs root m))). intros l.
  revert ND1. generalize (init_pkgs root m). intros m'. revert m'.
  induction l as [|r l IH]; simpl; intros m' ND'; [exact ND'|]. apply IH. now apply process_nodup.
Qed.

(* ------------------------------------------------------------------ *)
(* the second call of Initialize (RootApp.Run) changes nothing          *)

Lemma exclude_none c k : c_exsub c = None -> exclude c k = false.
Proof. intros H. unfold exclude. now rewrite H. Qed.
Lemma exclude_same c c' k : c_exsub c = c_exsub c' -> exclude c k = exclude c' k.
Proof. intros H. unfold exclude. now rewrite H. Qed.

Lemma absorb_is_some cs p : absorb cs (Some p) <> None.
Proof. revert p. induction cs as [|c cs IH]; intros p; simpl; [discriminate | apply IH]. Qed.
Lemma absorb_cons_some c cs old : absorb (c :: cs) old <> None.
Proof. simpl. apply absorb_is_some. Qed.

Section SecondPass.
  Variables (t : tree) (root : cfg) (o1 o2 : list str) (m0 : pkgmap).
  Hypothesis Froot : full root.
  Hypothesis NDm : NoDup (map fst m0).
  Hypothesis NDt : NoDup (map fst t).
  Hypothesis P1 : Permutation o1 (map fst m0).

  Let m1 := init_pkgs root m0.
  Let f1 := expand_recursive t root o1 m0.
  Hypothesis P2 : Permutation o2 (map fst f1).
  Let m1' := init_pkgs root f1.
  Let f2 := expand_recursive t root o2 f1.

  Lemma adopted_present k r : adopter t m1 r k -> lookup k f1 <> None.
  Proof.
    intros H. unfold f1. rewrite (final_closed_form t root o1 m0 NDm NDt P1 k).
    apply (filter_adopters_in t root o1 m0 P1) in H.
    destruct (filter _ _) as [|r1 rest]; [destruct H|]. apply absorb_cons_some.
  Qed.

  Lemma f1_full k p : lookup k f1 = Some p -> full (p_cfg p).
  Proof.
    intros H. destruct (lookup k m1) as [p1|] eqn:E1.
    - destruct (explicit_kept t root o1 m0 Froot NDm NDt P1 k p1 E1) as (p' & E & _ & Hc & _).
      fold f1 in E. rewrite H in E. injection E as <-.
      eapply full_core; [symmetry; exact Hc|]. eapply (m1_full root m0 Froot); exact E1.
    - destruct (filter (fun r => adopts t (cfg_of m1 r) r k) (rec_order o1 m1)) as [|r rest] eqn:Ef.
      + unfold f1 in H. rewrite (final_closed_form t root o1 m0 NDm NDt P1 k) in H.
        fold m1 in H. rewrite Ef, E1 in H. discriminate.
      + assert (adopter t m1 r k) as Hr.
        { apply (filter_adopters_in t root o1 m0 P1). fold m1. rewrite Ef. now left. }
        destruct (nearest_exists t root o1 m0 NDm P1 k r Hr) as (rn & Hn & Hall).
        destruct (adopted_nearest t root o1 m0 Froot NDm NDt P1 k rn E1 Hn Hall) as (p' & E & _ & Hc & _).
        fold f1 in E. rewrite H in E. injection E as <-.
        eapply full_core; [symmetry; exact Hc|]. apply (cfg_of_full root m0 Froot). apply Hn.
  Qed.

  (* a recursive package of the second pass goes back to a recursive package of the first
     pass that has the same exclusion list or none *)
  Lemma second_adopter_first k r :
    adopter t m1' r k -> exists r0, adopter t m1 r0 k.
  Proof.
    intros (Hrec & Hgo & Hsub & Hex).
    pose proof (is_recursive_key _ _ Hrec) as Hk. unfold m1' in Hk. rewrite lookup_init_pkgs in Hk.
    destruct (lookup r f1) as [pr|] eqn:Er; [|congruence]. clear Hk.
    pose proof (f1_full r pr Er) as Fpr.
    assert (cfg_of m1' r = merge_cfg root (p_cfg pr)) as Ecfg.
    { unfold cfg_of, m1'. now rewrite lookup_init_pkgs, Er. }
    assert (c_rec (p_cfg pr) = Some true) as Hrec'.
    { unfold is_recursive, m1' in Hrec. rewrite lookup_init_pkgs, Er in Hrec. simpl in Hrec.
      destruct Fpr as (_ & _ & _ & F4 & _). destruct (c_rec (p_cfg pr)) as [[|]|]; simpl in Hrec; congruence. }
    (* the first-pass package whose settings r carries *)
    assert (exists r0, is_recursive m1 r0 = true /\ is_subpkg r0 r = true /\
                       (forall l, c_exsub (cfg_of m1 r0) = Some l -> c_exsub (p_cfg pr) = Some l)) as (r0 & R0 & S0 & X0).
    { destruct (lookup r m1) as [p1|] eqn:E1.
      - destruct (explicit_kept t root o1 m0 Froot NDm NDt P1 r p1 E1) as (p' & E & _ & Hc & Hx).
        fold f1 in E. rewrite Er in E. injection E as <-. exists r. split; [|split].
        + unfold is_recursive. fold m1. rewrite E1. unfold core in Hc. injection Hc as _ _ _ Hc _.
          rewrite <- Hc, Hrec'. reflexivity.
        + apply is_subpkg_refl.
        + intros l Hl. apply Hx. unfold cfg_of in Hl. fold m1 in Hl. now rewrite E1 in Hl.
      - destruct (filter (fun r' => adopts t (cfg_of m1 r') r' r) (rec_order o1 m1)) as [|ra rest] eqn:Ef.
        { unfold f1 in Er. rewrite (final_closed_form t root o1 m0 NDm NDt P1 r) in Er.
          fold m1 in Er. rewrite Ef, E1 in Er. discriminate. }
        assert (adopter t m1 ra r) as Hra.
        { apply (filter_adopters_in t root o1 m0 P1). fold m1. rewrite Ef. now left. }
        destruct (nearest_exists t root o1 m0 NDm P1 r ra Hra) as (rn & Hn & Hall).
        destruct (adopted_nearest t root o1 m0 Froot NDm NDt P1 r rn E1 Hn Hall) as (p' & E & _ & Hc & Hx).
        fold f1 in E. rewrite Er in E. injection E as <-. exists rn. split; [apply Hn|]. split; [apply Hn|].
        exact Hx. }
    exists r0. split; [exact R0|]. split; [exact Hgo|]. split; [eapply is_subpkg_trans; eassumption|].
    destruct (c_exsub (cfg_of m1 r0)) as [l|] eqn:El; [|now apply exclude_none].
    rewrite <- Hex. apply exclude_same. rewrite Ecfg, El. simpl. now rewrite (X0 l eq_refl).
  Qed.

  Theorem second_pass_same k :
    match lookup k f1, lookup k f2 with
    | Some p, Some p' => p_ifaces p' = p_ifaces p /\ core (p_cfg p') = core (p_cfg p)
    | None, None => True
    | _, _ => False
    end.
  Proof.
    pose proof (expand_nodup t root o1 m0 NDm) as NDf. fold f1 in NDf.
    destruct (lookup k f1) as [p|] eqn:E1.
    - assert (lookup k m1' = Some (with_cfg p (merge_cfg root (p_cfg p)))) as E'.
      { unfold m1'. now rewrite lookup_init_pkgs, E1. }
      destruct (explicit_kept t root o2 f1 Froot NDf NDt P2 k _ E') as (p' & E & Hi & Hc & _).
      fold f2 in E. rewrite E. split; [exact Hi|]. rewrite Hc. simpl.
      apply merge_core_full. now apply (f1_full k).
    - assert (lookup k m1' = None) as E' by (unfold m1'; now rewrite lookup_init_pkgs, E1).
      unfold f2. rewrite (not_adopted_absent t root o2 f1 NDf NDt P2 k E'); [exact I|].
      intros r Hr. destruct (second_adopter_first k r Hr) as (r0 & H0).
      now apply (adopted_present k r0).
  Qed.
End SecondPass.

(* ------------------------------------------------------------------ *)
(* the result does not depend on the map iteration order               *)

Lemma perm_filter {A} (f : A -> bool) l l' : Permutation l l' -> Permutation (filter f l) (filter f l').
Proof.
  induction 1 as [|x l l' _ IH|x y l|l l' l'' _ IH1 _ IH2]; simpl.
  - constructor.
  - destruct (f x); [now constructor | exact IH].
  - destruct (f x), (f y); try reflexivity. apply perm_swap.
  - now rewrite IH1.
Qed.

Lemma sorted_unique l : forall l',
  StronglySorted ge_str l -> StronglySorted ge_str l' -> NoDup l -> Permutation l l' -> l = l'.
Proof.
  induction l as [|x t IH]; intros l' S S' ND P.
  - apply Permutation_nil in P. now subst.
  - destruct l' as [|y t']; [apply Permutation_sym, Permutation_nil in P; discriminate|].
    apply StronglySorted_inv in S as [S1 S2]. apply StronglySorted_inv in S' as [S1' S2'].
    inversion ND as [|? ? N1 N2]; subst.
    assert (x = y) as ->.
    { destruct (str_dec x y) as [E|NE]; [exact E|].
      assert (In x (y :: t')) as Hx by (apply (Permutation_in _ P); now left).
      assert (In y (x :: t)) as Hy by (apply (Permutation_in _ (Permutation_sym P)); now left).
      destruct Hx as [Hx|Hx]; [congruence|]. destruct Hy as [Hy|Hy]; [congruence|].
      rewrite Forall_forall in S2, S2'. apply sltb_total; [now apply S2 | now apply S2']. }
    f_equal. apply IH; try assumption. eapply Permutation_cons_inv; exact P.
Qed.

Lemma rec_order_indep o o' m1 :
  NoDup o -> Permutation o o' -> rec_order o m1 = rec_order o' m1.
Proof.
  intros ND P. unfold rec_order. apply sorted_unique; try apply sort_desc_sorted.
  - apply (Permutation_NoDup (Permutation_sym (sort_desc_perm _))). now apply NoDup_filter.
  - rewrite !sort_desc_perm. unfold recursive_keys. now apply perm_filter.
Qed.

Theorem expand_order_indep t root o o' m0 :
  NoDup (map fst m0) -> Permutation o (map fst m0) -> Permutation o' (map fst m0) ->
  expand_recursive t root o m0 = expand_recursive t root o' m0.
Proof.
  intros ND P P'. unfold expand_recursive.
  assert (rec_order o (init_pkgs root m0) = rec_order o' (init_pkgs root m0)) as E.
  { apply rec_order_indep.
    - apply (Permutation_NoDup (Permutation_sym P)). exact ND.
    - rewrite P. now apply Permutation_sym. }
  unfold rec_order in E. now rewrite E.
Qed.

(* ------------------------------------------------------------------ *)
(* injected iff adopted; the case of one common exclusion list          *)

Lemma injected_iff_adopted t root o m0 k :
  NoDup (map fst m0) -> NoDup (map fst t) -> Permutation o (map fst m0) ->
  lookup k (init_pkgs root m0) = None ->
  (lookup k (expand_recursive t root o m0) <> None <-> exists r, adopter t (init_pkgs root m0) r k).
Proof.
  intros NDm NDt P E. rewrite (final_closed_form t root o m0 NDm NDt P k), E.
  destruct (filter (fun r => adopts t (cfg_of (init_pkgs root m0) r) r k) (rec_order o (init_pkgs root m0))) as [|r rest] eqn:Ef.
  - split; [intros H; now contradiction H|]. intros (r & Hr).
    apply (filter_adopters_in t root o m0 P) in Hr. rewrite Ef in Hr. destruct Hr.
  - split; [|intros _; apply absorb_cons_some]. intros _. exists r.
    apply (filter_adopters_in t root o m0 P). rewrite Ef. now left.
Qed.

Definition excluded_by (xs : option (list xentry)) (k : str) : bool :=
  existsb (fun e => entry_match e k) (match xs with Some l => l | None => [] end).

(* a sub-package is excluded iff SOME entry of the list, matched on its own, matches its path *)
Lemma exclude_spec c k :
  exclude c k = true <->
  exists l e, c_exsub c = Some l /\ In e l /\ entry_match e k = true.
Proof.
  unfold exclude. destruct (c_exsub c) as [l|]; simpl.
  - rewrite existsb_exists. split.
    + intros (e & H1 & H2). exists l, e. auto.
    + intros (l' & e & E & H1 & H2). injection E as <-. eauto.
  - split; [discriminate | intros (l & e & E & _); discriminate].
Qed.

(* what an entry matches: Go's unanchored search, on the path itself or, under (?i), on some case
   variant of the matched part (expressions without negated classes; see Lib/Regex.v) *)
Lemma entry_match_spec e k :
  no_neg_class (p_body (x_pat e)) = true ->
  (entry_match e k = true <->
   exists a b c, k = a ++ b ++ c /\
     (exists b', lang (p_body (x_pat e)) b' /\ (if x_fold e then variants b' b else b' = b)) /\
     (p_bos (x_pat e) = true -> a = []) /\ (p_eos (x_pat e) = true -> c = [])).
Proof.
  intros NN. unfold entry_match, pat_match_fold. rewrite pat_match_spec. unfold pat_matches.
  destruct (x_fold e); simpl.
  - split; intros (a & b & c & -> & H & Ha & Hc); exists a, b, c; repeat split; auto.
    + now apply fold_regex_spec.
    + apply fold_regex_spec; assumption.
  - split; intros (a & b & c & -> & H & Ha & Hc); exists a, b, c; repeat split; auto.
    + eauto.
    + destruct H as (b' & L & ->). exact L.
Qed.

Lemma adopter_uniform t m1 xs r k :
  c_exsub (cfg_of m1 r) = xs ->
  (adopter t m1 r k <-> is_recursive m1 r = true /\ In (k, true) t /\ is_subpkg r k = true /\ excluded_by xs k = false).
Proof. intros <-. unfold adopter, exclude, excluded_by. tauto. Qed.

(* ------------------------------------------------------------------ *)
(* nearest = longest                                                   *)

Lemma is_subpkg_length a b : is_subpkg a b = true -> length a <= length b.
Proof.
  intros H. apply is_subpkg_cases in H as [->|[x ->]]; [lia|]. rewrite app_length. simpl. lia.
Qed.
Lemma is_subpkg_same_length a b : is_subpkg a b = true -> length a = length b -> a = b.
Proof.
  intros H L. apply is_subpkg_cases in H as [->|[x ->]]; [reflexivity|].
  rewrite app_length in L. simpl in L. lia.
Qed.

(* among the configured recursive packages that pull k in, the one with the longest path is below
   all others - whatever else is configured, whatever the names of the other packages *)
Lemma longest_is_nearest t m1 r k :
  adopter t m1 r k -> (forall r', adopter t m1 r' k -> length r' <= length r) ->
  forall r', adopter t m1 r' k -> is_subpkg r' r = true.
Proof.
  intros Hr Hmax r' Hr'. pose proof (Hmax _ Hr') as Hl.
  destruct Hr as (_ & _ & Hs & _). destruct Hr' as (_ & _ & Hs' & _).
  destruct (sltb r' r) eqn:E1; [eapply is_subpkg_chain; eassumption|].
  destruct (sltb r r') eqn:E2.
  - pose proof (is_subpkg_chain _ _ _ Hs Hs' E2) as H. pose proof (is_subpkg_length _ _ H).
    assert (r = r') as -> by (apply is_subpkg_same_length; [exact H | lia]). apply is_subpkg_refl.
  - pose proof (sltb_total _ _ E1 E2). subst. apply is_subpkg_refl.
Qed.

(* ------------------------------------------------------------------ *)
(* validated configurations: no regular expression error is ever reached *)

(* every entry of the map after Initialize has the selection settings of some package config of the
   map before the recursive expansion *)
Lemma final_core_from_m1 t root o m0 k p :
  full root -> NoDup (map fst m0) -> NoDup (map fst t) -> Permutation o (map fst m0) ->
  lookup k (expand_recursive t root o m0) = Some p ->
  exists k1 p1, lookup k1 (init_pkgs root m0) = Some p1 /\ core (p_cfg p) = core (p_cfg p1).
Proof.
  intros F NDm NDt P H. set (m1 := init_pkgs root m0) in *.
  destruct (lookup k m1) as [p1|] eqn:E1.
  - destruct (explicit_kept t root o m0 F NDm NDt P k p1 E1) as (p' & E & _ & Hc & _).
    rewrite H in E. injection E as <-. eauto.
  - destruct (filter (fun r => adopts t (cfg_of m1 r) r k) (rec_order o m1)) as [|r rest] eqn:Ef.
    + rewrite (final_closed_form t root o m0 NDm NDt P k) in H. fold m1 in H. rewrite Ef, E1 in H. discriminate.
    + assert (adopter t m1 r k) as Hr.
      { apply (filter_adopters_in t root o m0 P). fold m1. rewrite Ef. now left. }
      destruct (nearest_exists t root o m0 NDm P k r Hr) as (rn & Hn & Hall).
      destruct (adopted_nearest t root o m0 F NDm NDt P k rn E1 Hn Hall) as (p' & E & _ & Hc & _).
      rewrite H in E. injection E as <-.
      destruct Hn as (Hrec & _). apply is_recursive_key in Hrec.
      destruct (lookup rn (init_pkgs root m0)) as [pr|] eqn:Er; [|congruence].
      exists rn, pr. split; [exact Er|]. rewrite Hc. unfold cfg_of. fold m1. unfold m1. now rewrite Er.
Qed.

Lemma regexes_ok_core c c' : core c = core c' -> regexes_ok c = regexes_ok c'.
Proof. unfold core, regexes_ok. intros H. injection H as _ -> -> _ _. reflexivity. Qed.

Lemma config_valid_final t root o m0 k p :
  full root -> NoDup (map fst m0) -> NoDup (map fst t) -> Permutation o (map fst m0) ->
  config_valid root m0 = true ->
  lookup k (expand_recursive t root o m0) = Some p -> regexes_ok (p_cfg p) = true.
Proof.
  intros F NDm NDt P V H.
  destruct (final_core_from_m1 t root o m0 k p F NDm NDt P H) as (k1 & p1 & E1 & Hc).
  rewrite (regexes_ok_core _ _ Hc). unfold config_valid in V. apply andb_true_iff in V as [_ V].
  rewrite forallb_forall in V. apply (V (k1, p1)). now apply lookup_some_in.
Qed.

Lemma regexes_ok_no_error p n e : regexes_ok (p_cfg p) = true -> should_generate p n <> Err e.
Proof.
  unfold regexes_ok, should_generate. intros H. apply andb_true_iff in H as [Hi He].
  destruct (c_all (p_cfg p)) as [[|]|]; simpl; try discriminate.
  destruct (lookup n (p_ifaces p)); simpl; try discriminate.
  destruct (c_inc (p_cfg p)) as [[| |pi]|]; simpl in *; try discriminate;
  destruct (c_exc (p_cfg p)) as [[| |pe]|]; simpl in *; try discriminate;
  destruct (negb (pat_match pi n)); discriminate.
Qed.

Lemma run_invalid t ss root o1 o2 m :
  config_valid root m = false -> run t ss root o1 o2 m = {| o_exit := ExErr; o_mocks := [] |}.
Proof. intros H. unfold run. now rewrite H. Qed.
