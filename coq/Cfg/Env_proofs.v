(* Proofs about Cfg/Env.v: the boolean classification of environment values never reaches
   the panic. *)
From Mk Require Import Lib.Bytes Cfg.Env.

Lemma classify_no_panic v : classify v <> EPanic.
Proof.
  unfold classify. destruct (seqb (lower v) (B "true")) eqn:T; simpl.
  - apply seqb_eq in T. rewrite T. vm_compute. discriminate.
  - destruct (seqb (lower v) (B "false")) eqn:F; [|discriminate].
    apply seqb_eq in F. rewrite F. vm_compute. discriminate.
Qed.

Lemma classify_bool v b : classify v = EBool b -> parse_bool (lower v) = Some b.
Proof.
  unfold classify. destruct (seqb (lower v) (B "true") || seqb (lower v) (B "false")); [|discriminate].
  destruct (parse_bool (lower v)); [|discriminate]. intros H. now injection H as <-.
Qed.

Lemma classify_bool_iff v :
  (exists b, classify v = EBool b) <-> (lower v = B "true" \/ lower v = B "false").
Proof.
  unfold classify. split.
  - intros [b H]. destruct (seqb (lower v) (B "true")) eqn:T; [left; now apply seqb_eq|].
    destruct (seqb (lower v) (B "false")) eqn:F; [right; now apply seqb_eq | discriminate].
  - intros [H|H]; rewrite H; vm_compute; eauto.
Qed.

Lemma env_bool_key_no_crash v : env_bool_key v <> EnvCrash.
Proof.
  unfold env_bool_key. pose proof (classify_no_panic v). destruct (classify v); congruence.
Qed.

(* with case folding instead of lower-casing the panic is reachable: fal<long s>e *)
Lemma classify_fold_panics : classify_fold [x66; x61; x6c; xc5; xbf; x65] = EPanic.
Proof. vm_compute. reflexivity. Qed.
