(* Model of mockery's hierarchical configuration.                                   (C08)
   Mirrors
     config/config.go            Config (fields by kind), NewDefaultKoanf, NewRootConfig (layering
                                 of defaults / MOCKERY_* environment / file / flags by koanf),
                                 mergeStringMaps, mergeConfigs, RootConfig.Initialize,
                                 PackageConfig.Initialize, InterfaceConfig.Initialize,
                                 GetInterfaceConfig, ShouldGenerateInterface
     internal/cmd/mockery.go     RootApp.Run: second Initialize, grouping of mocks by output file
                                 (InterfaceCollection.Append), which level every consumer reads
   as they are AFTER the four repairs fixes/c08-*.diff:
     c08-replace-type-inherit      the typed map replace-type is merged entry by entry
     c08-template-data-deep-copy   dest[k] = copy(srcValue): levels never share nested maps
     c08-file-level-config         template / schema settings / formatter / force-file-write /
                                   file-level template-data are read from the first mock of the
                                   output file instead of from the package (formatter: root)
     c08-matryer-with-resets       (template only; seen here as "interface-level template-data")
   No proofs in this file (Cfg/Config_proofs.v).

   Modelling decisions (all visible in the definitions below):
   * pointer fields are a finite map [pparam -> option scalar] ([None] = nil pointer);
     mergeConfigs treats them uniformly by reflection, so does the model;
   * `map[string]any` (template-data) is a Cfg/Json.v object, nil = empty;
   * replace-type (map[pkg-path]map[type-name]*ReplaceType) is an association list keyed by
     (pkg-path, type-name);
   * exclude-subpkg-regex ([]string): [None] = nil slice, [Some []] = an explicit empty list (it
     overrides an inherited list).  The list consulted for the sub-packages of a recursive package
     is that package's own merged list (fix 897a9af); discovery itself (`go list pkg/...`) is the
     argument [disc], the regular-expression engine the argument [rx];
   * `_anchors` is not modelled (not a parameter of the property);
   * mergeConfigs dereferences src's pointer when dest's is nil: a nil/nil pair is a Go panic,
     the explicit outcome [Panic] here;
   * Go aliasing that is behaviour: InterfaceConfig.Initialize sets Configs = [Config] (the same
     pointer) when no `configs` entry is written - modelled by keeping [ic_configs = []] and
     reading the interface config for index 0; the recursive step merges a package into itself
     (`p/...` matches p), a no-op in Go because both sides are the same maps - [disc] does not
     list the package itself (lemma [merge_cfg_self] shows the pure merge is also invisible). *)
From Coq Require Import ZArith.
From Mk Require Import Lib.Bytes Cfg.Json.

(* ------------------------------------------------------------------ fields *)
Inductive pparam :=
| PAll | PBuildTags | PConfigFile | PDir | PExcludeInterfaceRegex | PFileName
| PForceFileWrite | PFormatter | PIncludeInterfaceRegex | PLogLevel | PStructName | PPkgName
| PRecursive | PRequireTemplateSchemaExists | PTemplate | PTemplateSchema.

Definition all_pparams : list pparam :=
  [PAll; PBuildTags; PConfigFile; PDir; PExcludeInterfaceRegex; PFileName; PForceFileWrite;
   PFormatter; PIncludeInterfaceRegex; PLogLevel; PStructName; PPkgName; PRecursive;
   PRequireTemplateSchemaExists; PTemplate; PTemplateSchema].

Definition pparam_eqb (a b : pparam) : bool :=
  match a, b with
  | PAll, PAll | PBuildTags, PBuildTags | PConfigFile, PConfigFile | PDir, PDir
  | PExcludeInterfaceRegex, PExcludeInterfaceRegex | PFileName, PFileName
  | PForceFileWrite, PForceFileWrite | PFormatter, PFormatter
  | PIncludeInterfaceRegex, PIncludeInterfaceRegex | PLogLevel, PLogLevel
  | PStructName, PStructName | PPkgName, PPkgName | PRecursive, PRecursive
  | PRequireTemplateSchemaExists, PRequireTemplateSchemaExists | PTemplate, PTemplate
  | PTemplateSchema, PTemplateSchema => true
  | _, _ => false
  end.

Inductive scalar := SBool (b : bool) | SStr (s : str).

Definition scalar_eqb (a b : scalar) : bool :=
  match a, b with
  | SBool x, SBool y => Bool.eqb x y
  | SStr x, SStr y => seqb x y
  | _, _ => false
  end.

Definition rkey := (str * str)%type.     (* package path, type name *)
Definition rtmap := list (rkey * rkey).   (* key -> (replacement package path, type name) *)

Definition rkey_eqb (a b : rkey) : bool := seqb (fst a) (fst b) && seqb (snd a) (snd b).

Fixpoint rget (k : rkey) (m : rtmap) : option rkey :=
  match m with
  | [] => None
  | (k', v) :: t => if rkey_eqb k k' then Some v else rget k t
  end.

Record cfg := {
  c_ptr : pparam -> option scalar;
  c_td : obj;
  c_rt : rtmap;
  c_esr : option (list str)
}.

Definition orelse {A} (a b : option A) : option A := match a with Some _ => a | None => b end.

Fixpoint ptr_of (l : list (pparam * scalar)) (p : pparam) : option scalar :=
  match l with
  | [] => None
  | (q, v) :: t => if pparam_eqb p q then Some v else ptr_of t p
  end.

Definition empty_cfg : cfg := {| c_ptr := fun _ => None; c_td := []; c_rt := []; c_esr := None |}.

(* ------------------------------------------------------------------ mergeConfigs *)
(* entries of the parent that the child does not define are inherited (after the repair; the
   pinned code skips the field: "field value is not `any`, skipping merge") *)
Definition merge_rt (parent child : rtmap) : rtmap :=
  child ++ filter (fun e => match rget (fst e) child with Some _ => false | None => true end) parent.

Definition merge_cfg (parent child : cfg) : cfg :=
  {| c_ptr := fun p => orelse (c_ptr child p) (c_ptr parent p);     (* pointer: fill if nil *)
     c_td := merge_obj (c_td parent) (c_td child);                   (* map[string]any: key by key *)
     c_rt := merge_rt (c_rt parent) (c_rt child);                    (* typed map: entry by entry *)
     c_esr := orelse (c_esr child) (c_esr parent) |}.                (* slice: set if zero *)

Definition is_none {A} (o : option A) : bool := match o with None => true | Some _ => false end.

(* reflect.New(srcFieldValue.Elem().Type()) on a nil src pointer *)
Definition merge_panics (parent child : cfg) : bool :=
  existsb (fun p => is_none (c_ptr parent p) && is_none (c_ptr child p)) all_pparams.

(* ------------------------------------------------------------------ top level *)
Definition default_cfg : cfg :=
  {| c_ptr := ptr_of
       [(PAll, SBool false); (PBuildTags, SStr []); (PConfigFile, SStr []);
        (PDir, SStr (B "{{.InterfaceDir}}")); (PExcludeInterfaceRegex, SStr []);
        (PFileName, SStr (B "mocks_test.go")); (PForceFileWrite, SBool false);
        (PFormatter, SStr (B "goimports")); (PIncludeInterfaceRegex, SStr []);
        (PLogLevel, SStr (B "info")); (PStructName, SStr (B "{{.Mock}}{{.InterfaceName}}"));
        (PPkgName, SStr (B "{{.SrcPackageName}}")); (PRecursive, SBool false);
        (PRequireTemplateSchemaExists, SBool true); (PTemplate, SStr (B "testify"));
        (PTemplateSchema, SStr (B "{{.Template}}.schema.json"))];
     c_td := []; c_rt := []; c_esr := None |}.

(* koanf: Load(defaults); Load(env); Load(file); Load(flags) - each Load merges the new layer
   over the previous state with maps.Merge, which is the same "newer wins, maps key by key"
   function; then the result is decoded into a Config whose pointers were pre-set to zero
   values (these zero values are part of [default_cfg]). *)
Definition new_root_config (env file flags : cfg) : cfg :=
  merge_cfg (merge_cfg (merge_cfg default_cfg env) file) flags.

(* ------------------------------------------------------------------ the tree *)
Record icfg := { ic_config : cfg; ic_configs : list cfg }.
Record pcfg := { pc_config : cfg; pc_ifaces : list (str * icfg) }.
Record tree := { t_root : cfg; t_pkgs : list (str * pcfg) }.

Definition empty_pcfg : pcfg := {| pc_config := empty_cfg; pc_ifaces := [] |}.

(* InterfaceConfig.Initialize after mergeConfigs(package, interface) *)
Definition init_iface (pc : cfg) (i : icfg) : icfg :=
  let c := merge_cfg pc (ic_config i) in
  {| ic_config := c; ic_configs := map (merge_cfg c) (ic_configs i) |}.

(* mergeConfigs(root, package) + PackageConfig.Initialize *)
Definition init_pkg (root : cfg) (p : pcfg) : pcfg :=
  let c := merge_cfg root (pc_config p) in
  {| pc_config := c; pc_ifaces := map (fun e => (fst e, init_iface c (snd e))) (pc_ifaces p) |}.

Fixpoint set {A} (k : str) (v : A) (l : list (str * A)) : list (str * A) :=
  match l with
  | [] => [(k, v)]
  | (k', v') :: t => if seqb k k' then (k, v) :: t else (k', v') :: set k v t
  end.

Definition is_true (o : option scalar) : bool :=
  match o with Some (SBool true) => true | _ => false end.

Definition str_of (o : option scalar) : str := match o with Some (SStr s) => s | _ => [] end.

(* Config.ShouldExcludeSubpkg of the recursive package: one of its (merged) exclude-subpkg-regex
   patterns matches the sub-package path; [rx] is the regular-expression engine *)
Definition excluded (rx : str -> str -> bool) (esr : option (list str)) (pkg : str) : bool :=
  match esr with Some l => existsb (fun r => rx r pkg) l | None => false end.

(* second loop of RootConfig.Initialize for one recursive package: every discovered sub-package
   that the package's own exclusion list does not exclude receives the package's (already merged)
   config; only Config, not Interfaces.  [disc] = `go list pkg/...` minus pkg itself. *)
Definition rec_step (rx : str -> str -> bool) (disc : list (str * list str)) (pkgs : list (str * pcfg))
           (parent : str) : list (str * pcfg) :=
  match get parent pkgs with
  | None => pkgs
  | Some pp =>
    fold_left (fun acc sub =>
                 let sp := match get sub acc with Some x => x | None => empty_pcfg end in
                 set sub {| pc_config := merge_cfg (pc_config pp) (pc_config sp);
                            pc_ifaces := pc_ifaces sp |} acc)
              (filter (fun sub => negb (excluded rx (c_esr (pc_config pp)) sub))
                      (match get parent disc with Some l => l | None => [] end)) pkgs
  end.

(* sort.Sort(sort.Reverse(sort.StringSlice(recursivePackages))): descendants before ancestors *)
Fixpoint insert_desc (x : str) (l : list str) : list str :=
  match l with
  | [] => [x]
  | y :: t => if sltb x y then y :: insert_desc x t else x :: l
  end.
Definition sort_desc (l : list str) : list str := fold_right insert_desc [] l.

(* one call of RootConfig.Initialize.  [t_pkgs] is in the iteration order of the Go map. *)
Definition init_pure (rx : str -> str -> bool) (disc : list (str * list str)) (t : tree) : tree :=
  let pkgs1 := map (fun e => (fst e, init_pkg (t_root t) (snd e))) (t_pkgs t) in
  let recs := sort_desc (map fst (filter (fun e => is_true (c_ptr (pc_config (snd e)) PRecursive)) pkgs1)) in
  {| t_root := t_root t; t_pkgs := fold_left (rec_step rx disc) recs pkgs1 |}.

(* every pointer field set *)
Definition total (c : cfg) : bool := forallb (fun p => negb (is_none (c_ptr c p))) all_pparams.

(* does some mergeConfigs call of the first loop panic?  (A merge that does not panic leaves
   its destination total, so below a package that did not panic nothing can; the recursive
   step merges from such a package, see [rec_parent_total] in the proofs.) *)
Definition iface_panics (pc : cfg) (i : icfg) : bool :=
  merge_panics pc (ic_config i)
  || existsb (merge_panics (merge_cfg pc (ic_config i))) (ic_configs i).

Definition pkg_panics (root : cfg) (p : pcfg) : bool :=
  merge_panics root (pc_config p)
  || existsb (fun e => iface_panics (merge_cfg root (pc_config p)) (snd e)) (pc_ifaces p).

Inductive outcome := Panic | Ok (t : tree).

Definition initialize (rx : str -> str -> bool) (disc : list (str * list str)) (t : tree) : outcome :=
  if existsb (fun e => pkg_panics (t_root t) (snd e)) (t_pkgs t)
  then Panic else Ok (init_pure rx disc t).

(* NewRootConfig calls Initialize once (this is what `mockery showconfig` prints); RootApp.Run
   calls it a second time on the result. *)
Definition run_config (rx : str -> str -> bool) (disc : list (str * list str)) (t : tree) : outcome :=
  match initialize rx disc t with
  | Panic => Panic
  | Ok t1 => initialize rx disc t1
  end.

(* ------------------------------------------------------------------ one mock *)
Record mock := { m_pkg : str; m_iface : str; m_idx : nat }.

(* PackageConfig.GetInterfaceConfig + the loop over Configs *)
Definition iface_cfgs (pc : pcfg) (iface : str) : list cfg :=
  match get iface (pc_ifaces pc) with
  | None => [pc_config pc]                     (* deep copy of the package config *)
  | Some ic => match ic_configs ic with [] => [ic_config ic] | l => l end
  end.

Definition mock_cfg (t : tree) (m : mock) : option cfg :=
  match get (m_pkg m) (t_pkgs t) with
  | None => None
  | Some pc => nth_error (iface_cfgs pc (m_iface m)) (m_idx m)
  end.

(* The chain of one mock as written in the configuration (most specific first):
   configs entry, interface config, package config, top level. *)
Definition written_chain (t : tree) (m : mock) : list cfg :=
  match get (m_pkg m) (t_pkgs t) with
  | None => []
  | Some pc =>
    match get (m_iface m) (pc_ifaces pc) with
    | None => [pc_config pc; t_root t]
    | Some ic => match nth_error (ic_configs ic) (m_idx m) with
                 | Some c => [c; ic_config ic; pc_config pc; t_root t]
                 | None => [ic_config ic; pc_config pc; t_root t]
                 end
    end
  end.

(* merged value of a chain of configs, top-down *)
Fixpoint eff_cfg (chain : list cfg) : cfg :=
  match chain with
  | [] => empty_cfg
  | [c] => c
  | c :: more => merge_cfg (eff_cfg more) c
  end.

(* ------------------------------------------------------------------ selection (per package) *)
(* PackageConfig.ShouldGenerateInterface; the regular-expression engine is the argument [rx]
   (regex, name) -> matched *)
Definition should_generate (rx : str -> str -> bool) (pc : pcfg) (name : str) : bool :=
  let c := pc_config pc in
  if is_true (c_ptr c PAll) then true
  else if has_key name (pc_ifaces pc) then true
  else let inc := str_of (c_ptr c PIncludeInterfaceRegex) in
       let exc := str_of (c_ptr c PExcludeInterfaceRegex) in
       match inc with
       | [] => false
       | _ => if rx inc name
              then match exc with [] => true | _ => negb (rx exc name) end
              else false
       end.

(* ------------------------------------------------------------------ which level a consumer reads *)
Inductive param :=
| PP (p : pparam)
| PFileTemplateData        (* template-data handed to the template as .TemplateData *)
| PIfaceTemplateData       (* template-data of one mock: .Interfaces[i].TemplateData *)
| PReplaceType.

Inductive level :=
| LMock        (* the `configs` entry of the mock (or what stands for it) *)
| LFile        (* the mocks sharing the output file: the first one added to the collection *)
| LPackage     (* the package's config *)
| LRoot.       (* the top level: process-wide settings *)

Definition consumer_level (p : param) : level :=
  match p with
  | PP PDir | PP PFileName | PP PPkgName | PP PStructName => LMock
  | PIfaceTemplateData | PReplaceType => LMock
  | PP PTemplate | PP PTemplateSchema | PP PRequireTemplateSchemaExists
  | PP PFormatter | PP PForceFileWrite | PFileTemplateData => LFile
  | PP PAll | PP PIncludeInterfaceRegex | PP PExcludeInterfaceRegex | PP PRecursive => LPackage
  | PP PLogLevel | PP PBuildTags | PP PConfigFile => LRoot
  end.

(* ------------------------------------------------------------------ generation plan *)
(* output path: pathlib.NewPath(dir).Join(filename); the generators use clean relative paths *)
Definition out_path (c : cfg) : str :=
  str_of (c_ptr c PDir) ++ B "/" ++ str_of (c_ptr c PFileName).

Record fplan := {
  f_path : str;
  f_srcpkg : str;
  f_pkgname : str;
  f_template : str;
  f_mocks : list (mock * cfg)        (* in the order of Append *)
}.

(* Config.ParseTemplates (C11) renders the templated string parameters of a mock's own config
   for the mock's interface.  The template engine is not modelled: the rendering of every
   templated string occurring in the configuration (the defaults included) for a given
   interface is the argument [ex].  What matters here is that it is applied per mock, to that
   mock's copy of the config. *)
Definition expand (ex : list (str * str)) (raw : str) : str :=
  match get raw ex with Some x => x | None => raw end.

Definition expanded (ex : list (str * str)) (c : cfg) : cfg :=
  let e p := match c_ptr c p with Some (SStr s) => Some (SStr (expand ex s)) | o => o end in
  let c1 := {| c_ptr := fun p => match p with
                                 | PDir | PFileName | PPkgName | PStructName | PTemplateSchema => e p
                                 | _ => c_ptr c p
                                 end;
               c_td := c_td c; c_rt := c_rt c; c_esr := c_esr c |} in
  (* template-schema's default refers to the template *)
  {| c_ptr := fun p => match p with
                       | PTemplateSchema =>
                         match c_ptr c1 PTemplateSchema with
                         | Some (SStr s) =>
                           if seqb s (B "{{.Template}}.schema.json")
                           then Some (SStr (str_of (c_ptr c1 PTemplate) ++ B ".schema.json"))
                           else Some (SStr s)
                         | o => o
                         end
                       | _ => c_ptr c1 p
                       end;
     c_td := c_td c; c_rt := c_rt c; c_esr := c_esr c |}.

Inductive plan := PlanErr | PlanOk (files : list fplan).

Fixpoint find_file (path : str) (fs : list fplan) : option fplan :=
  match fs with
  | [] => None
  | f :: t => if seqb path (f_path f) then Some f else find_file path t
  end.

Fixpoint put_file (f : fplan) (fs : list fplan) : list fplan :=
  match fs with
  | [] => [f]
  | g :: t => if seqb (f_path f) (f_path g) then f :: t else g :: put_file f t
  end.

(* mockFileToInterfaces + InterfaceCollection.Append, one mock at a time *)
Definition add_mock (acc : plan) (mc : mock * cfg) : plan :=
  match acc with
  | PlanErr => PlanErr
  | PlanOk fs =>
    let c := snd mc in
    let path := out_path c in
    let pk := str_of (c_ptr c PPkgName) in
    let tp := str_of (c_ptr c PTemplate) in
    match find_file path fs with
    | None => PlanOk (fs ++ [{| f_path := path; f_srcpkg := m_pkg (fst mc); f_pkgname := pk;
                                f_template := tp; f_mocks := [mc] |}])
    | Some f =>
      if seqb (f_pkgname f) pk && seqb (f_srcpkg f) (m_pkg (fst mc)) && seqb (f_template f) tp
      then PlanOk (put_file {| f_path := path; f_srcpkg := f_srcpkg f; f_pkgname := f_pkgname f;
                               f_template := f_template f; f_mocks := f_mocks f ++ [mc] |} fs)
      else PlanErr
    end
  end.

(* the mocks of the run, in generation order: source packages and their interfaces in parse
   order ([src]), selected by the package's config, one per configs entry *)
Definition mocks_of (rx : str -> str -> bool) (ex : str -> str -> list (str * str))
           (t : tree) (src : list (str * list str)) : list (mock * cfg) :=
  flat_map (fun ps =>
    match get (fst ps) (t_pkgs t) with
    | None => []
    | Some pc =>
      flat_map (fun name =>
        if should_generate rx pc name
        then map (fun ic => ({| m_pkg := fst ps; m_iface := name; m_idx := fst ic |},
                             expanded (ex (fst ps) name) (snd ic)))
                 (combine (seq 0 (length (iface_cfgs pc name))) (iface_cfgs pc name))
        else []) (snd ps)
    end) src.

Definition make_plan (ms : list (mock * cfg)) : plan := fold_left add_mock ms (PlanOk []).

(* the config the per-file consumers read (after fixes/c08-file-level-config.diff) *)
Definition file_cfg (f : fplan) : cfg :=
  match f_mocks f with mc :: _ => snd mc | [] => empty_cfg end.

(* value a consumer of parameter [p] uses for mock [mc] written to file [f] *)
Definition read_level (t : tree) (f : fplan) (mc : mock * cfg) (l : level) : cfg :=
  match l with
  | LMock => snd mc
  | LFile => file_cfg f
  | LPackage => match get (m_pkg (fst mc)) (t_pkgs t) with Some pc => pc_config pc | None => empty_cfg end
  | LRoot => t_root t
  end.
