(* Proofs about Cfg/Schema.v (C12). *)
From Coq Require Import ZArith Permutation.
From Mk Require Import Lib.Bytes Cfg.Schema.

(* ------------------------------------------------------------------ association lists *)
Lemma alookup_app {A} k (a b : list (str * A)) :
  alookup k (a ++ b) = match alookup k a with Some v => Some v | None => alookup k b end.
Proof.
  induction a as [|[k' v] a IH]; simpl; [reflexivity|].
  destruct (seqb k k'); [reflexivity | exact IH].
Qed.

Lemma alookup_filter_key {A} (P : str -> bool) k (l : list (str * A)) :
  alookup k (filter (fun e => P (fst e)) l) = if P k then alookup k l else None.
Proof.
  induction l as [|[k' v] l IH]; simpl; [destruct (P k); reflexivity|].
  destruct (P k') eqn:Pk'; simpl.
  - destruct (seqb k k') eqn:E.
    + apply seqb_eq in E; subst. rewrite Pk'. reflexivity.
    + exact IH.
  - rewrite IH. destruct (seqb k k') eqn:E; [|reflexivity].
    apply seqb_eq in E; subst. rewrite Pk'. reflexivity.
Qed.

Lemma alookup_In {A} k (l : list (str * A)) v : alookup k l = Some v -> In (k, v) l.
Proof.
  induction l as [|[k' v'] l IH]; simpl; [discriminate|].
  destruct (seqb k k') eqn:E.
  - apply seqb_eq in E; subst. intros H; injection H as ->. now left.
  - intros H. right. now apply IH.
Qed.

Lemma In_has_key {A} k (v : A) l : In (k, v) l -> has_key k l = true.
Proof.
  unfold has_key. induction l as [|[k' v'] l IH]; simpl; [tauto|].
  intros [H|H].
  - injection H as -> ->. now rewrite seqb_refl.
  - destruct (seqb k k'); [reflexivity | now apply IH].
Qed.

Lemma has_key_false_alookup {A} k (l : list (str * A)) : has_key k l = false <-> alookup k l = None.
Proof. unfold has_key. destruct (alookup k l); split; congruence. Qed.

Lemma has_key_true_alookup {A} k (l : list (str * A)) : has_key k l = true <-> exists v, alookup k l = Some v.
Proof.
  unfold has_key. destruct (alookup k l) as [v|]; split; try congruence; eauto.
  intros [v H]; discriminate.
Qed.

(* ------------------------------------------------------------------ validate, unfolded *)
Lemma validate_eq ty props req addl j :
  validate (Sch ty props req addl) j =
  type_ok ty j &&
  match j with
  | JObj kv => required_ok kv req && props_ok kv props && addl_ok kv props addl
  | _ => true
  end.
Proof.
  destruct j; try reflexivity. simpl. f_equal. f_equal. f_equal.
  induction props as [|[k ps1] t IH]; simpl; [reflexivity|]. now rewrite IH.
Qed.

Lemma validate_non_object s j :
  (forall kv, j <> JObj kv) -> validate s j = type_ok (s_ty s) j.
Proof.
  destruct s as [ty props req addl]. rewrite validate_eq. simpl.
  destruct j; intros H; try now rewrite andb_true_r. exfalso. now apply (H kv).
Qed.

Lemma validate_anything j : validate (Sch [] [] [] true) j = true.
Proof.
  rewrite validate_eq. simpl. destruct j; try reflexivity.
  unfold required_ok, addl_ok; simpl. now rewrite forallb_forall.
Qed.

(* adding a required key never accepts more *)
Lemma validate_required_monotone ty props req req' addl j :
  incl req req' ->
  validate (Sch ty props req' addl) j = true -> validate (Sch ty props req addl) j = true.
Proof.
  intros Hi. rewrite !validate_eq. destruct j; try tauto.
  rewrite !andb_true_iff. intros [Ht [[Hr Hp] Ha]]. repeat split; try assumption.
  unfold required_ok in *. rewrite forallb_forall in *. intros r Hr'. apply Hr, Hi, Hr'.
Qed.

Lemma validate_add_required ty props req addl k j :
  validate (Sch ty props (k :: req) addl) j = true -> validate (Sch ty props req addl) j = true.
Proof. apply validate_required_monotone. intros x Hx. now right. Qed.

Lemma addl_ok_true kv props : addl_ok kv props true = true.
Proof. unfold addl_ok. now rewrite forallb_forall. Qed.

Lemma addl_ok_false kv props :
  addl_ok kv props false = match unknown_keys kv props with [] => true | _ => false end.
Proof.
  unfold addl_ok, unknown_keys. induction kv as [|[k v] kv IH]; simpl; [reflexivity|].
  destruct (has_key k props); simpl; [exact IH | reflexivity].
Qed.

(* additionalProperties=false rejects exactly the objects with a key outside "properties" *)
Lemma validate_addl_false ty props req kv :
  validate (Sch ty props req false) (JObj kv) =
  validate (Sch ty props req true) (JObj kv) &&
  match unknown_keys kv props with [] => true | _ => false end.
Proof.
  rewrite !validate_eq, addl_ok_true, addl_ok_false, andb_true_r.
  now rewrite andb_assoc.
Qed.

Lemma unknown_keys_spec kv props k :
  In k (unknown_keys kv props) <-> (exists v, In (k, v) kv) /\ has_key k props = false.
Proof.
  unfold unknown_keys. rewrite in_map_iff. split.
  - intros [[k' v] [E H]]. simpl in E; subst. apply filter_In in H as [H1 H2]. simpl in H2.
    split; [eauto | now apply negb_true_iff].
  - intros [[v H] Hk]. exists (k, v). split; [reflexivity|]. apply filter_In. split; [exact H|].
    simpl. now rewrite Hk.
Qed.

Lemma validate_addl_monotone ty props req j :
  validate (Sch ty props req false) j = true -> validate (Sch ty props req true) j = true.
Proof.
  destruct j; try (rewrite !validate_eq; tauto).
  rewrite validate_addl_false, andb_true_iff. tauto.
Qed.

(* the three ways a single key can violate a schema, and the wrong top-level type *)
Lemma violation_unknown_key ty props req kv k :
  has_key k props = false -> has_key k kv = true ->
  validate (Sch ty props req false) (JObj kv) = false.
Proof.
  intros Hp Hk. rewrite validate_addl_false.
  apply has_key_true_alookup in Hk as [v Hv]. apply alookup_In in Hv.
  assert (In k (unknown_keys kv props)) as H by (apply unknown_keys_spec; eauto).
  destruct (unknown_keys kv props); [destruct H | now rewrite andb_false_r].
Qed.

Lemma props_ok_false kv props k ps1 v :
  In (k, ps1) props -> alookup k kv = Some v -> validate ps1 v = false -> props_ok kv props = false.
Proof.
  intros Hin Hl Hv. induction props as [|[k' p'] t IH]; simpl; [destruct Hin|].
  destruct Hin as [H|H].
  - injection H as -> ->. now rewrite Hl, Hv.
  - rewrite (IH H). apply andb_false_r.
Qed.

Lemma violation_property ty props req addl kv k ps1 v :
  In (k, ps1) props -> alookup k kv = Some v -> validate ps1 v = false ->
  validate (Sch ty props req addl) (JObj kv) = false.
Proof.
  intros H1 H2 H3. rewrite validate_eq, (props_ok_false _ _ _ _ _ H1 H2 H3).
  now rewrite andb_false_r, andb_false_l, andb_false_r.
Qed.

Lemma violation_missing_required ty props req addl kv k :
  In k req -> has_key k kv = false -> validate (Sch ty props req addl) (JObj kv) = false.
Proof.
  intros H1 H2. rewrite validate_eq.
  assert (required_ok kv req = false) as ->.
  { unfold required_ok. apply not_true_is_false. intros H. rewrite forallb_forall in H.
    specialize (H k H1). congruence. }
  now rewrite !andb_false_l, andb_false_r.
Qed.

Lemma violation_type ty props req addl j :
  type_ok ty j = false -> validate (Sch ty props req addl) j = false.
Proof. intros H. rewrite validate_eq, H. reflexivity. Qed.

(* complete characterisation for objects *)
Lemma validate_object_iff ty props req addl kv :
  validate (Sch ty props req addl) (JObj kv) = true <->
  type_ok ty (JObj kv) = true /\
  (forall k, In k req -> has_key k kv = true) /\
  (forall k ps1 v, In (k, ps1) props -> alookup k kv = Some v -> validate ps1 v = true) /\
  (addl = false -> forall k v, In (k, v) kv -> has_key k props = true).
Proof.
  rewrite validate_eq, !andb_true_iff. unfold required_ok, addl_ok. rewrite !forallb_forall.
  split.
  - intros [Ht [[Hr Hp] Ha]]. repeat split; try assumption.
    + intros k ps1 v Hin Hl. destruct (validate ps1 v) eqn:E; [reflexivity|].
      rewrite (props_ok_false _ _ _ _ _ Hin Hl E) in Hp. discriminate.
    + intros -> k v Hin. specialize (Ha (k, v) Hin). exact Ha.
  - intros [Ht [Hr [Hp Ha]]]. repeat split; try assumption.
    + clear Ha Hr Ht. induction props as [|[k ps1] t IH]; simpl; [reflexivity|].
      rewrite andb_true_iff. split.
      * destruct (alookup k kv) as [v|] eqn:E; [|reflexivity]. eapply Hp; [now left | exact E].
      * apply IH. intros k' p' v' Hin. apply Hp. now right.
    + intros [k v] Hin. destruct addl; [reflexivity|]. simpl. eapply Ha; [reflexivity | exact Hin].
Qed.

(* ------------------------------------------------------------------ merge *)
Lemma merge_data_eq src dest : merge_data src dest = merge_upd src dest ++ src_only src dest.
Proof.
  unfold merge_data, merge_upd, src_only. simpl. f_equal.
  induction dest as [|[k dv] t IH]; simpl; [reflexivity|]. rewrite IH. f_equal. f_equal.
  unfold merge_val. destruct dv; reflexivity.
Qed.

Definition is_obj (j : json) : bool := match j with JObj _ => true | _ => false end.

Lemma merge_val_scalar src k dv : is_obj dv = false -> merge_val src k dv = dv.
Proof. destruct dv; simpl; try reflexivity. discriminate. Qed.

Lemma alookup_merge_upd src dest k :
  alookup k (merge_upd src dest) = option_map (merge_val src k) (alookup k dest).
Proof.
  unfold merge_upd. induction dest as [|[k' v] t IH]; simpl; [reflexivity|].
  destruct (seqb k k') eqn:E; [|exact IH]. apply seqb_eq in E; subst. reflexivity.
Qed.

(* key by key: the more specific map (dest) wins, two maps are merged, everything else of the
   less specific map (src) is inherited *)
Lemma alookup_merge_data src dest k :
  alookup k (merge_data src dest) =
  match alookup k dest with
  | Some dv => Some (merge_val src k dv)
  | None => alookup k src
  end.
Proof.
  rewrite merge_data_eq, alookup_app, alookup_merge_upd. unfold src_only.
  rewrite (alookup_filter_key (fun x => negb (has_key x dest))). unfold has_key.
  destruct (alookup k dest); reflexivity.
Qed.

Lemma has_key_merge_data src dest k :
  has_key k (merge_data src dest) = has_key k dest || has_key k src.
Proof.
  unfold has_key. rewrite alookup_merge_data. destruct (alookup k dest); reflexivity.
Qed.

Lemma merge_data_nil_src dest k : alookup k (merge_data [] dest) = alookup k dest.
Proof.
  rewrite alookup_merge_data. destruct (alookup k dest) as [dv|]; [|reflexivity].
  f_equal. unfold merge_val. destruct dv; reflexivity.
Qed.

(* the chain root -> package -> interface config -> configs entry (general to specific) *)
Definition chain (levels : list obj) : obj := fold_left (fun acc l => merge_data acc l) levels [].

Lemma chain_snoc levels l : chain (levels ++ [l]) = merge_data (chain levels) l.
Proof. unfold chain. now rewrite fold_left_app. Qed.

Lemma fold_merge_keeps acc post k v :
  alookup k acc = Some v -> is_obj v = false ->
  (forall M, In M post -> has_key k M = false) ->
  alookup k (fold_left (fun a l => merge_data a l) post acc) = Some v.
Proof.
  revert acc. induction post as [|M post IH]; intros acc Ha Hv Hp; simpl; [exact Ha|].
  apply IH; [|exact Hv | intros M' HM'; apply Hp; now right].
  rewrite alookup_merge_data.
  assert (alookup k M = None) as -> by (apply has_key_false_alookup, Hp; now left). exact Ha.
Qed.

(* a scalar value placed at one level, not overridden by a more specific level, reaches the
   merged map unchanged *)
Lemma chain_reach pre L post k v :
  alookup k L = Some v -> is_obj v = false ->
  (forall M, In M post -> has_key k M = false) ->
  alookup k (chain (pre ++ L :: post)) = Some v.
Proof.
  intros HL Hv Hp. unfold chain. rewrite fold_left_app. simpl.
  apply fold_merge_keeps; [|exact Hv | exact Hp].
  rewrite alookup_merge_data, HL. now rewrite merge_val_scalar.
Qed.

(* a key placed at any level (any value) is present in the merged map *)
Lemma fold_merge_has_key acc post k :
  has_key k acc = true -> has_key k (fold_left (fun a l => merge_data a l) post acc) = true.
Proof.
  revert acc. induction post as [|M post IH]; intros acc Ha; simpl; [exact Ha|].
  apply IH. rewrite has_key_merge_data, Ha. apply orb_true_r.
Qed.
Lemma chain_has_key pre L post k :
  has_key k L = true -> has_key k (chain (pre ++ L :: post)) = true.
Proof.
  intros HL. unfold chain. rewrite fold_left_app. simpl. apply fold_merge_has_key.
  rewrite has_key_merge_data, HL. reflexivity.
Qed.

(* a key placed at no level is absent *)
Lemma chain_lacks_key levels k :
  (forall M, In M levels -> has_key k M = false) -> has_key k (chain levels) = false.
Proof.
  unfold chain. assert (has_key k (@nil (str * json)) = false) as H0 by reflexivity.
  revert H0. generalize (@nil (str * json)) as acc.
  induction levels as [|M t IH]; intros acc Ha Hl; simpl; [exact Ha|].
  apply IH; [|intros M' HM'; apply Hl; now right].
  rewrite has_key_merge_data, Ha, (Hl M); [reflexivity | now left].
Qed.

(* C12_levels, value form: whatever single level carries the offending scalar k:v, if the
   schema rejects every map that has k:v, the merged map is rejected *)
Lemma levels_caught_value s pre L post k v :
  alookup k L = Some v -> is_obj v = false ->
  (forall M, In M post -> has_key k M = false) ->
  (forall o, alookup k o = Some v -> validate s (JObj o) = false) ->
  validate s (JObj (chain (pre ++ L :: post))) = false.
Proof. intros HL Hv Hp Hs. apply Hs. now apply chain_reach. Qed.

(* key form (unknown key under additionalProperties=false; any value, any level) *)
Lemma levels_caught_key s pre L post k :
  has_key k L = true ->
  (forall o, has_key k o = true -> validate s (JObj o) = false) ->
  validate s (JObj (chain (pre ++ L :: post))) = false.
Proof. intros HL Hs. apply Hs. now apply chain_has_key. Qed.

(* absence form (required key given at no level) *)
Lemma levels_caught_missing s levels k :
  (forall M, In M levels -> has_key k M = false) ->
  (forall o, has_key k o = false -> validate s (JObj o) = false) ->
  validate s (JObj (chain levels)) = false.
Proof. intros Hl Hs. apply Hs. now apply chain_lacks_key. Qed.

(* ------------------------------------------------------------------ grouping *)
Lemma group_add_In {X} k (x : X) g :
  exists xs, In (k, xs) (group_add k x g) /\ In x xs.
Proof.
  induction g as [|[k' xs] t IH]; simpl.
  - exists [x]. split; now left.
  - destruct (seqb k k') eqn:E.
    + apply seqb_eq in E; subst. exists (xs ++ [x]). split; [now left|].
      apply in_app_iff. right. now left.
    + destruct IH as [ys [H1 H2]]. exists ys. split; [now right | exact H2].
Qed.

Lemma group_add_keeps {X} k (x : X) g k0 x0 xs0 :
  In (k0, xs0) g -> In x0 xs0 -> exists ys, In (k0, ys) (group_add k x g) /\ In x0 ys.
Proof.
  induction g as [|[k' xs] t IH]; simpl; [tauto|].
  intros [H|H] Hx.
  - injection H as -> ->. destruct (seqb k k0) eqn:E.
    + exists (xs0 ++ [x]). split; [now left | apply in_app_iff; now left].
    + exists xs0. split; [now left | exact Hx].
  - destruct (IH H Hx) as [ys [H1 H2]]. destruct (seqb k k').
    + exists xs0. split; [now right | exact Hx].
    + exists ys. split; [now right | exact H2].
Qed.

Lemma group_In {X} (l : list (str * X)) k x :
  In (k, x) l -> exists xs, In (k, xs) (group l) /\ In x xs.
Proof.
  unfold group.
  assert (forall g, (In (k, x) l \/ exists xs, In (k, xs) g /\ In x xs) ->
                    exists xs, In (k, xs) (fold_left (fun g kx => group_add (fst kx) (snd kx) g) l g) /\ In x xs) as H.
  { induction l as [|[k1 x1] t IH]; intros g Hc; simpl.
    - destruct Hc as [[]|Hc]; exact Hc.
    - apply IH. destruct Hc as [[Hc|Hc]|[xs [H1 H2]]].
      + injection Hc as -> ->. right. apply group_add_In.
      + now left.
      + right. simpl. eapply group_add_keeps; eassumption. }
  intros Hin. apply H. now left.
Qed.

(* every member of a group arrived with that key (nothing is invented) *)
Lemma group_add_sound {X} k (x : X) g k0 xs0 x0 :
  In (k0, xs0) (group_add k x g) -> In x0 xs0 ->
  (k0 = k /\ x0 = x) \/ exists ys, In (k0, ys) g /\ In x0 ys.
Proof.
  induction g as [|[k' xs] t IH]; simpl.
  - intros [H|[]] Hx. inversion H; subst. destruct Hx as [Hx|[]]. left. split; [reflexivity | now symmetry].
  - destruct (seqb k k') eqn:E.
    + apply seqb_eq in E; subst k'. intros [H|H] Hx.
      * inversion H; subst. apply in_app_iff in Hx as [Hx|[Hx|[]]].
        -- right. exists xs. split; [now left | exact Hx].
        -- left. split; [reflexivity | now symmetry].
      * right. exists xs0. split; [now right | exact Hx].
    + intros [H|H] Hx.
      * inversion H; subst. right. exists xs0. split; [now left | exact Hx].
      * destruct (IH H Hx) as [Hl|[ys [H1 H2]]]; [now left|].
        right. exists ys. split; [now right | exact H2].
Qed.

Lemma group_sound {X} (l : list (str * X)) k xs x :
  In (k, xs) (group l) -> In x xs -> In (k, x) l.
Proof.
  unfold group.
  assert (forall g, In (k, xs) (fold_left (fun g kx => group_add (fst kx) (snd kx) g) l g) -> In x xs ->
                    In (k, x) l \/ exists ys, In (k, ys) g /\ In x ys) as H.
  { induction l as [|[k1 x1] t IH]; intros g Hg Hx; simpl in *.
    - right. eauto.
    - destruct (IH _ Hg Hx) as [Hl|[ys [H1 H2]]]; [left; now right|].
      destruct (group_add_sound _ _ _ _ _ _ H1 H2) as [[-> ->]|Hr]; [left; now left | right; exact Hr]. }
  intros Hg Hx. destruct (H [] Hg Hx) as [Hl|[ys [[] _]]]. exact Hl.
Qed.

(* ------------------------------------------------------------------ levels reach the files *)
Definition data4 (r p d en : obj) : obj := merge_data (merge_data (merge_data r p) d) en.

Lemma merge_data_nil_l r : merge_data [] r = r.
Proof.
  rewrite merge_data_eq. unfold src_only, merge_upd; simpl. rewrite app_nil_r.
  induction r as [|[k v] t IH]; simpl; [reflexivity|]. rewrite IH. f_equal. f_equal.
  unfold merge_val. destruct v; reflexivity.
Qed.

Lemma chain2 r p : chain [r; p] = merge_data r p.
Proof. unfold chain; simpl. now rewrite merge_data_nil_l. Qed.
Lemma chain3 r p d : chain [r; p; d] = merge_data (merge_data r p) d.
Proof. unfold chain; simpl. now rewrite merge_data_nil_l. Qed.
Lemma chain4 r p d en : chain [r; p; d; en] = data4 r p d en.
Proof. unfold chain, data4; simpl. now rewrite merge_data_nil_l. Qed.

(* every mock of every interface ends up in exactly the file it names, with the data merged
   over all levels; the file-level data is root merged under package *)
Lemma files_of_pkg_data r p f :
  In f (files_of_pkg FLPackage r p) -> f_data f = pkg_data r (p_lvl p).
Proof. unfold files_of_pkg. rewrite in_map_iff. intros [g [<- _]]. reflexivity. Qed.

(* groups are never empty *)
Lemma group_add_nonempty {X} k (x : X) g :
  (forall k0 xs, In (k0, xs) g -> xs <> []) -> forall k0 xs, In (k0, xs) (group_add k x g) -> xs <> [].
Proof.
  induction g as [|[k' ys] t IH]; simpl; intros Hg k0 xs.
  - intros [H|[]]. inversion H. discriminate.
  - destruct (seqb k k').
    + intros [H|H]; [inversion H; destruct ys; discriminate | eapply Hg; right; exact H].
    + intros [H|H]; [eapply Hg; left; exact H|]. eapply IH; [|exact H].
      intros k1 zs Hz. eapply Hg. right. exact Hz.
Qed.
Lemma group_nonempty {X} (l : list (str * X)) k xs : In (k, xs) (group l) -> xs <> [].
Proof.
  unfold group.
  assert (forall g, (forall k0 ys, In (k0, ys) g -> ys <> []) ->
                    forall k0 ys, In (k0, ys) (fold_left (fun g kx => group_add (fst kx) (snd kx) g) l g) -> ys <> []) as H.
  { induction l as [|[k1 x1] t IH]; intros g Hg; simpl; [exact Hg|].
    apply IH. now apply group_add_nonempty. }
  apply H. intros k0 ys [].
Qed.

(* in first-mock mode the file-level data IS the data of a mock of the file *)
Lemma files_of_pkg_data_first r p f :
  In f (files_of_pkg FLFirstMock r p) -> exists n, In (n, f_data f) (f_ifaces f).
Proof.
  unfold files_of_pkg. rewrite in_map_iff. intros [[k xs] [<- Hg]]. simpl.
  pose proof (group_nonempty _ _ _ Hg) as Hne. destruct xs as [|[n d] t]; [congruence|].
  exists n. now left.
Qed.

Lemma files_of_pkg_settings m r p f :
  In f (files_of_pkg m r p) ->
  f_template f = eff_template r (p_lvl p) /\ f_schema f = eff_schema r (p_lvl p) /\
  f_require f = eff_require r (p_lvl p) /\ f_rest_ok f = p_rest_ok p.
Proof. unfold files_of_pkg. rewrite in_map_iff. intros [g [<- _]]. simpl. tauto. Qed.

Lemma mock_reaches_file m r p file name d :
  In (file, (name, d)) (flat_map (mocks_of_iface (pkg_data r (p_lvl p)) (p_all p) (p_file p)) (p_ifaces p)) ->
  exists f, In f (files_of_pkg m r p) /\ f_path f = file /\ In (name, d) (f_ifaces f).
Proof.
  intros H. apply group_In in H as [xs [H1 H2]].
  eexists. split; [unfold files_of_pkg; apply in_map_iff; eexists; split; [reflexivity | exact H1]|].
  simpl. tauto.
Qed.

Lemma file_members_are_mocks m r p f name d :
  In f (files_of_pkg m r p) -> In (name, d) (f_ifaces f) ->
  In (f_path f, (name, d)) (flat_map (mocks_of_iface (pkg_data r (p_lvl p)) (p_all p) (p_file p)) (p_ifaces p)).
Proof.
  unfold files_of_pkg. rewrite in_map_iff. intros [[k xs] [<- Hg]] Hx. simpl in *.
  eapply group_sound; eassumption.
Qed.

Lemma entry_reaches_file m r p name d file es en :
  In (name, Listed d file es) (p_ifaces p) -> In en es ->
  exists f, In f (files_of_pkg m r p) /\ f_path f = en_file en /\
            In (name, data4 (l_data r) (l_data (p_lvl p)) d (en_data en)) (f_ifaces f).
Proof.
  intros Hi He. apply mock_reaches_file. apply in_flat_map. eexists. split; [exact Hi|].
  unfold mocks_of_iface; simpl. destruct es as [|e0 es']; [destruct He|].
  apply in_map_iff. exists en. split; [reflexivity | exact He].
Qed.

Lemma listed_reaches_file m r p name d file :
  In (name, Listed d file []) (p_ifaces p) ->
  exists f, In f (files_of_pkg m r p) /\ f_path f = file /\
            In (name, merge_data (merge_data (l_data r) (l_data (p_lvl p))) d) (f_ifaces f).
Proof.
  intros Hi. apply mock_reaches_file. apply in_flat_map. eexists. split; [exact Hi|].
  simpl. now left.
Qed.

Lemma unlisted_reaches_file m r p name :
  In (name, Unlisted) (p_ifaces p) -> p_all p = true ->
  exists f, In f (files_of_pkg m r p) /\ f_path f = p_file p /\
            In (name, merge_data (l_data r) (l_data (p_lvl p))) (f_ifaces f).
Proof.
  intros Hi Ha. apply mock_reaches_file. apply in_flat_map. eexists. split; [exact Hi|].
  simpl. rewrite Ha. now left.
Qed.

(* ------------------------------------------------------------------ cache transparency *)
Definition rt_ok (fs : fsys) (k : ckey) (r : rtemplate) : Prop :=
  rt_turl r = fst k /\ rt_surl r = snd k /\
  (rt_tdl r = true -> exists c, download fs (fst k) = Some c /\ rt_t r = Some c) /\
  (rt_sdl r = true -> exists c s, download fs (snd k) = Some c /\ c_schema c = Some s /\ rt_s r = Some s).

Definition cache_ok (fs : fsys) (c : cache) : Prop :=
  forall k r, cfind k c = Some r -> rt_ok fs k r.

Lemma cache_ok_nil fs : cache_ok fs [].
Proof. intros k r H. discriminate. Qed.

Lemma ckey_eqb_eq a b : ckey_eqb a b = true <-> a = b.
Proof.
  unfold ckey_eqb. destruct a, b; simpl. rewrite andb_true_iff, !seqb_eq.
  split; [intros [-> ->]; reflexivity | intros H; injection H; auto].
Qed.

Lemma cache_ok_put fs c k r : cache_ok fs c -> rt_ok fs k r -> cache_ok fs (cput k r c).
Proof.
  intros Hc Hr k' r'. unfold cput; simpl. destruct (ckey_eqb k' k) eqn:E.
  - apply ckey_eqb_eq in E; subst. intros H; injection H as <-. exact Hr.
  - apply Hc.
Qed.

Lemma rt_ok_new fs t s : rt_ok fs (t, s) (new_rt t s).
Proof. unfold rt_ok, new_rt; simpl. repeat split; discriminate. Qed.

(* what getTemplate computes when nothing is cached *)
Definition spec_get (e : env) (f : filecfg) : option (bool * option schema) :=
  match template_ok e f with
  | None => None
  | Some tok =>
    match select_schema e f with
    | SelError => None
    | SelNoValidation => Some (tok, None)
    | SelSchema s => Some (tok, Some s)
    end
  end.

Lemma get_template_spec e c f :
  cache_ok (e_fs e) c ->
  snd (get_template KTemplateSchema e c f) = spec_get e f /\
  (spec_get e f <> None -> cache_ok (e_fs e) (fst (get_template KTemplateSchema e c f))).
Proof.
  intros Hc. unfold get_template, spec_get, template_ok, select_schema.
  destruct (is_remote (f_template f)) eqn:Hrem.
  2:{ destruct (alookup (f_template f) (e_builtins e)); simpl; split; auto. }
  set (k := cache_key KTemplateSchema (f_template f) (f_schema f)).
  assert (rt_ok (e_fs e) k
            match cfind k c with Some r => r | None => new_rt (f_template f) (f_schema f) end) as Hr0.
  { destruct (cfind k c) eqn:E; [apply Hc; exact E | apply rt_ok_new]. }
  revert Hr0. generalize (match cfind k c with Some r => r | None => new_rt (f_template f) (f_schema f) end).
  intros r0 [Ht [Hs [Htd Hsd]]]. subst k. simpl in Ht, Hs, Htd, Hsd. simpl cache_key.
  unfold rt_template.
  destruct (rt_tdl r0) eqn:Etdl.
  - (* template already downloaded *)
    destruct (Htd eq_refl) as [tc [Hd Hrt]]. simpl. rewrite Hd, Hrt.
    destruct (f_require f) eqn:Ereq.
    + unfold rt_schema. destruct (rt_sdl r0) eqn:Esdl.
      * destruct (Hsd eq_refl) as [sc [s [Hd2 [Hcs Hrs]]]]. rewrite Hd2, Hcs, Hrs. simpl.
        split; [reflexivity|]. intros _. apply cache_ok_put; [exact Hc|].
        unfold rt_ok; simpl. repeat split; auto; intros _; eauto.
      * rewrite Hs. destruct (download (e_fs e) (f_schema f)) as [sc|] eqn:Hd2; simpl.
        -- destruct (c_schema sc) as [s|] eqn:Hcs; simpl; [|split; [reflexivity | congruence]].
           split; [reflexivity|]. intros _. apply cache_ok_put; [exact Hc|].
           unfold rt_ok; simpl. repeat split; auto. intros _. eauto.
        -- split; [reflexivity | congruence].
    + simpl. split; [reflexivity|]. intros _. apply cache_ok_put; [exact Hc|].
      unfold rt_ok; simpl. repeat split; auto.
  - (* first download of the template *)
    rewrite Ht. destruct (download (e_fs e) (f_template f)) as [tc|] eqn:Hd; simpl.
    2:{ split; [reflexivity | congruence]. }
    destruct (f_require f) eqn:Ereq.
    + unfold rt_schema; simpl. destruct (rt_sdl r0) eqn:Esdl.
      * destruct (Hsd eq_refl) as [sc [s [Hd2 [Hcs Hrs]]]]. rewrite Hd2, Hcs, Hrs. simpl.
        split; [reflexivity|]. intros _. apply cache_ok_put; [exact Hc|].
        unfold rt_ok; simpl. repeat split; auto; intros _; eauto.
      * rewrite Hs. destruct (download (e_fs e) (f_schema f)) as [sc|] eqn:Hd2; simpl.
        -- destruct (c_schema sc) as [s|] eqn:Hcs; simpl; [|split; [reflexivity | congruence]].
           split; [reflexivity|]. intros _. apply cache_ok_put; [exact Hc|].
           unfold rt_ok; simpl. repeat split; auto; intros _; eauto.
        -- split; [reflexivity | congruence].
    + simpl. split; [reflexivity|]. intros _. apply cache_ok_put; [exact Hc|].
      unfold rt_ok; simpl. repeat split; auto. intros _. eauto.
Qed.

Lemma spec_file_get e f :
  spec_file e f =
  match spec_get e f with
  | None => FError
  | Some (tok, so) =>
    if match so with Some s => data_valid s f | None => true end && tok && f_rest_ok f
    then FWritten else FError
  end.
Proof.
  unfold spec_file, spec_get. destruct (template_ok e f); [|reflexivity].
  destruct (select_schema e f); reflexivity.
Qed.

Lemma gen_file_spec e c f :
  cache_ok (e_fs e) c ->
  snd (gen_file KTemplateSchema e c f) = spec_file e f /\
  (spec_file e f = FWritten -> cache_ok (e_fs e) (fst (gen_file KTemplateSchema e c f))).
Proof.
  intros Hc. destruct (get_template_spec e c f Hc) as [H1 H2].
  unfold gen_file. rewrite spec_file_get.
  destruct (get_template KTemplateSchema e c f) as [c' g]. simpl in *. rewrite <- H1.
  destruct g as [[tok so]|]; simpl.
  - split; [reflexivity|]. intros _. apply H2. congruence.
  - split; [reflexivity | discriminate].
Qed.

(* the file loop without any cache *)
Fixpoint spec_run (e : env) (fs : list filecfg) : exit_class * list str :=
  match fs with
  | [] => (ExitOk, [])
  | f :: t =>
    match spec_file e f with
    | FWritten => let '(x, w) := spec_run e t in (x, f_path f :: w)
    | FError => (ExitErr, [])
    end
  end.

Lemma run_files_spec e c fs :
  cache_ok (e_fs e) c -> run_files KTemplateSchema e c fs = spec_run e fs.
Proof.
  revert c. induction fs as [|f t IH]; intros c Hc; simpl; [reflexivity|].
  destruct (gen_file_spec e c f Hc) as [H1 H2].
  destruct (gen_file KTemplateSchema e c f) as [c' r]. simpl in *. subst r.
  destruct (spec_file e f); [|reflexivity]. rewrite (IH c' (H2 eq_refl)). reflexivity.
Qed.

Theorem cache_transparent e fs : run KTemplateSchema e fs = spec_run e fs.
Proof. apply run_files_spec, cache_ok_nil. Qed.

(* ------------------------------------------------------------------ the run, any order *)
Lemma spec_run_ok_iff e fs :
  fst (spec_run e fs) = ExitOk <-> forall f, In f fs -> spec_file e f = FWritten.
Proof.
  induction fs as [|f t IH]; simpl; [split; [intros _ f [] | reflexivity]|].
  destruct (spec_file e f) eqn:E.
  - destruct (spec_run e t) as [x w]. simpl in *. rewrite IH. split.
    + intros H g [<-|Hg]; [exact E | now apply H].
    + intros H g Hg. apply H. now right.
  - simpl. split; [discriminate|]. intros H. specialize (H f (or_introl eq_refl)). congruence.
Qed.

Lemma spec_run_written_sound e fs p :
  In p (snd (spec_run e fs)) -> exists f, In f fs /\ f_path f = p /\ spec_file e f = FWritten.
Proof.
  induction fs as [|f t IH]; simpl; [tauto|].
  destruct (spec_file e f) eqn:E; [|simpl; tauto].
  destruct (spec_run e t) as [x w]. simpl in *. intros [<-|H].
  - exists f. auto.
  - destruct (IH H) as [g [H1 H2]]. exists g. auto.
Qed.

Lemma spec_run_ok_all e fs :
  fst (spec_run e fs) = ExitOk -> snd (spec_run e fs) = map f_path fs.
Proof.
  induction fs as [|f t IH]; simpl; [reflexivity|].
  destruct (spec_file e f); [|discriminate].
  destruct (spec_run e t) as [x w]. simpl in *. intros H. now rewrite IH.
Qed.

(* written iff valid, for the whole run in any map order *)
Theorem written_iff_valid e fs fo :
  Permutation fs fo ->
  (fst (run KTemplateSchema e fo) = ExitOk <-> forall f, In f fs -> spec_file e f = FWritten) /\
  (forall p, In p (snd (run KTemplateSchema e fo)) ->
             exists f, In f fs /\ f_path f = p /\ spec_file e f = FWritten) /\
  (fst (run KTemplateSchema e fo) = ExitOk -> Permutation (snd (run KTemplateSchema e fo)) (map f_path fs)).
Proof.
  intros HP. rewrite cache_transparent. repeat split.
  - rewrite spec_run_ok_iff. intros H f Hf. apply H. eapply Permutation_in; eassumption.
  - rewrite spec_run_ok_iff. intros H f Hf. apply H. eapply Permutation_in; [symmetry|]; eassumption.
  - intros p Hp. destruct (spec_run_written_sound _ _ _ Hp) as [f [H1 H2]]. exists f. split; [|exact H2].
    eapply Permutation_in; [symmetry|]; eassumption.
  - intros H. rewrite (spec_run_ok_all _ _ H). apply Permutation_map. now symmetry.
Qed.

(* what "valid" means for one file *)
Theorem spec_file_written_iff e f :
  spec_file e f = FWritten <->
  template_ok e f = Some true /\ f_rest_ok f = true /\
  match select_schema e f with
  | SelError => False
  | SelNoValidation => True
  | SelSchema s => validate s (JObj (f_data f)) = true /\
                   forall n d, In (n, d) (f_ifaces f) -> validate s (JObj d) = true
  end.
Proof.
  unfold spec_file. destruct (template_ok e f) as [[|]|]; try (split; [discriminate | intros [H _]; discriminate]).
  - destruct (select_schema e f) as [| |s].
    + split; [discriminate | tauto].
    + simpl. destruct (f_rest_ok f); split; try tauto; try discriminate. intros [_ [H _]]; discriminate.
    + unfold data_valid. rewrite andb_true_r.
      destruct (f_rest_ok f); [rewrite andb_true_r | rewrite andb_false_r].
      2:{ split; [discriminate | intros [_ [H _]]; discriminate]. }
      destruct (validate s (JObj (f_data f)) && forallb (fun i => validate s (JObj (snd i))) (f_ifaces f)) eqn:E.
      * apply andb_true_iff in E as [E1 E2]. rewrite forallb_forall in E2. split; [|reflexivity].
        intros _. repeat split; try assumption. intros n d Hin. apply (E2 (n, d) Hin).
      * split; [discriminate|]. intros [_ [_ [H1 H2]]]. exfalso.
        apply andb_false_iff in E as [E|E]; [congruence|].
        assert (forallb (fun i => validate s (JObj (snd i))) (f_ifaces f) = true); [|congruence].
        apply forallb_forall. intros [n d] Hin. simpl. eapply H2. exact Hin.
  - destruct (select_schema e f); simpl; try rewrite andb_false_r; simpl;
      (split; [discriminate | intros [H _]; discriminate]).
Qed.

(* no retrievable schema for a custom template *)
Definition schema_retrievable (e : env) (f : filecfg) : bool :=
  match download (e_fs e) (f_schema f) with
  | Some c => match c_schema c with Some _ => true | None => false end
  | None => false
  end.

Theorem no_schema e f :
  is_remote (f_template f) = true -> schema_retrievable e f = false ->
  (f_require f = true -> spec_file e f = FError) /\
  (f_require f = false ->
   spec_file e f = if match template_ok e f with Some true => f_rest_ok f | _ => false end
                   then FWritten else FError).
Proof.
  intros Hrem Hs. unfold spec_file, select_schema, schema_retrievable in *. rewrite Hrem. split; intros Hr; rewrite Hr.
  - destruct (template_ok e f); [|reflexivity].
    destruct (download (e_fs e) (f_schema f)) as [c|]; [|reflexivity].
    destruct (c_schema c); [discriminate | reflexivity].
  - destruct (template_ok e f) as [[|]|]; reflexivity.
Qed.

(* with the flag off nothing is validated, whether or not a schema exists: the outcome does
   not depend on any template-data *)
Theorem require_false_no_validation e f dat ifs :
  is_remote (f_template f) = true -> f_require f = false ->
  spec_file e {| f_path := f_path f; f_template := f_template f; f_schema := f_schema f;
                 f_require := false; f_data := dat; f_ifaces := ifs; f_rest_ok := f_rest_ok f |}
  = spec_file e f.
Proof.
  intros Hrem Hr. unfold spec_file, select_schema, template_ok; simpl. rewrite Hrem, Hr. reflexivity.
Qed.

(* ------------------------------------------------------------------ the pinned cache key is wrong *)
Definition wit_sA : schema := Sch [TObject] [(B "k", ps TString)] [B "k"] false.
Definition wit_sB : schema := Sch [TObject] [(B "z", ps TInteger)] [B "z"] false.
Definition wit_env : env :=
  {| e_fs := [(B "file://t.templ", {| c_tmpl_ok := true; c_schema := None |});
              (B "file://t.templ.schema.json", {| c_tmpl_ok := false; c_schema := Some wit_sA |});
              (B "file://s2.json", {| c_tmpl_ok := false; c_schema := Some wit_sB |})];
     e_builtins := pinned_builtins; e_empty_ok := false |}.
Definition wit_fa : filecfg :=
  {| f_path := B "a/zz_mock.go"; f_template := B "file://t.templ"; f_schema := B "file://t.templ.schema.json";
     f_require := true; f_data := [(B "k", JStr (B "v"))]; f_ifaces := [(B "A1", [(B "k", JStr (B "v"))])];
     f_rest_ok := true |}.
Definition wit_fb : filecfg :=
  {| f_path := B "b/zz_mock.go"; f_template := B "file://t.templ"; f_schema := B "file://s2.json";
     f_require := true; f_data := [(B "z", JNum 10 1)]; f_ifaces := [(B "B1", [(B "z", JNum 10 1)])];
     f_rest_ok := true |}.

Theorem cache_by_name_refuted :
  exists e fs fs',
    Permutation fs fs' /\
    (forall f, In f fs -> spec_file e f = FWritten) /\
    fst (run KTemplate e fs) = ExitErr /\ fst (run KTemplate e fs') = ExitErr /\
    snd (run KTemplate e fs) <> snd (run KTemplate e fs') /\
    fst (run KTemplateSchema e fs) = ExitOk.
Proof.
  exists wit_env, [wit_fa; wit_fb], [wit_fb; wit_fa]. repeat split.
  - apply perm_swap.
  - intros f [<-|[<-|[]]]; vm_compute; reflexivity.
  - vm_compute. discriminate.
Qed.

(* ------------------------------------------------------------------ world level *)
Lemma str_nodup_NoDup l : str_nodup l = true -> NoDup l.
Proof.
  induction l as [|x t IH]; simpl; [constructor|].
  rewrite andb_true_iff, negb_true_iff. intros [H1 H2]. constructor; [|now apply IH].
  now apply smem_false.
Qed.

Lemma world_files_spec w fs :
  world_files w = Some fs ->
  fs = flat_map (files_of_pkg (w_fl w) (w_root w)) (w_pkgs w) /\ NoDup (map f_path fs).
Proof.
  unfold world_files. destruct (str_nodup _) eqn:E; [|discriminate].
  intros H; injection H as <-. split; [reflexivity | now apply str_nodup_NoDup].
Qed.

Theorem invalid_never_written w fs fo f :
  world_files w = Some fs -> Permutation fs fo -> In f fs -> spec_file (w_env w) f = FError ->
  ~ In (f_path f) (snd (run KTemplateSchema (w_env w) fo)) /\
  fst (run KTemplateSchema (w_env w) fo) = ExitErr.
Proof.
  intros Hw HP Hin Herr. destruct (world_files_spec _ _ Hw) as [_ ND].
  destruct (written_iff_valid (w_env w) fs fo HP) as [H1 [H2 _]]. split.
  - intros Hp. destruct (H2 _ Hp) as [g [Hg [Hpath Hok]]].
    assert (g = f) as -> by (eapply NoDup_map_inj_on; eassumption). congruence.
  - destruct (fst (run KTemplateSchema (w_env w) fo)) eqn:E; [|reflexivity].
    rewrite (proj1 H1 eq_refl f Hin) in Herr. discriminate.
Qed.

Lemma iface_invalid_file_error e f s n d :
  select_schema e f = SelSchema s -> In (n, d) (f_ifaces f) -> validate s (JObj d) = false ->
  spec_file e f = FError.
Proof.
  intros Hs Hin Hv. destruct (spec_file e f) eqn:E; [|reflexivity].
  apply spec_file_written_iff in E as [_ [_ E]]. rewrite Hs in E. destruct E as [_ E].
  rewrite (E _ _ Hin) in Hv. discriminate.
Qed.

Lemma filedata_invalid_file_error e f s :
  select_schema e f = SelSchema s -> validate s (JObj (f_data f)) = false -> spec_file e f = FError.
Proof.
  intros Hs Hv. destruct (spec_file e f) eqn:E; [|reflexivity].
  apply spec_file_written_iff in E as [_ [_ E]]. rewrite Hs in E. destruct E as [E _]. congruence.
Qed.

Lemma In_files_of_world w fs p f :
  world_files w = Some fs -> In p (w_pkgs w) -> In f (files_of_pkg (w_fl w) (w_root w) p) -> In f fs.
Proof.
  intros Hw Hp Hf. destruct (world_files_spec _ _ Hw) as [-> _]. apply in_flat_map. eauto.
Qed.

(* template-data of a `configs` entry: four levels *)
Theorem levels_entry w fs fo p name d file es en s :
  world_files w = Some fs -> Permutation fs fo ->
  In p (w_pkgs w) -> In (name, Listed d file es) (p_ifaces p) -> In en es ->
  (forall f, In f (files_of_pkg (w_fl w) (w_root w) p) -> select_schema (w_env w) f = SelSchema s) ->
  validate s (JObj (chain [l_data (w_root w); l_data (p_lvl p); d; en_data en])) = false ->
  ~ In (en_file en) (snd (run KTemplateSchema (w_env w) fo)) /\
  fst (run KTemplateSchema (w_env w) fo) = ExitErr.
Proof.
  intros Hw HP Hp Hi He Hsel Hv. rewrite chain4 in Hv.
  destruct (entry_reaches_file (w_fl w) (w_root w) p name d file es en Hi He) as [f [Hf [Hpath Hm]]].
  rewrite <- Hpath. eapply invalid_never_written; try eassumption.
  - eapply In_files_of_world; eassumption.
  - eapply iface_invalid_file_error; [apply Hsel; exact Hf | exact Hm | exact Hv].
Qed.

(* interface listed without `configs`: three levels *)
Theorem levels_listed w fs fo p name d file s :
  world_files w = Some fs -> Permutation fs fo ->
  In p (w_pkgs w) -> In (name, Listed d file []) (p_ifaces p) ->
  (forall f, In f (files_of_pkg (w_fl w) (w_root w) p) -> select_schema (w_env w) f = SelSchema s) ->
  validate s (JObj (chain [l_data (w_root w); l_data (p_lvl p); d])) = false ->
  ~ In file (snd (run KTemplateSchema (w_env w) fo)) /\
  fst (run KTemplateSchema (w_env w) fo) = ExitErr.
Proof.
  intros Hw HP Hp Hi Hsel Hv. rewrite chain3 in Hv.
  destruct (listed_reaches_file (w_fl w) (w_root w) p name d file Hi) as [f [Hf [Hpath Hm]]].
  rewrite <- Hpath. eapply invalid_never_written; try eassumption.
  - eapply In_files_of_world; eassumption.
  - eapply iface_invalid_file_error; [apply Hsel; exact Hf | exact Hm | exact Hv].
Qed.

(* file-level data and the data of interfaces selected by all: true: two levels; every file of
   the package is affected *)
Theorem levels_package w fs fo p f s :
  w_fl w = FLPackage ->
  world_files w = Some fs -> Permutation fs fo ->
  In p (w_pkgs w) -> In f (files_of_pkg (w_fl w) (w_root w) p) ->
  select_schema (w_env w) f = SelSchema s ->
  validate s (JObj (chain [l_data (w_root w); l_data (p_lvl p)])) = false ->
  ~ In (f_path f) (snd (run KTemplateSchema (w_env w) fo)) /\
  fst (run KTemplateSchema (w_env w) fo) = ExitErr.
Proof.
  intros Hm Hw HP Hp Hf Hsel Hv. rewrite chain2 in Hv.
  eapply invalid_never_written; try eassumption.
  - eapply In_files_of_world; eassumption.
  - eapply filedata_invalid_file_error; [exact Hsel|]. rewrite Hm in Hf.
    rewrite (files_of_pkg_data _ _ _ Hf). exact Hv.
Qed.

(* order independence of the file loop (used by C06) *)
Theorem run_order_independent e fs fo1 fo2 :
  Permutation fs fo1 -> Permutation fs fo2 ->
  fst (run KTemplateSchema e fo1) = fst (run KTemplateSchema e fo2) /\
  (fst (run KTemplateSchema e fo1) = ExitOk ->
   Permutation (snd (run KTemplateSchema e fo1)) (snd (run KTemplateSchema e fo2))).
Proof.
  intros P1 P2.
  destruct (written_iff_valid e fs fo1 P1) as [A1 [_ C1]].
  destruct (written_iff_valid e fs fo2 P2) as [A2 [_ C2]].
  assert (fst (run KTemplateSchema e fo1) = fst (run KTemplateSchema e fo2)) as E.
  { destruct (fst (run KTemplateSchema e fo1)) eqn:E1.
    - symmetry. apply A2, A1. reflexivity.
    - destruct (fst (run KTemplateSchema e fo2)) eqn:E2; [|reflexivity].
      assert (ExitErr = ExitOk) as X by (apply A1, A2; reflexivity). discriminate X. }
  split; [exact E|]. intros H. rewrite (C1 H). symmetry. apply C2. congruence.
Qed.
