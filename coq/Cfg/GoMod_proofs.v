(* Proofs about Cfg/GoMod.v: the model of the go.mod reader returns the path of a module
   directive written in any of the forms of the specification. *)
From Mk Require Import Lib.Bytes Cfg.GoMod.

(* ---------- byte classes ---------- *)
Lemma identc_not_ws b : is_identc b = true -> is_ws b = false.
Proof. destruct b; vm_compute; intros; try reflexivity; discriminate. Qed.
Lemma identc_not_punct b : is_identc b = true -> is_punct b = false.
Proof. destruct b; vm_compute; intros; try reflexivity; discriminate. Qed.
Lemma ws_not_identc b : is_ws b = true -> is_identc b = false.
Proof. destruct b; vm_compute; intros; try reflexivity; discriminate. Qed.
Lemma ws_not_slash b : is_ws b = true -> beqb b x2f = false.
Proof. destruct b; vm_compute; intros; try reflexivity; discriminate. Qed.
Lemma bare_identc b : bare_char b = true -> is_identc b = true.
Proof. unfold bare_char. rewrite andb_true_iff. tauto. Qed.
Lemma bare_not_quote b : bare_char b = true -> is_quote b = false.
Proof. unfold bare_char. rewrite andb_true_iff, negb_true_iff. tauto. Qed.
Lemma not_quote_22 b : is_quote b = false -> beqb b x22 = false /\ beqb b x60 = false.
Proof. destruct b; vm_compute; intros; try (split; reflexivity); discriminate. Qed.

(* ---------- lexing ---------- *)
Lemma lexs_ws w r : ws_str w -> lexs SNone (w ++ r) = lexs SNone r.
Proof.
  unfold ws_str. induction w as [|b w IH]; simpl; intros H; [reflexivity|].
  apply andb_true_iff in H. destruct H as [Hb Hw]. rewrite Hb. auto.
Qed.

Lemma comment_cases c : comment_str c -> c = [] \/ exists r, c = x2f :: x2f :: r.
Proof.
  intros [->|H]; [now left|]. right.
  destruct c as [|a [|b c]]; simpl in H; rewrite ?andb_false_r in H; try discriminate.
  rewrite !andb_true_iff in H. destruct H as [Ha [Hb _]].
  apply beqb_eq in Ha, Hb. subst. eauto.
Qed.

Lemma lexs_comment c : comment_str c -> lexs SNone c = LOk [].
Proof. intros H. destruct (comment_cases _ H) as [-> | [r ->]]; reflexivity. Qed.

Lemma lexs_ws_comment w c : ws_str w -> comment_str c -> lexs SNone (w ++ c) = LOk [].
Proof. intros Hw Hc. rewrite lexs_ws by exact Hw. now apply lexs_comment. Qed.

Lemma blank_line_lex l : blank_line l -> lex_line l = LOk [].
Proof. intros (w & c & -> & Hw & Hc). now apply lexs_ws_comment. Qed.

(* inside an identifier: identifier bytes without a slash pair are all consumed *)
Lemma lexs_ident_run : forall s acc r,
  s <> [] -> forallb is_identc s = true -> no_slash_pair s = true -> last s x00 <> x2f ->
  lexs (SId acc) (s ++ r) = lexs (SId (rev s ++ acc)) r.
Proof.
  induction s as [|c s IH]; intros acc r N Hi Hs Hl; [congruence|].
  simpl in Hi. apply andb_true_iff in Hi. destruct Hi as [Hc Hi].
  destruct s as [|d s'].
  - simpl in Hl. simpl.
    assert (X : beqb c x2f = false) by (destruct (beqb c x2f) eqn:E; [apply beqb_eq in E; congruence | reflexivity]).
    now rewrite X, Hc.
  - change (no_slash_pair (c :: d :: s')) with
      (negb (beqb c x2f && (beqb d x2f || beqb d x2a)) && no_slash_pair (d :: s')) in Hs.
    apply andb_true_iff in Hs. destruct Hs as [Hp Hs]. apply negb_true_iff in Hp.
    change ((c :: d :: s') ++ r) with (c :: (d :: s') ++ r).
    change (lexs (SId acc) (c :: (d :: s') ++ r)) with
      (if beqb c x2f && next_is x2f ((d :: s') ++ r) then LOk [TId (rev acc)]
       else if beqb c x2f && next_is x2a ((d :: s') ++ r) then LErr
       else if is_identc c then lexs (SId (c :: acc)) ((d :: s') ++ r)
       else if is_ws c then lcons (TId (rev acc)) (lexs SNone ((d :: s') ++ r))
       else if is_punct c then lcons (TId (rev acc)) (lcons (TP c) (lexs SNone ((d :: s') ++ r)))
       else if is_high c then LUnsup else LErr).
    simpl next_is.
    assert (X1 : beqb c x2f && beqb d x2f = false).
    { destruct (beqb c x2f); [|reflexivity]. simpl in *. now apply orb_false_iff in Hp. }
    assert (X2 : beqb c x2f && beqb d x2a = false).
    { destruct (beqb c x2f); [|reflexivity]. simpl in *. now apply orb_false_iff in Hp. }
    rewrite X1, X2, Hc. rewrite IH; auto; [|discriminate].
    simpl. now rewrite <- !app_assoc.
Qed.

(* the start of an identifier *)
Lemma lexs_ident_start s r :
  s <> [] -> forallb is_identc s = true -> no_slash_pair s = true -> last s x00 <> x2f ->
  (forall c, hd_error s = Some c -> beqb c x22 = false /\ beqb c x60 = false) ->
  lexs SNone (s ++ r) = lexs (SId (rev s)) r.
Proof.
  intros N Hi Hs Hl Hq. destruct s as [|c s]; [congruence|].
  simpl in Hi. apply andb_true_iff in Hi. destruct Hi as [Hc Hi].
  destruct (Hq c eq_refl) as [Q1 Q2].
  assert (P : (beqb c x2f && next_is x2f (s ++ r) = false) /\ (beqb c x2f && next_is x2a (s ++ r) = false)).
  { destruct s as [|d s'].
    - simpl in Hl. assert (X : beqb c x2f = false)
        by (destruct (beqb c x2f) eqn:E; [apply beqb_eq in E; congruence | reflexivity]).
      now rewrite X.
    - change (no_slash_pair (c :: d :: s')) with
        (negb (beqb c x2f && (beqb d x2f || beqb d x2a)) && no_slash_pair (d :: s')) in Hs.
      apply andb_true_iff in Hs. destruct Hs as [Hp _]. apply negb_true_iff in Hp. simpl.
      destruct (beqb c x2f); [|auto]. simpl in *. apply orb_false_iff in Hp. tauto. }
  destruct P as [P1 P2].
  change ((c :: s) ++ r) with (c :: s ++ r).
  change (lexs SNone (c :: s ++ r)) with
    (if is_ws c then lexs SNone (s ++ r)
     else if beqb c x2f && next_is x2f (s ++ r) then LOk []
     else if beqb c x2f && next_is x2a (s ++ r) then LErr
     else if is_punct c then lcons (TP c) (lexs SNone (s ++ r))
     else if beqb c x22 then lexs (SStr []) (s ++ r)
     else if beqb c x60 then lexs (SRaw []) (s ++ r)
     else if is_identc c then lexs (SId [c]) (s ++ r)
     else if is_high c then LUnsup else LErr).
  rewrite (identc_not_ws _ Hc), P1, P2, (identc_not_punct _ Hc), Q1, Q2, Hc.
  destruct s as [|d s'].
  - reflexivity.
  - rewrite lexs_ident_run; auto.
    + discriminate.
    + change (no_slash_pair (c :: d :: s')) with
        (negb (beqb c x2f && (beqb d x2f || beqb d x2a)) && no_slash_pair (d :: s')) in Hs.
      apply andb_true_iff in Hs. tauto.
Qed.

(* an identifier ends at white space / comment / end of line *)
Lemma lexs_ident_end a w c :
  ws_str w -> comment_str c -> lexs (SId a) (w ++ c) = LOk [TId (rev a)].
Proof.
  intros Hw Hc. destruct w as [|b w].
  - simpl. destruct (comment_cases _ Hc) as [-> | [r ->]]; reflexivity.
  - unfold ws_str in Hw. simpl in Hw. apply andb_true_iff in Hw. destruct Hw as [Hb Hw].
    simpl. rewrite (ws_not_slash _ Hb), (ws_not_identc _ Hb), Hb. simpl.
    now rewrite (lexs_ws_comment w c Hw Hc).
Qed.

Lemma lexs_quoted : forall p acc r,
  forallb quoted_char p = true ->
  lexs (SStr acc) (p ++ x22 :: r) = lcons (TStr (rev acc ++ p)) (lexs SNone r).
Proof.
  induction p as [|c p IH]; intros acc r H; simpl.
  - now rewrite app_nil_r.
  - simpl in H. apply andb_true_iff in H. destruct H as [Hc Hp].
    unfold quoted_char in Hc. rewrite !andb_true_iff, !negb_true_iff in Hc.
    destruct Hc as [[[H1 H2] H3] _]. rewrite H2, H3, H1. rewrite IH by exact Hp.
    simpl. now rewrite <- app_assoc.
Qed.

(* the token of a module path text *)
Definition path_tok (p t : str) : tok := if seqb t p then TId p else TStr p.

Lemma bare_props p : bare_path p ->
  p <> [] /\ forallb is_identc p = true /\ no_slash_pair p = true /\ last p x00 <> x2f /\
  (forall c, hd_error p = Some c -> beqb c x22 = false /\ beqb c x60 = false) /\
  existsb is_quote p = false.
Proof.
  intros (N & Hb & Hs & Hl).
  split; [exact N|]. split.
  { rewrite forallb_forall in *. intros x Hx. apply bare_identc. auto. }
  split; [exact Hs|]. split; [exact Hl|]. split.
  { intros c0 Hc0. destruct p as [|c1 p']; [discriminate|]. injection Hc0 as ->.
    simpl in Hb. apply andb_true_iff in Hb. destruct Hb as [Hc _].
    apply not_quote_22. now apply bare_not_quote. }
  destruct (existsb is_quote p) eqn:E; [|reflexivity].
  apply existsb_exists in E. destruct E as (x & Hx & Q).
  rewrite forallb_forall in Hb. rewrite (bare_not_quote _ (Hb _ Hx)) in Q. discriminate.
Qed.

Inductive arg_tok (p : str) : tok -> Prop :=
| AT_id : existsb is_quote p = false -> arg_tok p (TId p)
| AT_str : arg_tok p (TStr p).

Lemma path_text_lex p t w c :
  path_text p t -> ws_str w -> comment_str c ->
  exists tk, arg_tok p tk /\ lexs SNone (t ++ w ++ c) = LOk [tk].
Proof.
  intros [B | Q] Hw Hc.
  - destruct (bare_props _ B) as (N & Hi & Hs & Hl & Hq & He).
    exists (TId p). split; [now constructor|].
    rewrite lexs_ident_start by auto. rewrite lexs_ident_end by auto. now rewrite rev_involutive.
  - destruct Q as [N Hq]. exists (TStr p). split; [constructor|].
    change ((x22 :: p ++ [x22]) ++ w ++ c) with (x22 :: (p ++ [x22]) ++ w ++ c).
    rewrite <- app_assoc. simpl. rewrite lexs_quoted by exact Hq. simpl.
    now rewrite lexs_ws_comment.
Qed.

Lemma module_kw_lex r : lexs SNone (B "module" ++ r) = lexs (SId (rev (B "module"))) r.
Proof. apply lexs_ident_start; try reflexivity; try discriminate. intros c H. injection H as <-. split; reflexivity. Qed.

Lemma line_directive_lex p w0 w1 t w2 c :
  ws_str w0 -> ws_str w1 -> w1 <> [] -> path_text p t -> ws_str w2 -> comment_str c ->
  exists tk, arg_tok p tk /\
    lex_line (w0 ++ B "module" ++ w1 ++ t ++ w2 ++ c) = LOk [TId (B "module"); tk].
Proof.
  intros H0 H1 N1 Ht H2 Hc. unfold lex_line. rewrite lexs_ws by exact H0. rewrite module_kw_lex.
  destruct w1 as [|b w1]; [congruence|].
  unfold ws_str in H1. simpl in H1. apply andb_true_iff in H1. destruct H1 as [Hb H1].
  change ((b :: w1) ++ t ++ w2 ++ c) with (b :: w1 ++ t ++ w2 ++ c).
  destruct (path_text_lex _ _ _ _ Ht H2 Hc) as (tk & A & L). exists tk. split; [exact A|].
  simpl. rewrite (ws_not_slash _ Hb), (ws_not_identc _ Hb), Hb. simpl.
  rewrite lexs_ws by exact H1. now rewrite L.
Qed.

Lemma open_lex w0 w1 w2 c :
  ws_str w0 -> ws_str w1 -> ws_str w2 -> comment_str c ->
  lex_line (w0 ++ B "module" ++ w1 ++ x28 :: w2 ++ c) = LOk [TId (B "module"); TP x28].
Proof.
  intros H0 H1 H2 Hc. unfold lex_line. rewrite lexs_ws by exact H0. rewrite module_kw_lex.
  destruct w1 as [|b w1].
  - simpl. now rewrite lexs_ws_comment.
  - unfold ws_str in H1. simpl in H1. apply andb_true_iff in H1. destruct H1 as [Hb H1].
    change ((b :: w1) ++ x28 :: w2 ++ c) with (b :: w1 ++ x28 :: w2 ++ c).
    simpl. rewrite (ws_not_slash _ Hb), (ws_not_identc _ Hb), Hb. simpl.
    rewrite lexs_ws by exact H1. simpl. now rewrite lexs_ws_comment.
Qed.

Lemma arg_lex p w3 t w4 c :
  ws_str w3 -> path_text p t -> ws_str w4 -> comment_str c ->
  exists tk, arg_tok p tk /\ lex_line (w3 ++ t ++ w4 ++ c) = LOk [tk].
Proof.
  intros H3 Ht H4 Hc. unfold lex_line. rewrite lexs_ws by exact H3. now apply path_text_lex.
Qed.

Lemma close_lex w5 w6 c :
  ws_str w5 -> ws_str w6 -> comment_str c -> lex_line (w5 ++ x29 :: w6 ++ c) = LOk [TP x29].
Proof.
  intros H5 H6 Hc. unfold lex_line. rewrite lexs_ws by exact H5. simpl. now rewrite lexs_ws_comment.
Qed.

(* ---------- lines ---------- *)
Lemma lex_all_app a b ta tb :
  lex_all a = LLOk ta -> lex_all b = LLOk tb -> lex_all (a ++ b) = LLOk (ta ++ tb).
Proof.
  revert ta; induction a as [|l a IH]; intros ta Ha Hb; simpl in *.
  - injection Ha as <-. exact Hb.
  - destruct (lex_line l); try discriminate.
    destruct (lex_all a) as [ra| |]; try discriminate. injection Ha as <-.
    now rewrite (IH ra eq_refl Hb).
Qed.

Lemma lex_all_single l ts : lex_line l = LOk ts -> lex_all [l] = LLOk [ts].
Proof. intros H. simpl. now rewrite H. Qed.

Lemma lex_all_blank bl : Forall blank_line bl -> lex_all bl = LLOk (map (fun _ => []) bl).
Proof.
  induction 1 as [|l bl Hl _ IH]; simpl; [reflexivity|].
  now rewrite (blank_line_lex _ Hl), IH.
Qed.

Lemma parse_blank {A} st (bl : list A) ls : parse st (map (fun _ => []) bl ++ ls) = parse st ls.
Proof. induction bl as [|x bl IH]; simpl; [reflexivity|]. destruct st; exact IH. Qed.

Lemma arg_tok_not_paren p tk : arg_tok p tk -> is_tp x28 tk = false /\ is_tp x29 tk = false.
Proof. intros []; split; reflexivity. Qed.

Lemma arg_tok_string p tk : arg_tok p tk -> parse_string tk = Some p.
Proof. intros [H|]; simpl; [now rewrite H | reflexivity]. Qed.

(* the token lines of a directive and the statement they parse to *)
Lemma directive_tokens p dir :
  directive p dir ->
  exists tls stmt tk, lex_all dir = LLOk tls /\ arg_tok p tk /\
    (forall ls, parse PTop (tls ++ ls) = option_map (cons stmt) (parse PTop ls)) /\
    (stmt = SLine [TId (B "module"); tk] \/ stmt = SBlock [TId (B "module")] [[tk]]).
Proof.
  intros [w0 w1 t w2 c H0 H1 N1 Ht H2 Hc
         | w0 w1 w2 c1 bl1 w3 t w4 c2 bl2 w5 w6 c3 H0 H1 H2 Hc1 Hb1 H3 Ht H4 Hc2 Hb2 H5 H6 Hc3].
  - destruct (line_directive_lex _ _ _ _ _ _ H0 H1 N1 Ht H2 Hc) as (tk & A & L).
    exists [[TId (B "module"); tk]], (SLine [TId (B "module"); tk]), tk.
    split; [now apply lex_all_single|]. split; [exact A|]. split; [|now left].
    intros ls. simpl. destruct (arg_tok_not_paren _ _ A) as [P _]. now rewrite P.
  - destruct (arg_lex _ _ _ _ _ H3 Ht H4 Hc2) as (tk & A & L).
    exists ([[TId (B "module"); TP x28]] ++ map (fun _ => []) bl1 ++ [[tk]] ++ map (fun _ => []) bl2 ++ [[TP x29]]),
           (SBlock [TId (B "module")] [[tk]]), tk.
    split.
    { apply lex_all_app; [apply lex_all_single; now apply open_lex|].
      apply lex_all_app; [now apply lex_all_blank|].
      apply lex_all_app; [now apply lex_all_single|].
      apply lex_all_app; [now apply lex_all_blank|].
      apply lex_all_single. now apply close_lex. }
    split; [exact A|]. split; [|now right].
    intros ls. rewrite <- !app_assoc. simpl. rewrite parse_blank. simpl.
    destruct (arg_tok_not_paren _ _ A) as [_ P]. rewrite P. rewrite parse_blank. reflexivity.
Qed.

(* ---------- evaluation ---------- *)
Lemma add_seen_mono v a e : e_seen e = true -> e_seen (add v a e) = true.
Proof.
  intros H. unfold add. destruct (seqb v (B "module")).
  - unfold add_module. now rewrite H.
  - destruct (is_other_verb v); [exact H | exact H].
Qed.

Lemma fold_add_seen_mono v : forall ls e, e_seen e = true -> e_seen (fold_left (fun e l => add v l e) ls e) = true.
Proof. induction ls as [|l ls IH]; intros e H; simpl; [exact H|]. apply IH. now apply add_seen_mono. Qed.

Lemma eval_seen_mono s e : e_seen e = true -> e_seen (eval_stmt e s) = true.
Proof.
  intros H. destruct s as [[|v args]|[|v [|v2 vs]] lines]; simpl; auto.
  - now apply add_seen_mono.
  - destruct (block_verb (tok_text v)); [now apply fold_add_seen_mono | exact H].
Qed.

Lemma fold_eval_seen_mono : forall ss e, e_seen e = true -> e_seen (fold_left eval_stmt ss e) = true.
Proof. induction ss as [|s ss IH]; intros e H; simpl; [exact H|]. apply IH. now apply eval_seen_mono. Qed.

(* the statements of the remainder add the same `others` whatever the module fields are *)
Lemma add_noseen v a e :
  e_seen (add v a e) = false ->
  forall e2, exists suf,
    e_others (add v a e) = e_others e ++ suf /\
    add v a e2 = {| e_seen := e_seen e2; e_mod := e_mod e2; e_err := e_err e2; e_others := e_others e2 ++ suf |}.
Proof.
  intros H e2. unfold add in *. destruct (seqb v (B "module")).
  - exfalso. unfold add_module in H. destruct (e_seen e) eqn:S.
    + simpl in H. congruence.
    + destruct a as [|x [|y l]]; simpl in H; try discriminate.
      destruct (parse_string x); simpl in H; discriminate.
  - destruct (is_other_verb v).
    + exists [(v, map tok_text a)]. split; reflexivity.
    + exists []. rewrite !app_nil_r. split; [reflexivity|]. now destruct e2.
Qed.

Lemma fold_add_noseen v : forall ls e,
  e_seen (fold_left (fun e l => add v l e) ls e) = false ->
  forall e2, exists suf,
    e_others (fold_left (fun e l => add v l e) ls e) = e_others e ++ suf /\
    fold_left (fun e l => add v l e) ls e2 =
      {| e_seen := e_seen e2; e_mod := e_mod e2; e_err := e_err e2; e_others := e_others e2 ++ suf |}.
Proof.
  induction ls as [|l ls IH]; intros e H e2; simpl in *.
  - exists []. rewrite !app_nil_r. split; [reflexivity|]. now destruct e2.
  - assert (S1 : e_seen (add v l e) = false).
    { destruct (e_seen (add v l e)) eqn:E; [|reflexivity].
      rewrite (fold_add_seen_mono v ls _ E) in H. discriminate. }
    destruct (add_noseen _ _ _ S1 e2) as (s1 & O1 & A1).
    destruct (IH _ H (add v l e2)) as (s2 & O2 & A2).
    exists (s1 ++ s2). split.
    + rewrite O2, O1. now rewrite app_assoc.
    + rewrite A2, A1. simpl. now rewrite app_assoc.
Qed.

Lemma eval_noseen s e :
  e_seen (eval_stmt e s) = false ->
  forall e2, exists suf,
    e_others (eval_stmt e s) = e_others e ++ suf /\
    eval_stmt e2 s = {| e_seen := e_seen e2; e_mod := e_mod e2; e_err := e_err e2; e_others := e_others e2 ++ suf |}.
Proof.
  intros H e2.
  assert (Triv : exists suf, e_others e = e_others e ++ suf /\
            e2 = {| e_seen := e_seen e2; e_mod := e_mod e2; e_err := e_err e2; e_others := e_others e2 ++ suf |}).
  { exists []. rewrite !app_nil_r. split; [reflexivity|]. now destruct e2. }
  destruct s as [[|v args]|[|v [|v2 vs]] lines]; simpl in *; auto.
  - now apply add_noseen.
  - destruct (block_verb (tok_text v)); [now apply fold_add_noseen | exact Triv].
Qed.

Lemma fold_eval_noseen : forall ss e,
  e_seen (fold_left eval_stmt ss e) = false ->
  forall e2, exists suf,
    e_others (fold_left eval_stmt ss e) = e_others e ++ suf /\
    fold_left eval_stmt ss e2 =
      {| e_seen := e_seen e2; e_mod := e_mod e2; e_err := e_err e2; e_others := e_others e2 ++ suf |}.
Proof.
  induction ss as [|s ss IH]; intros e H e2; simpl in *.
  - exists []. rewrite !app_nil_r. split; [reflexivity|]. now destruct e2.
  - assert (S1 : e_seen (eval_stmt e s) = false).
    { destruct (e_seen (eval_stmt e s)) eqn:E; [|reflexivity].
      rewrite (fold_eval_seen_mono ss _ E) in H. discriminate. }
    destruct (eval_noseen _ _ S1 e2) as (s1 & O1 & A1).
    destruct (IH _ H (eval_stmt e2 s)) as (s2 & O2 & A2).
    exists (s1 ++ s2). split.
    + rewrite O2, O1. now rewrite app_assoc.
    + rewrite A2, A1. simpl. now rewrite app_assoc.
Qed.

(* ---------- the theorem ---------- *)
Theorem mp_lines_spec aux pre dir rest p :
  Forall blank_line pre -> directive p dir -> rest_ok aux rest ->
  mp_lines aux (pre ++ dir ++ rest) = MOk p.
Proof.
  intros Hpre Hdir (tr & sr & Lr & Pr & Sr & Ar).
  destruct (directive_tokens _ _ Hdir) as (td & stmt & tk & Ld & A & Pd & St).
  unfold mp_lines.
  rewrite (lex_all_app _ _ _ _ (lex_all_blank _ Hpre) (lex_all_app _ _ _ _ Ld Lr)).
  rewrite parse_blank, Pd, Pr. simpl.
  set (e1 := {| e_seen := true; e_mod := p; e_err := false; e_others := [] |}).
  assert (E1 : eval_stmt e0 stmt = e1).
  { destruct St as [-> | ->]; simpl; unfold add; simpl; unfold add_module; simpl;
    now rewrite (arg_tok_string _ _ A). }
  rewrite E1.
  destruct (fold_eval_noseen _ _ Sr e1) as (suf & O & F). simpl in O. rewrite F. simpl.
  rewrite <- O, Ar. simpl.
  assert (N : p <> []).
  { destruct Hdir as [? ? ? ? ? _ _ _ Ht _ _ | ? ? ? ? ? ? ? ? ? ? ? ? ? _ _ _ _ _ _ Ht _ _ _ _ _ _];
    destruct Ht as [[N _] | [N _]]; exact N. }
  destruct p; [congruence | reflexivity].
Qed.

(* joining lines with \n and splitting again *)
Lemma split_lines_acc_app : forall l acc r,
  no_nl l -> split_lines_acc acc (l ++ x0a :: r) = (rev acc ++ l) :: split_lines_acc [] r.
Proof.
  unfold no_nl. induction l as [|c l IH]; intros acc r H; simpl.
  - now rewrite app_nil_r.
  - simpl in H. apply andb_true_iff in H. destruct H as [Hc Hl]. apply negb_true_iff in Hc.
    rewrite Hc. rewrite IH by exact Hl. simpl. now rewrite <- app_assoc.
Qed.

Lemma split_lines_acc_last : forall l acc, no_nl l -> split_lines_acc acc l = [rev acc ++ l].
Proof.
  unfold no_nl. induction l as [|c l IH]; intros acc H; simpl.
  - now rewrite app_nil_r.
  - simpl in H. apply andb_true_iff in H. destruct H as [Hc Hl]. apply negb_true_iff in Hc.
    rewrite Hc. rewrite IH by exact Hl. simpl. now rewrite <- app_assoc.
Qed.

Lemma split_join ls : ls <> [] -> Forall no_nl ls -> split_lines (join_lines ls) = ls.
Proof.
  intros N H. induction H as [|l ls Hl Hls IH]; [congruence|].
  destruct ls as [|l2 ls].
  - simpl. unfold split_lines. now rewrite split_lines_acc_last.
  - change (join_lines (l :: l2 :: ls)) with (l ++ x0a :: join_lines (l2 :: ls)).
    unfold split_lines. rewrite split_lines_acc_app by exact Hl. simpl.
    f_equal. apply IH. discriminate.
Qed.

Lemma directive_nonempty p dir : directive p dir -> dir <> [].
Proof. intros []; discriminate. Qed.

Theorem module_path_spec aux pre dir rest p :
  Forall blank_line pre -> directive p dir -> rest_ok aux rest ->
  Forall no_nl (pre ++ dir ++ rest) ->
  module_path aux (join_lines (pre ++ dir ++ rest)) = MOk p.
Proof.
  intros Hpre Hdir Hrest Hnl. unfold module_path. rewrite split_join; auto.
  - now apply mp_lines_spec.
  - pose proof (directive_nonempty _ _ Hdir). destruct pre; simpl; [|discriminate].
    destruct dir; [congruence | discriminate].
Qed.

(* the pinned scan *)
Lemma old_panics : module_path_old (B "module" ++ [x09] ++ B "example.com/m") = OPanic.
Proof. vm_compute. reflexivity. Qed.
Lemma old_quoted_wrong : module_path_old (B "module ""example.com/m""") = OOk (B """example.com/m""").
Proof. vm_compute. reflexivity. Qed.
Lemma old_comment_wrong : module_path_old (B "module example.com/m // c") = OOk (B "example.com/m // c").
Proof. vm_compute. reflexivity. Qed.
Lemma old_block_wrong : module_path_old (B "module (" ++ [x0a; x09] ++ B "example.com/m" ++ [x0a] ++ B ")") = OOk (B "(").
Proof. vm_compute. reflexivity. Qed.
