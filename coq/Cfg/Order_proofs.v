(* Proofs about Cfg/Order.v (C06). *)
From Coq Require Import ZArith Permutation Sorted.
From Mk Require Import Lib.Bytes Cfg.Schema Cfg.Schema_proofs Gen.Alloc Gen.Alloc_proofs Cfg.Order.

(* ================================================================== association lists *)
Lemma alookup_aset {A} k k' (v : A) m :
  alookup k (aset k' v m) = if seqb k k' then Some v else alookup k m.
Proof.
  induction m as [|[k1 v1] t IH]; simpl.
  - destruct (seqb k k'); reflexivity.
  - destruct (seqb k' k1) eqn:E1; simpl.
    + apply seqb_eq in E1; subst k1. destruct (seqb k k'); reflexivity.
    + destruct (seqb k k1) eqn:E2.
      * destruct (seqb k k') eqn:E3; [|reflexivity].
        apply seqb_eq in E2, E3; subst. rewrite seqb_refl in E1. discriminate.
      * exact IH.
Qed.

Lemma keys_aset_in {A} k (v : A) m : has_key k m = true -> keys (aset k v m) = keys m.
Proof.
  unfold has_key, keys. induction m as [|[k1 v1] t IH]; simpl; [discriminate|].
  destruct (seqb k k1) eqn:E; simpl; [reflexivity|]. intros H. now rewrite IH.
Qed.

Lemma keys_aset_new {A} k (v : A) m : has_key k m = false -> keys (aset k v m) = keys m ++ [k].
Proof.
  unfold has_key, keys. induction m as [|[k1 v1] t IH]; simpl; [reflexivity|].
  destruct (seqb k k1) eqn:E; simpl; [discriminate|]. intros H. now rewrite IH.
Qed.

Lemma aset_same {A} k (v : A) m : alookup k m = Some v -> aset k v m = m.
Proof.
  induction m as [|[k1 v1] t IH]; simpl; [discriminate|].
  destruct (seqb k k1) eqn:E.
  - intros H; injection H as ->. reflexivity.
  - intros H. now rewrite IH.
Qed.

Lemma has_key_In_keys {A} k (m : list (str * A)) : has_key k m = true <-> In k (keys m).
Proof.
  unfold has_key, keys. induction m as [|[k1 v1] t IH]; simpl; [split; [discriminate | tauto]|].
  destruct (seqb k k1) eqn:E.
  - apply seqb_eq in E; subst. tauto.
  - apply seqb_neq in E. rewrite IH. split; [tauto | intros [H|H]; [congruence | exact H]].
Qed.

Lemma NoDup_keys_aset {A} k (v : A) m : NoDup (keys m) -> NoDup (keys (aset k v m)).
Proof.
  intros ND. destruct (has_key k m) eqn:E.
  - now rewrite keys_aset_in.
  - rewrite keys_aset_new by exact E. apply NoDup_app_snoc; [exact ND|].
    intros H. apply has_key_In_keys in H. congruence.
Qed.

Lemma In_alookup {A} k (v : A) m : NoDup (keys m) -> In (k, v) m -> alookup k m = Some v.
Proof.
  unfold keys. induction m as [|[k1 v1] t IH]; simpl; [tauto|].
  intros ND [H|H]; inversion ND as [|? ? Hn ND']; subst.
  - injection H as -> ->. now rewrite seqb_refl.
  - destruct (seqb k k1) eqn:E; [|now apply IH].
    apply seqb_eq in E; subst. exfalso. apply Hn. apply in_map_iff. exists (k1, v). auto.
Qed.

Lemma assoc_ext {A} (m m' : list (str * A)) :
  keys m = keys m' -> NoDup (keys m) -> (forall k, alookup k m = alookup k m') -> m = m'.
Proof.
  revert m'. induction m as [|[k v] t IH]; intros [|[k' v'] t']; simpl; try discriminate; [reflexivity|].
  intros HK ND HL. injection HK as -> HK. inversion ND as [|? ? Hn ND']; subst.
  pose proof (HL k') as H0. simpl in H0. rewrite seqb_refl in H0. injection H0 as ->.
  f_equal. apply IH; [exact HK | exact ND'|].
  intros k. specialize (HL k). simpl in HL. destruct (seqb k k') eqn:E; [|exact HL].
  apply seqb_eq in E; subst.
  assert (alookup k' t = None) as ->.
  { apply has_key_false_alookup. destruct (has_key k' t) eqn:E; [|reflexivity].
    apply has_key_In_keys in E. contradiction. }
  symmetry. apply has_key_false_alookup. destruct (has_key k' t') eqn:E; [|reflexivity].
  apply has_key_In_keys in E. unfold keys in *. rewrite <- HK in E. contradiction.
Qed.

Lemma keys_upd_in_order {A} (f : str -> A -> A) o m : keys (upd_in_order f o m) = keys m.
Proof.
  unfold upd_in_order. revert m. induction o as [|k o IH]; intros m; simpl; [reflexivity|].
  rewrite IH. destruct (alookup k m) eqn:E; [|reflexivity].
  apply keys_aset_in. unfold has_key. now rewrite E.
Qed.

Lemma upd_in_order_lookup {A} (f : str -> A -> A) o m k :
  NoDup o ->
  alookup k (upd_in_order f o m) = if smem k o then option_map (f k) (alookup k m) else alookup k m.
Proof.
  unfold upd_in_order. revert m. induction o as [|k1 o IH]; intros m ND; simpl; [reflexivity|].
  inversion ND as [|? ? Hn ND']; subst. rewrite IH by exact ND'.
  destruct (seqb k k1) eqn:E.
  - apply seqb_eq in E; subst k1.
    assert (smem k o = false) as -> by now apply smem_false.
    destruct (alookup k m) eqn:E2; simpl; [|now rewrite E2].
    now rewrite alookup_aset, seqb_refl.
  - destruct (alookup k1 m) eqn:E2; [|reflexivity].
    rewrite alookup_aset, E. reflexivity.
Qed.

Lemma alookup_map_val {A B} (f : str -> A -> B) m k :
  alookup k (map (fun kv => (fst kv, f (fst kv) (snd kv))) m) = option_map (f k) (alookup k m).
Proof.
  induction m as [|[k1 v1] t IH]; simpl; [reflexivity|].
  destruct (seqb k k1) eqn:E; [|exact IH]. apply seqb_eq in E; subst. reflexivity.
Qed.

Lemma keys_map_val {A B} (f : str -> A -> B) m :
  keys (map (fun kv => (fst kv, f (fst kv) (snd kv))) m) = keys m.
Proof. unfold keys. rewrite map_map. reflexivity. Qed.

(* a range loop that rewrites every entry independently does the same in every order *)
Lemma upd_in_order_map {A} (f : str -> A -> A) o m :
  NoDup (keys m) -> NoDup o -> (forall k, In k o <-> In k (keys m)) ->
  upd_in_order f o m = map (fun kv => (fst kv, f (fst kv) (snd kv))) m.
Proof.
  intros NDm NDo Hk. apply assoc_ext.
  - now rewrite keys_upd_in_order, keys_map_val.
  - now rewrite keys_upd_in_order.
  - intros k. rewrite upd_in_order_lookup by exact NDo. rewrite alookup_map_val.
    destruct (smem k o) eqn:E; [reflexivity|].
    apply smem_false in E. destruct (alookup k m) eqn:E2; [|reflexivity].
    exfalso. apply E, Hk. apply has_key_In_keys. unfold has_key. now rewrite E2.
Qed.

Lemma map_id_on {A} (f : A -> A) l : (forall x, In x l -> f x = x) -> map f l = l.
Proof.
  induction l as [|x t IH]; simpl; intros H; [reflexivity|].
  rewrite H by now left. f_equal. apply IH. intros y Hy. apply H. now right.
Qed.

(* ================================================================== template-data merge laws *)
(* Go maps have distinct keys, at every depth *)
Fixpoint jsize (j : json) : nat :=
  match j with
  | JObj kv => S ((fix go (l : list (str * json)) : nat :=
                     match l with [] => 0 | (_, v) :: t => jsize v + go t end) kv)
  | JArr l => S ((fix go (l : list json) : nat := match l with [] => 0 | v :: t => jsize v + go t end) l)
  | _ => 1
  end.
Fixpoint osize (kv : obj) : nat := match kv with [] => 0 | (_, v) :: t => jsize v + osize t end.
Lemma jsize_obj kv : jsize (JObj kv) = S (osize kv).
Proof. reflexivity. Qed.
Lemma osize_In k v kv : In (k, v) kv -> jsize v <= osize kv.
Proof.
  induction kv as [|[k1 v1] t IH]; simpl; [tauto|]. intros [H|H]; [injection H as -> ->; lia|].
  specialize (IH H). lia.
Qed.

(* deep well-formedness, fuelled by size so that it is a plain structural definition *)
Fixpoint wf_json (n : nat) (j : json) : Prop :=
  match n with
  | 0 => True
  | S n' => match j with
            | JObj kv => NoDup (keys kv) /\ forall k v, In (k, v) kv -> wf_json n' v
            | _ => True
            end
  end.
Definition wf_obj (kv : obj) : Prop := forall n, wf_json n (JObj kv).

Lemma wf_obj_NoDup kv : wf_obj kv -> NoDup (keys kv).
Proof. intros H. exact (proj1 (H 1)). Qed.
Lemma wf_obj_sub kv k d : wf_obj kv -> In (k, JObj d) kv -> wf_obj d.
Proof. intros H Hin n. exact (proj2 (H (S n)) _ _ Hin). Qed.
Lemma wf_obj_intro kv :
  NoDup (keys kv) -> (forall k d, In (k, JObj d) kv -> wf_obj d) -> wf_obj kv.
Proof.
  intros ND Hs [|n]; simpl; [exact I|]. split; [exact ND|].
  intros k v Hin. destruct v; try (destruct n; exact I). apply (Hs _ _ Hin).
Qed.
Lemma wf_obj_nil : wf_obj [].
Proof. apply wf_obj_intro; [constructor | intros k d []]. Qed.

Lemma src_only_self x : src_only x x = [].
Proof.
  unfold src_only.
  assert (forall l : obj, (forall e, In e l -> has_key (fst e) x = true) ->
                    filter (fun e => negb (has_key (fst e) x)) l = []) as H.
  { induction l as [|e t IH]; simpl; intros He; [reflexivity|].
    rewrite He by now left. simpl. apply IH. intros e' He'. apply He. now right. }
  apply H. intros [k v] Hin. simpl. eapply In_has_key. exact Hin.
Qed.

Lemma merge_upd_keys src dest : keys (merge_upd src dest) = keys dest.
Proof. unfold merge_upd, keys. rewrite map_map. reflexivity. Qed.

(* L2: merging a map into itself changes nothing *)
Lemma merge_data_self_n n x : osize x < n -> wf_obj x -> merge_data x x = x.
Proof.
  revert x. induction n as [|n IH]; intros x Hs Hw; [lia|].
  rewrite merge_data_eq, src_only_self, app_nil_r. unfold merge_upd.
  transitivity (map (fun e : str * json => e) x); [|apply map_id].
  apply map_ext_in. intros [k v] Hin. simpl. f_equal.
  unfold merge_val. destruct v; try reflexivity.
  rewrite (In_alookup _ _ _ (wf_obj_NoDup _ Hw) Hin). f_equal.
  apply IH; [|eapply wf_obj_sub; [exact Hw | exact Hin]].
  pose proof (osize_In _ _ _ Hin) as H. rewrite jsize_obj in H. lia.
Qed.
Lemma merge_data_self x : wf_obj x -> merge_data x x = x.
Proof. apply (merge_data_self_n (S (osize x))). lia. Qed.

Lemma merge_data_nil_r a : merge_data a [] = a.
Proof.
  rewrite merge_data_eq. unfold merge_upd, src_only; simpl.
  induction a as [|e t IH]; simpl; [reflexivity | now rewrite IH].
Qed.

Lemma src_only_keys_sub a b k : In k (keys (src_only a b)) -> In k (keys a) /\ has_key k b = false.
Proof.
  unfold src_only, keys. rewrite in_map_iff. intros [[k' v] [E H]]. simpl in E; subst.
  apply filter_In in H as [H1 H2]. simpl in H2. split; [|now apply negb_true_iff].
  apply in_map_iff. exists (k, v). auto.
Qed.

Lemma NoDup_keys_filter {A} (P : str * A -> bool) l : NoDup (keys l) -> NoDup (keys (filter P l)).
Proof.
  unfold keys. induction l as [|e t IH]; simpl; intros ND; [constructor|].
  inversion ND as [|? ? Hn ND']; subst. destruct (P e); simpl; [|now apply IH].
  constructor; [|now apply IH]. intros H. apply Hn. apply in_map_iff in H as [x [E Hx]].
  apply filter_In in Hx as [Hx _]. apply in_map_iff. eauto.
Qed.

Lemma NoDup_app_disj {A} (l l' : list A) :
  NoDup l -> NoDup l' -> (forall x, In x l -> ~ In x l') -> NoDup (l ++ l').
Proof.
  induction l as [|x t IH]; simpl; intros N1 N2 D; [exact N2|].
  inversion N1 as [|? ? Hn N1']; subst. constructor.
  - rewrite in_app_iff. intros [H|H]; [contradiction | eapply D; [left; reflexivity | exact H]].
  - apply IH; [exact N1' | exact N2 | intros y Hy; apply D; now right].
Qed.

Lemma merge_data_keys_NoDup a b : NoDup (keys a) -> NoDup (keys b) -> NoDup (keys (merge_data a b)).
Proof.
  intros Na Nb. rewrite merge_data_eq. unfold keys. rewrite map_app. apply NoDup_app_disj.
  - fold (keys (merge_upd a b)). now rewrite merge_upd_keys.
  - apply (NoDup_keys_filter _ a Na).
  - intros k H1 H2. fold (keys (merge_upd a b)) in H1. rewrite merge_upd_keys in H1.
    apply src_only_keys_sub in H2 as [_ H2]. apply has_key_In_keys in H1. congruence.
Qed.

Lemma wf_merge_n n a b : osize b < n -> wf_obj a -> wf_obj b -> wf_obj (merge_data a b).
Proof.
  revert a b. induction n as [|n IH]; intros a b Hs Wa Wb; [lia|].
  apply wf_obj_intro.
  - apply merge_data_keys_NoDup; now apply wf_obj_NoDup.
  - intros k d Hin. rewrite merge_data_eq in Hin. apply in_app_iff in Hin as [Hin|Hin].
    + unfold merge_upd in Hin. apply in_map_iff in Hin as [[k' v] [E Hv]]. simpl in E.
      injection E as -> E. unfold merge_val in E. destruct v; try discriminate.
      destruct (alookup k a) as [[| | | | |skv]|] eqn:Ea; try (injection E as <-; eapply wf_obj_sub; [exact Wb | exact Hv]).
      injection E as <-. apply IH.
      * pose proof (osize_In _ _ _ Hv) as H. rewrite jsize_obj in H. lia.
      * eapply wf_obj_sub; [exact Wa | apply alookup_In; exact Ea].
      * eapply wf_obj_sub; [exact Wb | exact Hv].
    + unfold src_only in Hin. apply filter_In in Hin as [Hin _]. eapply wf_obj_sub; [exact Wa | exact Hin].
Qed.
Lemma wf_merge a b : wf_obj a -> wf_obj b -> wf_obj (merge_data a b).
Proof. apply (wf_merge_n (S (osize b))). lia. Qed.

(* L1: merging the same source a second time changes nothing *)
Lemma merge_data_idem_n n a b :
  osize b < n -> wf_obj a -> wf_obj b -> merge_data a (merge_data a b) = merge_data a b.
Proof.
  revert a b. induction n as [|n IH]; intros a b Hs Wa Wb; [lia|].
  rewrite (merge_data_eq a (merge_data a b)).
  assert (src_only a (merge_data a b) = []) as ->.
  { unfold src_only.
    assert (forall l : obj, (forall e, In e l -> has_key (fst e) (merge_data a b) = true) ->
                      filter (fun e => negb (has_key (fst e) (merge_data a b))) l = []) as H.
    { induction l as [|e t IHl]; simpl; intros He; [reflexivity|].
      rewrite He by now left. simpl. apply IHl. intros e' He'. apply He. now right. }
    apply H. intros [k v] Hin. simpl. rewrite has_key_merge_data.
    rewrite (In_has_key _ _ _ Hin). apply orb_true_r. }
  rewrite app_nil_r. unfold merge_upd at 1.
  transitivity (map (fun e : str * json => e) (merge_data a b)); [|apply map_id].
  apply map_ext_in. intros [k v] Hin. simpl. f_equal.
  rewrite merge_data_eq in Hin. apply in_app_iff in Hin as [Hin|Hin].
  - unfold merge_upd in Hin. apply in_map_iff in Hin as [[k' v'] [E Hv]]. simpl in E.
    injection E as -> <-. unfold merge_val.
    destruct v'; try reflexivity.
    destruct (alookup k a) as [[| | | | |skv]|] eqn:Ea; try reflexivity.
    f_equal. apply IH.
    + pose proof (osize_In _ _ _ Hv) as H. rewrite jsize_obj in H. lia.
    + eapply wf_obj_sub; [exact Wa | apply alookup_In; exact Ea].
    + eapply wf_obj_sub; [exact Wb | exact Hv].
  - unfold src_only in Hin. apply filter_In in Hin as [Hin _].
    unfold merge_val. destruct v; try reflexivity.
    rewrite (In_alookup _ _ _ (wf_obj_NoDup _ Wa) Hin). f_equal.
    apply merge_data_self. eapply wf_obj_sub; [exact Wa | exact Hin].
Qed.
Lemma merge_data_idem a b : wf_obj a -> wf_obj b -> merge_data a (merge_data a b) = merge_data a b.
Proof. apply (merge_data_idem_n (S (osize b))). lia. Qed.

(* ================================================================== config merge laws *)
Definition wf_cfg (c : ocfg) : Prop := wf_obj (o_data c).

Lemma first_some_self {A} (x : option A) : first_some x x = x.
Proof. destruct x; reflexivity. Qed.
Lemma first_some_idem {A} (a b : option A) : first_some (first_some b a) a = first_some b a.
Proof. destruct b, a; reflexivity. Qed.
Lemma first_some_none_r {A} (a : option A) : first_some None a = a.
Proof. reflexivity. Qed.

Lemma mg_self x : wf_cfg x -> mg x x = x.
Proof.
  intros W. destruct x; unfold mg, wf_cfg in *; simpl in *.
  rewrite !first_some_self, merge_data_self by exact W. reflexivity.
Qed.
Lemma mg_idem a b : wf_cfg a -> wf_cfg b -> mg a (mg a b) = mg a b.
Proof.
  intros Wa Wb. unfold mg, wf_cfg in *; simpl.
  rewrite !first_some_idem, merge_data_idem by assumption. reflexivity.
Qed.
Lemma mg_empty p : mg p cfg_empty = p.
Proof. destruct p; unfold mg; simpl. now rewrite merge_data_nil_r. Qed.
Lemma wf_mg a b : wf_cfg a -> wf_cfg b -> wf_cfg (mg a b).
Proof. unfold wf_cfg, mg; simpl. apply wf_merge. Qed.

(* ================================================================== wf from the boolean guard *)
Lemma wf_jsonb_obj kv : wf_jsonb (JObj kv) = true -> wf_obj kv.
Proof.
  assert (forall n kv, osize kv < n -> wf_jsonb (JObj kv) = true -> wf_obj kv) as H.
  { induction n as [|n IH]; intros kv0 Hs Hb; [lia|].
    simpl in Hb. apply andb_true_iff in Hb as [H1 H2].
    apply wf_obj_intro; [now apply str_nodup_NoDup|].
    intros k d Hin.
    assert (wf_jsonb (JObj d) = true) as Hd.
    { clear H1 Hs. induction kv0 as [|[k1 v1] t IHt]; [destruct Hin|].
      apply andb_true_iff in H2 as [Ha Hb]. destruct Hin as [Hin|Hin].
      - injection Hin as -> ->. exact Ha.
      - apply IHt; assumption. }
    apply IH; [|exact Hd]. pose proof (osize_In _ _ _ Hin) as Hle. rewrite jsize_obj in Hle. lia. }
  apply (H (S (osize kv))). lia.
Qed.
Lemma wf_cfgb_wf c : wf_cfgb c = true -> wf_cfg c.
Proof. apply wf_jsonb_obj. Qed.

Definition wf_iface (i : oiface) : Prop := wf_cfg (oi_cfg i) /\ Forall wf_cfg (oi_entries i).
Definition wf_pkg (p : opkg) : Prop :=
  wf_cfg (op_cfg p) /\ NoDup (keys (op_ifaces p)) /\ forall k i, In (k, i) (op_ifaces p) -> wf_iface i.

Lemma wf_pkgb_wf p : wf_pkgb p = true -> wf_pkg p.
Proof.
  unfold wf_pkgb, wf_pkg. rewrite !andb_true_iff. intros [[H1 H2] H3]. repeat split.
  - now apply wf_cfgb_wf.
  - now apply str_nodup_NoDup.
  - rewrite forallb_forall in H3. specialize (H3 _ H). apply andb_true_iff in H3 as [H3 _].
    now apply wf_cfgb_wf.
  - rewrite forallb_forall in H3. specialize (H3 _ H). apply andb_true_iff in H3 as [_ H3].
    apply Forall_forall. intros e He. rewrite forallb_forall in H3. apply wf_cfgb_wf. now apply H3.
Qed.

(* ================================================================== Initialize: loop A *)
Lemma init_iface_wf c i : wf_cfg c -> wf_iface i -> wf_iface (init_iface c i).
Proof.
  intros Wc [W1 W2]. unfold init_iface, wf_iface. cbn [oi_cfg oi_entries]. split; [now apply wf_mg|].
  destruct (oi_entries i) as [|e es].
  - constructor; [now apply wf_mg | constructor].
  - apply Forall_forall. intros x Hx. apply in_map_iff in Hx as [y [<- Hy]].
    apply wf_mg; [now apply wf_mg|]. rewrite Forall_forall in W2. now apply W2.
Qed.

(* the second Initialize finds every interface config already merged *)
Lemma init_iface_idem c i :
  wf_cfg c -> wf_iface i -> init_iface c (init_iface c i) = init_iface c i.
Proof.
  intros Wc [W1 W2]. unfold init_iface; simpl.
  rewrite (mg_idem c (oi_cfg i)) by assumption. f_equal.
  destruct (oi_entries i) as [|e es] eqn:E; simpl.
  - f_equal. apply mg_self. now apply wf_mg.
  - f_equal.
    + apply mg_idem; [now apply wf_mg|]. now inversion W2.
    + rewrite map_map. apply map_ext_in. intros x Hx. apply mg_idem; [now apply wf_mg|].
      inversion W2 as [|? ? _ W2']; subst. rewrite Forall_forall in W2'. now apply W2'.
Qed.

Lemma init_pkg_spec_idem root p :
  wf_cfg root -> wf_pkg p -> init_pkg_spec root (init_pkg_spec root p) = init_pkg_spec root p.
Proof.
  intros Wr [W1 [W2 W3]]. unfold init_pkg_spec; simpl.
  rewrite (mg_idem root (op_cfg p)) by assumption. f_equal.
  rewrite map_map. apply map_ext_in. intros [k i] Hin. simpl. f_equal.
  apply init_iface_idem; [now apply wf_mg | eapply W3; exact Hin].
Qed.

Lemma init_pkg_spec_wf root p : wf_cfg root -> wf_pkg p -> wf_pkg (init_pkg_spec root p).
Proof.
  intros Wr [W1 [W2 W3]]. unfold init_pkg_spec, wf_pkg; simpl. repeat split.
  - now apply wf_mg.
  - unfold keys. rewrite map_map. exact W2.
  - apply in_map_iff in H as [[k' i'] [E Hin]]. simpl in E. injection E as <- <-.
    apply init_iface_wf; [now apply wf_mg | eapply W3; exact Hin].
  - apply in_map_iff in H as [[k' i'] [E Hin]]. simpl in E. injection E as <- <-.
    apply init_iface_wf; [now apply wf_mg | eapply W3; exact Hin].
Qed.

Lemma init_pkg_spec_inherit root pr :
  wf_cfg root -> wf_cfg (op_cfg pr) -> op_cfg pr = mg root (op_cfg pr) ->
  init_pkg_spec root (inherit pr) = inherit pr.
Proof. intros Wr Wp E. unfold init_pkg_spec, inherit; simpl. now rewrite <- E. Qed.

Definition valid_oi (oi : str -> list str) (pm : pmap) : Prop :=
  forall k p, In (k, p) pm -> NoDup (oi k) /\ forall i, In i (oi k) <-> In i (keys (op_ifaces p)).

Lemma init_pkg_eq_spec root (oi : str -> list str) k p :
  NoDup (keys (op_ifaces p)) -> NoDup (oi k) -> (forall i, In i (oi k) <-> In i (keys (op_ifaces p))) ->
  init_pkg root (oi k) p = init_pkg_spec root p.
Proof.
  intros ND NDo Hk. unfold init_pkg, init_pkg_spec. f_equal.
  now rewrite upd_in_order_map by assumption.
Qed.

Definition recf (root : ocfg) (pm : pmap) (k : str) : bool :=
  match alookup k pm with Some p => is_rec (init_pkg_spec root p) | None => false end.

Lemma loopA_gen root (oi : str -> list str) oa : forall pm acc,
  NoDup oa ->
  fold_left (fun st k =>
               match alookup k (fst st) with
               | Some p => let p' := init_pkg root (oi k) p in
                           (aset k p' (fst st), if is_rec p' then snd st ++ [k] else snd st)
               | None => st
               end) oa (pm, acc)
  = (upd_in_order (fun k p => init_pkg root (oi k) p) oa pm, acc ++ filter (recf root pm) oa).
Proof.
  induction oa as [|k oa IH]; intros pm acc ND; simpl; [now rewrite app_nil_r|].
  inversion ND as [|? ? Hn ND']; subst. unfold recf at 1.
  destruct (alookup k pm) as [p|] eqn:E; simpl.
  - rewrite IH by exact ND'. f_equal.
    assert (filter (recf root (aset k (init_pkg root (oi k) p) pm)) oa = filter (recf root pm) oa) as ->.
    { apply filter_ext_in. intros k' Hk'. unfold recf. rewrite alookup_aset.
      destruct (seqb k' k) eqn:E2; [|reflexivity]. apply seqb_eq in E2; subst. contradiction. }
    change (is_rec (init_pkg root (oi k) p)) with (is_rec (init_pkg_spec root p)).
    destruct (is_rec (init_pkg_spec root p)); [now rewrite <- app_assoc | reflexivity].
  - now rewrite IH.
Qed.

Lemma loopA_spec root oi oa pm :
  NoDup (keys pm) -> (forall k p, In (k, p) pm -> NoDup (keys (op_ifaces p))) ->
  NoDup oa -> (forall k, In k oa <-> In k (keys pm)) -> valid_oi oi pm ->
  loopA root oi oa pm = (initA root pm, filter (recf root pm) oa).
Proof.
  intros NDm NDi NDo Hk Hoi. unfold loopA. rewrite loopA_gen by exact NDo. simpl. f_equal.
  rewrite upd_in_order_map by assumption. unfold initA. apply map_ext_in.
  intros [k p] Hin. simpl. f_equal. destruct (Hoi _ _ Hin) as [H1 H2].
  apply init_pkg_eq_spec; [eapply NDi; exact Hin | exact H1 | exact H2].
Qed.

Lemma alookup_initA root pm k : alookup k (initA root pm) = option_map (init_pkg_spec root) (alookup k pm).
Proof. unfold initA. apply (alookup_map_val (fun _ p => init_pkg_spec root p)). Qed.
Lemma keys_initA root pm : keys (initA root pm) = keys pm.
Proof. unfold initA. apply (keys_map_val (fun _ p => init_pkg_spec root p)). Qed.

Lemma recs_are_roots w oa :
  NoDup (keys (ow_pkgs w)) -> (forall k, In k oa <-> In k (keys (ow_pkgs w))) ->
  forall r, In r (filter (recf (ow_root w) (ow_pkgs w)) oa) <-> In r (roots w).
Proof.
  intros ND Hk r. rewrite filter_In, Hk. unfold roots, recf. rewrite in_map_iff. split.
  - intros [Hin Hr]. destruct (alookup r (ow_pkgs w)) as [p|] eqn:E; [|discriminate].
    exists (r, init_pkg_spec (ow_root w) p). split; [reflexivity|]. apply filter_In. split; [|exact Hr].
    unfold initA. apply in_map_iff. exists (r, p). split; [reflexivity | now apply alookup_In].
  - intros [[k p'] [E H]]. simpl in E; subst k. apply filter_In in H as [H Hr]. simpl in Hr.
    unfold initA in H. apply in_map_iff in H as [[k p] [E Hin]]. simpl in E. injection E as -> <-.
    split; [apply in_map_iff; exists (r, p); auto|].
    now rewrite (In_alookup _ _ _ ND Hin).
Qed.

(* ================================================================== Initialize: loop B *)
Lemma inherit_as_merge pr : {| op_cfg := mg (op_cfg pr) (op_cfg pkg_fresh); op_ifaces := op_ifaces pkg_fresh |} = inherit pr.
Proof. unfold inherit, pkg_fresh; simpl. now rewrite mg_empty. Qed.
Lemma merge_into_self pr : wf_cfg (op_cfg pr) ->
  {| op_cfg := mg (op_cfg pr) (op_cfg pr); op_ifaces := op_ifaces pr |} = pr.
Proof. intros W. rewrite mg_self by exact W. now destruct pr. Qed.
Lemma merge_into_inherit pr : wf_cfg (op_cfg pr) ->
  {| op_cfg := mg (op_cfg pr) (op_cfg (inherit pr)); op_ifaces := op_ifaces (inherit pr) |} = inherit pr.
Proof. intros W. unfold inherit; simpl. now rewrite mg_self by exact W. Qed.

Section LoopB.
  Variable subs : list (str * list str).
  Variable pmA : pmap.
  Variable allr : list str.                      (* the recursive roots *)
  Hypothesis HR : forall r, In r allr -> exists pr, alookup r pmA = Some pr /\ wf_cfg (op_cfg pr).
  Hypothesis HG3 : forall k r, has_key k pmA = true -> In r allr -> In k (subs_of subs r) -> k = r.
  Hypothesis HG2 : forall r r' k, In r allr -> In r' allr ->
                                  In k (subs_of subs r) -> In k (subs_of subs r') -> r = r'.

  Definition InvB (done : list str) (pm : pmap) : Prop :=
    (forall k p, alookup k pmA = Some p -> alookup k pm = Some p) /\
    (forall k r pr, alookup k pmA = None -> In r done -> In k (subs_of subs r) ->
                    alookup r pmA = Some pr -> alookup k pm = Some (inherit pr)) /\
    (forall k, alookup k pmA = None -> (forall r, In r done -> ~ In k (subs_of subs r)) ->
               alookup k pm = None).

  Lemma InvB_init : InvB [] pmA.
  Proof. repeat split; [auto | intros ? ? ? ? [] | auto]. Qed.

  Section Inner.
    Variable r : str.
    Variable pr : opkg.
    Variable done : list str.
    Variable pm0 : pmap.
    Hypothesis Hr : In r allr.
    Hypothesis Hpr : alookup r pmA = Some pr.
    Hypothesis Wpr : wf_cfg (op_cfg pr).
    Hypothesis Hdone : incl done allr.
    Hypothesis Hnew : ~ In r done.
    Hypothesis I0 : InvB done pm0.

    Definition J (pss : list str) (pm : pmap) : Prop :=
      (forall k p, alookup k pmA = Some p -> alookup k pm = Some p) /\
      (forall k, alookup k pmA = None -> In k pss -> alookup k pm = Some (inherit pr)) /\
      (forall k, alookup k pmA = None -> ~ In k pss -> alookup k pm = alookup k pm0).

    Lemma J_step s pss pm : In s (subs_of subs r) -> J pss pm -> J (pss ++ [s]) (mergeB r s pm).
    Proof.
      intros Hs [J1 [J2 J3]]. unfold mergeB. rewrite (J1 _ _ Hpr).
      destruct (alookup s pmA) as [ps|] eqn:Es.
      - (* s is configured: it is r itself; merging a config into itself *)
        assert (s = r) as -> by (eapply HG3; [unfold has_key; now rewrite Es | exact Hr | exact Hs]).
        rewrite (J1 _ _ Hpr), merge_into_self by exact Wpr.
        rewrite (aset_same r pr pm (J1 _ _ Hpr)). repeat split; [exact J1 | |].
        + intros k Hk Hin. apply J2; [exact Hk|]. apply in_app_iff in Hin as [Hin|[<-|[]]]; [exact Hin | congruence].
        + intros k Hk Hin. apply J3; [exact Hk|]. intros H. apply Hin, in_app_iff. now left.
      - (* s is a discovered package: it gets exactly the parent's config *)
        assert (alookup s pm = None \/ alookup s pm = Some (inherit pr)) as Hcur.
        { destruct (in_dec str_dec s pss) as [Hin|Hin]; [right; now apply J2|].
          left. rewrite (J3 _ Es Hin). destruct I0 as [_ [_ I3]]. apply I3; [exact Es|].
          intros r' Hr' Hs'. apply Hnew. assert (r = r') as -> by (eapply HG2; eauto). exact Hr'. }
        assert (aset s {| op_cfg := mg (op_cfg pr) (op_cfg match alookup s pm with Some x => x | None => pkg_fresh end);
                          op_ifaces := op_ifaces match alookup s pm with Some x => x | None => pkg_fresh end |} pm
                = aset s (inherit pr) pm) as ->.
        { destruct Hcur as [-> | ->]; [now rewrite inherit_as_merge | now rewrite merge_into_inherit]. }
        repeat split.
        + intros k p Hk. rewrite alookup_aset. destruct (seqb k s) eqn:E; [|now apply J1].
          apply seqb_eq in E; subst. congruence.
        + intros k Hk Hin. rewrite alookup_aset. destruct (seqb k s) eqn:E; [reflexivity|].
          apply J2; [exact Hk|]. apply in_app_iff in Hin as [Hin|[<-|[]]]; [exact Hin|].
          rewrite seqb_refl in E. discriminate.
        + intros k Hk Hin. rewrite alookup_aset. destruct (seqb k s) eqn:E.
          * apply seqb_eq in E; subst. exfalso. apply Hin, in_app_iff. right. now left.
          * apply J3; [exact Hk|]. intros H. apply Hin, in_app_iff. now left.
    Qed.

    Lemma J_fold ss : forall pss pm,
      (forall s, In s ss -> In s (subs_of subs r)) -> J pss pm ->
      J (pss ++ ss) (fold_left (fun pm s => mergeB r s pm) ss pm).
    Proof.
      induction ss as [|s ss IH]; intros pss pm Hss HJ; simpl; [now rewrite app_nil_r|].
      replace (pss ++ s :: ss) with ((pss ++ [s]) ++ ss) by now rewrite <- app_assoc.
      apply IH; [intros x Hx; apply Hss; now right|]. apply J_step; [apply Hss; now left | exact HJ].
    Qed.

    Lemma InvB_step : InvB (done ++ [r]) (fold_left (fun pm s => mergeB r s pm) (subs_of subs r) pm0).
    Proof.
      assert (J [] pm0) as HJ0.
      { destruct I0 as [I1 _]. split; [exact I1 | split; [intros ? ? [] | reflexivity]]. }
      pose proof (J_fold (subs_of subs r) [] pm0 (fun s H => H) HJ0) as [J1 [J2 J3]]. simpl in J2, J3.
      destruct I0 as [I1 [I2 I3]]. repeat split; [exact J1 | |].
      - intros k r' pr' Hk Hr' Hs' Hl'. apply in_app_iff in Hr' as [Hr'|[<-|[]]].
        + rewrite J3; [eapply I2; eassumption | exact Hk|].
          intros Hs. apply Hnew. assert (r = r') as -> by (eapply HG2; eauto). exact Hr'.
        + assert (pr' = pr) as -> by congruence. now apply J2.
      - intros k Hk Hno. rewrite J3; [apply I3; [exact Hk|] | exact Hk |].
        + intros r' Hr'. apply Hno, in_app_iff. now left.
        + apply Hno, in_app_iff. right. now left.
    Qed.
  End Inner.

  Lemma InvB_fold rest : forall done pm,
    NoDup (done ++ rest) -> incl (done ++ rest) allr -> InvB done pm ->
    InvB (done ++ rest) (fold_left (fun pm p => fold_left (fun pm s => mergeB p s pm) (subs_of subs p) pm) rest pm).
  Proof.
    induction rest as [|r rest IH]; intros done pm ND Hincl HI; simpl; [now rewrite app_nil_r|].
    replace (done ++ r :: rest) with ((done ++ [r]) ++ rest) in * by now rewrite <- app_assoc.
    assert (In r allr) as Hr by (apply Hincl; rewrite in_app_iff; left; rewrite in_app_iff; right; now left).
    destruct (HR r Hr) as [pr [Hpr Wpr]].
    apply IH; [exact ND | exact Hincl|].
    eapply InvB_step; try eassumption.
    - intros x Hx. apply Hincl. rewrite in_app_iff. left. rewrite in_app_iff. now left.
    - rewrite <- app_assoc in ND. apply NoDup_remove_2 in ND. intros H. apply ND. rewrite in_app_iff. now left.
  Qed.

  Lemma loopB_inv recs : NoDup recs -> incl recs allr -> InvB recs (loopB subs recs pmA).
  Proof. intros ND Hi. apply (InvB_fold recs [] pmA ND Hi InvB_init). Qed.
End LoopB.

Lemma NoDup_keys_mergeB p s pm : NoDup (keys pm) -> NoDup (keys (mergeB p s pm)).
Proof. unfold mergeB. destruct (alookup p pm); [apply NoDup_keys_aset | auto]. Qed.
Lemma NoDup_keys_loopB subs recs pm : NoDup (keys pm) -> NoDup (keys (loopB subs recs pm)).
Proof.
  unfold loopB. revert pm. induction recs as [|r recs IH]; intros pm ND; simpl; [exact ND|].
  apply IH. generalize (subs_of subs r). intros l. revert pm ND.
  induction l as [|s l IHl]; intros pm ND; simpl; [exact ND|]. apply IHl. now apply NoDup_keys_mergeB.
Qed.

Lemma loopB_identity subs recs pm :
  (forall q s, In q recs -> In s (subs_of subs q) -> mergeB q s pm = pm) -> loopB subs recs pm = pm.
Proof.
  unfold loopB. induction recs as [|q recs IH]; intros H; simpl; [reflexivity|].
  assert (fold_left (fun pm s => mergeB q s pm) (subs_of subs q) pm = pm) as ->.
  { assert (forall l, (forall s, In s l -> mergeB q s pm = pm) -> fold_left (fun pm s => mergeB q s pm) l pm = pm) as Hl.
    { induction l as [|s l IHl]; intros Hs; simpl; [reflexivity|].
      rewrite Hs by now left. apply IHl. intros x Hx. apply Hs. now right. }
    apply Hl. intros s Hs. apply H; [now left | exact Hs]. }
  apply IH. intros q' s Hq' Hs. apply H; [now right | exact Hs].
Qed.

(* ================================================================== Initialize, both passes *)
Definition all_keys (w : oworld) (k : str) : Prop :=
  In k (keys (ow_pkgs w)) \/ exists r, In r (roots w) /\ In k (subs_w w r).
Definition iface_keys (w : oworld) (k : str) : list str :=
  match alookup k (ow_pkgs w) with Some p => keys (op_ifaces p) | None => [] end.
Definition valid_oi_w (w : oworld) (oi : str -> list str) : Prop :=
  forall k, NoDup (oi k) /\ forall i, In i (oi k) <-> In i (iface_keys w k).

(* what Go guarantees about the orders: every ranged map is visited exactly once per key *)
Record valid_orders (w : oworld) (o : orders) : Prop := {
  v_oa1 : NoDup (oa1 o) /\ forall k, In k (oa1 o) <-> In k (keys (ow_pkgs w));
  v_oi1 : valid_oi_w w (oi1 o);
  v_oa2 : NoDup (oa2 o) /\ forall k, In k (oa2 o) <-> all_keys w k;
  v_oi2 : valid_oi_w w (oi2 o);
  v_ol : NoDup (ol o) /\ forall k, In k (ol o) <-> all_keys w k;
  v_ofl : forall gs, Permutation (ofl o gs) gs;
  v_oimp : forall k l, Permutation (oimp o k l) l }.

Record guard_facts (w : oworld) : Prop := {
  g_nd : NoDup (keys (ow_pkgs w));
  g_root : wf_cfg (ow_root w);
  g_pkgs : forall k p, In (k, p) (ow_pkgs w) -> wf_pkg p;
  g_disj : forall r r' k, In r (roots w) -> In r' (roots w) -> In k (subs_w w r) -> In k (subs_w w r') -> r = r';
  g_conf : forall k r, In k (keys (ow_pkgs w)) -> In r (roots w) -> In k (subs_w w r) -> k = r;
  g_closed : forall r q s, In r (roots w) -> In q (subs_w w r) -> In s (subs_w w q) -> In s (subs_w w r) }.

Lemma disjointb_spec a b x : disjointb a b = true -> In x a -> ~ In x b.
Proof.
  unfold disjointb. rewrite forallb_forall. intros H Ha Hb. specialize (H x Ha).
  apply negb_true_iff, smem_false in H. contradiction.
Qed.
Lemma subsetb_spec a b x : subsetb a b = true -> In x a -> In x b.
Proof. unfold subsetb. rewrite forallb_forall. intros H Ha. apply smem_In. now apply H. Qed.

Lemma guard_sound w : guard w = true -> guard_facts w.
Proof.
  unfold guard. rewrite !andb_true_iff. intros [[[[[H1 H2] H3] H4] H5] H6].
  rewrite forallb_forall in H3, H4, H5, H6. constructor.
  - now apply str_nodup_NoDup.
  - now apply wf_cfgb_wf.
  - intros k p Hin. apply wf_pkgb_wf. apply (H3 (k, p) Hin).
  - intros r r' k Hr Hr' Hk Hk'. specialize (H4 r Hr). rewrite forallb_forall in H4. specialize (H4 r' Hr').
    apply orb_true_iff in H4 as [H4|H4]; [now apply seqb_eq|].
    exfalso. eapply disjointb_spec; eassumption.
  - intros k r Hk Hr Hs. specialize (H5 k Hk). rewrite forallb_forall in H5. specialize (H5 r Hr).
    apply orb_true_iff in H5 as [H5|H5]; [now apply seqb_eq|].
    apply negb_true_iff, smem_false in H5. contradiction.
  - intros r q s Hr Hq Hs. specialize (H6 r Hr). rewrite forallb_forall in H6. specialize (H6 q Hq).
    eapply subsetb_spec; eassumption.
Qed.

Section Init.
  Variable w : oworld.
  Hypothesis G : guard_facts w.
  Let root := ow_root w.
  Let pmA := initA root (ow_pkgs w).
  Let subs := ow_subs w.

  Lemma pmA_lookup k : alookup k pmA = option_map (init_pkg_spec root) (alookup k (ow_pkgs w)).
  Proof. apply alookup_initA. Qed.

  Lemma pkgs_wf k p0 : alookup k (ow_pkgs w) = Some p0 -> wf_pkg p0.
  Proof. intros H. eapply (g_pkgs w G). apply alookup_In. exact H. Qed.

  Lemma roots_spec r : In r (roots w) <-> exists p0, alookup r (ow_pkgs w) = Some p0 /\ is_rec (init_pkg_spec root p0) = true.
  Proof.
    unfold roots. rewrite in_map_iff. split.
    - intros [[k p'] [E H]]. simpl in E; subst k. apply filter_In in H as [H Hr]. simpl in Hr.
      unfold initA in H. apply in_map_iff in H as [[k p0] [E Hin]]. simpl in E. injection E as -> <-.
      exists p0. split; [|exact Hr]. apply In_alookup; [apply (g_nd w G) | exact Hin].
    - intros [p0 [Hl Hr]]. exists (r, init_pkg_spec root p0). split; [reflexivity|].
      apply filter_In. split; [|exact Hr]. unfold initA. apply in_map_iff. exists (r, p0).
      split; [reflexivity | now apply alookup_In].
  Qed.

  Lemma HR_w r : In r (roots w) -> exists pr, alookup r pmA = Some pr /\ wf_cfg (op_cfg pr).
  Proof.
    intros Hr. apply roots_spec in Hr as [p0 [Hl _]]. exists (init_pkg_spec root p0). split.
    - now rewrite pmA_lookup, Hl.
    - apply (init_pkg_spec_wf root p0 (g_root w G) (pkgs_wf _ _ Hl)).
  Qed.
  Lemma HG3_w k r : has_key k pmA = true -> In r (roots w) -> In k (subs_of subs r) -> k = r.
  Proof.
    intros Hk. apply (g_conf w G). apply has_key_In_keys in Hk. unfold pmA in Hk. now rewrite keys_initA in Hk.
  Qed.

  Definition pass1 (recs : list str) : pmap := loopB subs recs pmA.

  Lemma pass1_inv recs : NoDup recs -> (forall r, In r recs <-> In r (roots w)) ->
                         InvB subs pmA recs (pass1 recs).
  Proof.
    intros ND Hr. apply (loopB_inv subs pmA (roots w) HR_w HG3_w (g_disj w G)); [exact ND|].
    intros r. apply Hr.
  Qed.

  (* every entry of the map after the first pass: a configured package with everything merged
     in, or a discovered package carrying its root's config *)
  Lemma pass1_classify recs k p :
    NoDup recs -> (forall r, In r recs <-> In r (roots w)) -> alookup k (pass1 recs) = Some p ->
    (exists p0, alookup k (ow_pkgs w) = Some p0 /\ p = init_pkg_spec root p0) \/
    (alookup k (ow_pkgs w) = None /\
     exists r pr, In r (roots w) /\ In k (subs_w w r) /\ alookup r pmA = Some pr /\ wf_cfg (op_cfg pr) /\ p = inherit pr).
  Proof.
    intros ND Hr Hl. destruct (pass1_inv recs ND Hr) as [I1 [I2 I3]].
    destruct (alookup k pmA) as [p'|] eqn:E.
    - left. rewrite (I1 _ _ E) in Hl. injection Hl as <-. rewrite pmA_lookup in E.
      destruct (alookup k (ow_pkgs w)) as [p0|]; [|discriminate]. injection E as <-. eauto.
    - right. assert (alookup k (ow_pkgs w) = None) as E0.
      { rewrite pmA_lookup in E. destruct (alookup k (ow_pkgs w)); [discriminate | reflexivity]. }
      split; [exact E0|].
      destruct (existsb (fun r => smem k (subs_of subs r)) recs) eqn:Ex.
      + apply existsb_exists in Ex as [r [Hin Hs]]. apply smem_In in Hs.
        destruct (HR_w r (proj1 (Hr r) Hin)) as [pr [Hpr Wpr]].
        rewrite (I2 _ _ _ E Hin Hs Hpr) in Hl. injection Hl as <-.
        exists r, pr. repeat split; try assumption. now apply Hr.
      + rewrite I3 in Hl; [discriminate | exact E|].
        intros r Hin Hs. assert (existsb (fun r => smem k (subs_of subs r)) recs = true); [|congruence].
        apply existsb_exists. exists r. split; [exact Hin | now apply smem_In].
  Qed.

  Lemma pass1_has_key recs k :
    NoDup recs -> (forall r, In r recs <-> In r (roots w)) ->
    (In k (keys (pass1 recs)) <-> all_keys w k).
  Proof.
    intros ND Hr. destruct (pass1_inv recs ND Hr) as [I1 [I2 I3]].
    rewrite <- has_key_In_keys. unfold has_key, all_keys. split.
    - destruct (alookup k (pass1 recs)) as [p|] eqn:E; [|discriminate]. intros _.
      destruct (pass1_classify recs k p ND Hr E) as [[p0 [H _]]|[_ [r [pr [H1 [H2 _]]]]]].
      + left. apply has_key_In_keys. unfold has_key. now rewrite H.
      + right. eauto.
    - intros [Hk|[r [Hr' Hs]]].
      + apply has_key_In_keys in Hk. unfold has_key in Hk.
        destruct (alookup k (ow_pkgs w)) as [p0|] eqn:E; [|discriminate].
        rewrite (I1 k (init_pkg_spec root p0)); [reflexivity | now rewrite pmA_lookup, E].
      + destruct (alookup k pmA) as [p'|] eqn:E; [now rewrite (I1 _ _ E)|].
        destruct (HR_w r Hr') as [pr [Hpr _]].
        rewrite (I2 k r pr E (proj2 (Hr r) Hr') Hs Hpr). reflexivity.
  Qed.

  (* the second Initialize changes nothing *)
  Lemma pass2_identity recs oi oa :
    NoDup recs -> (forall r, In r recs <-> In r (roots w)) ->
    NoDup oa -> (forall k, In k oa <-> all_keys w k) -> valid_oi_w w oi ->
    initialize_once root subs oi oa (pass1 recs) = pass1 recs.
  Proof.
    intros ND Hr NDo Hoa Hoi. set (pmB := pass1 recs).
    assert (NoDup (keys pmB)) as NDB.
    { apply NoDup_keys_loopB. unfold pmA. rewrite keys_initA. apply (g_nd w G). }
    assert (forall k p, In (k, p) pmB -> alookup k pmB = Some p) as HinB by (intros; now apply In_alookup).
    assert (forall k p, In (k, p) pmB -> init_pkg_spec root p = p /\ keys (op_ifaces p) = iface_keys w k /\ NoDup (keys (op_ifaces p))) as Hfix.
    { intros k p Hin. apply HinB in Hin.
      destruct (pass1_classify recs k p ND Hr Hin) as [[p0 [H0 ->]]|[H0 [r [pr [H1 [H2 [H3 [H4 ->]]]]]]]].
      - pose proof (pkgs_wf _ _ H0) as Wp. split; [apply init_pkg_spec_idem; [apply (g_root w G) | exact Wp]|].
        unfold iface_keys. rewrite H0. simpl. unfold keys. rewrite map_map. simpl.
        split; [reflexivity | apply Wp].
      - unfold iface_keys. rewrite H0. simpl. split; [|split; [reflexivity | constructor]].
        apply init_pkg_spec_inherit; [apply (g_root w G) | exact H4|].
        apply roots_spec in H1 as [p0 [Hl _]]. rewrite pmA_lookup, Hl in H3. injection H3 as <-.
        simpl. symmetry. apply mg_idem; [apply (g_root w G) | apply (pkgs_wf _ _ Hl)]. }
    unfold initialize_once. rewrite loopA_spec.
    - assert (initA root pmB = pmB) as ->.
      { unfold initA. apply map_id_on. intros [k p] Hin. simpl. now rewrite (proj1 (Hfix k p Hin)). }
      apply loopB_identity. intros q s Hq Hs.
      apply filter_In in Hq as [Hq Hrec]. unfold recf in Hrec.
      destruct (alookup q pmB) as [pq|] eqn:Eq; [|discriminate].
      rewrite (proj1 (Hfix q pq (alookup_In _ _ _ Eq))) in Hrec.
      destruct (pass1_inv recs ND Hr) as [I1 [I2 I3]]. fold pmB in I1, I2, I3.
      (* the root r that q belongs to, and its config pr *)
      assert (exists r pr, In r (roots w) /\ In s (subs_w w r) /\ alookup r pmA = Some pr /\ wf_cfg (op_cfg pr)
                           /\ op_cfg pq = op_cfg pr) as [r [pr [Hroot [Hsr [Hpr [Wpr Ecfg]]]]]].
      { destruct (pass1_classify recs q pq ND Hr Eq) as [[p0 [H0 ->]]|[H0 [r [pr [H1 [H2 [H3 [H4 ->]]]]]]]].
        - exists q, (init_pkg_spec root p0). repeat split.
          + apply roots_spec. eauto.
          + exact Hs.
          + now rewrite pmA_lookup, H0.
          + apply (init_pkg_spec_wf root p0 (g_root w G) (pkgs_wf _ _ H0)).
        - exists r, pr. repeat split; try assumption. eapply (g_closed w G); eassumption. }
      unfold mergeB. rewrite Eq.
      destruct (alookup s pmA) as [ps|] eqn:Es.
      + assert (s = r) as -> by (eapply HG3_w; [unfold has_key; now rewrite Es | exact Hroot | exact Hsr]).
        rewrite (I1 _ _ Hpr), Ecfg, merge_into_self by exact Wpr. apply aset_same. now apply I1.
      + rewrite (I2 s r pr Es (proj2 (Hr r) Hroot) Hsr Hpr), Ecfg, merge_into_inherit by exact Wpr.
        apply aset_same. now apply (I2 s r pr Es (proj2 (Hr r) Hroot) Hsr Hpr).
    - exact NDB.
    - intros k p Hin. apply (Hfix k p Hin).
    - exact NDo.
    - intros k. rewrite Hoa. symmetry. now apply pass1_has_key.
    - intros k p Hin. destruct (Hoi k) as [H1 H2]. split; [exact H1|].
      intros i. rewrite H2. now rewrite (proj1 (proj2 (Hfix k p Hin))).
  Qed.

  Lemma recs1_valid (o : orders) : valid_orders w o ->
    NoDup (filter (recf root (ow_pkgs w)) (oa1 o)) /\
    forall r, In r (filter (recf root (ow_pkgs w)) (oa1 o)) <-> In r (roots w).
  Proof.
    intros V. destruct (v_oa1 w o V) as [ND Hk]. split; [now apply NoDup_filter|].
    apply recs_are_roots; [apply (g_nd w G) | exact Hk].
  Qed.

  Theorem initialize_eq (o : orders) : valid_orders w o ->
    initialize w o = pass1 (filter (recf root (ow_pkgs w)) (oa1 o)).
  Proof.
    intros V. destruct (recs1_valid o V) as [NDr Hr]. destruct (v_oa1 w o V) as [ND1 Hk1].
    unfold initialize. unfold initialize_once at 2. rewrite loopA_spec.
    - apply pass2_identity; try assumption; [apply (v_oa2 w o V) | apply (v_oa2 w o V) | apply (v_oi2 w o V)].
    - apply (g_nd w G).
    - intros k p Hin. apply (g_pkgs w G k p Hin).
    - exact ND1.
    - exact Hk1.
    - intros k p Hin. destruct (v_oi1 w o V k) as [H1 H2]. split; [exact H1|].
      intros i. rewrite H2. unfold iface_keys. now rewrite (In_alookup _ _ _ (g_nd w G) Hin).
  Qed.

  (* the effective configuration does not depend on any map order *)
  Theorem initialize_lookup_indep (o o' : orders) k :
    valid_orders w o -> valid_orders w o' -> alookup k (initialize w o) = alookup k (initialize w o').
  Proof.
    intros V V'. rewrite (initialize_eq o V), (initialize_eq o' V').
    destruct (recs1_valid o V) as [ND Hr]. destruct (recs1_valid o' V') as [ND' Hr'].
    destruct (pass1_inv _ ND Hr) as [I1 [I2 I3]]. destruct (pass1_inv _ ND' Hr') as [I1' [I2' I3']].
    destruct (alookup k pmA) as [p|] eqn:E; [now rewrite (I1 _ _ E), (I1' _ _ E)|].
    destruct (existsb (fun r => smem k (subs_of subs r)) (roots w)) eqn:Ex.
    - apply existsb_exists in Ex as [r [Hin Hs]]. apply smem_In in Hs.
      destruct (HR_w r Hin) as [pr [Hpr _]].
      now rewrite (I2 k r pr E (proj2 (Hr r) Hin) Hs Hpr), (I2' k r pr E (proj2 (Hr' r) Hin) Hs Hpr).
    - assert (forall r, In r (roots w) -> ~ In k (subs_of subs r)) as Hno.
      { intros r Hin Hs. assert (existsb (fun r => smem k (subs_of subs r)) (roots w) = true); [|congruence].
        apply existsb_exists. exists r. split; [exact Hin | now apply smem_In]. }
      rewrite I3, I3'; [reflexivity | exact E | | exact E |].
      + intros r Hin. apply Hno. now apply Hr'.
      + intros r Hin. apply Hno. now apply Hr.
  Qed.

  Lemma initialize_keys (o : orders) k : valid_orders w o -> (In k (keys (initialize w o)) <-> all_keys w k).
  Proof.
    intros V. rewrite (initialize_eq o V). destruct (recs1_valid o V) as [ND Hr]. now apply pass1_has_key.
  Qed.

  Lemma initialize_NoDup (o : orders) : valid_orders w o -> NoDup (keys (initialize w o)).
  Proof.
    intros V. rewrite (initialize_eq o V). apply NoDup_keys_loopB. unfold pmA. rewrite keys_initA. apply (g_nd w G).
  Qed.
End Init.

(* ================================================================== imports: sorted, order-free *)
Lemma sort_imports_perm l : Permutation l (sort_imports l).
Proof. apply (imports_sorted_perm {| dst := []; inpkg := false; imports := l |}). Qed.
Lemma sort_imports_sorted l : NoDup (map ipath l) -> StronglySorted path_lt (sort_imports l).
Proof. apply (imports_sorted_sorted {| dst := []; inpkg := false; imports := l |}). Qed.

Lemma path_lt_irrefl a : ~ path_lt a a.
Proof. unfold path_lt. now rewrite sltb_irrefl. Qed.
Lemma path_lt_asym a b : path_lt a b -> ~ path_lt b a.
Proof. unfold path_lt. intros H. now rewrite (sltb_asym _ _ H). Qed.

Lemma sorted_perm_eq a : forall b,
  StronglySorted path_lt a -> StronglySorted path_lt b -> Permutation a b -> a = b.
Proof.
  induction a as [|x a IH]; intros b Sa Sb P.
  - apply Permutation_nil in P. now subst.
  - destruct b as [|y b]; [apply Permutation_sym, Permutation_nil in P; discriminate|].
    inversion Sa as [|? ? Sa' Fa]; subst. inversion Sb as [|? ? Sb' Fb]; subst.
    rewrite Forall_forall in Fa, Fb.
    assert (x = y) as ->.
    { assert (In x (y :: b)) as Hx by (eapply Permutation_in; [exact P | now left]).
      assert (In y (x :: a)) as Hy by (eapply Permutation_in; [apply Permutation_sym; exact P | now left]).
      destruct Hx as [Hx|Hx]; [now symmetry|]. destruct Hy as [Hy|Hy]; [exact Hy|].
      exfalso. apply (path_lt_asym x y); [now apply Fa | now apply Fb]. }
    f_equal. apply IH; [exact Sa' | exact Sb' | eapply Permutation_cons_inv; exact P].
Qed.

(* C06_imports_sorted: whatever order the import map is ranged in, the emitted list is the
   same, sorted by path, with exactly the registered imports *)
Theorem sort_imports_order_free l l' :
  NoDup (map ipath l) -> Permutation l l' -> sort_imports l = sort_imports l'.
Proof.
  intros ND P. assert (NoDup (map ipath l')) as ND'.
  { eapply Permutation_NoDup; [apply Permutation_map; exact P | exact ND]. }
  apply sorted_perm_eq; [now apply sort_imports_sorted | now apply sort_imports_sorted|].
  eapply perm_trans; [apply Permutation_sym, sort_imports_perm|].
  eapply perm_trans; [exact P | apply sort_imports_perm].
Qed.

Lemma dedup_imports_NoDup l : forall seen,
  NoDup (map ipath (dedup_imports l seen)) /\ forall i, In i (dedup_imports l seen) -> ~ In (ipath i) seen.
Proof.
  induction l as [|i l IH]; intros seen; simpl; [split; [constructor | tauto]|].
  destruct (smem (ipath i) seen) eqn:E; [apply IH|].
  destruct (IH (ipath i :: seen)) as [H1 H2]. split.
  - simpl. constructor; [|exact H1]. intros Hin. apply in_map_iff in Hin as [j [Ej Hj]].
    apply (H2 j Hj). left. now symmetry.
  - intros j [<-|Hj]; [now apply smem_false|]. intros Hs. apply (H2 j Hj). now right.
Qed.
Lemma raw_imports_NoDup ms : NoDup (map ipath (raw_imports ms)).
Proof. apply dedup_imports_NoDup. Qed.

(* ================================================================== grouping *)
Definition members {X} (k : str) (l : list (str * X)) : list X :=
  map snd (filter (fun x => seqb (fst x) k) l).

Lemma group_add_lookup {X} k (x : X) g k0 :
  alookup k0 (group_add k x g) =
  if seqb k0 k then Some (match alookup k g with Some xs => xs ++ [x] | None => [x] end)
  else alookup k0 g.
Proof.
  induction g as [|[k1 xs] t IH]; simpl.
  - destruct (seqb k0 k); reflexivity.
  - destruct (seqb k k1) eqn:E; simpl.
    + apply seqb_eq in E; subst k1. destruct (seqb k0 k); reflexivity.
    + destruct (seqb k0 k1) eqn:E2.
      * destruct (seqb k0 k) eqn:E3; [|reflexivity].
        apply seqb_eq in E2, E3; subst. rewrite seqb_refl in E. discriminate.
      * exact IH.
Qed.

Lemma members_app {X} k (a b : list (str * X)) : members k (a ++ b) = members k a ++ members k b.
Proof. unfold members. now rewrite filter_app, map_app. Qed.

Lemma group_fold_lookup {X} (l : list (str * X)) : forall g k,
  alookup k (fold_left (fun g kx => group_add (fst kx) (snd kx) g) l g) =
  match alookup k g, members k l with
  | Some xs, ms => Some (xs ++ ms)
  | None, [] => None
  | None, ms => Some ms
  end.
Proof.
  induction l as [|[k1 x1] t IH]; intros g k; simpl.
  - unfold members; simpl. destruct (alookup k g); [now rewrite app_nil_r | reflexivity].
  - rewrite IH, group_add_lookup. unfold members; simpl.
    destruct (seqb k1 k) eqn:E1; destruct (seqb k k1) eqn:E2;
      try (apply seqb_eq in E1; subst; rewrite seqb_refl in E2; discriminate);
      try (apply seqb_eq in E2; subst; rewrite seqb_refl in E1; discriminate).
    + apply seqb_eq in E1; subst. simpl.
      destruct (alookup k g); simpl; [now rewrite <- app_assoc | reflexivity].
    + reflexivity.
Qed.

Lemma group_lookup {X} (l : list (str * X)) k :
  alookup k (group l) = match members k l with [] => None | ms => Some ms end.
Proof. unfold group. rewrite group_fold_lookup. simpl. destruct (members k l); reflexivity. Qed.

Lemma NoDup_keys_group_add {X} k (x : X) g : NoDup (keys g) -> NoDup (keys (group_add k x g)).
Proof.
  unfold keys. induction g as [|[k1 xs] t IH]; simpl; intros ND; [repeat constructor; tauto|].
  destruct (seqb k k1) eqn:E; simpl; [exact ND|].
  inversion ND as [|? ? Hn ND']; subst. constructor; [|now apply IH].
  intros Hin. apply Hn. fold (keys (group_add k x t)) in Hin. fold (keys t).
  apply has_key_In_keys in Hin. apply has_key_In_keys. unfold has_key in *.
  rewrite group_add_lookup in Hin. destruct (seqb k1 k) eqn:E2; [|exact Hin].
  apply seqb_eq in E2; subst. rewrite seqb_refl in E. discriminate.
Qed.
Lemma NoDup_keys_group {X} (l : list (str * X)) : NoDup (keys (group l)).
Proof.
  unfold group. assert (NoDup (keys (@nil (str * list X)))) as H by constructor. revert H.
  generalize (@nil (str * list X)). induction l as [|kx t IH]; intros g H; simpl; [exact H|].
  apply IH. now apply NoDup_keys_group_add.
Qed.

Lemma group_In_iff {X} (l : list (str * X)) k ms :
  In (k, ms) (group l) <-> ms = members k l /\ ms <> [].
Proof.
  split.
  - intros H. apply (In_alookup _ _ _ (NoDup_keys_group l)) in H. rewrite group_lookup in H.
    destruct (members k l); [discriminate|]. injection H as <-. split; [reflexivity | discriminate].
  - intros [-> Hne]. apply alookup_In. rewrite group_lookup. destruct (members k l); [congruence | reflexivity].
Qed.

Lemma members_perm {X} k (l l' : list (str * X)) : Permutation l l' -> Permutation (members k l) (members k l').
Proof.
  intros P. unfold members. apply Permutation_map.
  induction P; simpl.
  - constructor.
  - destruct (seqb (fst x) k); [now constructor | assumption].
  - destruct (seqb (fst x) k), (seqb (fst y) k); try apply Permutation_refl. apply perm_swap.
  - eapply perm_trans; eassumption.
Qed.

Lemma members_flat_map {X} k (f : str -> list (str * X)) l :
  members k (flat_map f l) = flat_map (fun x => members k (f x)) l.
Proof.
  induction l as [|x t IH]; simpl; [reflexivity|]. now rewrite members_app, IH.
Qed.

Lemma flat_map_single {X} (g : str -> list X) s l :
  NoDup l -> (forall k, k <> s -> g k = []) -> flat_map g l = if smem s l then g s else [].
Proof.
  induction l as [|x t IH]; simpl; intros ND H; [reflexivity|].
  inversion ND as [|? ? Hn ND']; subst. rewrite IH by assumption.
  destruct (seqb s x) eqn:E.
  - apply seqb_eq in E; subst. assert (smem x t = false) as -> by now apply smem_false.
    now rewrite app_nil_r.
  - rewrite H; [reflexivity|]. intros ->. rewrite seqb_refl in E. discriminate.
Qed.

(* uniformity is a property of the set of members *)
Lemma same_attrs_refl a : same_attrs a a = true.
Proof. unfold same_attrs. now rewrite !seqb_refl. Qed.
Lemma same_attrs_eq a b : same_attrs a b = true <->
  m_pkgname a = m_pkgname b /\ m_src a = m_src b /\ m_tmpl a = m_tmpl b.
Proof. unfold same_attrs. rewrite !andb_true_iff, !seqb_eq. tauto. Qed.

Lemma uniform_iff ms : uniform ms = true <-> forall a b, In a ms -> In b ms -> same_attrs a b = true.
Proof.
  destruct ms as [|x t]; simpl; [split; [intros _ a b [] | reflexivity]|].
  rewrite forallb_forall. split.
  - intros H a b Ha Hb.
    assert (forall c, In c (x :: t) -> same_attrs x c = true) as Hx.
    { intros c [<-|Hc]; [apply same_attrs_refl | now apply H]. }
    pose proof (Hx a Ha) as E1. pose proof (Hx b Hb) as E2.
    apply same_attrs_eq in E1 as [A1 [A2 A3]]. apply same_attrs_eq in E2 as [B1 [B2 B3]].
    apply same_attrs_eq. repeat split; congruence.
  - intros H c Hc. apply H; [now left | now right].
Qed.

Lemma uniform_perm ms ms' : Permutation ms ms' -> uniform ms = uniform ms'.
Proof.
  intros P. destruct (uniform ms) eqn:E, (uniform ms') eqn:E'; try reflexivity.
  - rewrite uniform_iff in E. assert (uniform ms' = true); [|congruence]. apply uniform_iff.
    intros a b Ha Hb. apply E; eapply Permutation_in; try (apply Permutation_sym; exact P); assumption.
  - rewrite uniform_iff in E'. assert (uniform ms = true); [|congruence]. apply uniform_iff.
    intros a b Ha Hb. apply E'; eapply Permutation_in; try exact P; assumption.
Qed.

(* ================================================================== after Initialize *)
Definition post (w : oworld) (pm : pmap) (o : orders) : exit_class * list written :=
  let gs := group (arrivals (ow_tree w) pm (ol o)) in
  if forallb (fun g => uniform (snd g)) gs then
    let '(e, ws) := file_loop w (oimp o) pm [] (ofl o gs) in
    (match e with ExitOk => if missing w pm then ExitErr else ExitOk | ExitErr => ExitErr end, ws)
  else (ExitErr, []).
Lemma run_once_post w o : run_once w o = post w (initialize w o) o.
Proof. reflexivity. Qed.

(* one iteration of the file loop when nothing is cached *)
Definition spec_step (w : oworld) (oimp : str -> list import_ -> list import_) (pm : pmap)
           (g : str * list mock) : option written :=
  match snd g with
  | [] => None
  | m :: _ =>
    match alookup (m_src m) pm with
    | None => None
    | Some p =>
      let fc := filecfg_of (ow_fl w) (op_cfg p) (fst g) (snd g) in
      match spec_file (ow_env w) fc with
      | FError => None
      | FWritten =>
        if file_exists (ow_tree w) (m_dir m) (m_fname m) && negb (flag (o_force (op_cfg p)))
        then None
        else Some {| wr_dir := m_dir m; wr_fname := m_fname m; wr_content := render oimp fc (snd g) |}
      end
    end
  end.

Lemma file_step_spec w oimp pm c g :
  ow_km w = KTemplateSchema -> cache_ok (e_fs (ow_env w)) c ->
  snd (file_step w oimp pm c g) = spec_step w oimp pm g /\
  cache_ok (e_fs (ow_env w)) (fst (file_step w oimp pm c g)) \/
  snd (file_step w oimp pm c g) = None /\ spec_step w oimp pm g = None.
Proof.
  intros Hkm Hc. unfold file_step, spec_step. destruct (snd g) as [|m ms]; [right; auto|].
  destruct (alookup (m_src m) pm) as [p|]; [|right; auto]. rewrite Hkm.
  set (fc := filecfg_of (ow_fl w) (op_cfg p) (fst g) (m :: ms)).
  destruct (gen_file_spec (ow_env w) c fc Hc) as [H1 H2].
  destruct (gen_file KTemplateSchema (ow_env w) c fc) as [c' r]. simpl in H1, H2. subst r.
  destruct (spec_file (ow_env w) fc); [|right; auto].
  left. split; [|destruct (file_exists _ _ _ && _); simpl; now apply H2].
  destruct (file_exists _ _ _ && _); reflexivity.
Qed.

Fixpoint spec_loop {G} (f : G -> option written) (gs : list G) : exit_class * list written :=
  match gs with
  | [] => (ExitOk, [])
  | g :: t => match f g with
              | Some x => let '(e, ws) := spec_loop f t in (e, x :: ws)
              | None => (ExitErr, [])
              end
  end.

Lemma file_loop_spec w oimp pm gs : forall c,
  ow_km w = KTemplateSchema -> cache_ok (e_fs (ow_env w)) c ->
  file_loop w oimp pm c gs = spec_loop (spec_step w oimp pm) gs.
Proof.
  induction gs as [|g t IH]; intros c Hkm Hc; simpl; [reflexivity|].
  destruct (file_step_spec w oimp pm c g Hkm Hc) as [[H1 H2]|[H1 H2]].
  - destruct (file_step w oimp pm c g) as [c' r]. simpl in *. subst r.
    destruct (spec_step w oimp pm g); [|reflexivity]. now rewrite (IH c' Hkm H2).
  - destruct (file_step w oimp pm c g) as [c' r]. simpl in *. subst r. now rewrite H2.
Qed.

Definition outs {G} (f : G -> option written) (gs : list G) : list written :=
  flat_map (fun g => match f g with Some x => [x] | None => [] end) gs.

Lemma spec_loop_ok_iff {G} (f : G -> option written) gs :
  fst (spec_loop f gs) = ExitOk <-> forall g, In g gs -> f g <> None.
Proof.
  induction gs as [|g t IH]; simpl; [split; [intros _ g [] | reflexivity]|].
  destruct (f g) eqn:E.
  - destruct (spec_loop f t) as [e ws]. simpl in *. rewrite IH. split.
    + intros H g' [<-|Hg']; [congruence | now apply H].
    + intros H g' Hg'. apply H. now right.
  - simpl. split; [discriminate|]. intros H. exfalso. apply (H g); [now left | exact E].
Qed.
Lemma spec_loop_ok_outs {G} (f : G -> option written) gs :
  fst (spec_loop f gs) = ExitOk -> snd (spec_loop f gs) = outs f gs.
Proof.
  induction gs as [|g t IH]; simpl; [reflexivity|].
  destruct (f g); [|discriminate]. destruct (spec_loop f t) as [e ws]. simpl in *.
  intros H. now rewrite IH.
Qed.

Lemma spec_loop_perm {G} (f f' : G -> option written) gs gs' :
  Permutation gs gs' -> (forall g, In g gs -> f g = f' g) ->
  fst (spec_loop f gs) = fst (spec_loop f' gs') /\
  (fst (spec_loop f gs) = ExitOk -> Permutation (snd (spec_loop f gs)) (snd (spec_loop f' gs'))).
Proof.
  intros P Hf.
  assert (fst (spec_loop f gs) = ExitOk <-> fst (spec_loop f' gs') = ExitOk) as Hiff.
  { rewrite !spec_loop_ok_iff. split; intros H g Hg.
    - rewrite <- Hf by (eapply Permutation_in; [apply Permutation_sym; exact P | exact Hg]).
      apply H. eapply Permutation_in; [apply Permutation_sym; exact P | exact Hg].
    - rewrite Hf by exact Hg. apply H. eapply Permutation_in; [exact P | exact Hg]. }
  split.
  - destruct (fst (spec_loop f gs)), (fst (spec_loop f' gs')); try reflexivity.
    + symmetry. now apply Hiff.
    + now apply Hiff.
  - intros H. rewrite (spec_loop_ok_outs f gs H), (spec_loop_ok_outs f' gs' (proj1 Hiff H)).
    unfold outs. eapply perm_trans; [apply Permutation_flat_map; exact P|].
    assert (forall l, (forall g, In g l -> In g gs') ->
                      flat_map (fun g => match f g with Some x => [x] | None => [] end) l =
                      flat_map (fun g => match f' g with Some x => [x] | None => [] end) l) as Hl.
    { induction l as [|g t IHl]; intros Hin; simpl; [reflexivity|].
      rewrite Hf by (eapply Permutation_in; [apply Permutation_sym; exact P | apply Hin; now left]).
      f_equal. apply IHl. intros g' Hg'. apply Hin. now right. }
    rewrite Hl by auto. apply Permutation_refl.
Qed.

(* the map order of the import map is invisible in the rendered file *)
Lemma render_order_free oimp fc ms :
  (forall k l, Permutation (oimp k l) l) -> render oimp fc ms = render (fun _ l => l) fc ms.
Proof.
  intros H. unfold render. f_equal. symmetry. apply sort_imports_order_free.
  - apply raw_imports_NoDup.
  - apply Permutation_sym, H.
Qed.

Lemma spec_step_ext w oimp oimp' pm pm' g :
  (forall k, alookup k pm = alookup k pm') ->
  (forall k l, Permutation (oimp k l) l) -> (forall k l, Permutation (oimp' k l) l) ->
  spec_step w oimp pm g = spec_step w oimp' pm' g.
Proof.
  intros Hpm H1 H2. unfold spec_step. destruct (snd g) as [|m ms]; [reflexivity|].
  rewrite <- Hpm. destruct (alookup (m_src m) pm) as [p|]; [|reflexivity].
  destruct (spec_file _ _); [|reflexivity].
  destruct (file_exists _ _ _ && _); [reflexivity|].
  now rewrite (render_order_free oimp) , (render_order_free oimp') by assumption.
Qed.

(* association lists with the same bindings *)
Lemma assoc_perm {A} (m m' : list (str * A)) :
  NoDup (keys m) -> NoDup (keys m') -> (forall k, alookup k m = alookup k m') -> Permutation m m'.
Proof.
  intros N N' H.
  assert (forall (l : list (str * A)), NoDup (keys l) -> NoDup l) as Hnd.
  { unfold keys. induction l as [|x t IH]; simpl; intros ND; [constructor|].
    inversion ND as [|? ? Hn ND']; subst. constructor; [|now apply IH].
    intros Hin. apply Hn. now apply in_map. }
  apply NoDup_Permutation; [now apply Hnd | now apply Hnd|].
  intros [k v]. split; intros Hin.
  - apply alookup_In. rewrite <- H. now apply In_alookup.
  - apply alookup_In. rewrite H. now apply In_alookup.
Qed.

Lemma existsb_perm {A} (f : A -> bool) l l' : Permutation l l' -> existsb f l = existsb f l'.
Proof.
  intros P. induction P as [|x l l' P IH|x y l|l l' l'' P1 IH1 P2 IH2]; simpl.
  - reflexivity.
  - now rewrite IH.
  - destruct (f x), (f y); reflexivity.
  - congruence.
Qed.

Lemma forallb_group_uniform (l : list (str * mock)) :
  forallb (fun g => uniform (snd g)) (group l) = true <-> forall k, uniform (members k l) = true.
Proof.
  rewrite forallb_forall. split.
  - intros H k. destruct (members k l) eqn:E; [reflexivity|]. rewrite <- E.
    apply (H (k, members k l)). apply group_In_iff. split; [reflexivity | now rewrite E].
  - intros H [k ms] Hin. apply group_In_iff in Hin as [-> _]. apply H.
Qed.

Lemma find_pkg_path k t tp : find_pkg k t = Some tp -> tp_path tp = k.
Proof.
  induction t as [|x t IH]; simpl; [discriminate|]. destruct (seqb k (tp_path x)) eqn:E; [|exact IH].
  intros H; injection H as <-. symmetry. now apply seqb_eq.
Qed.

Lemma arrivals_of_src t pm k x : In x (arrivals_of t pm k) -> m_src (snd x) = k.
Proof.
  unfold arrivals_of. destruct (find_pkg k t) as [tp|] eqn:E; [|intros []].
  destruct (alookup k pm) as [p|]; [|intros []].
  intros H. apply in_flat_map in H as [d [_ H]]. unfold mocks_of_decl in H.
  apply in_map_iff in H as [e [<- _]]. simpl. eapply find_pkg_path; exact E.
Qed.

Lemma arrivals_ext t pm pm' l : (forall k, alookup k pm = alookup k pm') -> arrivals t pm l = arrivals t pm' l.
Proof.
  intros H. unfold arrivals. apply flat_map_ext. intros k. unfold arrivals_of. now rewrite H.
Qed.

Lemma flat_map_single_in {X} (g : str -> list X) s l :
  NoDup l -> (forall k, In k l -> k <> s -> g k = []) -> flat_map g l = if smem s l then g s else [].
Proof.
  induction l as [|x t IH]; simpl; intros ND H; [reflexivity|].
  inversion ND as [|? ? Hn ND']; subst.
  rewrite IH; [|exact ND' | intros k Hk; apply H; now right].
  destruct (seqb s x) eqn:E.
  - apply seqb_eq in E; subst. assert (smem x t = false) as -> by now apply smem_false.
    now rewrite app_nil_r.
  - rewrite H; [reflexivity | now left|]. intros ->. rewrite seqb_refl in E. discriminate.
Qed.

(* a uniform group has one source package, so its member list does not depend on the order
   in which the packages were loaded *)
Lemma members_load_order_free t pm l l' k :
  NoDup l -> NoDup l' -> (forall x, In x l <-> In x l') ->
  uniform (members k (arrivals t pm l)) = true ->
  members k (arrivals t pm l) = members k (arrivals t pm l').
Proof.
  intros ND ND' Hll U. unfold arrivals in *. rewrite !members_flat_map in *.
  set (g := fun x => members k (arrivals_of t pm x)) in *.
  destruct (flat_map g l) as [|a rest] eqn:E.
  - (* nobody contributes *)
    symmetry. assert (forall x, In x l -> g x = []) as H0.
    { intros x Hx. destruct (g x) as [|y ys] eqn:Ey; [reflexivity|].
      assert (In y (flat_map g l)) as Hy by (apply in_flat_map; exists x; split; [exact Hx | rewrite Ey; now left]).
      rewrite E in Hy. destruct Hy. }
    assert (forall l0, (forall x, In x l0 -> g x = []) -> flat_map g l0 = []) as Hz.
    { induction l0 as [|x t0 IH]; simpl; intros H; [reflexivity|]. rewrite H by now left. apply IH. intros y Hy. apply H. now right. }
    apply Hz. intros x Hx. apply H0. now apply Hll.
  - rewrite <- E in *. set (s := m_src a).
    assert (In a (flat_map g l)) as Ha by (rewrite E; now left).
    assert (forall x y, In y (g x) -> m_src y = x) as Hsrc.
    { intros x y Hy. unfold g, members in Hy. apply in_map_iff in Hy as [z [<- Hz]].
      apply filter_In in Hz as [Hz _]. eapply arrivals_of_src; exact Hz. }
    assert (forall x, In x l -> x <> s -> g x = []) as Hg.
    { intros x Hx Hne. destruct (g x) as [|y ys] eqn:Ey; [reflexivity|]. exfalso.
      assert (In y (flat_map g l)) as Hy by (apply in_flat_map; exists x; split; [exact Hx | rewrite Ey; now left]).
      rewrite uniform_iff in U. specialize (U a y Ha Hy). apply same_attrs_eq in U as [_ [U _]].
      apply Hne. rewrite <- (Hsrc x y) by (rewrite Ey; now left). now symmetry. }
    rewrite (flat_map_single_in g s l ND Hg).
    rewrite (flat_map_single_in g s l' ND'); [|intros x Hx; apply Hg; now apply Hll].
    destruct (smem s l) eqn:E1, (smem s l') eqn:E2; try reflexivity.
    + apply smem_In, Hll, smem_In in E1. congruence.
    + apply smem_In, Hll, smem_In in E2. congruence.
Qed.

(* ================================================================== C06_order_independent *)
Lemma post_order_independent w pm pm' o o' :
  ow_km w = KTemplateSchema ->
  NoDup (keys pm) -> NoDup (keys pm') -> (forall k, alookup k pm = alookup k pm') ->
  NoDup (ol o) -> NoDup (ol o') -> (forall k, In k (ol o) <-> In k (ol o')) ->
  (forall gs, Permutation (ofl o gs) gs) -> (forall gs, Permutation (ofl o' gs) gs) ->
  (forall k l, Permutation (oimp o k l) l) -> (forall k l, Permutation (oimp o' k l) l) ->
  fst (post w pm o) = fst (post w pm' o') /\
  (fst (post w pm o) = ExitOk -> Permutation (snd (post w pm o)) (snd (post w pm' o'))).
Proof.
  intros Hkm N N' Hpm NDl NDl' Hll Hfl Hfl' Him Him'. unfold post.
  rewrite <- (arrivals_ext (ow_tree w) pm pm' (ol o') Hpm).
  set (A := arrivals (ow_tree w) pm (ol o)). set (A' := arrivals (ow_tree w) pm (ol o')).
  assert (Permutation A A') as PA.
  { unfold A, A', arrivals. apply Permutation_flat_map. now apply NoDup_Permutation. }
  assert (forallb (fun g => uniform (snd g)) (group A) = forallb (fun g => uniform (snd g)) (group A')) as EU.
  { destruct (forallb _ (group A)) eqn:E1, (forallb _ (group A')) eqn:E2; try reflexivity.
    - rewrite forallb_group_uniform in E1. assert (forallb (fun g => uniform (snd g)) (group A') = true); [|congruence].
      apply forallb_group_uniform. intros k. rewrite <- (uniform_perm _ _ (members_perm k A A' PA)). apply E1.
    - rewrite forallb_group_uniform in E2. assert (forallb (fun g => uniform (snd g)) (group A) = true); [|congruence].
      apply forallb_group_uniform. intros k. rewrite (uniform_perm _ _ (members_perm k A A' PA)). apply E2. }
  rewrite <- EU. destruct (forallb _ (group A)) eqn:EUA; [|split; [reflexivity | discriminate]].
  rewrite forallb_group_uniform in EUA.
  assert (Permutation (group A) (group A')) as PG.
  { apply assoc_perm; [apply NoDup_keys_group | apply NoDup_keys_group|].
    intros k. rewrite !group_lookup. unfold A, A'.
    now rewrite (members_load_order_free (ow_tree w) pm (ol o) (ol o') k NDl NDl' Hll (EUA k)). }
  rewrite !file_loop_spec by (try exact Hkm; apply cache_ok_nil).
  assert (Permutation (ofl o (group A)) (ofl o' (group A'))) as PL.
  { eapply perm_trans; [apply Hfl|]. eapply perm_trans; [exact PG | apply Permutation_sym, Hfl']. }
  destruct (spec_loop_perm (spec_step w (oimp o) pm) (spec_step w (oimp o') pm') _ _ PL) as [H1 H2].
  { intros g _. now apply spec_step_ext. }
  assert (missing w pm = missing w pm') as EM.
  { unfold missing. apply existsb_perm. now apply assoc_perm. }
  destruct (spec_loop (spec_step w (oimp o) pm) (ofl o (group A))) as [e ws].
  destruct (spec_loop (spec_step w (oimp o') pm') (ofl o' (group A'))) as [e' ws']. simpl in *. subst e'.
  rewrite <- EM. split; [reflexivity|]. intros H. apply H2. destruct e; [reflexivity | discriminate].
Qed.

Theorem order_independent w o o' :
  guard w = true -> ow_km w = KTemplateSchema -> valid_orders w o -> valid_orders w o' ->
  fst (run_once w o) = fst (run_once w o') /\
  (fst (run_once w o) = ExitOk -> Permutation (snd (run_once w o)) (snd (run_once w o'))).
Proof.
  intros Hg Hkm V V'. apply guard_sound in Hg. rewrite !run_once_post.
  destruct (v_ol w o V) as [NDl Hl]. destruct (v_ol w o' V') as [NDl' Hl'].
  apply post_order_independent; try assumption.
  - now apply initialize_NoDup.
  - now apply initialize_NoDup.
  - intros k. now apply initialize_lookup_indep.
  - intros k. now rewrite Hl, Hl'.
  - apply (v_ofl w o V).
  - apply (v_ofl w o' V').
  - apply (v_oimp w o V).
  - apply (v_oimp w o' V').
Qed.

(* ================================================================== the tree after a run *)
Definition gen_file_of (x : written) : tfile := {| tf_name := wr_fname x; tf_decls := [] |}.

Lemma find_pkg_add_output x t k :
  find_pkg k (add_output x t) =
  if seqb k (wr_dir x)
  then Some match find_pkg k t with
            | Some tp => {| tp_path := tp_path tp; tp_name := tp_name tp;
                            tp_files := put_file (gen_file_of x) (tp_files tp) |}
            | None => {| tp_path := wr_dir x; tp_name := ct_pkgname (wr_content x); tp_files := [gen_file_of x] |}
            end
  else find_pkg k t.
Proof.
  induction t as [|tp r IH]; simpl.
  - destruct (seqb k (wr_dir x)); reflexivity.
  - destruct (seqb (wr_dir x) (tp_path tp)) eqn:E1; simpl.
    + apply seqb_eq in E1. destruct (seqb k (tp_path tp)) eqn:E2.
      * rewrite E1, E2. reflexivity.
      * rewrite E1, E2. reflexivity.
    + destruct (seqb k (tp_path tp)) eqn:E2.
      * destruct (seqb k (wr_dir x)) eqn:E3; [|reflexivity].
        apply seqb_eq in E2, E3. rewrite <- E2, <- E3, seqb_refl in E1. discriminate.
      * exact IH.
Qed.

Lemma decls_put_file f fs :
  tf_decls f = [] -> (forall g, In g fs -> tf_name g = tf_name f -> tf_decls g = []) ->
  flat_map tf_decls (filter loaded (put_file f fs)) = flat_map tf_decls (filter loaded fs).
Proof.
  intros Hf. induction fs as [|g t IH]; intros Hg; simpl.
  - destruct (loaded f); simpl; [now rewrite Hf | reflexivity].
  - destruct (seqb (tf_name g) (tf_name f)) eqn:E; simpl.
    + apply seqb_eq in E. assert (loaded g = loaded f) as -> by (unfold loaded; now rewrite E).
      destruct (loaded f); simpl; [|reflexivity].
      rewrite Hf, (Hg g); [reflexivity | now left | exact E].
    + destruct (loaded g); simpl; rewrite IH; try reflexivity; intros h Hh; apply Hg; now right.
Qed.

Lemma In_put_file f fs g : In g (put_file f fs) -> g = f \/ In g fs.
Proof.
  induction fs as [|h t IH]; simpl; [intros [<-|[]]; now left|].
  destruct (seqb (tf_name h) (tf_name f)); simpl.
  - intros [<-|H]; [now left | right; now right].
  - intros [<-|H]; [right; now left|]. destruct (IH H) as [->|H']; [now left | right; now right].
Qed.

Lemma put_file_exists f fs : existsb (fun g => seqb (tf_name g) (tf_name f)) (put_file f fs) = true.
Proof.
  induction fs as [|h t IH]; simpl; [now rewrite seqb_refl|].
  destruct (seqb (tf_name h) (tf_name f)) eqn:E; simpl; [now rewrite seqb_refl | now rewrite E].
Qed.
Lemma put_file_keeps f fs n :
  existsb (fun g => seqb (tf_name g) n) fs = true -> existsb (fun g => seqb (tf_name g) n) (put_file f fs) = true.
Proof.
  induction fs as [|h t IH]; simpl; [discriminate|].
  destruct (seqb (tf_name h) (tf_name f)) eqn:E; simpl.
  - apply seqb_eq in E. rewrite E. intros H. exact H.
  - destruct (seqb (tf_name h) n); [reflexivity | exact IH].
Qed.

(* how the tree after the run looks from the original one: old packages keep path, name and
   declarations; new directories hold generated files only *)
Definition tree_ext (t0 t : tree) : Prop :=
  forall k,
    match find_pkg k t0 with
    | Some tp => exists tp', find_pkg k t = Some tp' /\ tp_path tp' = tp_path tp /\ tp_name tp' = tp_name tp /\
                             decls_of tp' = decls_of tp /\
                             (forall g, In g (tp_files tp') -> tf_decls g = [] \/ In g (tp_files tp)) /\
                             (forall n, existsb (fun g => seqb (tf_name g) n) (tp_files tp) = true ->
                                        existsb (fun g => seqb (tf_name g) n) (tp_files tp') = true)
    | None => match find_pkg k t with
              | None => True
              | Some tp' => forall g, In g (tp_files tp') -> tf_decls g = []
              end
    end.

Lemma tree_ext_refl t : tree_ext t t.
Proof.
  intros k. destruct (find_pkg k t) as [tp|]; [|exact I].
  exists tp. repeat split; auto.
Qed.

(* an output never replaces a file that declares interfaces *)
Definition no_clobber (t0 : tree) (x : written) : Prop :=
  forall tp g, find_pkg (wr_dir x) t0 = Some tp -> In g (tp_files tp) -> tf_name g = wr_fname x -> tf_decls g = [].

Lemma tree_ext_add t0 t x : no_clobber t0 x -> tree_ext t0 t -> tree_ext t0 (add_output x t).
Proof.
  intros NC H k. specialize (H k). rewrite find_pkg_add_output.
  destruct (seqb k (wr_dir x)) eqn:E.
  - apply seqb_eq in E. subst k.
    destruct (find_pkg (wr_dir x) t0) as [tp|] eqn:E0.
    + destruct H as [tp' [H1 [H2 [H3 [H4 [H5 H6]]]]]]. rewrite H1. eexists. split; [reflexivity|]. simpl.
      repeat split; try assumption.
      * unfold decls_of in *. simpl. rewrite decls_put_file; [exact H4 | reflexivity|].
        intros g Hg Hn. destruct (H5 g Hg) as [Hd|Hd]; [exact Hd|]. eapply NC; [exact E0 | exact Hd | exact Hn].
      * intros g Hg. apply In_put_file in Hg as [->|Hg]; [now left | now apply H5].
      * intros n Hn. apply put_file_keeps. now apply H6.
    + destruct (find_pkg (wr_dir x) t) as [tp'|].
      * simpl. intros g Hg. apply In_put_file in Hg as [->|Hg]; [reflexivity | now apply H].
      * simpl. intros g [<-|[]]. reflexivity.
  - exact H.
Qed.

Lemma tree_ext_add_outputs t0 ws : forall t,
  (forall x, In x ws -> no_clobber t0 x) -> tree_ext t0 t -> tree_ext t0 (add_outputs ws t).
Proof.
  unfold add_outputs. induction ws as [|x ws IH]; intros t NC H; simpl; [exact H|].
  apply IH; [intros y Hy; apply NC; now right|]. apply tree_ext_add; [apply NC; now left | exact H].
Qed.

Lemma file_exists_add_output_same x t : file_exists (add_output x t) (wr_dir x) (wr_fname x) = true.
Proof.
  unfold file_exists. rewrite find_pkg_add_output, seqb_refl.
  destruct (find_pkg (wr_dir x) t); simpl; [apply (put_file_exists (gen_file_of x)) | now rewrite seqb_refl].
Qed.
Lemma file_exists_add_output_keeps x t d n :
  file_exists t d n = true -> file_exists (add_output x t) d n = true.
Proof.
  unfold file_exists. rewrite find_pkg_add_output. destruct (seqb d (wr_dir x)) eqn:E; [|auto].
  destruct (find_pkg d t) as [tp|]; [|discriminate]. simpl. apply put_file_keeps.
Qed.
Lemma file_exists_add_outputs ws : forall t x, In x ws -> file_exists (add_outputs ws t) (wr_dir x) (wr_fname x) = true.
Proof.
  unfold add_outputs. induction ws as [|y ws IH]; intros t x Hin; simpl; [destruct Hin|].
  destruct Hin as [->|Hin]; [|now apply IH].
  assert (forall l t0, file_exists t0 (wr_dir x) (wr_fname x) = true ->
                       file_exists (fold_left (fun t x => add_output x t) l t0) (wr_dir x) (wr_fname x) = true) as Hk.
  { induction l as [|z l IHl]; intros t0 H; simpl; [exact H|]. apply IHl. now apply file_exists_add_output_keeps. }
  apply Hk. apply file_exists_add_output_same.
Qed.

(* ================================================================== C06_idempotent *)
Lemma post_core w w' pm pm' o o' :
  ow_km w = KTemplateSchema -> ow_km w' = KTemplateSchema ->
  Permutation (arrivals (ow_tree w) pm (ol o)) (arrivals (ow_tree w') pm' (ol o')) ->
  (forall k, uniform (members k (arrivals (ow_tree w) pm (ol o))) = true ->
             members k (arrivals (ow_tree w) pm (ol o)) = members k (arrivals (ow_tree w') pm' (ol o'))) ->
  (forall gs, Permutation (ofl o gs) gs) -> (forall gs, Permutation (ofl o' gs) gs) ->
  (forall g, In g (group (arrivals (ow_tree w) pm (ol o))) ->
             spec_step w (oimp o) pm g = spec_step w' (oimp o') pm' g) ->
  (fst (post w pm o) = ExitOk -> missing w' pm' = false) ->
  fst (post w pm o) = ExitOk ->
  fst (post w' pm' o') = ExitOk /\ Permutation (snd (post w pm o)) (snd (post w' pm' o')).
Proof.
  intros Hkm Hkm' PA HM Hfl Hfl' Hstep Hmiss Hok. pose proof (Hmiss Hok) as Hm'. revert Hok. unfold post.
  set (A := arrivals (ow_tree w) pm (ol o)) in *. set (A' := arrivals (ow_tree w') pm' (ol o')) in *.
  destruct (forallb (fun g => uniform (snd g)) (group A)) eqn:EUA; [|discriminate].
  pose proof EUA as EUA0. rewrite forallb_group_uniform in EUA.
  assert (forallb (fun g => uniform (snd g)) (group A') = true) as ->.
  { apply forallb_group_uniform. intros k. rewrite <- (uniform_perm _ _ (members_perm k A A' PA)). apply EUA. }
  assert (Permutation (group A) (group A')) as PG.
  { apply assoc_perm; [apply NoDup_keys_group | apply NoDup_keys_group|].
    intros k. rewrite !group_lookup. now rewrite (HM k (EUA k)). }
  rewrite !file_loop_spec by (try assumption; apply cache_ok_nil).
  assert (Permutation (ofl o (group A)) (ofl o' (group A'))) as PL.
  { eapply perm_trans; [apply Hfl|]. eapply perm_trans; [exact PG | apply Permutation_sym, Hfl']. }
  destruct (spec_loop_perm (spec_step w (oimp o) pm) (spec_step w' (oimp o') pm') _ _ PL) as [H1 H2].
  { intros g Hg. apply Hstep. eapply Permutation_in; [apply Hfl | exact Hg]. }
  destruct (spec_loop (spec_step w (oimp o) pm) (ofl o (group A))) as [e ws].
  destruct (spec_loop (spec_step w' (oimp o') pm') (ofl o' (group A'))) as [e' ws']. simpl in *. subst e'.
  rewrite Hm'. destruct e; [|discriminate]. intros _. split; [reflexivity | now apply H2].
Qed.

Lemma post_ok_steps w pm o :
  ow_km w = KTemplateSchema -> (forall gs, Permutation (ofl o gs) gs) ->
  fst (post w pm o) = ExitOk ->
  (forall g, In g (group (arrivals (ow_tree w) pm (ol o))) -> spec_step w (oimp o) pm g <> None) /\
  missing w pm = false.
Proof.
  intros Hkm Hfl. unfold post.
  destruct (forallb _ (group (arrivals (ow_tree w) pm (ol o)))); [|discriminate].
  rewrite file_loop_spec by (try assumption; apply cache_ok_nil).
  destruct (spec_loop (spec_step w (oimp o) pm) (ofl o (group (arrivals (ow_tree w) pm (ol o))))) as [e ws] eqn:E.
  simpl. destruct e; [|discriminate]. destruct (missing w pm); [discriminate|]. intros _. split; [|reflexivity].
  intros g Hg. assert (fst (spec_loop (spec_step w (oimp o) pm) (ofl o (group (arrivals (ow_tree w) pm (ol o))))) = ExitOk) as Hok by now rewrite E.
  rewrite spec_loop_ok_iff in Hok. apply Hok. eapply Permutation_in; [apply Permutation_sym, Hfl | exact Hg].
Qed.

Definition rerun_world (w : oworld) (ws : list written) (subs' : list (str * list str)) : oworld :=
  {| ow_root := ow_root w; ow_pkgs := ow_pkgs w; ow_subs := subs';
     ow_tree := add_outputs ws (ow_tree w); ow_env := ow_env w; ow_fl := ow_fl w; ow_km := ow_km w |}.

Lemma decls_of_nil tp : (forall g, In g (tp_files tp) -> tf_decls g = []) -> decls_of tp = [].
Proof.
  unfold decls_of. induction (tp_files tp) as [|g t IH]; simpl; intros H; [reflexivity|].
  destruct (loaded g); simpl; [rewrite (H g) by now left|]; apply IH; intros h Hh; apply H; now right.
Qed.

Lemma flat_map_filter_nil {A B} (g : A -> list B) (P : A -> bool) l :
  (forall x, In x l -> P x = false -> g x = []) -> flat_map g l = flat_map g (filter P l).
Proof.
  induction l as [|x t IH]; simpl; intros H; [reflexivity|].
  destruct (P x) eqn:E; simpl.
  - f_equal. apply IH. intros y Hy. apply H. now right.
  - rewrite (H x) by auto. apply IH. intros y Hy. apply H. now right.
Qed.

Theorem idempotent w o subs' o' :
  guard w = true -> ow_km w = KTemplateSchema -> valid_orders w o ->
  fst (run_once w o) = ExitOk ->
  guard (rerun_world w (snd (run_once w o)) subs') = true ->
  valid_orders (rerun_world w (snd (run_once w o)) subs') o' ->
  (forall r k, In k (subs_w w r) -> In k (subs_of subs' r)) ->
  (forall r k, In k (subs_of subs' r) -> In k (subs_w w r) \/ find_pkg k (ow_tree w) = None) ->
  (forall k p, alookup k (initialize w o) = Some p -> flag (o_force (op_cfg p)) = true) ->
  (forall x, In x (snd (run_once w o)) -> no_clobber (ow_tree w) x) ->
  fst (run_once (rerun_world w (snd (run_once w o)) subs') o') = ExitOk /\
  Permutation (snd (run_once w o)) (snd (run_once (rerun_world w (snd (run_once w o)) subs') o')) /\
  forall x, In x (snd (run_once (rerun_world w (snd (run_once w o)) subs') o')) ->
            file_exists (ow_tree (rerun_world w (snd (run_once w o)) subs')) (wr_dir x) (wr_fname x) = true.
Proof.
  intros Hg Hkm V Hok Hg' V' S1 S2 HF NC.
  set (ws := snd (run_once w o)) in *. set (w' := rerun_world w ws subs') in *.
  apply guard_sound in Hg. apply guard_sound in Hg'.
  set (pm := initialize w o) in *. set (pm' := initialize w' o').
  assert (roots w' = roots w) as ER by reflexivity.
  destruct (recs1_valid w Hg o V) as [NDr Hr]. destruct (recs1_valid w' Hg' o' V') as [NDr' Hr'].
  pose proof (pass1_inv w Hg _ NDr Hr) as [I1 [I2 I3]].
  pose proof (pass1_inv w' Hg' _ NDr' Hr') as [I1' [I2' I3']].
  pose proof (initialize_eq w Hg o V) as Epm. pose proof (initialize_eq w' Hg' o' V') as Epm'.
  fold pm in Epm. fold pm' in Epm'. change (ow_root w') with (ow_root w) in *. change (ow_pkgs w') with (ow_pkgs w) in *.
  change (ow_subs w') with subs' in *.
  (* (ii) the old bindings are still there *)
  assert (forall k p, alookup k pm = Some p -> alookup k pm' = Some p) as Hold.
  { intros k p Hl. rewrite Epm in Hl. rewrite Epm'.
    destruct (pass1_classify w Hg _ k p NDr Hr Hl) as [[p0 [H0 ->]]|[H0 [r [pr [H1 [H2 [H3 [H4 ->]]]]]]]].
    - apply I1'. now rewrite alookup_initA, H0.
    - apply (I2' k r pr); [now rewrite alookup_initA, H0 | apply Hr'; now rewrite ER | now apply S1 | exact H3]. }
  (* (iii) what is new is a directory of generated files without interfaces configured *)
  assert (forall k p', alookup k pm = None -> alookup k pm' = Some p' ->
                       op_ifaces p' = [] /\ find_pkg k (ow_tree w) = None) as Hnew.
  { intros k p' Hn Hl. rewrite Epm' in Hl. rewrite Epm in Hn.
    destruct (pass1_classify w' Hg' _ k p' NDr' Hr' Hl) as [[p0 [H0 ->]]|[H0 [r [pr [H1 [H2 [H3 [H4 ->]]]]]]]];
      change (ow_pkgs w') with (ow_pkgs w) in *; change (ow_root w') with (ow_root w) in *.
    - rewrite (I1 k (init_pkg_spec (ow_root w) p0)) in Hn; [discriminate | now rewrite alookup_initA, H0].
    - split; [reflexivity|]. destruct (S2 r k H2) as [Hs|Hs]; [|exact Hs].
      rewrite (I2 k r pr) in Hn; [discriminate | now rewrite alookup_initA, H0 | apply Hr; now rewrite <- ER | exact Hs | exact H3]. }
  assert (tree_ext (ow_tree w) (ow_tree w')) as TE.
  { apply tree_ext_add_outputs; [exact NC | apply tree_ext_refl]. }
  (* (iv) every package contributes what it contributed before *)
  assert (forall k, arrivals_of (ow_tree w') pm' k = arrivals_of (ow_tree w) pm k) as Harr.
  { intros k. unfold arrivals_of. specialize (TE k).
    destruct (alookup k pm) as [p|] eqn:El.
    - rewrite (Hold _ _ El). destruct (find_pkg k (ow_tree w)) as [tp|].
      + destruct TE as [tp' [T1 [T2 [T3 [T4 _]]]]]. rewrite T1, T4. apply flat_map_ext. intros d.
        unfold mocks_of_decl, out_dir, out_fname, out_pkgname. now rewrite T2, T3.
      + destruct (find_pkg k (ow_tree w')) as [tp'|]; [|reflexivity]. now rewrite (decls_of_nil tp' TE).
    - assert (match find_pkg k (ow_tree w) with Some _ => @nil (str * mock) | None => [] end = []) as -> by (destruct (find_pkg k (ow_tree w)); reflexivity).
      destruct (alookup k pm') as [p'|] eqn:El'; [|destruct (find_pkg k (ow_tree w')); reflexivity].
      destruct (Hnew k p' El El') as [_ Hf]. rewrite Hf in TE.
      destruct (find_pkg k (ow_tree w')) as [tp'|]; [|reflexivity]. now rewrite (decls_of_nil tp' TE). }
  destruct (v_ol w o V) as [NDl Hl]. destruct (v_ol w' o' V') as [NDl' Hl'].
  assert (forall k, all_keys w k -> all_keys w' k) as Hak.
  { intros k [H|[r [H1 H2]]]; [now left | right; exists r; split; [exact H1 | now apply S1]]. }
  assert (forall k, In k (ol o') -> ~ In k (ol o) -> arrivals_of (ow_tree w) pm k = []) as Hextra.
  { intros k _ Hn. unfold arrivals_of. assert (alookup k pm = None) as ->.
    { apply has_key_false_alookup. destruct (has_key k pm) eqn:E; [|reflexivity].
      exfalso. apply Hn, Hl. apply (initialize_keys w Hg o k V). now apply has_key_In_keys. }
    destruct (find_pkg k (ow_tree w)); reflexivity. }
  set (ol2 := filter (fun k => smem k (ol o)) (ol o')).
  assert (arrivals (ow_tree w') pm' (ol o') = arrivals (ow_tree w) pm ol2) as EA.
  { unfold arrivals. rewrite (flat_map_ext _ _ Harr). apply flat_map_filter_nil.
    intros k Hk Hs. apply Hextra; [exact Hk | now apply smem_false]. }
  assert (NoDup ol2) as ND2 by now apply NoDup_filter.
  assert (forall k, In k (ol o) <-> In k ol2) as H2.
  { intros k. unfold ol2. rewrite filter_In, smem_In. split; [|tauto].
    intros H. split; [|exact H]. apply Hl', Hak, Hl, H. }
  rewrite !run_once_post. fold pm pm'.
  assert (fst (post w pm o) = ExitOk) as Hok' by exact Hok.
  destruct (post_ok_steps w pm o Hkm (v_ofl w o V) Hok') as [Hsteps Hmiss].
  destruct (post_core w w' pm pm' o o') as [R1 R2]; try assumption; try reflexivity.
  - rewrite EA. unfold arrivals. apply Permutation_flat_map. now apply NoDup_Permutation.
  - intros k U. rewrite EA. now apply members_load_order_free.
  - apply (v_ofl w o V).
  - apply (v_ofl w' o' V').
  - (* (vi) every file is regenerated identically *)
    intros g Hgin. specialize (Hsteps g Hgin). unfold spec_step in *.
    destruct (snd g) as [|m ms]; [congruence|].
    destruct (alookup (m_src m) pm) as [p|] eqn:El; [|congruence]. rewrite (Hold _ _ El).
    change (ow_fl w') with (ow_fl w). change (ow_env w') with (ow_env w).
    destruct (spec_file _ _); [|congruence].
    rewrite (HF _ _ El). simpl. rewrite !andb_false_r.
    destruct (file_exists (ow_tree w) (m_dir m) (m_fname m) && negb (flag (o_force (op_cfg p)))); [congruence|].
    now rewrite (render_order_free (oimp o) _ _ (v_oimp w o V)), (render_order_free (oimp o') _ _ (v_oimp w' o' V')).
  - (* (vii) no configured interface went missing *)
    intros _. unfold missing in *. apply not_true_is_false. intros Hex.
    apply existsb_exists in Hex as [[k p'] [Hin Hp]]. cbn [fst snd] in Hp.
    assert (alookup k pm' = Some p') as El' by (apply In_alookup; [now apply initialize_NoDup | exact Hin]).
    specialize (TE k). destruct (alookup k pm) as [p|] eqn:El.
    + assert (p' = p) as -> by (rewrite (Hold _ _ El) in El'; congruence).
      assert (existsb (fun kp => match find_pkg (fst kp) (ow_tree w) with
                                 | Some tp => existsb (fun n => negb (smem n (map id_name (decls_of tp)))) (keys (op_ifaces (snd kp)))
                                 | None => negb (match keys (op_ifaces (snd kp)) with [] => true | _ => false end)
                                 end) pm = true); [|congruence].
      apply existsb_exists. exists (k, p). split; [now apply alookup_In|]. simpl.
      destruct (find_pkg k (ow_tree w)) as [tp|].
      * destruct TE as [tp' [T1 [_ [_ [T4 _]]]]]. rewrite T1, T4 in Hp. exact Hp.
      * destruct (find_pkg k (ow_tree w')) as [tp'|]; [|exact Hp].
        destruct (keys (op_ifaces p)); [discriminate | reflexivity].
    + destruct (Hnew k p' El El') as [Hi _]. rewrite Hi in Hp. cbn [keys map existsb negb] in Hp.
      destruct (find_pkg k (ow_tree w')); discriminate.
  - split; [exact R1|]. split; [exact R2|].
    intros x Hx. apply file_exists_add_outputs. change ws with (snd (post w pm o)).
    eapply Permutation_in; [apply Permutation_sym; exact R2 | exact Hx].
Qed.

(* ================================================================== the canonical orders are orders *)
Lemma canonical_pm1 w : guard_facts w ->
  let ifk := fun k => match alookup k (ow_pkgs w) with Some p => keys (op_ifaces p) | None => [] end in
  initialize_once (ow_root w) (ow_subs w) ifk (keys (ow_pkgs w)) (ow_pkgs w)
  = pass1 w (filter (recf (ow_root w) (ow_pkgs w)) (keys (ow_pkgs w))).
Proof.
  intros G ifk. unfold initialize_once. rewrite loopA_spec; [reflexivity | apply (g_nd w G) | | apply (g_nd w G) | tauto |].
  - intros k p Hin. apply (g_pkgs w G k p Hin).
  - intros k p Hin. unfold ifk. rewrite (In_alookup _ _ _ (g_nd w G) Hin). split; [apply (g_pkgs w G k p Hin) | tauto].
Qed.

Theorem canonical_valid w : guard w = true -> valid_orders w (canonical w).
Proof.
  intros Hg. apply guard_sound in Hg. pose proof (canonical_pm1 w Hg) as E. cbv zeta in E.
  assert (NoDup (filter (recf (ow_root w) (ow_pkgs w)) (keys (ow_pkgs w))) /\
          forall r, In r (filter (recf (ow_root w) (ow_pkgs w)) (keys (ow_pkgs w))) <-> In r (roots w)) as [NDr Hr].
  { split; [apply NoDup_filter, (g_nd w Hg) | apply recs_are_roots; [apply (g_nd w Hg) | tauto]]. }
  assert (valid_oi_w w (fun k => match alookup k (ow_pkgs w) with Some p => keys (op_ifaces p) | None => [] end)) as Hoi.
  { intros k. unfold iface_keys. split; [|tauto].
    destruct (alookup k (ow_pkgs w)) as [p|] eqn:El; [|constructor].
    apply (g_pkgs w Hg k p). now apply alookup_In. }
  constructor; unfold canonical; cbn [oa1 oi1 oa2 oi2 ol ofl oimp].
  - split; [apply (g_nd w Hg) | tauto].
  - exact Hoi.
  - rewrite E. split.
    + apply NoDup_keys_loopB. rewrite keys_initA. apply (g_nd w Hg).
    + intros k. now apply pass1_has_key.
  - exact Hoi.
  - rewrite E. split.
    + apply NoDup_keys_loopB. rewrite keys_initA. apply (g_nd w Hg).
    + intros k. now apply pass1_has_key.
  - intros gs. apply Permutation_refl.
  - intros k l. apply Permutation_refl.
Qed.

(* every run, whatever orders Go draws, is represented by the canonical run of the model *)
Corollary canonical_represents w o :
  guard w = true -> ow_km w = KTemplateSchema -> valid_orders w o ->
  fst (run_once w o) = fst (run_once w (canonical w)) /\
  (fst (run_once w o) = ExitOk -> Permutation (snd (run_once w o)) (snd (run_once w (canonical w)))).
Proof. intros Hg Hkm V. apply order_independent; try assumption. now apply canonical_valid. Qed.

(* ================================================================== the pinned cache key is order dependent *)
Definition wit_cfg (req : bool) (schema : str) (data : obj) : ocfg :=
  {| o_rec := None; o_all := Some true; o_force := None; o_dir := None; o_file := None; o_pkgname := None;
     o_tmpl := None; o_schema := Some schema; o_require := Some req; o_data := data |}.
Definition wit_world (km : keymode) : oworld :=
  {| ow_root := {| o_rec := Some false; o_all := Some false; o_force := Some false; o_dir := Some (DIface []);
                   o_file := Some (FFixed (B "zz_mock.go")); o_pkgname := Some PSrc;
                   o_tmpl := Some (B "file://t.templ"); o_schema := None; o_require := Some true; o_data := [] |};
     ow_pkgs := [(B "a", {| op_cfg := wit_cfg false (B "file://s1.json") [(B "anything", JArr [JNum 1 0])]; op_ifaces := [] |});
                 (B "b", {| op_cfg := wit_cfg true (B "file://s2.json") [(B "z", JStr (B "not an integer"))]; op_ifaces := [] |})];
     ow_subs := [];
     ow_tree := [{| tp_path := B "a"; tp_name := B "a"; tp_files := [{| tf_name := B "a.go"; tf_decls := [{| id_name := B "A1"; id_imports := [] |}] |}] |};
                 {| tp_path := B "b"; tp_name := B "b"; tp_files := [{| tf_name := B "b.go"; tf_decls := [{| id_name := B "B1"; id_imports := [] |}] |}] |}];
     ow_env := {| e_fs := [(B "file://t.templ", {| c_tmpl_ok := true; c_schema := None |});
                           (B "file://s1.json", {| c_tmpl_ok := false; c_schema := Some (Sch [] [] [] true) |});
                           (B "file://s2.json", {| c_tmpl_ok := false; c_schema := Some wit_sB |})];
                  e_builtins := pinned_builtins; e_empty_ok := false |};
     ow_fl := FLPackage; ow_km := km |}.
Definition rev_files (o : orders) : orders :=
  {| oa1 := oa1 o; oi1 := oi1 o; oa2 := oa2 o; oi2 := oi2 o; ol := ol o;
     ofl := fun gs => rev gs; oimp := oimp o |}.

Theorem order_refuted_for_pinned_key :
  exists w o o', guard w = true /\ ow_km w = KTemplate /\ valid_orders w o /\ valid_orders w o' /\
                 fst (run_once w o) = ExitOk /\ fst (run_once w o') = ExitErr.
Proof.
  exists (wit_world KTemplate), (canonical (wit_world KTemplate)), (rev_files (canonical (wit_world KTemplate))).
  assert (guard (wit_world KTemplate) = true) as Hg by (vm_compute; reflexivity).
  pose proof (canonical_valid _ Hg) as V.
  repeat split; try (vm_compute; reflexivity); try exact Hg; try exact V; try apply V.
  intros gs. apply Permutation_sym, Permutation_rev.
Qed.

(* with the fixed key the same input fails in every order (package b's data violates b's schema) *)
Example fixed_key_on_witness :
  fst (run_once (wit_world KTemplateSchema) (canonical (wit_world KTemplateSchema))) = ExitErr /\
  fst (run_once (wit_world KTemplateSchema) (rev_files (canonical (wit_world KTemplateSchema)))) = ExitErr.
Proof. vm_compute. split; reflexivity. Qed.
