(* Proofs about the resolver model Cfg/Tmpl.v (C11). *)
From Coq Require Import Permutation.
From Mk Require Import Lib.Bytes Cfg.Tmpl.

(* ------------------------------------------------------------------ params *)
Lemma param_dec (p q : param) : {p = q} + {p <> q}.
Proof. decide equality. Defined.

Lemma get_set_same c p v : get (set c p v) p = v.
Proof. destruct p; reflexivity. Qed.
Lemma get_set_other c p q v : p <> q -> get (set c p v) q = get c q.
Proof. intros Hpq. destruct p, q; try reflexivity; congruence. Qed.
Lemma params_ext c c' : (forall p, get c p = get c' p) -> c = c'.
Proof.
  intros H. destruct c, c'.
  pose proof (H PDir) as H1. pose proof (H PFile) as H2. pose proof (H PPkg) as H3.
  pose proof (H PStruct) as H4. pose proof (H PSchema) as H5. simpl in *. congruence.
Qed.

(* a map iteration order: every key exactly once *)
Definition valid_order (l : list param) : Prop := NoDup l /\ forall p, In p l.

Lemma all_params_valid : valid_order all_params.
Proof.
  split.
  - repeat constructor; simpl; intuition congruence.
  - intros []; simpl; tauto.
Qed.
Lemma perm_valid l : Permutation all_params l -> valid_order l.
Proof.
  intros HP. destruct all_params_valid as [ND IN]. split.
  - eapply Permutation_NoDup; eassumption.
  - intros p. eapply Permutation_in; [exact HP | apply IN].
Qed.

(* ------------------------------------------------------------------ one pass *)
Definition rv (d : data) (c : params) (p : param) : rres := render d (get c p).
Definition outv (d : data) (c : params) (p : param) : str :=
  match rv d c p with ROk v => v | RErr _ => get c p end.
Fixpoint first_err (d : data) (c : params) (l : list param) : option err :=
  match l with
  | [] => None
  | p :: t => match rv d c p with RErr k => Some (TemplateError p k) | ROk _ => first_err d c t end
  end.
Definition changed (d : data) (c : params) (l : list param) : bool :=
  existsb (fun p => negb (seqb (outv d c p) (get c p))) l.
Definition upd (d : data) (corig : params) (l : list param) (c0 : params) : params :=
  fold_left (fun c p => set c p (outv d corig p)) l c0.

Lemma fold_inl d l e : fold_left (round_step d) l (inl e) = inl e.
Proof. induction l as [|p l IH]; simpl; auto. Qed.

Lemma round_fold d corig l : forall c0 ch0,
  NoDup l -> (forall p, In p l -> get c0 p = get corig p) ->
  fold_left (round_step d) l (inr (c0, ch0)) =
  match first_err d corig l with
  | Some e => inl e
  | None => inr (upd d corig l c0, ch0 || changed d corig l)
  end.
Proof.
  induction l as [|p l IH]; intros c0 ch0 ND Hget.
  - simpl. unfold changed. simpl. now rewrite orb_false_r.
  - inversion ND as [|? ? Hnin ND']; subst.
    simpl. rewrite (Hget p (or_introl eq_refl)).
    unfold outv, rv at 1. unfold rv.
    destruct (render d (get corig p)) as [v|k] eqn:E.
    + rewrite IH; [| exact ND' |].
      * destruct (first_err d corig l); [reflexivity|]. now rewrite orb_assoc.
      * intros q Hq. rewrite get_set_other; [apply Hget; now right|].
        intros ->. contradiction.
    + apply fold_inl.
Qed.

Lemma round_spec d l c : NoDup l ->
  round l d c = match first_err d c l with
                | Some e => inl e
                | None => inr (upd d c l c, changed d c l)
                end.
Proof. intros ND. unfold round. rewrite (round_fold d c l c false ND); auto. Qed.

Lemma get_upd d corig l : forall c0 q,
  get (upd d corig l c0) q = if in_dec param_dec q l then outv d corig q else get c0 q.
Proof.
  induction l as [|p l IH]; intros c0 q; simpl; [reflexivity|].
  unfold upd in *. simpl. rewrite IH.
  destruct (in_dec param_dec q l) as [Hin|Hnin].
  - destruct (param_dec p q); reflexivity.
  - destruct (param_dec p q) as [->|Hne].
    + apply get_set_same.
    + now apply get_set_other.
Qed.

Lemma get_upd_full d c l q : (forall p, In p l) -> get (upd d c l c) q = outv d c q.
Proof. intros F. rewrite get_upd. destruct (in_dec param_dec q l) as [|N]; [reflexivity | destruct (N (F q))]. Qed.

Lemma first_err_none d c l :
  first_err d c l = None <-> forall p, In p l -> exists v, rv d c p = ROk v.
Proof.
  induction l as [|p l IH]; simpl.
  - split; [intros _ q [] | reflexivity].
  - destruct (rv d c p) as [v|k] eqn:E.
    + rewrite IH. split.
      * intros H q [<-|Hq]; [eauto | auto].
      * intros H q Hq. apply H. now right.
    + split; [discriminate|]. intros H. destruct (H p (or_introl eq_refl)) as [v Hv]. congruence.
Qed.
Lemma first_err_some d c l e : first_err d c l = Some e -> exists p k, e = TemplateError p k /\ In p l /\ rv d c p = RErr k.
Proof.
  induction l as [|p l IH]; simpl; [discriminate|].
  destruct (rv d c p) as [v|k] eqn:E.
  - intros H. destruct (IH H) as (q & k & -> & Hq & Hr). exists q, k. auto.
  - intros [= <-]. exists p, k. auto.
Qed.

Lemma changed_false d c l :
  changed d c l = false <-> forall p, In p l -> outv d c p = get c p.
Proof.
  unfold changed. induction l as [|p l IH]; simpl.
  - split; [intros _ q [] | reflexivity].
  - rewrite orb_false_iff, IH, negb_false_iff, seqb_eq. split.
    + intros [H1 H2] q [<-|Hq]; auto.
    + intros H. split; [apply H; now left | intros q Hq; apply H; now right].
Qed.
Lemma changed_true d c l :
  changed d c l = true <-> exists p, In p l /\ outv d c p <> get c p.
Proof.
  unfold changed. rewrite existsb_exists. split.
  - intros (p & Hp & H). exists p. split; [exact Hp|]. apply negb_true_iff, seqb_neq in H. exact H.
  - intros (p & Hp & H). exists p. split; [exact Hp|]. apply negb_true_iff, seqb_neq. exact H.
Qed.

(* ------------------------------------------------------------------ order independence *)
Inductive round_equiv : err + params * bool -> err + params * bool -> Prop :=
| re_ok x : round_equiv (inr x) (inr x)
| re_err p k p' k' : round_equiv (inl (TemplateError p k)) (inl (TemplateError p' k')).

Lemma round_order_indep d c l1 l2 :
  valid_order l1 -> valid_order l2 -> round_equiv (round l1 d c) (round l2 d c).
Proof.
  intros [ND1 F1] [ND2 F2]. rewrite !round_spec by assumption.
  destruct (first_err d c l1) as [e1|] eqn:E1, (first_err d c l2) as [e2|] eqn:E2.
  - destruct (first_err_some _ _ _ _ E1) as (p & k & -> & _).
    destruct (first_err_some _ _ _ _ E2) as (p' & k' & -> & _). constructor.
  - destruct (first_err_some _ _ _ _ E1) as (p & k & -> & _ & Hr).
    destruct (proj1 (first_err_none d c l2) E2 p (F2 p)) as [v Hv]. congruence.
  - destruct (first_err_some _ _ _ _ E2) as (p & k & -> & _ & Hr).
    destruct (proj1 (first_err_none d c l1) E1 p (F1 p)) as [v Hv]. congruence.
  - assert (Hu : upd d c l1 c = upd d c l2 c).
    { apply params_ext. intros q. now rewrite !get_upd_full. }
    assert (Hc : changed d c l1 = changed d c l2).
    { destruct (changed d c l2) eqn:C2.
      - apply changed_true in C2. destruct C2 as (p & _ & H). apply changed_true. exists p. auto.
      - apply changed_false. intros p _. eapply (proj1 (changed_false d c l2)); eauto. }
    rewrite Hu, Hc. constructor.
Qed.

Inductive res_equiv : result -> result -> Prop :=
| rq_ok c : res_equiv (Ok c) (Ok c)
| rq_inf : res_equiv (Err InfiniteLoop) (Err InfiniteLoop)
| rq_tmpl p k p' k' : res_equiv (Err (TemplateError p k)) (Err (TemplateError p' k')).

Lemma loop_order_indep d o1 o2 :
  (forall k, valid_order (o1 k)) -> (forall k, valid_order (o2 k)) ->
  forall n c, res_equiv (loop n o1 d c) (loop n o2 d c).
Proof.
  intros V1 V2. induction n as [|n IH]; intros c; simpl; [constructor|].
  pose proof (round_order_indep d c (o1 n) (o2 n) (V1 n) (V2 n)) as H.
  inversion H as [[c' [|]] Ha Hb | p k p' k' Ha Hb]; [apply IH | constructor | constructor].
Qed.

(* ------------------------------------------------------------------ the loop *)
Lemma loop_count_spec d o : forall n c,
  let '(r, k) := loop_count n o d c in
  r = loop n o d c /\ k <= n /\ (r = Err InfiniteLoop -> k = n) /\ (n <> 0 -> 1 <= k).
Proof.
  induction n as [|n IH]; intros c; simpl.
  - repeat split; auto. congruence.
  - destruct (round (o n) d c) as [e|[c' [|]]] eqn:R.
    + repeat split; auto; try lia.
      intros [= ->]. exfalso. unfold round in R.
      assert (forall l acc, (forall e, acc <> inl e \/ exists p k, acc = inl (TemplateError p k)) ->
                fold_left (round_step d) l acc <> inl InfiniteLoop) as G.
      { induction l as [|p l IHl]; intros acc Hacc; simpl.
        - destruct (Hacc InfiniteLoop) as [H|(p & k & ->)]; [exact H | discriminate].
        - apply IHl. intros e. destruct acc as [e0|[c0 ch0]]; simpl.
          + destruct (Hacc e0) as [H|(q & k & ->)]; [congruence | right; eauto].
          + destruct (render d (get c0 p)); [left; discriminate | right; eauto]. }
      apply (G (o n) (inr (c, false))); [|exact R]. intros e. left. discriminate.
    + specialize (IH c'). destruct (loop_count n o d c') as [r k].
      destruct IH as (H1 & H2 & H3 & H4). repeat split; auto; try lia.
    + repeat split; auto; try lia. discriminate.
Qed.

(* rendering is the identity on every value of a successful result *)
Lemma loop_ok_stable d o : (forall k, valid_order (o k)) ->
  forall n c c', loop n o d c = Ok c' -> forall p, render d (get c' p) = ROk (get c' p).
Proof.
  intros V. induction n as [|n IH]; intros c c' H p; simpl in H; [discriminate|].
  destruct (V n) as [ND F]. rewrite round_spec in H by exact ND.
  destruct (first_err d c (o n)) as [e|] eqn:E; [discriminate|].
  destruct (changed d c (o n)) eqn:C.
  - eapply IH; eassumption.
  - injection H as <-. rewrite get_upd_full by exact F.
    pose proof (proj1 (changed_false d c (o n)) C p (F p)) as Hs.
    destruct (proj1 (first_err_none d c (o n)) E p (F p)) as [v Hv].
    rewrite Hs. unfold outv in Hs. rewrite Hv in Hs. unfold rv in Hv. now rewrite Hv, Hs.
Qed.

(* canonical passes, without the stop test *)
Definition step1 (d : data) (c : params) := round all_params d c.
Fixpoint iter_rounds (d : data) (n : nat) (c : params) : option params :=
  match n with
  | 0 => Some c
  | S k => match step1 d c with inr (c', _) => iter_rounds d k c' | inl _ => None end
  end.

Lemma round_as_step1 d c l x : valid_order l -> step1 d c = inr x -> round l d c = inr x.
Proof.
  intros V H. pose proof (round_order_indep d c all_params l all_params_valid V) as Q.
  unfold step1 in H. rewrite H in Q. inversion Q. reflexivity.
Qed.

Lemma loop_unstable d o : (forall k, valid_order (o k)) ->
  forall n c,
  (forall m, m < n -> exists cm cm', iter_rounds d m c = Some cm /\ step1 d cm = inr (cm', true)) ->
  loop n o d c = Err InfiniteLoop.
Proof.
  intros V. induction n as [|n IH]; intros c H; simpl; [reflexivity|].
  destruct (H 0 ltac:(lia)) as (c0 & c1 & H0 & H1). simpl in H0. injection H0 as <-.
  rewrite (round_as_step1 d c (o n) _ (V n) H1). apply IH.
  intros m Hm. destruct (H (S m) ltac:(lia)) as (cm & cm' & Ha & Hb).
  simpl in Ha. rewrite H1 in Ha. eauto.
Qed.

Lemma loop_infinite_inv d o : (forall k, valid_order (o k)) ->
  forall n c, loop n o d c = Err InfiniteLoop ->
  forall m, m < n -> exists cm cm', iter_rounds d m c = Some cm /\ step1 d cm = inr (cm', true).
Proof.
  intros V. induction n as [|n IH]; intros c H m Hm; [lia|]. simpl in H.
  pose proof (round_order_indep d c all_params (o n) all_params_valid (V n)) as Q.
  destruct (round (o n) d c) as [e|[c' [|]]] eqn:R.
  - injection H as ->. inversion Q.
  - inversion Q as [x Ha Hb|]; subst. destruct m as [|m].
    + exists c, c'. split; [reflexivity | unfold step1; congruence].
    + destruct (IH c' H m ltac:(lia)) as (cm & cm' & Ha' & Hb'). exists cm, cm'.
      split; [|exact Hb']. simpl. unfold step1. rewrite <- Ha. exact Ha'.
  - discriminate.
Qed.

(* ------------------------------------------------------------------ full expansion *)
(* [expands d n v w]: rendering v again and again changes it n times and then stops at w *)
Inductive expands (d : data) : nat -> str -> str -> Prop :=
| exp_done v : render d v = ROk v -> expands d 0 v v
| exp_step n v v' w : render d v = ROk v' -> v' <> v -> expands d n v' w -> expands d (S n) v w.

Lemma expands_det d n v w : expands d n v w -> forall n' w', expands d n' v w' -> n = n' /\ w = w'.
Proof.
  induction 1 as [v Hv | n v v' w Hv Hne Hx IH]; intros n' w' H'.
  - inversion H' as [? Hv' | ? ? v2 ? Hv' Hne' Hx']; subst; [auto|]. congruence.
  - inversion H' as [? Hv' | n2 ? v2 ? Hv' Hne' Hx']; subst; [congruence|].
    assert (v2 = v') by congruence. subst. destruct (IH _ _ Hx') as [-> ->]. auto.
Qed.

Lemma expands_outv d c p n w : expands d n (get c p) w ->
  rv d c p = ROk (outv d c p) /\
  match n with
  | 0 => outv d c p = get c p /\ w = get c p
  | S m => outv d c p <> get c p /\ expands d m (outv d c p) w
  end.
Proof.
  intros H. unfold outv, rv. inversion H as [v Hv Ha Hb | m v v' w' Hv Hne Hx Ha Hb]; subst.
  - rewrite Hv. auto.
  - rewrite Hv. auto.
Qed.

Lemma loop_expands d o : (forall k, valid_order (o k)) ->
  forall n c w (N : param -> nat),
  (forall p, expands d (N p) (get c p) (get w p)) -> (forall p, N p < n) ->
  loop n o d c = Ok w.
Proof.
  intros V. induction n as [|n IH]; intros c w N HX HN; [specialize (HN PDir); lia|].
  simpl. destruct (V n) as [ND F]. rewrite round_spec by exact ND.
  assert (E : first_err d c (o n) = None).
  { apply first_err_none. intros p _. destruct (expands_outv d c p _ _ (HX p)) as [H _]. eauto. }
  rewrite E. destruct (changed d c (o n)) eqn:C.
  - apply changed_true in C. destruct C as (q & _ & Hq).
    assert (Hq1 : 1 <= N q).
    { destruct (expands_outv d c q _ _ (HX q)) as [_ H]. destruct (N q); [destruct H; congruence | lia]. }
    apply (IH _ w (fun p => pred (N p))).
    + intros p. rewrite get_upd_full by exact F.
      destruct (expands_outv d c p _ _ (HX p)) as [Hr H]. destruct (N p) as [|m]; simpl.
      * destruct H as [H1 H2]. rewrite H1, H2. constructor. unfold rv in Hr. now rewrite H1 in Hr.
      * apply H.
    + intros p. pose proof (HN p). pose proof (HN q). lia.
  - f_equal. apply params_ext. intros p. rewrite get_upd_full by exact F.
    pose proof (proj1 (changed_false d c (o n)) C p (F p)) as Hs.
    destruct (expands_outv d c p _ _ (HX p)) as [_ H]. destruct (N p).
    + destruct H as [_ ->]. exact Hs.
    + destruct H. congruence.
Qed.

Lemma loop_ok_expands d o : (forall k, valid_order (o k)) ->
  forall n c w, loop n o d c = Ok w ->
  forall p, exists m, m < n /\ expands d m (get c p) (get w p).
Proof.
  intros V. induction n as [|n IH]; intros c w H p; simpl in H; [discriminate|].
  destruct (V n) as [ND F]. rewrite round_spec in H by exact ND.
  destruct (first_err d c (o n)) as [e|] eqn:E; [discriminate|].
  destruct (proj1 (first_err_none d c (o n)) E p (F p)) as [v Hv].
  assert (Ho : outv d c p = v) by (unfold outv; now rewrite Hv).
  destruct (changed d c (o n)) eqn:C.
  - destruct (IH _ _ H p) as (m & Hm & Hx). rewrite get_upd_full in Hx by exact F. rewrite Ho in Hx.
    destruct (str_dec v (get c p)) as [Heq|Hne].
    + exists m. split; [lia|]. now rewrite <- Heq.
    + exists (S m). split; [lia|]. econstructor; eauto.
  - injection H as <-. exists 0. split; [lia|]. rewrite get_upd_full by exact F.
    pose proof (proj1 (changed_false d c (o n)) C p (F p)) as Hs. rewrite Hs.
    constructor. rewrite Ho in Hs. unfold rv in Hv. now rewrite Hv, Hs.
Qed.

Lemma loop_too_deep d o : (forall k, valid_order (o k)) ->
  forall n c (N : param -> nat) (W : param -> str),
  (forall p, expands d (N p) (get c p) (W p)) -> (exists p, n <= N p) ->
  loop n o d c = Err InfiniteLoop.
Proof.
  intros V. induction n as [|n IH]; intros c N W HX [q Hq]; [reflexivity|].
  simpl. destruct (V n) as [ND F]. rewrite round_spec by exact ND.
  assert (E : first_err d c (o n) = None).
  { apply first_err_none. intros p _. destruct (expands_outv d c p _ _ (HX p)) as [H _]. eauto. }
  rewrite E.
  assert (C : changed d c (o n) = true).
  { apply changed_true. exists q. split; [apply F|].
    destruct (expands_outv d c q _ _ (HX q)) as [_ H]. destruct (N q); [lia | apply H]. }
  rewrite C. apply (IH _ (fun p => pred (N p)) W).
  - intros p. rewrite get_upd_full by exact F.
    destruct (expands_outv d c p _ _ (HX p)) as [Hr H]. destruct (N p) as [|m] eqn:EN; simpl.
    + destruct H as [H1 H2]. rewrite H1, H2. constructor. unfold rv in Hr. now rewrite H1 in Hr.
    + apply H.
  - exists q. lia.
Qed.

(* ------------------------------------------------------------------ the parser on text
   without the delimiter, and on escaped values *)
Lemma scan_text_nodelim : forall s acc out,
  has_delim s = false -> scan (SText acc) out s = (rev (RText (rev acc ++ s) :: out), Fin).
Proof.
  induction s as [|x r IH]; intros acc out H.
  - simpl. now rewrite app_nil_r.
  - simpl in H. apply orb_false_iff in H. destruct H as [H1 H2].
    simpl scan. destruct (beqb x c_lbrace) eqn:Ex.
    + destruct r as [|y r'].
      * reflexivity.
      * simpl in H1. rewrite H1. rewrite IH by exact H2. simpl. now rewrite <- app_assoc.
    + rewrite IH by exact H2. simpl. now rewrite <- app_assoc.
Qed.

Lemma render_nodelim d s : has_delim s = false -> render d s = ROk s.
Proof.
  intros H. unfold render, parse. rewrite scan_text_nodelim by exact H. simpl.
  now rewrite app_nil_r.
Qed.

(* what the scanner produces for [quote w] *)
Fixpoint qraw (acc w : str) : list raw :=
  match w with
  | [] => [RText (rev acc)]
  | x :: r => if beqb x c_lbrace && match r with y :: _ => beqb y c_lbrace | [] => false end
              then RText (rev acc) :: RAction [TStr [c_lbrace]] :: qraw [] r
              else qraw (x :: acc) r
  end.

Lemma scan_qbrace acc out s :
  scan (SText acc) out (qbrace ++ s) = scan (SText []) (RAction [TStr [c_lbrace]] :: RText (rev acc) :: out) s.
Proof. reflexivity. Qed.

Lemma scan_quote : forall w acc out, scan (SText acc) out (quote w) = (rev out ++ qraw acc w, Fin).
Proof.
  induction w as [|x r IH]; intros acc out.
  - reflexivity.
  - cbn [quote qraw].
    destruct (beqb x c_lbrace && match r with y :: _ => beqb y c_lbrace | [] => false end) eqn:E.
    + rewrite scan_qbrace, IH. simpl. now rewrite <- !app_assoc.
    + change ([x] ++ quote r) with (x :: quote r). cbn [scan].
      destruct (beqb x c_lbrace) eqn:Ex; [|apply IH].
      destruct r as [|y r']; [apply IH|].
      simpl in E. cbn [quote]. cbn [quote] in IH.
      destruct (beqb y c_lbrace && match r' with y0 :: _ => beqb y0 c_lbrace | [] => false end) eqn:E2.
      * (* y = "{" would contradict E *) apply andb_true_iff in E2. destruct E2 as [E2 _]. congruence.
      * change ([y] ++ quote r') with (y :: quote r'). cbv iota. rewrite E.
        exact (IH (x :: acc) out).
Qed.

Lemma qraw_exec d : forall w acc, exists t, parse_pieces (qraw acc w) = POk t /\ exec d t = Some (rev acc ++ w).
Proof.
  induction w as [|x r IH]; intros acc.
  - exists [Lit (rev acc)]. split; [reflexivity|]. simpl. now rewrite !app_nil_r.
  - cbn [qraw].
    destruct (beqb x c_lbrace && match r with y :: _ => beqb y c_lbrace | [] => false end) eqn:E.
    + destruct (IH []) as (t & Ht & Hx).
      exists (Lit (rev acc) :: Action [{| c_head := HArg (AStr [c_lbrace]); c_args := [] |}] :: t).
      split.
      * cbn [parse_pieces parse_piece]. change (parse_cmds true [TStr [c_lbrace]] None [])
          with (@POk (list cmd) [{| c_head := HArg (AStr [c_lbrace]); c_args := [] |}]). now rewrite Ht.
      * cbn [exec]. rewrite Hx. simpl.
        apply andb_true_iff in E. destruct E as [E _]. apply beqb_eq in E. now subst x.
    + destruct (IH (x :: acc)) as (t & Ht & Hx). exists t. split; [exact Ht|].
      rewrite Hx. simpl. now rewrite <- app_assoc.
Qed.

Lemma render_quote d w : render d (quote w) = ROk w.
Proof.
  unfold render, parse. rewrite scan_quote. simpl.
  destruct (qraw_exec d w []) as (t & Ht & Hx). now rewrite Ht, Hx.
Qed.

Lemma has_delim_app a b : has_delim b = true -> has_delim (a ++ b) = true.
Proof.
  intros H. induction a as [|x a IH]; [exact H|]. simpl. rewrite IH. apply orb_true_r.
Qed.
Lemma has_delim_quote w : has_delim w = true -> has_delim (quote w) = true.
Proof.
  induction w as [|x r IH]; [discriminate|]. intros H. cbn [quote].
  simpl in H.
  destruct (beqb x c_lbrace && match r with y :: _ => beqb y c_lbrace | [] => false end) eqn:E.
  - reflexivity.
  - simpl in H. apply has_delim_app. auto.
Qed.
Lemma length_quote w : length w <= length (quote w) /\ (has_delim w = true -> length w < length (quote w)).
Proof.
  induction w as [|x r [IH1 IH2]]; [split; [auto | discriminate]|].
  cbn [quote has_delim].
  destruct (beqb x c_lbrace && match r with y :: _ => beqb y c_lbrace | [] => false end) eqn:E;
    rewrite app_length; simpl; split; try lia.
  intros H. specialize (IH2 H). lia.
Qed.
Lemma quote_neq w : has_delim w = true -> quote w <> w.
Proof. intros H E. destruct (length_quote w) as [_ L]. specialize (L H). rewrite E in L. lia. Qed.
Lemma has_delim_quote_n n w : has_delim w = true -> has_delim (quote_n n w) = true.
Proof. intros H. induction n; simpl; [exact H | now apply has_delim_quote]. Qed.

(* escaping n times adds exactly n passes *)
Lemma expands_quote_n d v w k : has_delim v = true -> expands d k v w ->
  forall n, expands d (n + k) (quote_n n v) w.
Proof.
  intros Hd Hx. induction n as [|n IH]; [exact Hx|]. simpl.
  eapply exp_step; [apply render_quote | | exact IH].
  intros E. symmetry in E. revert E. apply quote_neq. now apply has_delim_quote_n.
Qed.

(* ------------------------------------------------------------------ paths *)
Definition no_slash (c : str) : Prop := forallb (fun b => negb (beqb b c_slash)) c = true.
(* an ordinary path component *)
Definition plain (c : str) : Prop := c <> [] /\ no_slash c /\ c <> B "." /\ c <> B "..".
(* ... that also contains no blank (pathlib trims blanks at both ends of a path) *)
Definition tidy (c : str) : Prop := plain c /\ forallb (fun b => negb (is_go_space b)) c = true.

Lemma split_on_nosep c : forall w acc, forallb (fun b => negb (beqb b c)) w = true ->
  split_on c acc w = [rev acc ++ w].
Proof.
  induction w as [|x w IH]; intros acc H; simpl.
  - now rewrite app_nil_r.
  - simpl in H. apply andb_true_iff in H. destruct H as [H1 H2]. apply negb_true_iff in H1.
    rewrite H1, IH by exact H2. simpl. now rewrite <- app_assoc.
Qed.
Lemma split_on_app c : forall w acc r, forallb (fun b => negb (beqb b c)) w = true ->
  split_on c acc (w ++ c :: r) = (rev acc ++ w) :: split_on c [] r.
Proof.
  induction w as [|x w IH]; intros acc r H; simpl.
  - assert (E : beqb c c = true) by now apply beqb_eq. now rewrite E, app_nil_r.
  - simpl in H. apply andb_true_iff in H. destruct H as [H1 H2]. apply negb_true_iff in H1.
    rewrite H1, IH by exact H2. simpl. now rewrite <- app_assoc.
Qed.

Lemma split_join comps : Forall no_slash comps -> comps <> [] ->
  split_slash (join_with (B "/") comps) = comps.
Proof.
  unfold split_slash. induction comps as [|x t IH]; intros HF HN; [congruence|].
  inversion HF as [|? ? Hx Ht]; subst. destruct t as [|y t'].
  - simpl. now rewrite split_on_nosep.
  - change (join_with (B "/") (x :: y :: t')) with (x ++ c_slash :: join_with (B "/") (y :: t')).
    rewrite split_on_app by exact Hx. simpl rev. rewrite app_nil_l. f_equal. apply IH; [exact Ht | discriminate].
Qed.

Lemma join_snoc comps name : comps <> [] ->
  join_with (B "/") (comps ++ [name]) = join_with (B "/") comps ++ c_slash :: name.
Proof.
  induction comps as [|x t IH]; intros HN; [congruence|]. destruct t as [|y t'].
  - reflexivity.
  - change ((x :: y :: t') ++ [name]) with (x :: (y :: t') ++ [name]).
    change (join_with (B "/") (x :: (y :: t') ++ [name])) with (x ++ c_slash :: join_with (B "/") ((y :: t') ++ [name])).
    rewrite IH by discriminate.
    change (join_with (B "/") (x :: y :: t')) with (x ++ c_slash :: join_with (B "/") (y :: t')).
    now rewrite <- app_assoc.
Qed.

Lemma split_abs comps : Forall no_slash comps ->
  split_slash (abs_of comps) = [] :: match comps with [] => [[]] | _ => comps end.
Proof.
  intros HF. unfold abs_of, split_slash. simpl. f_equal. destruct comps as [|x t]; [reflexivity|].
  apply split_join; [exact HF | discriminate].
Qed.

Lemma plain_no_slash comps : Forall plain comps -> Forall no_slash comps.
Proof. intros H. eapply Forall_impl; [|exact H]. intros c (_ & Hc & _). exact Hc. Qed.

Lemma clean_step_plain r st c : plain c -> clean_step r st c = c :: st.
Proof.
  intros (H0 & _ & H1 & H2). unfold clean_step.
  assert (E0 : seqb c [] = false) by now apply seqb_neq.
  assert (E1 : seqb c (B ".") = false) by now apply seqb_neq.
  assert (E2 : seqb c (B "..") = false) by now apply seqb_neq.
  now rewrite E0, E1, E2.
Qed.
Lemma clean_fold_plain r : forall comps st, Forall plain comps ->
  fold_left (clean_step r) comps st = rev comps ++ st.
Proof.
  induction comps as [|c t IH]; intros st HF; [reflexivity|].
  inversion HF as [|? ? Hc Ht]; subst. simpl. rewrite clean_step_plain by exact Hc.
  rewrite IH by exact Ht. now rewrite <- app_assoc.
Qed.

Lemma clean_comps_rooted comps : Forall plain comps -> clean_comps true ([] :: comps) = abs_of comps.
Proof.
  intros HF. unfold clean_comps. simpl fold_left. change (clean_step true [] []) with (@nil str).
  rewrite clean_fold_plain by exact HF. now rewrite app_nil_r, rev_involutive.
Qed.

Lemma abs_snoc comps name : comps <> [] -> abs_of (comps ++ [name]) = abs_of comps ++ c_slash :: name.
Proof. intros HN. unfold abs_of. now rewrite join_snoc. Qed.

(* the directory of a file /c1/../cn/name is /c1/../cn *)
Lemma dir_abs comps name : Forall plain comps -> plain name ->
  f_dir (abs_of (comps ++ [name])) = abs_of comps.
Proof.
  intros HF Hn. unfold f_dir.
  assert (HF' : Forall plain (comps ++ [name])) by (apply Forall_app; auto).
  rewrite split_abs by now apply plain_no_slash.
  change (rooted (abs_of (comps ++ [name]))) with true.
  destruct (comps ++ [name]) as [|z zs] eqn:Ez; [destruct comps; discriminate|].
  rewrite <- Ez. change ([] :: comps ++ [name]) with (([] :: comps) ++ [name]).
  rewrite removelast_last. now apply clean_comps_rooted.
Qed.

Lemma clean_abs comps : Forall plain comps -> f_clean (abs_of comps) = abs_of comps.
Proof.
  intros HF. unfold f_clean. rewrite split_abs by now apply plain_no_slash.
  change (rooted (abs_of comps)) with true. destruct comps as [|x t].
  - reflexivity.
  - now apply clean_comps_rooted.
Qed.

(* relative paths: the directory of c1/../cn/name is c1/../cn, and "." for a bare name *)
Lemma rooted_join_plain comps : Forall plain comps -> rooted (join_with (B "/") comps) = false.
Proof.
  intros HF. destruct comps as [|x t]; [reflexivity|]. inversion HF as [|? ? (H0 & Hs & _) _]; subst.
  destruct x as [|b x']; [congruence|]. unfold no_slash in Hs. simpl in Hs.
  apply andb_true_iff in Hs. destruct Hs as [Hb _]. apply negb_true_iff in Hb.
  destruct t; simpl; exact Hb.
Qed.
Lemma dir_rel comps name : Forall plain comps -> plain name ->
  f_dir (join_with (B "/") (comps ++ [name])) = match comps with [] => B "." | _ => join_with (B "/") comps end.
Proof.
  intros HF Hn. unfold f_dir.
  assert (HF' : Forall plain (comps ++ [name])) by (apply Forall_app; auto).
  rewrite rooted_join_plain by exact HF'.
  rewrite split_join; [| now apply plain_no_slash | destruct comps; discriminate].
  rewrite removelast_last. unfold clean_comps. rewrite clean_fold_plain by exact HF.
  rewrite app_nil_r, rev_involutive. destruct comps as [|x t]; [reflexivity|].
  destruct (join_with (B "/") (x :: t)) eqn:E; [|reflexivity].
  exfalso. inversion HF as [|? ? (H0 & _) _]; subst. destruct t; simpl in E.
  - congruence.
  - apply app_eq_nil in E. destruct E. congruence.
Qed.

(* pathlib Parts of a tidy absolute path *)
Lemma drop_while_head f (s : str) : match s with b :: _ => f b = false | [] => True end -> drop_while f s = s.
Proof. destruct s as [|b s]; simpl; [reflexivity|]. now intros ->. Qed.

Lemma last_tidy comps : Forall tidy comps -> comps <> [] ->
  exists pre b, rev (abs_of comps) = b :: pre /\ is_go_space b = false /\ beqb b c_slash = false.
Proof.
  intros HF HN. destruct (exists_last HN) as (init & lastc & ->).
  apply Forall_app in HF. destruct HF as [_ HL]. inversion HL as [|? ? ((H0 & Hs & _) & Hsp) _]; subst.
  destruct (exists_last H0) as (ci & b & ->).
  unfold abs_of. destruct init as [|i0 it].
  - simpl. exists (rev ci ++ [c_slash]), b. rewrite rev_app_distr. simpl. split; [reflexivity|].
    rewrite forallb_app in Hsp. simpl in Hsp. unfold no_slash in Hs. rewrite forallb_app in Hs. simpl in Hs.
    apply andb_true_iff in Hsp. destruct Hsp as [_ Hsp]. apply andb_true_iff in Hs. destruct Hs as [_ Hs].
    rewrite andb_true_r in *. apply negb_true_iff in Hsp, Hs. auto.
  - rewrite join_snoc by discriminate.
    exists (rev ci ++ c_slash :: rev (join_with (B "/") (i0 :: it)) ++ [c_slash]), b.
    split.
    + change (c_slash :: join_with (B "/") (i0 :: it) ++ c_slash :: ci ++ [b])
        with ((c_slash :: join_with (B "/") (i0 :: it)) ++ c_slash :: ci ++ [b]).
      rewrite rev_app_distr. change (c_slash :: ci ++ [b]) with ((c_slash :: ci) ++ [b]).
      rewrite rev_app_distr. simpl. now rewrite <- !app_assoc.
    + rewrite forallb_app in Hsp. simpl in Hsp. unfold no_slash in Hs. rewrite forallb_app in Hs. simpl in Hs.
      apply andb_true_iff in Hsp. destruct Hsp as [_ Hsp]. apply andb_true_iff in Hs. destruct Hs as [_ Hs].
      rewrite andb_true_r in *. apply negb_true_iff in Hsp, Hs. auto.
Qed.

Lemma drop_rev_id f (s : str) b pre : rev s = b :: pre -> f b = false -> rev (drop_while f (rev s)) = s.
Proof. intros Hr Hb. rewrite Hr. simpl. rewrite Hb. now rewrite <- Hr, rev_involutive. Qed.

Lemma trim_suffix_slash_id (s : str) b pre : rev s = b :: pre -> beqb b c_slash = false ->
  trim_suffix (B "/") s = s.
Proof.
  intros Hr Hb. unfold trim_suffix, trim_prefix. rewrite Hr.
  simpl has_prefix.
  assert (E : beqb c_slash b = false).
  { destruct (beqb c_slash b) eqn:E; [|reflexivity]. apply beqb_eq in E. subst b.
    assert (beqb c_slash c_slash = true) by now apply beqb_eq. congruence. }
  change (beqb "/" b) with (beqb c_slash b). rewrite E. cbn [andb]. now rewrite <- Hr, rev_involutive.
Qed.

Lemma norm_abs comps : Forall tidy comps -> norm_path (abs_of comps) = abs_of comps.
Proof.
  intros HF. destruct comps as [|x t].
  - reflexivity.
  - destruct (last_tidy (x :: t) HF ltac:(discriminate)) as (pre & b & Hr & Hsp & Hsl).
    unfold norm_path, trim_space.
    change (drop_while is_go_space (abs_of (x :: t))) with (abs_of (x :: t)).
    rewrite (drop_rev_id is_go_space _ b pre Hr Hsp).
    change (trim_prefix (B "./") (abs_of (x :: t))) with (abs_of (x :: t)).
    assert (E2 : beqb b x20 = false).
    { destruct (beqb b x20) eqn:E; [|reflexivity]. apply beqb_eq in E. subst. discriminate. }
    rewrite (drop_rev_id (fun b0 => beqb b0 x20) _ b pre Hr E2).
    destruct (1 <? length (abs_of (x :: t))); [|reflexivity].
    exact (trim_suffix_slash_id _ b pre Hr Hsl).
Qed.

Lemma tidy_plain comps : Forall tidy comps -> Forall plain comps.
Proof. intros H. eapply Forall_impl; [|exact H]. now intros c [Hc _]. Qed.

Lemma filter_nonempty_plain comps : Forall plain comps -> filter nonempty comps = comps.
Proof.
  induction 1 as [|c t (H0 & _) _ IH]; [reflexivity|]. simpl. destruct c; [congruence|]. simpl. now rewrite IH.
Qed.

Lemma parts_abs comps : Forall tidy comps -> parts (abs_of comps) = B "/" :: comps.
Proof.
  intros HF. unfold parts. rewrite norm_abs by exact HF. change (rooted (abs_of comps)) with true.
  rewrite split_abs by (apply plain_no_slash, tidy_plain, HF). simpl. f_equal.
  destruct comps as [|x t]; [reflexivity|]. apply filter_nonempty_plain, tidy_plain, HF.
Qed.

Lemma strip_parts_app a b : strip_parts a (a ++ b) = Some b.
Proof. induction a as [|x a IH]; [reflexivity|]. simpl. now rewrite seqb_refl. Qed.

(* a directory below the working directory, relative to it *)
Lemma rel_to_below cw rel : Forall tidy cw -> Forall tidy rel ->
  rel_to (abs_of (cw ++ rel)) (abs_of cw) = Some (match rel with [] => B "." | _ => join_with (B "/") rel end).
Proof.
  intros H1 H2. unfold rel_to. rewrite !parts_abs; [| apply Forall_app; auto | exact H1].
  change (B "/" :: cw ++ rel) with ((B "/" :: cw) ++ rel). rewrite strip_parts_app. now destruct rel.
Qed.

(* ------------------------------------------------------------------ config search *)
Lemma find_first {A} (f : A -> bool) : forall l x, find f l = Some x ->
  exists l1 l2, l = l1 ++ x :: l2 /\ f x = true /\ forallb (fun y => negb (f y)) l1 = true.
Proof.
  induction l as [|y l IH]; intros x H; [discriminate|]. simpl in H. destruct (f y) eqn:E.
  - injection H as <-. exists [], l. auto.
  - destruct (IH x H) as (l1 & l2 & -> & Hx & Hl). exists (y :: l1), l2. simpl. rewrite E. auto.
Qed.

Lemma ancestors_abs comps : Forall plain comps -> ancestors (abs_of comps) = map abs_of (rev (prefixes comps)).
Proof.
  intros HF. unfold ancestors. rewrite split_abs by now apply plain_no_slash. simpl.
  destruct comps as [|x t]; [reflexivity|]. now rewrite filter_nonempty_plain.
Qed.

Lemma in_prefixes {A} (l : list A) : forall pre, In pre (prefixes l) -> pre <> [] /\ exists suf, l = pre ++ suf.
Proof.
  induction l as [|x t IH]; intros pre H; [destruct H|]. simpl in H. destruct H as [<-|H].
  - split; [discriminate | now exists t].
  - apply in_map_iff in H. destruct H as (q & <- & Hq). destruct (IH q Hq) as [_ [suf ->]].
    split; [discriminate | now exists suf].
Qed.

Lemma candidates_shape comps p : Forall plain comps -> In p (candidates (abs_of comps)) ->
  exists pre suf name, comps = pre ++ suf /\ pre <> [] /\ In name conf_names /\ p = abs_of (pre ++ [name]).
Proof.
  intros HF H. unfold candidates in H. rewrite ancestors_abs in H by exact HF.
  apply in_flat_map in H. destruct H as (a & Ha & Hp). apply in_map_iff in Ha. destruct Ha as (pre & <- & Hpre).
  apply in_rev in Hpre. destruct (in_prefixes _ _ Hpre) as [Hne [suf ->]].
  apply in_map_iff in Hp. destruct Hp as (name & <- & Hname).
  exists pre, suf, name. repeat split; auto. rewrite abs_snoc by exact Hne. reflexivity.
Qed.

Lemma conf_names_plain name : In name conf_names -> plain name.
Proof.
  intros [<-|[<-|[]]]; (split; [discriminate | split; [reflexivity | split; discriminate]]).
Qed.

Lemma flat_map_ext_in {A B} (f g : A -> list B) l : (forall a, In a l -> f a = g a) -> flat_map f l = flat_map g l.
Proof.
  induction l as [|a l IH]; intros H; [reflexivity|]. simpl. rewrite (H a (or_introl eq_refl)), IH; [reflexivity|].
  intros b Hb. apply H. now right.
Qed.

(* the files FindConfig looks at, in order: nearest directory first, .yaml before .yml *)
Lemma candidates_order comps : Forall plain comps ->
  candidates (abs_of comps) =
  flat_map (fun pre => [abs_of (pre ++ [B ".mockery.yaml"]); abs_of (pre ++ [B ".mockery.yml"])]) (rev (prefixes comps)).
Proof.
  intros HF. unfold candidates. rewrite ancestors_abs by exact HF. rewrite flat_map_concat_map, map_map, <- flat_map_concat_map.
  apply flat_map_ext_in. intros pre Hpre. apply in_rev in Hpre. destruct (in_prefixes _ _ Hpre) as [Hne _].
  simpl. now rewrite !abs_snoc by exact Hne.
Qed.

Lemma search_spec is_file comps p : Forall plain comps ->
  find_config is_file (abs_of comps) = Some p ->
  exists pre suf name before after,
    comps = pre ++ suf /\ pre <> [] /\ In name conf_names /\ p = abs_of (pre ++ [name]) /\
    is_file p = true /\ f_dir p = abs_of pre /\
    candidates (abs_of comps) = before ++ p :: after /\ forallb (fun q => negb (is_file q)) before = true.
Proof.
  intros HF H. unfold find_config in H. destruct (find_first _ _ _ H) as (l1 & l2 & Hl & Hp & Hb).
  assert (Hin : In p (candidates (abs_of comps))) by (rewrite Hl; apply in_elt).
  destruct (candidates_shape comps p HF Hin) as (pre & suf & name & -> & Hne & Hname & ->).
  exists pre, suf, name, l1, l2. repeat split; auto.
  apply dir_abs; [|now apply conf_names_plain]. apply Forall_app in HF. tauto.
Qed.

(* ------------------------------------------------------------------ bindings *)
Lemma bind_spec e sn :
  let d := bind e sn in
  StructName d = sn /\ SrcPackageName d = e_pkgname e /\ SrcPackagePath d = e_pkgpath e /\
  Template d = e_template e /\ ConfigDir d = f_dir (e_config e) /\
  match e_iface e with
  | Some i =>
      InterfaceName d = i_name i /\ InterfaceFile d = i_file i /\ InterfaceDir d = f_dir (i_file i) /\
      InterfaceDirRelative d = match rel_to (f_dir (i_file i)) (e_cwd e) with Some r => r | None => B "." end /\
      Mock d = (if exported (i_name i) then B "Mock" else B "mock")
  | None =>
      InterfaceName d = [] /\ InterfaceFile d = [] /\ InterfaceDir d = [] /\
      InterfaceDirRelative d = [] /\ Mock d = []
  end.
Proof. unfold bind. simpl. destruct (e_iface e); repeat split; reflexivity. Qed.

Lemma fields_spec d :
  field d (B "ConfigDir") = Some (ConfigDir d) /\ field d (B "InterfaceDir") = Some (InterfaceDir d) /\
  field d (B "InterfaceDirRelative") = Some (InterfaceDirRelative d) /\
  field d (B "InterfaceFile") = Some (InterfaceFile d) /\ field d (B "InterfaceName") = Some (InterfaceName d) /\
  field d (B "Mock") = Some (Mock d) /\ field d (B "StructName") = Some (StructName d) /\
  field d (B "SrcPackageName") = Some (SrcPackageName d) /\ field d (B "SrcPackagePath") = Some (SrcPackagePath d) /\
  field d (B "Template") = Some (Template d) /\
  forall f, ~ In f (map fst (fields d)) -> field d f = None.
Proof.
  repeat split; try reflexivity.
  intros f Hf. unfold field. induction (fields d) as [|[k v] l IH]; [reflexivity|]. simpl.
  destruct (seqb f k) eqn:E.
  - apply seqb_eq in E. subst. exfalso. apply Hf. now left.
  - apply IH. intros H. apply Hf. now right.
Qed.

Lemma exported_ascii b r : exported (b :: r) = true <->
  is_upper_ascii b = true \/ (b = xc3 /\ exists b2 r', r = b2 :: r' /\ in_range 128 158 b2 = true /\ b2 <> x97).
Proof.
  simpl. destruct (is_upper_ascii b) eqn:U; [tauto|].
  destruct (beqb b xc3) eqn:C.
  - apply beqb_eq in C. subst b. destruct r as [|b2 r'].
    + split; [discriminate|]. intros [H|[_ (b2 & r' & H & _)]]; discriminate.
    + rewrite andb_true_iff, negb_true_iff. split.
      * intros [H1 H2]. right. split; [reflexivity|]. exists b2, r'. repeat split; auto.
        intros ->. now compute in H2.
      * intros [H|[_ (b3 & r3 & [= <- <-] & H1 & H2)]]; [discriminate|]. split; [exact H1|].
        destruct (beqb b2 x97) eqn:E; [|reflexivity]. apply beqb_eq in E. contradiction.
  - split; [discriminate|]. intros [H|[-> _]]; [discriminate|]. now compute in C.
Qed.

(* a concrete layout: file /cw/rel/fname, working directory /cw, config /cfgdir/cfgname *)
Lemma bind_layout cw rel fname cfgdir cfgname name pkgn pkgp tmpl sn :
  Forall tidy cw -> Forall tidy rel -> plain fname -> Forall plain cfgdir -> plain cfgname ->
  let d := bind {| e_iface := Some {| i_name := name; i_file := abs_of ((cw ++ rel) ++ [fname]) |};
                   e_pkgname := pkgn; e_pkgpath := pkgp; e_template := tmpl;
                   e_config := abs_of (cfgdir ++ [cfgname]); e_cwd := abs_of cw |} sn in
  InterfaceDir d = abs_of (cw ++ rel) /\
  InterfaceDirRelative d = match rel with [] => B "." | _ => join_with (B "/") rel end /\
  ConfigDir d = abs_of cfgdir.
Proof.
  intros H1 H2 H3 H4 H5. simpl. unfold idr_of.
  assert (HP : Forall plain (cw ++ rel)) by (apply Forall_app; split; now apply tidy_plain).
  rewrite !dir_abs by assumption. rewrite rel_to_below by assumption. auto.
Qed.

(* a config path given relative to the working directory: ConfigDir is as given *)
Lemma bind_config_relative e sn cfgdir cfgname : Forall plain cfgdir -> plain cfgname ->
  e_config e = join_with (B "/") (cfgdir ++ [cfgname]) ->
  ConfigDir (bind e sn) = match cfgdir with [] => B "." | _ => join_with (B "/") cfgdir end.
Proof. intros H1 H2 E. simpl. rewrite E. now apply dir_rel. Qed.

(* ------------------------------------------------------------------ final forms *)
Lemma terminates o d c :
  exists r k, loop_count cap o d c = (r, k) /\ r = resolve o d c /\ 1 <= k /\ k <= cap /\
              (r = Err InfiniteLoop -> k = cap).
Proof.
  pose proof (loop_count_spec d o cap c) as H. destruct (loop_count cap o d c) as [r k].
  destruct H as (H1 & H2 & H3 & H4). exists r, k. repeat split; auto. apply H4. discriminate.
Qed.

Lemma cap_exact o d c n v w k : (forall j, valid_order (o j)) ->
  has_delim v = true -> expands d k v w ->
  (forall p, p <> PPkg -> has_delim (get c p) = false) -> get c PPkg = quote_n n v ->
  (n + k < cap -> resolve o d c = Ok (set c PPkg w)) /\
  (cap <= n + k -> resolve o d c = Err InfiniteLoop).
Proof.
  intros V Hd Hx Hothers Hpkg.
  assert (HX : forall p, expands d (if param_dec p PPkg then n + k else 0) (get c p) (get (set c PPkg w) p)).
  { intros p. destruct (param_dec p PPkg) as [->|Hne].
    - rewrite get_set_same, Hpkg. now apply expands_quote_n.
    - rewrite get_set_other by congruence. constructor. apply render_nodelim. now apply Hothers. }
  split; intros Hn; unfold resolve.
  - apply (loop_expands d o V cap c _ (fun p => if param_dec p PPkg then n + k else 0) HX).
    intros p. destruct (param_dec p PPkg); [exact Hn | unfold cap; lia].
  - apply (loop_too_deep d o V cap c (fun p => if param_dec p PPkg then n + k else 0) (get (set c PPkg w)) HX).
    exists PPkg. destruct (param_dec PPkg PPkg); [exact Hn | congruence].
Qed.

Lemma expands_mock d : Mock d = B "Mock" -> expands d 1 (B "{{.Mock}}") (B "Mock").
Proof.
  intros HM. eapply exp_step.
  - unfold render. change (parse (B "{{.Mock}}")) with
      (@POk tmpl [Lit []; Action [{| c_head := HArg (AField (B "Mock")); c_args := [] |}]; Lit []]).
    cbn [exec eval_pipe eval_cmd c_head c_args eval_arg].
    change (field d (B "Mock")) with (Some (Mock d)). rewrite HM. reflexivity.
  - discriminate.
  - constructor. reflexivity.
Qed.
