(* Which interfaces of which packages are mocked, and how often.   (C07)
   Mirrors internal/node_visitor.go (NodeVisitor.Visit), internal/parse.go (ParsePackages),
   config/config.go (RootConfig.Initialize, subPackages, Config.ShouldExcludeSubpkg,
   PackageConfig.ShouldGenerateInterface, PackageConfig.GetInterfaceConfig,
   InterfaceConfig.Initialize) and the selection loop of internal/cmd/mockery.go (Run),
   with the fixes fixes/c07-*.diff applied.  No proofs in this file.

   Go map iteration orders are explicit list arguments.  A nil pointer dereference is
   [Panic].  Regular expressions are Lib/Regex.v patterns; a string that does not compile
   is [ReBad] (regexp.MatchString returns an error). *)
From Mk Require Import Lib.Bytes Lib.Regex.

Inductive errkind := ErrBadRegex.
Inductive result (A : Type) := Ok (a : A) | Err (e : errkind) | Panic.
Arguments Ok {A} a.  Arguments Err {A} e.  Arguments Panic {A}.

Definition bind {A B} (x : result A) (f : A -> result B) : result B :=
  match x with Ok a => f a | Err e => Err e | Panic => Panic end.

(* ------------------------------------------------------------------ *)
(* Source packages                                                     *)

(* the syntactic form of the right-hand side of a type spec, as NodeVisitor sees it *)
Inductive rhs :=
| RhsIfaceLit          (* type A interface{...}   (generic or not, also constraint interfaces) *)
| RhsIndex             (* type X G[int] / type X = G[int] / G[K,V]  [ast.IndexExpr, ast.IndexListExpr] *)
| RhsIdent             (* type B A / type E io.Reader / type N int / type T = A  [ast.Ident, ast.SelectorExpr] *)
| RhsStruct | RhsFunc | RhsOther.   (* struct, func type, map/slice/chan/pointer/array ... *)

Inductive scope_ := PkgLevel | FuncLocal.

Record decl := {
  d_name : str;
  d_rhs : rhs;
  d_alias : bool;      (* declared with "=": the object's type is a types.Alias *)
  d_iface : bool;      (* types.IsInterface of the declared type *)
  d_scope : scope_;    (* FuncLocal: declared inside a function body or function literal *)
  d_active : bool      (* the file is one of pkg.GoFiles (not _test.go, build constraints satisfied) *)
}.

Definition is_pkglevel (d : decl) : bool := match d_scope d with PkgLevel => true | FuncLocal => false end.
Definition blank : str := B "_".

(* NodeVisitor.Visit: type specs with an acceptable right-hand side; (fix c07-function-local-
   types) function declarations and literals are not entered; (fix c07-defined-from-ident)
   identifiers and selectors are acceptable right-hand sides. *)
Definition visitor_accepts (d : decl) : bool :=
  match d_rhs d with RhsIfaceLit | RhsIndex | RhsIdent => true | _ => false end.
Definition candidates (decls : list decl) : list str :=
  map d_name (filter (fun d => d_active d && is_pkglevel d && visitor_accepts d) decls).

(* pkg.Types.Scope().Lookup(name): package-level objects of the files that were loaded;
   the blank identifier is never entered into a scope *)
Definition visible (d : decl) : bool :=
  d_active d && is_pkglevel d && negb (seqb (d_name d) blank).
Definition scope_lookup (decls : list decl) (n : str) : option decl :=
  find (fun d => visible d && seqb (d_name d) n) decls.

(* the body of the loop over nv.declaredInterfaces in ParsePackages *)
Definition resolve (decls : list decl) (n : str) : option str :=
  match scope_lookup decls n with
  | None => None                                 (* (fix) obj == nil: skipped; was a nil dereference *)
  | Some d => if d_alias d then None             (* obj.Type() is not a types.Named *)
              else if d_iface d then Some (d_name d) else None
  end.

Fixpoint discover_from (decls : list decl) (names : list str) : list str :=
  match names with
  | [] => []
  | n :: t => match resolve decls n with
              | Some x => x :: discover_from decls t
              | None => discover_from decls t
              end
  end.
Definition discover (decls : list decl) : list str := discover_from decls (candidates decls).

(* ------------------------------------------------------------------ *)
(* Configuration                                                       *)

(* one entry of exclude-subpkg-regex: an expression, optionally starting with the inline flag (?i).
   Every entry is compiled and matched on its own (regexp.MatchString per entry): a flag set in
   one entry never reaches another entry. *)
Record xentry := { x_fold : bool; x_pat : pattern }.
Definition entry_match (e : xentry) (s : str) : bool := pat_match_fold (x_fold e) (x_pat e) s.

Inductive re_src := ReUnset (* "" *) | ReBad | ReOk (p : pattern).

(* config.Config, restricted to what decides selection; every field is a pointer (None = nil)
   except exclude-subpkg-regex, a slice (None = nil slice).  c_mark stands for any other
   pointer-valued parameter; the harness uses structname "{{.InterfaceName}}<mark>". *)
Record cfg := {
  c_all : option bool;
  c_inc : option re_src;
  c_exc : option re_src;
  c_rec : option bool;
  c_exsub : option (list xentry);
  c_mark : option str
}.
Definition empty_cfg : cfg :=
  {| c_all := None; c_inc := None; c_exc := None; c_rec := None; c_exsub := None; c_mark := None |}.

Definition or_else {A} (dst src : option A) : option A := match dst with Some _ => dst | None => src end.

(* mergeConfigs(src, dst): nil pointers and nil slices of dst are filled from src *)
Definition merge_cfg (src dst : cfg) : cfg :=
  {| c_all := or_else (c_all dst) (c_all src);
     c_inc := or_else (c_inc dst) (c_inc src);
     c_exc := or_else (c_exc dst) (c_exc src);
     c_rec := or_else (c_rec dst) (c_rec src);
     c_exsub := or_else (c_exsub dst) (c_exsub src);
     c_mark := or_else (c_mark dst) (c_mark src) |}.

(* interfaces: name -> (config.structname mark, structname marks of the `configs` entries) *)
Record icfg := { i_mark : option str; i_entries : list (option str) }.
Record pcfg := { p_cfg : cfg; p_ifaces : list (str * icfg) }.
Definition pkgmap := list (str * pcfg).        (* RootConfig.Packages; used through lookup only *)

Fixpoint lookup {A} (k : str) (m : list (str * A)) : option A :=
  match m with
  | [] => None
  | (k', v) :: t => if seqb k k' then Some v else lookup k t
  end.
Fixpoint update {A} (k : str) (v : A) (m : list (str * A)) : list (str * A) :=
  match m with
  | [] => []
  | (k', v') :: t => if seqb k k' then (k', v) :: t else (k', v') :: update k v t
  end.

(* ------------------------------------------------------------------ *)
(* ShouldGenerateInterface                                             *)

Definition deref {A} (x : option A) : result A := match x with Some a => Ok a | None => Panic end.

Definition should_generate (p : pcfg) (name : str) : result bool :=
  bind (deref (c_all (p_cfg p))) (fun all =>
  if all then Ok true
  else match lookup name (p_ifaces p) with
  | Some _ => Ok true
  | None =>
    bind (deref (c_inc (p_cfg p))) (fun inc =>
    bind (deref (c_exc (p_cfg p))) (fun exc =>
    match inc with
    | ReUnset => Ok false
    | ReBad => Err ErrBadRegex
    | ReOk pi =>
      if negb (pat_match pi name) then Ok false
      else match exc with
           | ReUnset => Ok true
           | ReBad => Err ErrBadRegex
           | ReOk pe => Ok (negb (pat_match pe name))
           end
    end))
  end).

(* ------------------------------------------------------------------ *)
(* RootConfig.Initialize                                               *)

(* a package tree as `go list p/...` sees it: import path, has Go files for the build *)
Definition tree := list (str * bool).

Definition slash : byte := "/"%byte.
(* pattern parent/... matches parent itself and everything below it *)
Definition is_subpkg (parent s : str) : bool := seqb s parent || has_prefix s (parent ++ [slash]).

(* RootConfig.subPackages *)
Definition sub_packages (t : tree) (parent : str) : list str :=
  map fst (filter (fun e => snd e && is_subpkg parent (fst e)) t).

(* Config.ShouldExcludeSubpkg, (fix c07-exclude-subpkg-per-package) of the recursive
   package's config *)
Definition exclude (c : cfg) (s : str) : bool :=
  existsb (fun e => entry_match e s) (match c_exsub c with Some l => l | None => [] end).

Definition with_cfg (p : pcfg) (c : cfg) : pcfg := {| p_cfg := c; p_ifaces := p_ifaces p |}.

(* first loop: root config merged into every configured package *)
Definition init_pkgs (root : cfg) (m : pkgmap) : pkgmap :=
  map (fun e => (fst e, with_cfg (snd e) (merge_cfg root (p_cfg (snd e))))) m.

Definition is_recursive (m : pkgmap) (k : str) : bool :=
  match lookup k m with
  | Some p => match c_rec (p_cfg p) with Some b => b | None => false end
  | None => false
  end.
(* recursivePackages, in the iteration order [o] of the first loop *)
Definition recursive_keys (o : list str) (m : pkgmap) : list str := filter (is_recursive m) o.

(* (fix c07-recursive-nearest-ancestor) sort.Sort(sort.Reverse(sort.StringSlice(...))) *)
Fixpoint insert_desc (x : str) (l : list str) : list str :=
  match l with
  | [] => [x]
  | y :: t => if sltb x y then y :: insert_desc x t else x :: l
  end.
Definition sort_desc (l : list str) : list str := fold_right insert_desc [] l.

(* body of the loop over subpkgs *)
Definition inject_one (parent : cfg) (m : pkgmap) (s : str) : pkgmap :=
  if exclude parent s then m
  else match lookup s m with
       | Some p => update s (with_cfg p (merge_cfg parent (p_cfg p))) m
       | None => m ++ [(s, {| p_cfg := merge_cfg parent empty_cfg; p_ifaces := [] |})]
       end.

Definition process_recursive (t : tree) (m : pkgmap) (r : str) : pkgmap :=
  match lookup r m with
  | Some p => fold_left (inject_one (p_cfg p)) (sub_packages t r) m
  | None => m
  end.

(* one call of Initialize; [o] = iteration order of the Packages map *)
Definition expand_recursive (t : tree) (root : cfg) (o : list str) (m : pkgmap) : pkgmap :=
  let m1 := init_pkgs root m in
  fold_left (process_recursive t) (sort_desc (recursive_keys o m1)) m1.

(* NewRootConfig calls Initialize, RootApp.Run calls it again *)
Definition initialize_twice (t : tree) (root : cfg) (o1 o2 : list str) (m : pkgmap) : pkgmap :=
  expand_recursive t root o2 (expand_recursive t root o1 m).

(* ------------------------------------------------------------------ *)
(* Mocks                                                               *)

Record mock := { m_pkg : str; m_iface : str; m_entry : nat; m_struct : str }.

Definition first_some {A} (l : list (option A)) : option A :=
  fold_right (fun x acc => or_else x acc) None l.

(* structname = InterfaceName ++ mark of the most specific level that sets one *)
Definition struct_name (name : str) (marks : list (option str)) : result str :=
  bind (deref (first_some marks)) (fun mk => Ok (name ++ mk)).

Fixpoint entries_from (pkg name : str) (pmark imark : option str) (i : nat) (es : list (option str))
  : result (list mock) :=
  match es with
  | [] => Ok []
  | e :: t =>
    bind (struct_name name [e; imark; pmark]) (fun sn =>
    bind (entries_from pkg name pmark imark (S i) t) (fun rest =>
    Ok ({| m_pkg := pkg; m_iface := name; m_entry := i; m_struct := sn |} :: rest)))
  end.

(* GetInterfaceConfig + InterfaceConfig.Initialize: one mock per `configs` entry, one if
   there is none or the interface is not listed *)
Definition mocks_for (pkg : str) (p : pcfg) (name : str) : result (list mock) :=
  let pmark := c_mark (p_cfg p) in
  match lookup name (p_ifaces p) with
  | None => entries_from pkg name pmark None 0 [None]
  | Some ic => match i_entries ic with
               | [] => entries_from pkg name pmark (i_mark ic) 0 [None]
               | es => entries_from pkg name pmark (i_mark ic) 0 es
               end
  end.

Fixpoint mocks_of_names (pkg : str) (p : pcfg) (names : list str) : result (list mock) :=
  match names with
  | [] => Ok []
  | n :: t =>
    bind (should_generate p n) (fun g =>
    bind (if g then mocks_for pkg p n else Ok []) (fun here =>
    bind (mocks_of_names pkg p t) (fun rest => Ok (here ++ rest))))
  end.

Definition srcs := list (str * list decl).      (* the packages that exist in the module *)

Definition mocks_of_pkg (ss : srcs) (pkg : str) (p : pcfg) : result (list mock) :=
  match lookup pkg ss with
  | Some decls => mocks_of_names pkg p (discover decls)
  | None => Ok []          (* configured package that does not exist: C09's subject, not modelled *)
  end.

Fixpoint mocks_of_map (ss : srcs) (m : pkgmap) : result (list mock) :=
  match m with
  | [] => Ok []
  | (k, p) :: t =>
    bind (mocks_of_pkg ss k p) (fun here =>
    bind (mocks_of_map ss t) (fun rest => Ok (here ++ rest)))
  end.

(* listed interfaces that were not found in the source: reported after writing, exit 1 *)
Definition missing_in (ss : srcs) (k : str) (p : pcfg) : list str :=
  match lookup k ss with
  | Some decls => filter (fun n => negb (smem n (discover decls))) (map fst (p_ifaces p))
  | None => map fst (p_ifaces p)
  end.
Definition any_missing (ss : srcs) (m : pkgmap) : bool :=
  existsb (fun e => match missing_in ss (fst e) (snd e) with [] => false | _ => true end) m.

Inductive exitc := ExOk | ExErr | ExPanic.
Record outcome := { o_exit : exitc; o_mocks : list mock }.

(* Config.validateRegexes (fix c09-validate-regexes): Initialize compiles include-interface-regex,
   exclude-interface-regex (and every exclude-subpkg-regex entry: always an expression here) of the
   top-level config and of every package config after the top-level settings were merged in; an
   expression that does not compile is an initialisation error whether or not it would ever be
   consulted.  (Interface-level configs inherit these settings from their package and are
   validated again, with the same answer.)  Before that fix an invalid expression only mattered
   when ShouldGenerateInterface reached it. *)
Definition bad_src (x : option re_src) : bool := match x with Some ReBad => true | _ => false end.
Definition regexes_ok (c : cfg) : bool := negb (bad_src (c_inc c)) && negb (bad_src (c_exc c)).
Definition config_valid (root : cfg) (m : pkgmap) : bool :=
  regexes_ok root && forallb (fun e => regexes_ok (p_cfg (snd e))) (init_pkgs root m).

Definition run (t : tree) (ss : srcs) (root : cfg) (o1 o2 : list str) (m : pkgmap) : outcome :=
  if negb (config_valid root m) then {| o_exit := ExErr; o_mocks := [] |} else
  let final := initialize_twice t root o1 o2 m in
  match mocks_of_map ss final with
  | Ok l => {| o_exit := if any_missing ss final then ExErr else ExOk; o_mocks := l |}
  | Err _ => {| o_exit := ExErr; o_mocks := [] |}
  | Panic => {| o_exit := ExPanic; o_mocks := [] |}
  end.
