(* C13 - replace-type substitutes exactly the configured types.
   Only statements; proofs are in Gen/Replace_proofs.v (and Cfg/Config_proofs.v for the levels).
   Model: Gen/Replace.v - a signature is a list of (name, type) over a small type AST;
   [method_data_of rt m] is what methodData/AddVar hand to the templates for method m when the
   mock's merged config carries the replace-type map rt: per parameter and result the type
   (rendered by [render]) and the imports it needs; [file_imports] is the import list of the
   output file (the registry of C15, Gen/Alloc.v).  The model describes the tree AFTER
   fixes/c13-replace-type-named-only.diff and fixes/c08-replace-type-inherit.diff.
   [valid_targets rt]: every replacement names a package (pkg-path not empty). *)
From Mk Require Import Lib.Bytes Cfg.Json Cfg.Config Cfg.Config_proofs Gen.Alloc Gen.Replace Gen.Replace_proofs.

(* The method as rendered with the setting is the method rendered WITHOUT any setting from the
   source signature in which every parameter/result whose type is exactly a key has the
   replacement type: same names, same types, same per-variable imports - nothing else changes. *)
Theorem C13_exact : forall rt m,
  valid_targets rt ->
  method_data_of rt m = method_data_of [] (fst m, subst_sig rt (snd m)).
Proof. exact method_exact. Qed.
Print Assumptions C13_exact.

(* "exactly that named type": the substitution touches a type only if it IS a named type that is
   a key; pointer, slice, array, map, channel, function and basic types - hence also a variadic
   parameter, whose type is a slice - are left alone whatever they contain; so is a type
   parameter of a generic interface, also when a package-level type of its name is a key. *)
Theorem C13_exact_positions : forall rt,
  (forall t, (forall p n, t <> TNamed p n) -> subst_top rt t = t)
  /\ (forall p n, subst_top rt (TNamed p n)
                  = match rget (p, n) rt with Some (rp, rn) => TNamed rp rn | None => TNamed p n end)
  /\ (forall n e, add_var rt (n, TSlice e) = add_var [] (n, TSlice e))
  /\ (forall n x, add_var rt (n, TParam x) = add_var [] (n, TParam x)).
Proof.
  intros rt. split; [intros t H; apply subst_top_only_named; exact H|].
  split; [intros; apply subst_top_named|].
  split; [intros; apply variadic_untouched | intros; apply tparam_untouched].
Qed.
Print Assumptions C13_exact_positions.

(* All other methods (no key at top level) and all other interfaces (their own mock's map) are
   rendered as without the setting. *)
Theorem C13_others_untouched :
  (forall rt m, untouched_sig rt (snd m) -> method_data_of rt m = method_data_of [] m)
  /\ (forall a b, i_rt b = [] ->
        file_vars [a; b] = file_vars [a] ++ file_vars [{| i_name := i_name b; i_rt := []; i_methods := i_methods b |}]).
Proof. split; [exact method_untouched | exact other_interfaces_untouched]. Qed.
Print Assumptions C13_others_untouched.

(* The import list of the output file is the import list of the substituted signatures ... *)
Theorem C13_imports : forall names d b ifs,
  Forall (fun i => valid_targets (i_rt i)) ifs ->
  file_imports names d b ifs = file_imports names d b (map subst_iface ifs).
Proof. exact imports_exact. Qed.
Print Assumptions C13_imports.

(* ... so a package (in particular the original package of a replaced type, and the replacement's
   package) is imported iff a variable of the substituted signatures refers to it. *)
Theorem C13_imports_iff_referenced : forall names d b ifs p,
  Forall (fun i => valid_targets (i_rt i)) ifs ->
  In p (map fst (file_imports names d b ifs))
  <-> (exists v, In v (file_vars (map subst_iface ifs)) /\ In p (v_imports v)) /\ ~ (p = d /\ b = true).
Proof. exact imports_iff_referenced. Qed.
Print Assumptions C13_imports_iff_referenced.

(* Levels: with C08's merge, a key written at whichever level of the mock's chain (configs entry,
   interface config, package config, top level) and not overridden by a more specific level is
   the replacement the mock is generated with. *)
Theorem C13_levels : forall rx disc t m c k r nt,
  untouched disc (m_pkg m) ->
  mock_cfg (init_pure rx disc (init_pure rx disc t)) m = Some c ->
  first_some (map (fun x => rget k (c_rt x)) (written_chain t m)) = Some r ->
  snd nt = TNamed (fst k) (snd k) ->
  v_ty (add_var (c_rt c) nt) = TNamed (fst r) (snd r) /\ v_imports (add_var (c_rt c) nt) = [fst r].
Proof. exact levels. Qed.
Print Assumptions C13_levels.

(* Known finding C13-generic-target.  A replacement target that is a GENERIC type is rendered as
   its declaration ("fakeG[T any]"), not as a type: the faithful model shows it, so all theorems
   above speak about the map as AddVar sees it ([resolve_targets decl rt]) and coincide with the
   configured map under the guard [plain_targets] (boolean form [plain_targetsb]). *)
Theorem C13_generic_target_refuted :
  exists decl rt nt,
    plain_targetsb decl rt = false /\
    render (fun _ => []) (v_ty (add_var (resolve_targets decl rt) nt)) = B "fakeG[T any]".
Proof.
  exists (fun r => if seqb (snd r) (B "fakeG") then B "[T any]" else []).
  exists [((B "m/p", B "A"), (B "m/p", B "fakeG"))].
  exists (B "a", TNamed (B "m/p") (B "A")).
  split; vm_compute; reflexivity.
Qed.
Print Assumptions C13_generic_target_refuted.

Theorem C13_plain_targets : forall decl rt,
  plain_targetsb decl rt = true -> resolve_targets decl rt = rt.
Proof. intros decl rt H. apply resolve_plain, plain_targetsb_spec. exact H. Qed.
Print Assumptions C13_plain_targets.

(* Non-vacuity: M(k ty.K, p *ty.K, v ...ty.K) (ty.K, ty.K2) with K -> rt.R written at the top level. *)
Example C13_example :
  let K := TNamed (B "m/ty") (B "K") in
  let s := {| s_params := [(B "k", K); (B "p", TPtr K); (B "v", TSlice K)]; s_variadic := true;
              s_results := [([], K); ([], TNamed (B "m/ty") (B "K2"))] |} in
  let i := {| i_name := B "A"; i_rt := [((B "m/ty", B "K"), (B "m/rt", B "R"))]; i_methods := [(B "M", s)] |} in
  let imps := file_imports [(B "m/ty", B "ty"); (B "m/rt", B "rt")] (B "m/out") false [i] in
  plain_targetsb (fun _ => []) (i_rt i) = true /\
  (imps, map (rendered_method imps) (iface_data i))
  = ([(B "m/rt", B "rt"); (B "m/ty", B "ty")],
     [(B "M", [B "rt.R"; B "*ty.K"; B "[]ty.K"], [B "rt.R"; B "ty.K2"])]).
Proof. vm_compute. split; reflexivity. Qed.
