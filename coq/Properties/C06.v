(* C06 - generation is deterministic and idempotent.
   Only statements; proofs are in Cfg/Order_proofs.v.  Model: Cfg/Order.v (read its header for
   exactly which parts of a run are modelled) on top of Cfg/Schema.v (per-file generation with
   the per-run template/schema cache).

   [run_once w o]     one run on world [w] (configuration, source tree, `go list p/...` results,
                      retrievable templates/schemas) where [o : orders] fixes the iteration order
                      of EVERY ranged Go map: c.Packages (twice: Initialize is called twice),
                      c.Interfaces per package (twice), the package load order, mockFileToInterfaces,
                      the import map of every file.  Result: exit class, list of written files
                      (directory, name, abstract content).
   [valid_orders w o] what Go guarantees: every key exactly once.
   [guard w]          the input class (computable, evaluated inside Coq for every generated case):
                      recursive packages neither nest nor overlap, no configured package inside
                      another recursive one, distinct map keys.  Outside it the pinned code is
                      order dependent (C06_nested_recursive_order_dependent; owned by C07).
   [ow_km w]          cache key of the remote-template cache; [KTemplateSchema] is the behaviour
                      after fixes/c12-schema-cache-key.diff. *)
From Coq Require Import ZArith Permutation Sorted.
From Mk Require Import Lib.Bytes Cfg.Schema Cfg.Schema_proofs Gen.Alloc Gen.Alloc_proofs Cfg.Order Cfg.Order_proofs.

(* Equal exit class for any two choices of all map orders and, on success, the same written
   files: same directories, names and contents (the lists are permutations of each other). *)
Theorem C06_order_independent : forall w o o',
  guard w = true -> ow_km w = KTemplateSchema -> valid_orders w o -> valid_orders w o' ->
  fst (run_once w o) = fst (run_once w o') /\
  (fst (run_once w o) = ExitOk -> Permutation (snd (run_once w o)) (snd (run_once w o'))).
Proof. exact order_independent. Qed.
Print Assumptions C06_order_independent.

(* the effective configuration of every package (after both Initialize calls, including the
   packages discovered by recursion) does not depend on any map order *)
Theorem C06_effective_config_order_independent : forall w o o' k,
  guard w = true -> valid_orders w o -> valid_orders w o' ->
  alookup k (initialize w o) = alookup k (initialize w o').
Proof. intros w o o' k Hg. apply initialize_lookup_indep. now apply guard_sound. Qed.
Print Assumptions C06_effective_config_order_independent.

(* the executable model (run with the orders of the configuration file) represents all runs *)
Theorem C06_canonical_represents : forall w o,
  guard w = true -> ow_km w = KTemplateSchema -> valid_orders w o ->
  fst (run_once w o) = fst (run_once w (canonical w)) /\
  (fst (run_once w o) = ExitOk -> Permutation (snd (run_once w o)) (snd (run_once w (canonical w)))).
Proof. exact canonical_represents. Qed.
Print Assumptions C06_canonical_represents.

Theorem C06_canonical_valid : forall w, guard w = true -> valid_orders w (canonical w).
Proof. exact canonical_valid. Qed.
Print Assumptions C06_canonical_valid.

(* With the pinned cache key (template name only) the EXIT STATUS depends on the map order:
   package a (require-template-schema-exists: false, permissive schema) and package b (own
   schema, violating data) share one template; a first: b is validated against a's schema and
   the run succeeds; b first: it fails. *)
Theorem C06_order_refuted_for_pinned_key :
  exists w o o', guard w = true /\ ow_km w = KTemplate /\ valid_orders w o /\ valid_orders w o' /\
                 fst (run_once w o) = ExitOk /\ fst (run_once w o') = ExitErr.
Proof. exact order_refuted_for_pinned_key. Qed.
Print Assumptions C06_order_refuted_for_pinned_key.

(* Idempotence: after a successful run, run again (any orders) on the tree that now contains the
   output ([rerun_world]: same configuration; `go list` may now also report directories that
   hold nothing but generated files), overwriting enabled, outputs never replacing a file that
   declares interfaces: the rerun succeeds, writes exactly the same files with the same
   contents, and every file it writes existed already (no additional path).
   "No mocks of mocks" is built into [add_outputs]: generated files carry no interface
   declarations and `_test.go` files are not loaded - that is checked by the oracle. *)
Theorem C06_idempotent : forall w o subs' o',
  guard w = true -> ow_km w = KTemplateSchema -> valid_orders w o ->
  fst (run_once w o) = ExitOk ->
  guard (rerun_world w (snd (run_once w o)) subs') = true ->
  valid_orders (rerun_world w (snd (run_once w o)) subs') o' ->
  (forall r k, In k (subs_w w r) -> In k (subs_of subs' r)) ->
  (forall r k, In k (subs_of subs' r) -> In k (subs_w w r) \/ find_pkg k (ow_tree w) = None) ->
  (forall k p, alookup k (initialize w o) = Some p -> flag (o_force (op_cfg p)) = true) ->
  (forall x, In x (snd (run_once w o)) -> no_clobber (ow_tree w) x) ->
  fst (run_once (rerun_world w (snd (run_once w o)) subs') o') = ExitOk /\
  Permutation (snd (run_once w o)) (snd (run_once (rerun_world w (snd (run_once w o)) subs') o')) /\
  forall x, In x (snd (run_once (rerun_world w (snd (run_once w o)) subs') o')) ->
            file_exists (ow_tree (rerun_world w (snd (run_once w o)) subs')) (wr_dir x) (wr_fname x) = true.
Proof. exact idempotent. Qed.
Print Assumptions C06_idempotent.

(* Imports: whatever order the import map is ranged in, the emitted list is the same, sorted by
   path, and holds exactly the registered imports. *)
Theorem C06_imports_sorted : forall l l',
  NoDup (map ipath l) -> Permutation l l' ->
  sort_imports l' = sort_imports l /\
  StronglySorted path_lt (sort_imports l) /\ Permutation l (sort_imports l).
Proof.
  intros l l' ND P. split; [symmetry; now apply sort_imports_order_free|].
  split; [now apply sort_imports_sorted | apply sort_imports_perm].
Qed.
Print Assumptions C06_imports_sorted.

Theorem C06_rendered_imports_order_free : forall oimp fc ms,
  (forall k l, Permutation (oimp k l) l) ->
  ct_imports (render oimp fc ms) = sort_imports (raw_imports ms).
Proof. intros oimp fc ms H. now rewrite (render_order_free oimp fc ms H). Qed.
Print Assumptions C06_rendered_imports_order_free.

(* why calling Initialize twice is harmless: the config merge is idempotent *)
Theorem C06_merge_idempotent : forall a b,
  wf_cfg a -> wf_cfg b -> mg a (mg a b) = mg a b /\ mg a a = a.
Proof. intros a b Wa Wb. split; [now apply mg_idem | now apply mg_self]. Qed.
Print Assumptions C06_merge_idempotent.

(* ---- outside the guard: nested recursive packages (DESIGN.md section 6 row 6, owned by C07) ---- *)
Definition nest_cfg (v : str) : ocfg :=
  {| o_rec := Some true; o_all := Some true; o_force := None; o_dir := None; o_file := None; o_pkgname := None;
     o_tmpl := None; o_schema := None; o_require := None; o_data := [(B "k", JStr v)] |}.
Definition nest_world : oworld :=
  {| ow_root := cfg_empty;
     ow_pkgs := [(B "p", {| op_cfg := nest_cfg (B "P"); op_ifaces := [] |});
                 (B "p/q", {| op_cfg := nest_cfg (B "Q"); op_ifaces := [] |})];
     ow_subs := [(B "p", [B "p"; B "p/q"; B "p/q/r"]); (B "p/q", [B "p/q"; B "p/q/r"])];
     ow_tree := []; ow_env := {| e_fs := []; e_builtins := pinned_builtins; e_empty_ok := false |};
     ow_fl := FLPackage; ow_km := KTemplateSchema |}.
Definition nest_orders (first second : str) : orders :=
  {| oa1 := [first; second]; oi1 := fun _ => []; oa2 := [B "p"; B "p/q"; B "p/q/r"]; oi2 := fun _ => [];
     ol := []; ofl := fun gs => gs; oimp := fun _ l => l |}.

Example C06_nested_recursive_order_dependent :
  guard nest_world = false /\
  option_map (fun p => o_data (op_cfg p)) (alookup (B "p/q/r") (initialize nest_world (nest_orders (B "p") (B "p/q"))))
    = Some [(B "k", JStr (B "P"))] /\
  option_map (fun p => o_data (op_cfg p)) (alookup (B "p/q/r") (initialize nest_world (nest_orders (B "p/q") (B "p"))))
    = Some [(B "k", JStr (B "Q"))].
Proof. vm_compute. repeat split; reflexivity. Qed.

(* ---- non-vacuity: a recursive root with two discovered sub-packages, a flat package with two
   configs for one interface into two files, shared template-data; the guard holds, the run
   succeeds and writes five files; the rerun over its own output (the generated package p/mocks
   is now a candidate under all: true) writes the same five ---- *)
Definition ex_decl (n : str) : idecl := {| id_name := n; id_imports := [{| ipath := B "io"; iname := B "io"; ialias := [] |}; {| ipath := B "context"; iname := B "context"; ialias := [] |}] |}.
Definition ex_src (p n : str) (ds : list str) : tpkg :=
  {| tp_path := p; tp_name := n; tp_files := [{| tf_name := n ++ B ".go"; tf_decls := map ex_decl ds |}] |}.
Definition ex_world : oworld :=
  {| ow_root := {| o_rec := Some false; o_all := Some false; o_force := Some true; o_dir := Some (DIface []);
                   o_file := Some (FFixed (B "mocks_test.go")); o_pkgname := Some PSrc;
                   o_tmpl := Some (B "testify"); o_schema := None; o_require := Some true;
                   o_data := [(B "unroll-variadic", JBool true)] |};
     ow_pkgs := [(B "p", {| op_cfg := {| o_rec := Some true; o_all := Some true; o_force := None;
                                          o_dir := Some (DFixed (B "p/mocks")); o_file := Some (FPkg (B "zz_") (B ".go"));
                                          o_pkgname := Some (PFixed (B "mocks")); o_tmpl := None; o_schema := None;
                                          o_require := None; o_data := [] |}; op_ifaces := [] |});
                 (B "f", {| op_cfg := cfg_empty;
                            op_ifaces := [(B "F1", {| oi_cfg := cfg_empty;
                                                      oi_entries := [{| o_rec := None; o_all := None; o_force := None; o_dir := None;
                                                                        o_file := Some (FFixed (B "zz_a.go")); o_pkgname := None;
                                                                        o_tmpl := None; o_schema := None; o_require := None;
                                                                        o_data := [] |};
                                                                     {| o_rec := None; o_all := None; o_force := None; o_dir := None;
                                                                        o_file := Some (FFixed (B "zz_b_test.go")); o_pkgname := None;
                                                                        o_tmpl := None; o_schema := None; o_require := None;
                                                                        o_data := [(B "unroll-variadic", JBool false)] |}] |})] |})];
     ow_subs := [(B "p", [B "p"; B "p/s1"; B "p/s2"])];
     ow_tree := [ex_src (B "f") (B "f") [B "F1"; B "F2"]; ex_src (B "p") (B "p") [B "P1"];
                 ex_src (B "p/s1") (B "s1") [B "S1"; B "S2"]; ex_src (B "p/s2") (B "s2") [B "T1"]];
     ow_env := {| e_fs := []; e_builtins := pinned_builtins; e_empty_ok := false |};
     ow_fl := FLPackage; ow_km := KTemplateSchema |}.
Definition ex_run1 := run_once ex_world (canonical ex_world).
Definition ex_world2 := rerun_world ex_world (snd ex_run1) [(B "p", [B "p"; B "p/mocks"; B "p/s1"; B "p/s2"])].
Example C06_example :
  guard ex_world = true /\ fst ex_run1 = ExitOk /\
  map wr_key (snd ex_run1) = [B "p/mocks/zz_p.go"; B "f/zz_a.go"; B "f/zz_b_test.go"; B "p/mocks/zz_s1.go"; B "p/mocks/zz_s2.go"] /\
  guard ex_world2 = true /\ In (B "p/mocks") (map tp_path (ow_tree ex_world2)) /\
  fst (run_once ex_world2 (canonical ex_world2)) = ExitOk /\
  map wr_key (snd (run_once ex_world2 (canonical ex_world2))) = map wr_key (snd ex_run1).
Proof. vm_compute. repeat split; try reflexivity. right; right; right; right. now left. Qed.
