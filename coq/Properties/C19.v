(* C19 - `mockery migrate` carries every supported v2 setting to its v3 place unchanged.
   Only statements; proofs are in Misc/Migrate_proofs.v.  Model: Misc/Migrate.v
   ([migrate r] = the v3 tree written for the decoded v2 configuration [r]; [r] ranges over ALL
   v2 trees: every one of the 46 v2 keys independently set or not at each of the four levels,
   arbitrary package / interface names, arbitrary string values, arbitrary `_anchors` content,
   any number of packages, interfaces and `configs` entries). *)
From Coq Require Import ZArith.
From Mk Require Import Lib.Bytes Misc.Migrate Misc.Migrate_proofs.

(* Each v2 setting with a v3 counterpart appears with the same value at the same level under
   its v3 name / template-data key.  One statement for all 15 mapped keys [k] and all levels
   [lv] (top, package `config`, interface `config`, n-th `configs` entry):
   the node under  <path of the level> ++ <v3 place of k>  is the v2 value of k at that level
   ([norm]: an empty list / mapping counts as not set, as `omitempty` and the loader treat it). *)
Theorem C19_key_preserved : forall r out lv c k,
  migrate r = MOk out -> v2_at r lv = Some c ->
  ysub (level_path lv ++ place k) out = norm (v2_val c k).
Proof. exact key_preserved. Qed.
Print Assumptions C19_key_preserved.

(* No value appears that the v2 file did not contain, apart from the template choice: every
   scalar leaf of the output is either `template: testify` at the top level, or lies under the
   v3 place of a mapped key k of some level lv and is a leaf of the v2 value of k at lv. *)
Theorem C19_nothing_invented : forall r out p v,
  migrate r = MOk out -> In (p, v) (flatten out) -> is_scalar v = true ->
  (p = [SK (B "template")] /\ v = YStr (B "testify")) \/
  exists lv c rel, v2_at r lv = Some c /\ p = level_path lv ++ rel /\
    exists k val sub, v2_val c k = Some val /\ rel = place k ++ sub /\ In (sub, v) (flatten val).
Proof. exact nothing_invented. Qed.
Print Assumptions C19_nothing_invented.

(* ... and the v2 keys without a v3 counterpart (the other 31, e.g. filename, tags, inpackage)
   have no influence whatsoever on what is written for a level. *)
Theorem C19_only_mapped_keys_matter : forall c c' tpl,
  (forall k, v2_val c k = v2_val c' k) -> mig_config c tpl = mig_config c' tpl.
Proof. exact only_mapped_keys_matter. Qed.
Print Assumptions C19_only_mapped_keys_matter.

(* Package and interface names are preserved exactly (same names, each once), and a `configs`
   list keeps its length (its order is C19_key_preserved at level [LSub p i n]). *)
Theorem C19_names_preserved : forall r out,
  migrate r = MOk out ->
  ykeys (ysub [SK kpackages] out) = map fst (r_pkgs r) /\
  NoDup (map fst (r_pkgs r)) /\
  forall p pc, assoc p (r_pkgs r) = Some pc ->
    ykeys (ysub [SK kpackages; SK p; SK kinterfaces] out) = map fst (p_ifaces pc) /\
    NoDup (map fst (p_ifaces pc)) /\
    forall i ic, assoc i (p_ifaces pc) = Some ic ->
      ylen (ysub [SK kpackages; SK p; SK kinterfaces; SK i; SK kconfigs] out) = length (i_configs ic).
Proof. exact names_preserved. Qed.
Print Assumptions C19_names_preserved.

(* The strict loader accepts what migrate writes - for every v2 file whose regular-expression
   values compile ([v2_regexes r]: every `include-regex`, `exclude-regex` and `exclude` element of
   every level; [re_ok] = "Go's regexp package compiles it", a parameter): at every level the keys
   are within the accepted key set of that level with values of the accepted shape, the loader's
   run-time panic is not reachable, and every expression the loader compiles is one of those. *)
Theorem C19_loader_accepts : forall re_ok r out,
  migrate r = MOk out -> forallb re_ok (v2_regexes r) = true -> load re_ok out = LoadOk.
Proof. exact loader_accepts. Qed.
Print Assumptions C19_loader_accepts.

(* The other class: a v2 file with a regex value that does not compile.  The value is still
   carried over unchanged (C19_key_preserved has no such premise), and the loader - which
   validates every configured expression - rejects the result (never a panic, never a
   silent acceptance). *)
Theorem C19_invalid_regex_rejected : forall re_ok r out,
  migrate r = MOk out -> forallb re_ok (v2_regexes r) = false -> load re_ok out = LoadErr.
Proof. exact invalid_regex_rejected. Qed.
Print Assumptions C19_invalid_regex_rejected.

(* what the loader compiles are exactly the v2 file's regex values, in order *)
Theorem C19_loader_compiles_the_v2_regexes : forall r out,
  migrate r = MOk out -> tree_regexes out = v2_regexes r.
Proof. intros r out Hm. apply migrate_ok in Hm as [-> _]. apply tree_regexes_mig. Qed.
Print Assumptions C19_loader_compiles_the_v2_regexes.

(* Every decodable v2 tree (mapping keys unique) is migrated; the only other outcome of the
   model is the decoder's error.  (No panic outcome exists in [mresult].) *)
Theorem C19_total : forall r, wf_root r = true -> migrate r = MOk (mig_root r).
Proof. exact migrate_total. Qed.
Print Assumptions C19_total.

(* Frame: whatever the YAML decoder / encoder do ([parse], [encode], [writable] are arbitrary),
   the command changes no file other than the output path - in particular not the input -
   and a failing run changes nothing at all; a successful run leaves the encoded image of the
   input's migration at the output path. *)
Theorem C19_input_untouched : forall parse encode writable f inp outp q,
  q <> outp -> fst (run_cmd parse encode writable f inp outp) q = f q.
Proof. exact run_frame. Qed.
Print Assumptions C19_input_untouched.

Theorem C19_failure_writes_nothing : forall parse encode writable f inp outp,
  snd (run_cmd parse encode writable f inp outp) = ExitErr ->
  fst (run_cmd parse encode writable f inp outp) = f.
Proof. exact run_failure_frame. Qed.
Print Assumptions C19_failure_writes_nothing.

Theorem C19_success_writes_image : forall parse encode writable f inp outp,
  snd (run_cmd parse encode writable f inp outp) = ExitOk ->
  exists b r t, f inp = Some b /\ parse b = Some r /\ migrate r = MOk t /\
                fst (run_cmd parse encode writable f inp outp) outp = Some (encode t).
Proof. exact run_success. Qed.
Print Assumptions C19_success_writes_image.

(* History independence: the written file depends only on the current v2 file.  Whatever the
   output path held before - nothing, the result of an earlier migration of another (or the same)
   v2 file, any other content - the exit class and, on success, the content left at the output
   path are the same; in particular migrate A -> out; migrate B -> out leaves what migrate B -> out
   alone leaves (no package or value of the old outfile survives). *)
Theorem C19_depends_only_on_input : forall parse encode writable f f' inp outp,
  f inp = f' inp ->
  snd (run_cmd parse encode writable f inp outp) = snd (run_cmd parse encode writable f' inp outp) /\
  (snd (run_cmd parse encode writable f inp outp) = ExitOk ->
   fst (run_cmd parse encode writable f inp outp) outp = fst (run_cmd parse encode writable f' inp outp) outp).
Proof. exact run_depends_on_input. Qed.
Print Assumptions C19_depends_only_on_input.

Theorem C19_two_step_history : forall parse encode writable f inpA inpB outp,
  inpB <> outp ->
  let f1 := fst (run_cmd parse encode writable f inpA outp) in
  snd (run_cmd parse encode writable f1 inpB outp) = snd (run_cmd parse encode writable f inpB outp) /\
  (snd (run_cmd parse encode writable f1 inpB outp) = ExitOk ->
   fst (run_cmd parse encode writable f1 inpB outp) outp = fst (run_cmd parse encode writable f inpB outp) outp).
Proof. exact run_two_step. Qed.
Print Assumptions C19_two_step_history.

(* Non-vacuity: a tree with all four levels. *)
Definition empty_cfg : v2config :=
  {| v_all := None; v_anchors := None; v_boilerplate_file := None; v_tags := None; v_case := None;
     v_config := None; v_cpuprofile := None; v_dir := None; v_disable_config_search := None;
     v_disable_deprecation_warnings := None; v_disabled_deprecation_warnings := None;
     v_disable_func_mocks := None; v_disable_version_string := None; v_dry_run := None;
     v_exclude := None; v_exclude_regex := None; v_exported := None; v_fail_on_missing := None;
     v_filename := None; v_inpackage := None; v_inpackage_suffix := None;
     v_include_auto_generated := None; v_include_regex := None; v_issue_845_fix := None;
     v_keeptree := None; v_log_level := None; v_mock_build_tags := None; v_mockname := None;
     v_name := None; v_note := None; v_outpkg := None; v_output := None; v_packageprefix := None;
     v_print := None; v_profile := None; v_quiet := None; v_recursive := None;
     v_replace_type := None; v_resolve_type_alias := None; v_srcpkg := None; v_structname := None;
     v_testonly := None; v_unroll_variadic := None; v_version := None; v_with_expecter := None |}.

Definition with_mockname (c : v2config) (s : str) : v2config :=
  {| v_all := v_all c; v_anchors := v_anchors c; v_boilerplate_file := v_boilerplate_file c;
     v_tags := v_tags c; v_case := v_case c; v_config := v_config c; v_cpuprofile := v_cpuprofile c;
     v_dir := v_dir c; v_disable_config_search := v_disable_config_search c;
     v_disable_deprecation_warnings := v_disable_deprecation_warnings c;
     v_disabled_deprecation_warnings := v_disabled_deprecation_warnings c;
     v_disable_func_mocks := v_disable_func_mocks c; v_disable_version_string := v_disable_version_string c;
     v_dry_run := v_dry_run c; v_exclude := v_exclude c; v_exclude_regex := v_exclude_regex c;
     v_exported := v_exported c; v_fail_on_missing := v_fail_on_missing c; v_filename := v_filename c;
     v_inpackage := v_inpackage c; v_inpackage_suffix := v_inpackage_suffix c;
     v_include_auto_generated := v_include_auto_generated c; v_include_regex := v_include_regex c;
     v_issue_845_fix := v_issue_845_fix c; v_keeptree := v_keeptree c; v_log_level := v_log_level c;
     v_mock_build_tags := v_mock_build_tags c; v_mockname := Some s; v_name := v_name c;
     v_note := v_note c; v_outpkg := v_outpkg c; v_output := v_output c;
     v_packageprefix := v_packageprefix c; v_print := v_print c; v_profile := v_profile c;
     v_quiet := v_quiet c; v_recursive := v_recursive c; v_replace_type := v_replace_type c;
     v_resolve_type_alias := v_resolve_type_alias c; v_srcpkg := v_srcpkg c;
     v_structname := v_structname c; v_testonly := v_testonly c;
     v_unroll_variadic := Some true; v_version := v_version c; v_with_expecter := v_with_expecter c |}.

Definition with_anchors (c : v2config) (m : list (str * yv)) : v2config :=
  {| v_all := Some true; v_anchors := Some m; v_boilerplate_file := v_boilerplate_file c;
     v_tags := Some (B "dropped"); v_case := v_case c; v_config := v_config c; v_cpuprofile := v_cpuprofile c;
     v_dir := v_dir c; v_disable_config_search := v_disable_config_search c;
     v_disable_deprecation_warnings := v_disable_deprecation_warnings c;
     v_disabled_deprecation_warnings := v_disabled_deprecation_warnings c;
     v_disable_func_mocks := v_disable_func_mocks c; v_disable_version_string := v_disable_version_string c;
     v_dry_run := v_dry_run c; v_exclude := Some [B "e1"; B "e2"]; v_exclude_regex := v_exclude_regex c;
     v_exported := v_exported c; v_fail_on_missing := v_fail_on_missing c; v_filename := Some (B "dropped.go");
     v_inpackage := v_inpackage c; v_inpackage_suffix := v_inpackage_suffix c;
     v_include_auto_generated := v_include_auto_generated c; v_include_regex := v_include_regex c;
     v_issue_845_fix := v_issue_845_fix c; v_keeptree := v_keeptree c; v_log_level := v_log_level c;
     v_mock_build_tags := v_mock_build_tags c; v_mockname := v_mockname c; v_name := v_name c;
     v_note := v_note c; v_outpkg := Some (B "{{.PackageName}}"); v_output := v_output c;
     v_packageprefix := v_packageprefix c; v_print := v_print c; v_profile := v_profile c;
     v_quiet := v_quiet c; v_recursive := v_recursive c; v_replace_type := v_replace_type c;
     v_resolve_type_alias := v_resolve_type_alias c; v_srcpkg := v_srcpkg c;
     v_structname := v_structname c; v_testonly := v_testonly c;
     v_unroll_variadic := v_unroll_variadic c; v_version := v_version c; v_with_expecter := v_with_expecter c |}.

Definition example_v2 : v2root :=
  {| r_top := with_anchors empty_cfg [(B "a", YInt 1)];
     r_pkgs := [ (B "example.com/p",
                  {| p_config := Some empty_cfg;
                     p_ifaces := [ (B "I", {| i_config := None;
                                              i_configs := [with_mockname empty_cfg (B "A");
                                                            with_mockname empty_cfg (B "B")] |});
                                   (B "J", {| i_config := None; i_configs := [] |}) ] |}) ] |}.

(* ---- the file as it is read back; known finding C19-merge-key ----
   Full statement wanted: for every r with migrate r = MOk out, reading the written file gives
   [out] again (so that every theorem above speaks about the file).  The faithful model of the
   encoder/reader pair refutes it: yaml.v3 writes the mapping key `<<` unquoted and every reader
   takes it for a merge key.  Proved under the guard [v2_merge_free] (no package name, interface
   name or key inside an `_anchors` value is the string `<<`). *)
Theorem C19_file_roundtrip : forall r out,
  v2_merge_free r = true -> migrate r = MOk out -> reread out = Some out.
Proof. exact file_roundtrip. Qed.
Print Assumptions C19_file_roundtrip.

Definition merge_witness : v2root :=
  {| r_top := empty_cfg;
     r_pkgs := [ (B "p", {| p_config := None;
                            p_ifaces := [ (B "<<", {| i_config := None; i_configs := [] |}) ] |}) ] |}.

(* an interface named `<<` is in the tree handed to the encoder but not in the file as read back *)
Theorem C19_names_preserved_refuted : exists r out out',
  migrate r = MOk out /\ v2_merge_free r = false /\ reread out = Some out' /\
  ykeys (ysub [SK kpackages; SK (B "p"); SK kinterfaces] out) = [B "<<"] /\
  ykeys (ysub [SK kpackages; SK (B "p"); SK kinterfaces] out') = [].
Proof.
  exists merge_witness. eexists. eexists.
  split; [vm_compute; reflexivity|]. split; [vm_compute; reflexivity|].
  split; [vm_compute; reflexivity|]. split; vm_compute; reflexivity.
Qed.
Print Assumptions C19_names_preserved_refuted.

Example C19_example :
  migrate example_v2 = MOk (YMap
    [ (B "all", YBool true);
      (B "_anchors", YMap [(B "a", YInt 1)]);
      (B "exclude-subpkg-regex", YList [YStr (B "e1"); YStr (B "e2")]);
      (B "pkgname", YStr (B "{{.PackageName}}"));
      (B "template", YStr (B "testify"));
      (B "packages", YMap
        [ (B "example.com/p", YMap
            [ (B "config", YMap []);
              (B "interfaces", YMap
                [ (B "I", YMap [ (B "configs", YList
                     [ YMap [ (B "structname", YStr (B "A"));
                              (B "template-data", YMap [(B "unroll-variadic", YBool true)]) ];
                       YMap [ (B "structname", YStr (B "B"));
                              (B "template-data", YMap [(B "unroll-variadic", YBool true)]) ] ]) ]);
                  (B "J", YMap []) ]) ]) ]) ]).
Proof. vm_compute. reflexivity. Qed.

(* Why the loader's default configuration needs a non-nil `_anchors` map: with a nil default
   ([load_with true], the tree before fixes/c19-anchors-default.diff) this very output of migrate
   makes the loader panic, so C19_loader_accepts would be false; with the non-nil default it loads. *)
Example C19_nil_anchors_default_would_panic :
  load_with true (fun _ => true) (mig_root example_v2) = LoadPanic /\
  load (fun _ => true) (mig_root example_v2) = LoadOk.
Proof. vm_compute. split; reflexivity. Qed.

(* the invalid-regex class is inhabited: `exclude: [e1, e2]` of the example, with e2 not compiling *)
Example C19_invalid_regex_example :
  v2_regexes example_v2 = [B "e1"; B "e2"] /\
  load (fun s => negb (seqb s (B "e2"))) (mig_root example_v2) = LoadErr.
Proof. vm_compute. split; reflexivity. Qed.

(* the guard is satisfiable by a non-trivial tree *)
Example C19_guard_satisfiable : v2_merge_free example_v2 = true /\ wf_root example_v2 = true.
Proof. vm_compute. split; reflexivity. Qed.
