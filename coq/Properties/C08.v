(* C08 - Configuration resolves hierarchically; the most specific setting wins.
   Only statements; proofs are in Cfg/Json_proofs.v and Cfg/Config_proofs.v.
   Model: Cfg/Json.v (template-data values, key-by-key merge), Cfg/Config.v (Config fields by
   kind, mergeConfigs, Initialize twice, sources, grouping by output file, consumer levels),
   describing the tree AFTER fixes/c08-*.diff.

   Vocabulary.  [written_chain t m] = the configs written for mock m = (package, interface,
   index of the configs entry), most specific first: configs entry, interface config, package
   config, top level.  [mock_cfg (init_pure rx disc (init_pure rx disc t)) m] = the config mockery
   uses for m after the two Initialize calls of a run ([C08_no_panic]).  [disc] is the result of
   sub-package discovery below `recursive` packages (C07's).  [untouched disc pkg]: pkg is not
   discovered below a recursive package.  The scalar theorem holds for every configured package;
   the map-valued ones (template-data, replace-type) are stated under [untouched], because for
   a sub-package of a recursive package the code adds the recursive package's config as one more,
   lowest-priority level that the property's chain does not name
   ([C08_recursive_parent_is_a_level]); that part of [init_pure] is evaluated in the
   correspondence runs (streams `main`, `leak`). *)
From Coq Require Import ZArith.
From Mk Require Import Lib.Bytes Cfg.Json Cfg.Json_proofs Cfg.Config Cfg.Config_proofs.

(* No mergeConfigs call panics below the top level built from the four sources, and a run
   performs Initialize twice. *)
Theorem C08_no_panic : forall rx disc env file flags pkgs,
  run_config rx disc {| t_root := new_root_config env file flags; t_pkgs := pkgs |}
  = Ok (init_pure rx disc (init_pure rx disc {| t_root := new_root_config env file flags; t_pkgs := pkgs |})).
Proof. intros. apply run_config_ok. apply root_total. Qed.
Print Assumptions C08_no_panic.

(* Every scalar (pointer) parameter of every mock of every configured package - discovered by a
   recursive package or not: the value set at the most specific level that sets it, searching
   configs entry, interface config, package config, top level (the top level is total by
   C08_sources, so the search always ends with a value). *)
Theorem C08_scalar : forall rx disc env file flags pkgs m c p,
  let t := {| t_root := new_root_config env file flags; t_pkgs := pkgs |} in
  has_key (m_pkg m) pkgs = true ->
  mock_cfg (init_pure rx disc (init_pure rx disc t)) m = Some c ->
  c_ptr c p = first_some (map (fun x => c_ptr x p) (written_chain t m)).
Proof.
  intros rx disc env file flags pkgs m c p t Hk Hc.
  apply (scalar_first_set_all rx disc t m c p); [apply root_total | exact Hk | exact Hc].
Qed.
Print Assumptions C08_scalar.

(* ... and the top level itself: flags > file > environment > defaults; the defaults set every
   pointer parameter, so the search of C08_scalar always ends with a value. *)
Theorem C08_sources : forall env file flags p,
  c_ptr (new_root_config env file flags) p
  = first_some [c_ptr flags p; c_ptr file p; c_ptr env p; c_ptr default_cfg p]
  /\ c_ptr default_cfg p <> None.
Proof.
  intros. split; [apply sources_ptr|].
  apply (proj1 (total_spec default_cfg) default_total).
Qed.
Print Assumptions C08_sources.

(* The maps of the four sources are layered by the same key-by-key merge. *)
Theorem C08_sources_maps : forall env file flags path,
  look path (tdj (new_root_config env file flags))
  = resolve path [tdj flags; tdj file; tdj env; tdj default_cfg].
Proof. intros. rewrite sources_chain. apply td_chain. discriminate. Qed.
Print Assumptions C08_sources_maps.

(* Map-valued template-data, at every key path and every depth: what is visible in the effective
   config is what [resolve] specifies on the chain - the most specific level that has the key
   wins; where it holds a map, the maps of the less specific levels are merged in key by key, up
   to the first level that holds something else than a map there. *)
Theorem C08_template_data : forall rx disc t m c path,
  untouched disc (m_pkg m) ->
  mock_cfg (init_pure rx disc (init_pure rx disc t)) m = Some c ->
  look path (tdj c) = resolve path (map tdj (written_chain t m)).
Proof. intros rx disc t m c path Hu Hc. exact (template_data_resolve rx disc t m c Hu Hc path). Qed.
Print Assumptions C08_template_data.

(* When no level puts a non-map where another level has a map on the way to [path], this is
   plainly "the first level of the chain at which the path exists". *)
Theorem C08_template_data_first_set : forall rx disc t m c path,
  untouched disc (m_pkg m) ->
  mock_cfg (init_pure rx disc (init_pure rx disc t)) m = Some c ->
  Forall (clean path) (map tdj (written_chain t m)) ->
  look path (tdj c) = first_some (map (fun x => look path (tdj x)) (written_chain t m)).
Proof. intros rx disc t m c path Hu Hc. exact (template_data_first_set rx disc t m c Hu Hc path). Qed.
Print Assumptions C08_template_data_first_set.

(* The merge itself, for any chain of values (not only four levels). *)
Theorem C08_merge_chain : forall path chain, look_opt path (eff chain) = resolve path chain.
Proof. exact look_eff. Qed.
Print Assumptions C08_merge_chain.

(* replace-type is inherited entry by entry with the same precedence (used by C13_levels). *)
Theorem C08_replace_type : forall rx disc t m c k,
  untouched disc (m_pkg m) ->
  mock_cfg (init_pure rx disc (init_pure rx disc t)) m = Some c ->
  rget k (c_rt c) = first_some (map (fun x => rget k (c_rt x)) (written_chain t m)).
Proof. intros rx disc t m c k Hu Hc. exact (replace_type_first_set rx disc t m c Hu Hc k). Qed.
Print Assumptions C08_replace_type.

(* No leak: the effective config of a mock is a function of its own chain.  Two trees that
   write the same chain for m - whatever sibling packages, interfaces and configs entries they
   contain - give m indistinguishable configs (same scalars, same replace-type entries, same
   value at every template-data path). *)
Theorem C08_no_leak : forall rx disc t t' m c c',
  untouched disc (m_pkg m) ->
  written_chain t m = written_chain t' m ->
  mock_cfg (init_pure rx disc (init_pure rx disc t)) m = Some c ->
  mock_cfg (init_pure rx disc (init_pure rx disc t')) m = Some c' ->
  cfg_equiv c c'.
Proof. exact no_leak. Qed.
Print Assumptions C08_no_leak.

(* Levels.  (1) which level every consumer reads. *)
Theorem C08_levels_table :
  (forall p, In p [PP PDir; PP PFileName; PP PPkgName; PP PStructName; PIfaceTemplateData; PReplaceType]
             -> consumer_level p = LMock)
  /\ (forall p, In p [PP PTemplate; PP PTemplateSchema; PP PRequireTemplateSchemaExists; PP PFormatter;
                      PP PForceFileWrite; PFileTemplateData] -> consumer_level p = LFile)
  /\ (forall p, In p [PP PAll; PP PIncludeInterfaceRegex; PP PExcludeInterfaceRegex; PP PRecursive]
             -> consumer_level p = LPackage).
Proof.
  repeat split; intros p H; simpl in H;
    repeat (destruct H as [<-|H]; [reflexivity|]); destruct H.
Qed.
Print Assumptions C08_levels_table.

(* (2) the mocks sharing an output file: every file of a plan is non-empty and its mocks agree
   with it on path, package name, template and source package ... *)
Theorem C08_levels_files : forall ms fs, make_plan ms = PlanOk fs -> Forall file_inv fs.
Proof. exact plan_files. Qed.
Print Assumptions C08_levels_files.

(* ... so the template the file is rendered with is the effective template of every mock in it,
   and every other per-file parameter on which the mocks of the file agree is read with the
   value each of them resolves to (the consumer reads the first mock of the file). *)
Theorem C08_levels_file_template : forall ms fs f mc,
  make_plan ms = PlanOk fs -> In f fs -> In mc (f_mocks f) ->
  str_of (c_ptr (read_level {| t_root := empty_cfg; t_pkgs := [] |} f mc (consumer_level (PP PTemplate))) PTemplate)
  = str_of (c_ptr (snd mc) PTemplate).
Proof. intros. simpl. eapply file_level_template; eassumption. Qed.
Print Assumptions C08_levels_file_template.

Theorem C08_levels_file_params : forall t f mc p,
  In p [PTemplateSchema; PRequireTemplateSchemaExists; PFormatter; PForceFileWrite] ->
  In mc (f_mocks f) ->
  (forall x y, In x (f_mocks f) -> In y (f_mocks f) -> c_ptr (snd x) p = c_ptr (snd y) p) ->
  c_ptr (read_level t f mc (consumer_level (PP p))) p = c_ptr (snd mc) p.
Proof.
  intros t f mc p Hp Hm Hag.
  assert (consumer_level (PP p) = LFile) as ->.
  { simpl in Hp. repeat (destruct Hp as [<-|Hp]; [reflexivity|]). destruct Hp. }
  simpl. apply (file_level_agree f mc (fun c => c_ptr c p)); assumption.
Qed.
Print Assumptions C08_levels_file_params.

Theorem C08_levels_file_template_data : forall t f mc,
  In mc (f_mocks f) ->
  (forall x y, In x (f_mocks f) -> In y (f_mocks f) -> c_td (snd x) = c_td (snd y)) ->
  c_td (read_level t f mc (consumer_level PFileTemplateData)) = c_td (snd mc).
Proof. intros. simpl. apply file_level_agree_td; assumption. Qed.
Print Assumptions C08_levels_file_template_data.

(* (3) per-mock parameters are read from the mock's own entry, per-package parameters from the
   package (selection is a function of the package's config and its interface list only). *)
Theorem C08_levels_mock_and_package : forall t f mc rx pc pc' name,
  read_level t f mc LMock = snd mc /\
  (pc_config pc = pc_config pc' -> has_key name (pc_ifaces pc) = has_key name (pc_ifaces pc') ->
   should_generate rx pc name = should_generate rx pc' name).
Proof.
  intros. split; [reflexivity|]. intros H1 H2. unfold should_generate. rewrite H1, H2. reflexivity.
Qed.
Print Assumptions C08_levels_mock_and_package.

(* (4) sub-package exclusion is read from the recursive package: its own list if it writes one -
   an explicitly empty list included, which excludes nothing - else the top level's; a sub-package
   that this list excludes is left untouched by the package's recursive step. *)
Theorem C08_levels_exclusion : forall rx disc root p pkgs parent pp sub,
  c_esr (pc_config (init_pkg root p)) = first_some [c_esr (pc_config p); c_esr root]
  /\ excluded rx (Some []) sub = false
  /\ (get parent pkgs = Some pp -> excluded rx (c_esr (pc_config pp)) sub = true ->
      get sub (rec_step rx disc pkgs parent) = get sub pkgs).
Proof.
  intros. split; [rewrite esr_of_package; destruct (c_esr (pc_config p)), (c_esr root); reflexivity|].
  split; [reflexivity | apply rec_step_excluded].
Qed.
Print Assumptions C08_levels_exclusion.

(* The hypothesis [untouched] of the map-valued theorems cannot be dropped: for a configured
   package that a recursive package also discovers, the code merges the recursive package's
   config into it (RootConfig.Initialize, second loop), so template-data (and replace-type)
   entries of the recursive package become visible - a level the property's chain does not name
   (see C08_recursive_parent_kind_conflict for its exact place).  (Scalars are not affected: C08_scalar.)  [untouchedb] is the boolean
   form of the guard. *)
Theorem C08_recursive_parent_is_a_level :
  exists disc t m c path,
    untouchedb disc (m_pkg m) = false /\
    mock_cfg (init_pure (fun _ _ => false) disc (init_pure (fun _ _ => false) disc t)) m = Some c /\
    look path (tdj c) <> resolve path (map tdj (written_chain t m)).
Proof.
  exists [(B "m/p", [B "m/p/sub"])].
  exists {| t_root := default_cfg;
            t_pkgs := [(B "m/p", {| pc_config := {| c_ptr := ptr_of [(PRecursive, SBool true)];
                                                    c_td := [(B "fromp", JNum 1)]; c_rt := []; c_esr := None |};
                                    pc_ifaces := [] |});
                       (B "m/p/sub", empty_pcfg)] |}.
  exists {| m_pkg := B "m/p/sub"; m_iface := B "A"; m_idx := 0 |}.
  eexists. exists [B "fromp"].
  split; [reflexivity|]. split; [vm_compute; reflexivity|]. vm_compute. discriminate.
Qed.
Print Assumptions C08_recursive_parent_is_a_level.

(* What the code computes for such a sub-package is ((sub <- top) <- parent): the first loop merges
   the top level into the configured sub-package, the second loop merges the recursive package
   (itself already merged with the top level) into the result.  Without kind conflicts this is
   the chain [sub; top; parent].  With one it is no chain at all: below, the top level holds a
   scalar under "a" and a string under "b", sub-package and recursive package hold maps under "a".
   The sub-package's map shadows the scalar, and the recursive package's map is then merged into
   it (as in the chain [sub; parent; top]) while "b" comes from the top level (as in
   [sub; top; parent]).  The property ranks neither; the oracle accepts both, path by path. *)
Theorem C08_recursive_parent_kind_conflict :
  let top := {| c_ptr := c_ptr default_cfg; c_td := [(B "a", JBool true); (B "b", JStr (B "top"))]; c_rt := []; c_esr := None |} in
  let par := {| c_ptr := ptr_of [(PRecursive, SBool true)];
                c_td := [(B "a", JObj [(B "k4", JNum 4)]); (B "b", JNum 4020)]; c_rt := []; c_esr := None |} in
  let sub := {| c_ptr := fun _ => None; c_td := [(B "a", JObj [(B "k3", JNum 3)])]; c_rt := []; c_esr := None |} in
  let t := {| t_root := top; t_pkgs := [(B "m/p", {| pc_config := par; pc_ifaces := [] |});
                                         (B "m/p/sub", {| pc_config := sub; pc_ifaces := [] |})] |} in
  let m := {| m_pkg := B "m/p/sub"; m_iface := B "A"; m_idx := 0 |} in
  exists c, mock_cfg (init_pure (fun _ _ => false) [(B "m/p", [B "m/p/sub"])] (init_pure (fun _ _ => false) [(B "m/p", [B "m/p/sub"])] t)) m = Some c
    /\ look [B "a"; B "k4"] (tdj c) = Some (OLeaf (JNum 4))
    /\ resolve [B "a"; B "k4"] [tdj sub; tdj top; tdj par] = None
    /\ look [B "b"] (tdj c) = Some (OLeaf (JStr (B "top")))
    /\ resolve [B "b"] [tdj sub; tdj par; tdj top] = Some (OLeaf (JNum 4020)).
Proof. eexists. vm_compute. repeat split; reflexivity. Qed.
Print Assumptions C08_recursive_parent_kind_conflict.

Theorem C08_guard_boolean : forall disc pkg, untouchedb disc pkg = true -> untouched disc pkg.
Proof. exact untouchedb_spec. Qed.
Print Assumptions C08_guard_boolean.

(* Non-vacuity: a tree with four levels, nested template-data with a kind conflict, and
   replace-type written at the top; the mock of the second configs entry. *)
Example C08_example :
  let cfgs k v td rt := {| c_ptr := ptr_of [(k, SStr v)]; c_td := td; c_rt := rt; c_esr := None |} in
  let root := new_root_config empty_cfg
                (cfgs PDir (B "d-root") [(B "nest", JObj [(B "r", JNum 1)]); (B "k", JStr (B "root"))]
                      [((B "m/ty", B "K"), (B "m/rt", B "R"))])
                empty_cfg in
  let t := {| t_root := root;
              t_pkgs := [(B "m/p", {| pc_config := cfgs PFileName (B "f-pkg") [(B "nest", JObj [(B "p", JNum 2)])] [];
                                      pc_ifaces := [(B "A", {| ic_config := cfgs PStructName (B "S-iface") [(B "nest", JStr (B "blocked"))] [];
                                                               ic_configs := [empty_cfg;
                                                                              cfgs PDir (B "d-entry") [(B "nest", JObj [(B "e", JNum 3)])] []] |})] |});
                         (B "m/q", empty_pcfg)] |} in
  untouchedb [(B "m/q", [B "m/q/sub"])] (B "m/p") = true /\
  match run_config (fun _ _ => false) [] t with
  | Ok t2 =>
    match mock_cfg t2 {| m_pkg := B "m/p"; m_iface := B "A"; m_idx := 1 |} with
    | Some c =>
      (c_ptr c PDir, c_ptr c PFileName, c_ptr c PStructName, c_ptr c PFormatter,
       look [B "nest"; B "e"] (tdj c), look [B "nest"; B "p"] (tdj c), look [B "k"] (tdj c),
       rget (B "m/ty", B "K") (c_rt c))
      = (Some (SStr (B "d-entry")), Some (SStr (B "f-pkg")), Some (SStr (B "S-iface")), Some (SStr (B "goimports")),
         Some (OLeaf (JNum 3)), None, Some (OLeaf (JStr (B "root"))), Some (B "m/rt", B "R"))
    | None => False
    end
  | Panic => False
  end.
Proof. vm_compute. split; reflexivity. Qed.
