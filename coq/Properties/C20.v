(* C20 - Release tagger: dry-run mutates nothing; only strictly newer versions are tagged.
   Only statements; proofs are in Misc/Semver_proofs.v and Misc/Tag_proofs.v.
   Models: Misc/Semver.v (Masterminds/semver v3.2.1 NewVersion / String / Compare as used by
   tools/cmd/tag.go), Misc/Tag.v ([decide]: refs, requested VERSION, dirty, dry-run, HEAD
   |-> exit class, refs', stdout).  The model is the FIXED tagger (fixes/c20-dry-run.diff,
   fixes/c20-tag-ref-name.diff, fixes/c20-packed-refs.diff). *)
From Coq Require Import NArith Permutation.
From Mk Require Import Lib.Bytes Misc.Semver Misc.Semver_proofs Misc.Tag Misc.Tag_proofs.

(* Everything the parser returns is well formed (pre-release identifiers non-empty, numeric
   ones without leading zero) - the domain of the order theorem - and within the library's
   limits; the printed form parses back to the same version. *)
Theorem C20_parse_wf : forall s v, parse s = Some v ->
  wf v = true /\ valid v = true /\ parse (print v) = Some v /\ parse (c_v :: print v) = Some v.
Proof.
  intros s v H. pose proof (parse_valid _ _ H) as V.
  repeat split; [eapply parse_wf; exact H | exact V | apply parse_print; exact V | apply parse_v_print; exact V].
Qed.
Print Assumptions C20_parse_wf.

(* The comparison used by the tagger (Version.Compare; GreaterThan = Gt, LessThan = Lt) is a
   strict total order on well-formed versions up to build metadata: irreflexive, transitive,
   trichotomous with "equal precedence" = same major.minor.patch and pre-release;
   GreaterThan is the converse of LessThan; a pre-release is below its release; build
   metadata is ignored. *)
Theorem C20_order : forall a b c, wf a = true -> wf b = true -> wf c = true ->
  ~ lt a a /\
  (lt a b -> lt b c -> lt a c) /\
  ((lt a b /\ ~ eqv a b /\ ~ lt b a) \/ (~ lt a b /\ eqv a b /\ ~ lt b a) \/ (~ lt a b /\ ~ eqv a b /\ lt b a)) /\
  (compare a b = Eq <-> eqv a b) /\
  (gt a b <-> lt b a) /\
  (pre a <> [] -> lt a (release_of a)) /\
  (forall m, compare (with_meta a m) b = compare a b /\ compare a (with_meta b m) = compare a b).
Proof.
  intros a b c Wa Wb Wc. split; [apply lt_irrefl; exact Wa|].
  split; [apply lt_trans; assumption|]. split; [apply trichotomy; assumption|].
  split; [apply compare_eq; assumption|]. split; [apply gt_lt; assumption|].
  split; [apply pre_lt_release | intros m; apply meta_ignored].
Qed.
Print Assumptions C20_order.

(* "Strictly greater" is semver.org 2.0.0 precedence ([spec_compare]: numeric identifiers
   compared as unbounded numbers) whenever the numeric pre-release identifiers fit in uint64
   ([small]).  Full statement (false of the library, see C20_compare_refuted_huge):
     forall a b, wf a = true -> wf b = true -> compare a b = spec_compare a b. *)
Theorem C20_compare_is_semver_precedence : forall a b,
  wf a = true -> wf b = true -> small a = true -> small b = true -> compare a b = spec_compare a b.
Proof. exact compare_is_spec. Qed.
Print Assumptions C20_compare_is_semver_precedence.

(* known finding C20-uint64-prerelease-identifier: a numeric identifier of 2^64 or more is
   compared bytewise by the library, so 3.1.0-99999999999999999999 counts as newer than
   3.1.0-100000000000000000000 *)
Theorem C20_compare_refuted_huge : exists a b,
  parse (B "v3.1.0-99999999999999999999") = Some a /\ parse (B "v3.1.0-100000000000000000000") = Some b /\
  wf a = true /\ wf b = true /\ compare a b = Gt /\ spec_compare a b = Lt.
Proof.
  exists {| major := 3; minor := 1; patch := 0; pre := B "99999999999999999999"; meta := [] |}.
  exists {| major := 3; minor := 1; patch := 0; pre := B "100000000000000000000"; meta := [] |}.
  repeat split; vm_compute; reflexivity.
Qed.
Print Assumptions C20_compare_refuted_huge.

(* the guard [small] holds of ordinary versions, up to the last uint64 *)
Example C20_small_example :
  map (fun s => option_map small (parse s))
      [B "v3.1.0-rc.1"; B "1.0.0-alpha.beta.11+b5"; B "v2.0.0-18446744073709551615"; B "v2.0.0-18446744073709551616"]
  = [Some true; Some true; Some true; Some false].
Proof. vm_compute. reflexivity. Qed.

(* Dry-run (the default) never changes any ref - whatever the tags, version, work tree. *)
Theorem C20_dry_run_frame : forall i, i_dry i = true -> o_refs (decide i) = i_refs i.
Proof. exact dry_run_frame. Qed.
Print Assumptions C20_dry_run_frame.

(* The refs change if and only if: not dry-run, clean work tree, VERSION is accepted by the
   version parser, no tag name with >= 3 dot-separated parts is rejected by it (that aborts
   the tool), the requested version is strictly greater than 0.0.0 and than EVERY full
   version tag of the same major, HEAD resolves, and "v<version>" is an acceptable ref name
   (does not end in ".lock").  [tags_now] is exactly this conjunction (Misc/Tag.v). *)
Theorem C20_only_newer_clean : forall i,
  o_refs (decide i) <> i_refs i <-> exists rv h, tags_now i rv h.
Proof.
  intros i. split; [apply decide_changes|]. intros (rv & h & T). eapply tags_now_changes; exact T.
Qed.
Print Assumptions C20_only_newer_clean.

Theorem C20_untouched_otherwise : forall i,
  (forall rv h, ~ tags_now i rv h) -> o_refs (decide i) = i_refs i.
Proof. exact untouched. Qed.
Print Assumptions C20_untouched_otherwise.

(* Exit status: 8 "nothing to do" exactly when VERSION and all tags are readable and the
   version is not newer; 0 exactly when it is newer, the tree is clean, HEAD resolves, and
   (dry-run or the name is acceptable); 1 otherwise. *)
Theorem C20_exit_nothing : forall i, o_exit (decide i) = ExitNothing <->
  exists rv, parse (i_version i) = Some rv /\ ~ scan_error (tag_names (i_refs i)) /\
             ~ newer_than_all rv (tag_names (i_refs i)).
Proof. exact exit_nothing. Qed.
Print Assumptions C20_exit_nothing.

Theorem C20_exit_ok : forall i, o_exit (decide i) = ExitOk <->
  exists rv h, parse (i_version i) = Some rv /\ ~ scan_error (tag_names (i_refs i)) /\
               newer_than_all rv (tag_names (i_refs i)) /\ i_dirty i = false /\ i_head i = Some h /\
               (i_dry i = true \/ ref_name_ok (full_name rv) = true).
Proof. exact exit_ok. Qed.
Print Assumptions C20_exit_ok.

(* When it tags: exit 0; refs' = refs without an old major tag, plus the full tag and the
   major tag, both annotated and at HEAD; the full tag did not exist before (no tag is
   overwritten); every other name points where it pointed; names stay unique. *)
Theorem C20_exact_effect : forall i rv h, tags_now i rv h ->
  o_exit (decide i) = ExitOk /\
  o_refs (decide i) = filter (not_named (tag_ref (major_name rv))) (i_refs i)
                      ++ [new_tag (full_name rv) h; new_tag (major_name rv) h] /\
  ~ In (tag_ref (full_name rv)) (map r_name (i_refs i)) /\
  major_name rv <> full_name rv /\
  (forall name, lookup name (o_refs (decide i)) =
     if seqb name (tag_ref (full_name rv)) then Some (new_tag (full_name rv) h)
     else if seqb name (tag_ref (major_name rv)) then Some (new_tag (major_name rv) h)
     else lookup name (i_refs i)) /\
  (NoDup (map r_name (i_refs i)) -> NoDup (map r_name (o_refs (decide i)))).
Proof.
  intros i rv h T. split.
  { destruct (decide_tags i rv h T) as (prev & _ & ->). reflexivity. }
  split; [apply exact_effect; exact T|]. split; [eapply full_tag_fresh; exact T|].
  split; [apply major_name_neq_full|]. split; [intros name; apply exact_effect_lookup; exact T|].
  apply (names_nodup i rv h T).
Qed.
Print Assumptions C20_exact_effect.

(* Strictness seen dynamically: after the tool has tagged, running it again with the same
   VERSION (any flag, any work tree) is "nothing to do". *)
Theorem C20_rerun_nothing : forall i rv h d y hd', tags_now i rv h ->
  o_exit (decide {| i_refs := o_refs (decide i); i_version := i_version i;
                    i_dirty := d; i_dry := y; i_head := hd' |}) = ExitNothing.
Proof. exact rerun_nothing. Qed.
Print Assumptions C20_rerun_nothing.

(* The order in which the reference iterator yields the refs is irrelevant. *)
Theorem C20_order_independent : forall i1 i2,
  Permutation (i_refs i1) (i_refs i2) -> i_version i1 = i_version i2 -> i_dirty i1 = i_dirty i2 ->
  i_dry i1 = i_dry i2 -> i_head i1 = i_head i2 ->
  o_exit (decide i1) = o_exit (decide i2) /\ Permutation (o_refs (decide i1)) (o_refs (decide i2)).
Proof. exact order_independent. Qed.
Print Assumptions C20_order_independent.

(* Non-vacuity: a history with lightweight, annotated, major-only, other-major and
   non-semver tags; v3.1.0 is tagged, v3 moves; the same request as a dry run changes nothing. *)
Definition ex_refs : list ref :=
  [ {| r_name := B "refs/heads/main"; r_kind := Light; r_target := 2 |};
    {| r_name := B "refs/tags/v3"; r_kind := Light; r_target := 1 |};
    {| r_name := B "refs/tags/v3.0.0"; r_kind := Light; r_target := 0 |};
    {| r_name := B "refs/tags/v3.0.5"; r_kind := Annot (B "v3.0.5"); r_target := 1 |};
    {| r_name := B "refs/tags/v3.1.0-rc.1"; r_kind := Light; r_target := 1 |};
    {| r_name := B "refs/tags/v4.2.0"; r_kind := Light; r_target := 1 |};
    {| r_name := B "refs/tags/nightly"; r_kind := Light; r_target := 2 |} ].
Definition ex_in (dry : bool) : input :=
  {| i_refs := ex_refs; i_version := B "v3.1.0"; i_dirty := false; i_dry := dry; i_head := Some 2 |}.

Example C20_example :
  decide (ex_in false) =
    {| o_exit := ExitOk;
       o_refs := [ {| r_name := B "refs/heads/main"; r_kind := Light; r_target := 2 |};
                   {| r_name := B "refs/tags/v3.0.0"; r_kind := Light; r_target := 0 |};
                   {| r_name := B "refs/tags/v3.0.5"; r_kind := Annot (B "v3.0.5"); r_target := 1 |};
                   {| r_name := B "refs/tags/v3.1.0-rc.1"; r_kind := Light; r_target := 1 |};
                   {| r_name := B "refs/tags/v4.2.0"; r_kind := Light; r_target := 1 |};
                   {| r_name := B "refs/tags/nightly"; r_kind := Light; r_target := 2 |};
                   {| r_name := B "refs/tags/v3.1.0"; r_kind := Annot (B "v3.1.0"); r_target := 2 |};
                   {| r_name := B "refs/tags/v3"; r_kind := Annot (B "v3"); r_target := 2 |} ];
       o_stdout := Some (B "3.1.0", B "3.1.0-rc.1") |}
  /\ decide (ex_in true) = {| o_exit := ExitOk; o_refs := ex_refs; o_stdout := Some (B "3.1.0", B "3.1.0-rc.1") |}
  /\ o_exit (decide {| i_refs := ex_refs; i_version := B "v3.0.5"; i_dirty := false; i_dry := false; i_head := Some 2 |}) = ExitNothing
  /\ o_exit (decide {| i_refs := ex_refs; i_version := B "v3.1.0"; i_dirty := true; i_dry := false; i_head := Some 2 |}) = ExitError.
Proof. vm_compute. repeat split; reflexivity. Qed.

(* semver.org's precedence chain *)
Example C20_example_order :
  map (fun p => match parse (fst p), parse (snd p) with
                | Some a, Some b => Some (compare a b) | _, _ => None end)
      [ (B "1.0.0-alpha", B "1.0.0-alpha.1"); (B "1.0.0-alpha.1", B "1.0.0-alpha.beta");
        (B "1.0.0-alpha.beta", B "1.0.0-beta"); (B "1.0.0-beta", B "1.0.0-beta.2");
        (B "1.0.0-beta.2", B "1.0.0-beta.11"); (B "1.0.0-beta.11", B "1.0.0-rc.1");
        (B "1.0.0-rc.1", B "1.0.0"); (B "v1.0.0+a", B "1.0.0+b"); (B "v3", B "3.0.0") ]
  = [Some Lt; Some Lt; Some Lt; Some Lt; Some Lt; Some Lt; Some Lt; Some Eq; Some Eq].
Proof. vm_compute. reflexivity. Qed.
