(* C15 - Name and import allocators offered to templates never produce collisions.
   Only statements; proofs are in Gen/Alloc_proofs.v.  Model: Gen/Alloc.v
   (state = file registry * method scope; [trace st ops] is the list of (call, answer)). *)
From Coq Require Import Permutation Sorted.
From Mk Require Import Lib.Bytes Lib.Fresh Gen.Alloc Gen.Alloc_proofs.

(* Within one method scope, every name returned by the allocation call is different from
   every name visible or allocated before in that scope. *)
Theorem C15_allocated_fresh : forall st ops,
  forallb no_newscope ops = true ->
  NoDup (allocated (trace st ops)) /\
  forall n, In n (allocated (trace st ops)) -> ~ In n (snd st).
Proof. exact allocated_fresh. Qed.
Print Assumptions C15_allocated_fresh.

Theorem C15_allocate_spec : forall r s p,
  let '(st', x) := step (r, s) (AllocateName p) in
  exists n, x = OName n /\ ~ In n s /\ snd (step st' (NameExists n)) = OBool true /\ fst st' = r.
Proof. exact allocate_spec. Qed.
Print Assumptions C15_allocate_spec.

(* Suggestion without allocation (and every other query) has no effect on later results:
   deleting the queries from any history leaves all other answers unchanged. *)
Theorem C15_queries_have_no_effect : forall st ops,
  filter (fun x => negb (pure_op (fst x))) (trace st ops)
  = trace st (filter (fun o => negb (pure_op o)) ops).
Proof. exact queries_have_no_effect. Qed.
Print Assumptions C15_queries_have_no_effect.

(* A name reported as existing stays existing. *)
Theorem C15_exists_monotone : forall st ops n,
  forallb no_newscope ops = true ->
  snd (step st (NameExists n)) = OBool true ->
  snd (step (final st ops) (NameExists n)) = OBool true.
Proof. exact exists_monotone. Qed.
Print Assumptions C15_exists_monotone.

(* Adding an import returns the same qualifier for the same path every time
   (whatever package name is passed, whatever happens in between). *)
Theorem C15_import_stable : forall st ops name1 name2 path,
  let st1 := fst (step st (AddImport name1 path)) in
  snd (step (final st1 ops) (AddImport name2 path)) = snd (step st (AddImport name1 path)).
Proof. exact import_stable. Qed.
Print Assumptions C15_import_stable.

(* Distinct qualifiers for distinct paths even when package names coincide; the
   in-package self import (which is answered by the nil package) is the only exception. *)
Theorem C15_qual_injective : forall d b ops n1 p1 x1 n2 p2 x2,
  In (AddImport n1 p1, x1) (trace (init d b) ops) ->
  In (AddImport n2 p2, x2) (trace (init d b) ops) ->
  ~ (p1 = d /\ b = true) -> ~ (p2 = d /\ b = true) -> p1 <> p2 ->
  exists q1 q2, x1 = OImp p1 q1 /\ x2 = OImp p2 q2 /\ q1 <> q2.
Proof. exact qual_injective. Qed.
Print Assumptions C15_qual_injective.

(* Never a qualifier equal to another import's; the import list is sorted by path and
   contains each path once (and exactly the paths added so far). *)
Theorem C15_imports_listing : forall d b ops,
  let r := fst (final (init d b) ops) in
  let l := map (fun i => (ipath i, qualifier i)) (imports_sorted r) in
  snd (step (final (init d b) ops) Imports) = OImports l /\
  StronglySorted (fun a b => sltb (fst a) (fst b) = true) l /\
  NoDup (map fst l) /\ NoDup (map snd l) /\
  Permutation (map fst l) (map ipath (imports r)).
Proof. exact imports_listing. Qed.
Print Assumptions C15_imports_listing.

Theorem C15_pkg_qualifier_agrees : forall r i,
  RInv r -> In i (imports r) -> pkg_qualifier r (ipath i) = Some (qualifier i).
Proof. exact pkg_qualifier_agrees. Qed.
Print Assumptions C15_pkg_qualifier_agrees.

(* The searches always terminate with an answer (pigeonhole over the injective suffix). *)
Theorem C15_search_total : forall off p s, exists r, first_free off p s = Some r /\ ~ In r s.
Proof.
  intros off p s. destruct (first_free_total off p s) as [r E]. exists r. split; [exact E|].
  eapply first_free_fresh; exact E.
Qed.
Print Assumptions C15_search_total.

(* Non-vacuity: four packages all named http get http, http0, http1, http2; a package named
   http0 arriving in between is respected. *)
Example C15_example :
  map snd (trace (init (B "d") false)
     [AddImport (B "http") (B "a/http"); AddImport (B "http") (B "b/http");
      AddImport (B "http0") (B "c/http0"); AddImport (B "http") (B "d/http");
      NewScope; AllocateName (B "http"); AllocateName (B "http"); Imports])
  = [OImp (B "a/http") (B "http"); OImp (B "b/http") (B "http0");
     OImp (B "c/http0") (B "http00"); OImp (B "d/http") (B "http1");
     OUnit; OName (B "http2"); OName (B "http3");
     OImports [(B "a/http", B "http"); (B "b/http", B "http0"); (B "c/http0", B "http00"); (B "d/http", B "http1")]].
Proof. vm_compute. reflexivity. Qed.
