(* C10 - Output files are written safely: no stray writes, no clobbering, all-or-nothing.
   Only statements; proofs are in Cfg/Pipeline_proofs.v (invariant of the write loop over
   Cfg/Fs.v).  Every theorem holds for ALL worlds (initial file systems that need not even
   be trees, permission faults, failure features) and ALL iteration orders [ord]
   (any list of paths, with repetitions or omissions). *)
From Mk Require Import Lib.Bytes Cfg.Fs Cfg.GoMod Cfg.Pipeline Cfg.Pipeline_proofs.

(* Every path that is neither a designated output nor a directory on the way to one is
   left exactly as it was. *)
Theorem C10_frame : forall w ord q,
  (forall x, In x (out_paths w) -> is_prefix q x = false) ->
  snd (run w ord) q = w_fs w q.
Proof. exact frame. Qed.
Print Assumptions C10_frame.

(* An existing node is replaced only if it is a file and the force-file-write value that the
   run uses for an output file designated there is true, and then by the complete new content
   of that output ... *)
Theorem C10_no_clobber : forall w ord q n,
  w_fs w q = Some n -> snd (run w ord) q <> Some n ->
  (exists c, n = File c) /\
  exists x, key_path w x = Some q /\ force_of w x = Some true /\
            snd (run w ord) q = Some (File (w_content w x)).
Proof. exact no_clobber. Qed.
Print Assumptions C10_no_clobber.

(* ... otherwise (the path is occupied, it is the file of the map key x, x is visited, and
   force-file-write is false for every key that denotes this file) the run fails and the
   node is unchanged. *)
Theorem C10_no_clobber_fails : forall w ord q n x,
  w_fs w q = Some n -> key_path w x = Some q -> In x ord ->
  (forall y, key_path w y = Some q -> force_of w y = Some false) ->
  fst (run w ord) = ExitErr /\ snd (run w ord) q = Some n.
Proof. exact no_clobber_fails. Qed.
Print Assumptions C10_no_clobber_fails.

(* [force_of w x] is the force-file-write of the mock that governs the output file with key
   x - the first selected request with that key that the run meets ([file_gov]); [file_pkg]
   is its source package, [key_path] its file. *)
Theorem C10_file_gov_sound : forall w x g,
  file_gov w x = Some g -> exists p, In (p, g) (selected_reqs w) /\ q_key g = x.
Proof. exact file_gov_sound. Qed.
Print Assumptions C10_file_gov_sound.
Theorem C10_force_of_sound : forall w x p,
  file_pkg w x = Some p -> exists q, In (p, q) (selected_reqs w) /\ q_key q = x.
Proof. exact file_pkg_sound. Qed.
Print Assumptions C10_force_of_sound.
Theorem C10_force_of_complete : forall w m p q,
  wf_world w -> collections w = Some m -> In (p, q) (selected_reqs w) ->
  file_pkg w (q_key q) = Some p.
Proof. exact file_pkg_complete. Qed.
Print Assumptions C10_force_of_complete.
Theorem C10_key_path_sound : forall w x q,
  key_path w x = Some q -> exists p r, In (p, r) (selected_reqs w) /\ q_key r = x /\ q_path r = q.
Proof. exact key_path_sound. Qed.
Print Assumptions C10_key_path_sound.

(* After the run every path holds its old node, or the complete new content of an output
   file designated there, or - if it was absent - a directory on the way to an output. *)
Theorem C10_all_or_nothing : forall w ord q,
  snd (run w ord) q = w_fs w q
  \/ (exists p r, In (p, r) (selected_reqs w) /\ q_path r = q /\
                  snd (run w ord) q = Some (File (w_content w (q_key r))))
  \/ (w_fs w q = None /\ snd (run w ord) q = Some Dir /\
      exists x, In x (out_paths w) /\ strict_prefix q x = true).
Proof. exact all_or_nothing. Qed.
Print Assumptions C10_all_or_nothing.

(* If producing the output with key x (file q) fails in template retrieval, schema retrieval
   or validation, template parsing or execution, formatting, data preparation or the
   package-level templated values, q keeps its old node - or, when absent, becomes a
   directory that another output needs - or holds the complete content of ANOTHER map key
   that denotes the same file. *)
Theorem C10_stage_failure : forall w ord x q,
  stage_fails w x q ->
  snd (run w ord) q = w_fs w q
  \/ (w_fs w q = None /\ snd (run w ord) q = Some Dir /\
      exists y, In y (out_paths w) /\ strict_prefix q y = true)
  \/ (exists x', x' <> x /\ key_path w x' = Some q /\ snd (run w ord) q = Some (File (w_content w x'))).
Proof. exact stage_failure_keeps. Qed.
Print Assumptions C10_stage_failure.

(* When no output path is a directory on the way to another output (guard [no_nested]) and
   keys and files correspond one to one (guard [no_alias]), only the first alternatives remain: *)
Theorem C10_output_old_or_new : forall w ord q,
  no_nested w -> In q (out_paths w) ->
  snd (run w ord) q = w_fs w q \/
  exists p r, In (p, r) (selected_reqs w) /\ q_path r = q /\
              snd (run w ord) q = Some (File (w_content w (q_key r))).
Proof. exact output_old_or_new. Qed.
Print Assumptions C10_output_old_or_new.
Theorem C10_stage_failure_output : forall w ord x q,
  no_nested w -> no_alias w -> stage_fails w x q -> snd (run w ord) q = w_fs w q.
Proof. exact stage_failure_keeps_output. Qed.
Print Assumptions C10_stage_failure_output.

(* A directory is never modified or replaced (in particular one that occupies an output path). *)
Theorem C10_dir_occupied : forall w ord q, w_fs w q = Some Dir -> snd (run w ord) q = Some Dir.
Proof. exact dir_occupied. Qed.
Print Assumptions C10_dir_occupied.

(* ---- examples ---- *)
Fixpoint key_of (p : path) : str := match p with [] => [] | s :: t => x2f :: s ++ key_of t end.
Definition mk_req (force : bool) (name : str) (p : path) : request :=
  {| q_iface := name; q_tstatus := TOk; q_key := key_of p; q_path := p; q_pkgname := B "a"; q_template := B "testify";
     q_require_schema := true; q_schema_ok := true; q_force := force; q_formatter := FGoimports;
     q_prep_ok := true; q_data_ok := true; q_exec_ok := true |}.
Definition mk_pkg (ds : list decl) : package :=
  {| p_path := B "example.com/m/a"; p_nfiles := 1; p_nerrors := 0; p_decls := ds;
     p_listed := []; p_all := true; p_include := None; p_exclude := None; p_cfg := {| c_tstatus := TOk |} |}.
Definition base_fs (extra : path -> option node) : fs := fun p =>
  match extra p with
  | Some n => Some n
  | None =>
    if path_eqb p [] || path_eqb p [B "m"] || path_eqb p [B "m"; B "a"] then Some Dir
    else if path_eqb p [B "m"; B "go.mod"] then Some (File (B "module example.com/m"))
    else None
  end.
Definition mk_world (ds : list decl) (extra : path -> option node) : world :=
  {| w_cfg := CfgOk; w_roots := []; w_pkgs := [mk_pkg ds];
     w_tinfo := (fun _ => {| ti_kind := TBuiltin; ti_found := true; ti_parses := true |}); w_modaux := fun _ => true; w_fs := base_fs extra; w_ro := fun _ => false;
     w_content := fun _ => B "NEW"; w_valid_go := fun _ => true |}.

Definition out1 : path := [B "m"; B "a"; B "mocks_test.go"].
Definition out2 : path := [B "m"; B "mocks"; B "x"; B "m.go"].
Definition user (p : path) : option node := if path_eqb p out1 then Some (File (B "USER")) else None.

(* an occupied path: untouched and exit 1 without force, replaced with force; a second file
   in a new directory tree is written when it comes first in the map order, not otherwise *)
Example C10_example :
  let ds f := [ {| d_name := B "I"; d_reqs := [mk_req f (B "I") out1] |};
                {| d_name := B "J"; d_reqs := [mk_req f (B "J") out2] |} ] in
  let w0 := mk_world (ds false) user in
  let w1 := mk_world (ds true) user in
  let k1 := key_of out1 in let k2 := key_of out2 in
  fst (run w0 [k1; k2]) = ExitErr /\ snd (run w0 [k1; k2]) out1 = Some (File (B "USER")) /\
  snd (run w0 [k1; k2]) out2 = None /\
  snd (run w0 [k2; k1]) out2 = Some (File (B "NEW")) /\
  snd (run w0 [k2; k1]) [B "m"; B "mocks"] = Some Dir /\
  fst (run w1 [k1; k2]) = Exit0 /\ snd (run w1 [k1; k2]) out1 = Some (File (B "NEW")).
Proof. vm_compute. repeat split. Qed.

(* The guard of C10_output_old_or_new is needed: with one output below another output's
   path, the upper path ends as a directory, neither old (absent) nor new content. *)
Theorem C10_nested_refuted :
  exists w ord x, In x (out_paths w) /\ snd (run w ord) x <> w_fs w x /\
                  forall k, snd (run w ord) x <> Some (File (w_content w k)).
Proof.
  exists (mk_world
            [ {| d_name := B "I"; d_reqs := [mk_req false (B "I") [B "m"; B "a"; B "x"]] |};
              {| d_name := B "J"; d_reqs := [mk_req false (B "J") [B "m"; B "a"; B "x"; B "y.go"]] |} ]
            (fun _ => None)),
         [key_of [B "m"; B "a"; B "x"; B "y.go"]; key_of [B "m"; B "a"; B "x"]], [B "m"; B "a"; B "x"].
  vm_compute. split; [now left|]. split; [discriminate | intros _; discriminate].
Qed.
Print Assumptions C10_nested_refuted.

(* The guards of C10_stage_failure_output / C10_output_old_or_new are satisfiable by a world
   with two output files in different directories (the one of C10_example). *)
Example C10_guards_satisfiable :
  let w := mk_world
             [ {| d_name := B "I"; d_reqs := [mk_req false (B "I") out1] |};
               {| d_name := B "J"; d_reqs := [mk_req false (B "J") out2] |} ] user in
  no_nested w /\ no_alias w.
Proof.
  cbv zeta. split.
  - intros x y Hx Hy. vm_compute in Hx, Hy.
    destruct Hx as [<-|[<-|[]]], Hy as [<-|[<-|[]]]; vm_compute; reflexivity.
  - intros p1 q1 p2 q2 H1 H2. vm_compute in H1, H2.
    destruct H1 as [H1|[H1|[]]], H2 as [H2|[H2|[]]];
      injection H1 as <- <-; injection H2 as <- <-; vm_compute; split; intros E; try reflexivity; discriminate.
Qed.
