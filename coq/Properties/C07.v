(* C07 - Exactly the configured interfaces and packages are mocked, once per config entry.
   Only statements; proofs are in Cfg/Select_proofs.v.  Model: Cfg/Select.v (with the fixes
   fixes/c07-*.diff), regular expressions: Lib/Regex.v. *)
From Coq Require Import Permutation.
From Mk Require Import Lib.Bytes Lib.Regex Cfg.Select Cfg.Select_proofs.

(* ---- the selection predicate ------------------------------------------------------- *)

(* [selected p n]:  all = true  \/  n is listed  \/  (include is a regular expression that n
   matches  /\  (exclude is unset  \/  exclude is a regular expression that n does not match)) *)
Theorem C07_select_iff : forall p n,
  full (p_cfg p) -> (should_generate p n = Ok true <-> selected p n).
Proof. exact select_iff. Qed.
Print Assumptions C07_select_iff.

(* the predicate's own error path: it reports an error exactly when a regular expression that it
   actually evaluates does not compile (unreachable in a run since fix c09-validate-regexes, which
   rejects such configurations at initialisation: C07_valid_config_no_regex_error); selection never
   dereferences nil *)
Theorem C07_select_error : forall p n e,
  full (p_cfg p) -> (should_generate p n = Err e <-> bad_regex_reached p n).
Proof. exact select_err. Qed.
Print Assumptions C07_select_error.

Theorem C07_select_no_panic : forall p n, full (p_cfg p) -> should_generate p n <> Panic.
Proof. exact select_no_panic. Qed.
Print Assumptions C07_select_no_panic.

(* regexes ignored under all: the predicate does not look at them.  (Since fix c09-validate-regexes a
   configuration with an expression that does not compile never gets this far: see
   C07_invalid_regex_rejected and C07_valid_config_no_regex_error below.  Before that fix an invalid
   expression was an error only where the predicate consulted it - C07_select_error describes exactly
   where - and was silently accepted under all: true.) *)
Theorem C07_all_ignores_regexes : forall p n,
  c_all (p_cfg p) = Some true -> should_generate p n = Ok true.
Proof. exact all_ignores_regexes. Qed.
Print Assumptions C07_all_ignores_regexes.

(* exclude ignored without include: any two values of exclude give the same answer *)
Theorem C07_exclude_ignored_without_include : forall p n e1 e2,
  c_inc (p_cfg p) = Some ReUnset ->
  should_generate (set_exc p e1) n = should_generate (set_exc p e2) n.
Proof. exact exclude_ignored_without_include. Qed.
Print Assumptions C07_exclude_ignored_without_include.

(* "matches" is the unanchored search of regexp.MatchString: some substring (a prefix under ^,
   a suffix under $) is in the language of the expression *)
Theorem C07_regex_match_spec : forall p s, pat_match p s = true <-> pat_matches p s.
Proof. exact pat_match_spec. Qed.
Print Assumptions C07_regex_match_spec.

(* an include / exclude expression that does not compile, in the top-level settings or in any package
   config, makes the run fail at initialisation: error exit, nothing generated - consulted or not *)
Theorem C07_invalid_regex_rejected : forall t ss root o1 o2 m,
  config_valid root m = false -> run t ss root o1 o2 m = {| o_exit := ExErr; o_mocks := [] |}.
Proof. exact run_invalid. Qed.
Print Assumptions C07_invalid_regex_rejected.

(* and in a configuration that passed validation the selection predicate never reports a regular
   expression error, for any package of the initialised map (configured or injected) and any name *)
Theorem C07_valid_config_no_regex_error : forall t root o m0 k p n e,
  full root -> NoDup (map fst m0) -> NoDup (map fst t) -> Permutation o (map fst m0) ->
  config_valid root m0 = true ->
  lookup k (expand_recursive t root o m0) = Some p -> should_generate p n <> Err e.
Proof.
  intros t root o m0 k p n e F NDm NDt P V H. apply regexes_ok_no_error.
  now apply (config_valid_final t root o m0 k p).
Qed.
Print Assumptions C07_valid_config_no_regex_error.

(* ---- candidate discovery ----------------------------------------------------------- *)

(* the discovered names are exactly the names of the mockable declarations (package level,
   in a file of the build, not an alias, an interface type, right-hand side an interface
   literal / instantiation / identifier), each once *)
Theorem C07_discover : forall decls,
  wf_decls decls ->
  NoDup (discover decls) /\
  forall n, In n (discover decls) <-> exists d, In d decls /\ d_name d = n /\ mockable d = true.
Proof. intros decls WF. split; [now apply discover_nodup | intros n; now apply discover_spec]. Qed.
Print Assumptions C07_discover.

(* ---- multiplicity ------------------------------------------------------------------ *)

(* for every package k of the (initialised) configuration map and every name n:
   the number of mocks of (k, n) is max 1 |configs| if n is a discovered interface of k and
   is selected, and 0 otherwise; 0 for packages that are not in the map *)
Theorem C07_count : forall ss m l,
  all_full m -> wf_srcs ss -> NoDup (map fst m) -> mocks_of_map ss m = Ok l ->
  (forall k p decls n, In (k, p) m -> lookup k ss = Some decls -> In n (discover decls) ->
       selected p n -> count_mocks k n l = Nat.max 1 (length (entries_of p n))) /\
  (forall k p n, In (k, p) m ->
       ~ selected p n \/ (forall decls, lookup k ss = Some decls -> ~ In n (discover decls)) ->
       count_mocks k n l = 0) /\
  (forall k n, ~ In k (map fst m) -> count_mocks k n l = 0).
Proof.
  intros ss m l AF WS ND H. destruct (mocks_of_map_spec ss m l AF WS ND H) as (_ & S2 & S3 & S4 & _).
  split; [|split].
  - intros k p decls n Hin Hd Hn Hs. apply (S2 k p decls n Hin Hd Hn).
    apply select_iff; [now apply (AF k) | exact Hs].
  - intros k p n Hin [Hs|Hd]; apply (S4 k p n Hin); [left | now right].
    intros E. apply Hs. apply select_iff; [now apply (AF k) | exact E].
  - exact S3.
Qed.
Print Assumptions C07_count.

(* ---- never ------------------------------------------------------------------------- *)

(* every mock is for a package of the configuration map and for a mockable declaration of
   that package (an interface type declared at package level - not a struct, func type,
   alias, function-local type, nor a declaration in a file outside the build) that is
   selected; and no interface appears twice for one config entry *)
Theorem C07_never : forall ss m l,
  all_full m -> wf_srcs ss -> NoDup (map fst m) -> mocks_of_map ss m = Ok l ->
  (forall mk, In mk l ->
     exists p decls d, In (m_pkg mk, p) m /\ lookup (m_pkg mk) ss = Some decls /\
       In d decls /\ d_name d = m_iface mk /\
       d_iface d = true /\ d_scope d = PkgLevel /\ d_alias d = false /\ d_active d = true /\
       selected p (m_iface mk)) /\
  NoDup (map (fun mk => (m_pkg mk, m_iface mk, m_entry mk)) l).
Proof.
  intros ss m l AF WS ND H. destruct (mocks_of_map_spec ss m l AF WS ND H) as (S1 & _ & _ & _ & S5).
  split; [|exact S5]. intros mk Hin. destruct (S1 mk Hin) as (p & decls & Hp & Hd & Hn & Hs).
  apply (discover_spec decls _ (WS _ _ Hd)) in Hn as (d & Hdin & Hname & Hm).
  exists p, decls, d. unfold mockable in Hm. rewrite !andb_true_iff in Hm.
  destruct Hm as (((((A & P) & _) & _) & Al) & If). apply negb_true_iff in Al.
  repeat split; try assumption.
  - unfold is_pkglevel in P. destruct (d_scope d); [reflexivity | discriminate].
  - apply select_iff; [now apply (AF (m_pkg mk)) | exact Hs].
Qed.
Print Assumptions C07_never.

(* the configuration map after Initialize has all pointer fields set, so the theorems above
   apply to it, and selection never dereferences nil *)
Theorem C07_initialised_full : forall root m, full root -> all_full (init_pkgs root m).
Proof. exact init_pkgs_full. Qed.
Print Assumptions C07_initialised_full.

(* ---- recursive: true --------------------------------------------------------------- *)

(* [adopter t m1 r k]: r is a configured package with recursive = true (after the root
   settings were merged in: m1), k has Go files and is r or below r, and no exclusion regex
   of r matches k.
   For every iteration order o of the Packages map:
   (1) configured packages keep their interfaces and settings;
   (2) a package that is not configured is injected iff it has an adopter,
   (3) and then carries the settings of its NEAREST adopter (the one below all others);
   (4) which exists as soon as there is any adopter. *)
Theorem C07_recursive : forall t root o m0 k,
  full root -> NoDup (map fst m0) -> NoDup (map fst t) -> Permutation o (map fst m0) ->
  let m1 := init_pkgs root m0 in
  let final := expand_recursive t root o m0 in
  (forall p, lookup k m1 = Some p ->
     exists p', lookup k final = Some p' /\ p_ifaces p' = p_ifaces p /\ core (p_cfg p') = core (p_cfg p)) /\
  (lookup k m1 = None ->
     ((forall r, ~ adopter t m1 r k) -> lookup k final = None) /\
     (forall r, adopter t m1 r k -> (forall r', adopter t m1 r' k -> is_subpkg r' r = true) ->
        exists p', lookup k final = Some p' /\ p_ifaces p' = [] /\ core (p_cfg p') = core (cfg_of m1 r)) /\
     (forall r0, adopter t m1 r0 k ->
        exists r, adopter t m1 r k /\ forall r', adopter t m1 r' k -> is_subpkg r' r = true)).
Proof.
  intros t root o m0 k F NDm NDt P m1 final. split.
  - intros p E. destruct (explicit_kept t root o m0 F NDm NDt P k p E) as (p' & E' & Hi & Hc & _). eauto.
  - intros E. split; [|split].
    + now apply not_adopted_absent.
    + intros r Hr Hn. destruct (adopted_nearest t root o m0 F NDm NDt P k r E Hr Hn) as (p' & E' & Hi & Hc & _). eauto.
    + intros r0 H0. now apply (nearest_exists t root o m0 NDm P k r0).
Qed.
Print Assumptions C07_recursive.

(* sub-package exclusion: excluded iff SOME entry of the recursive package's list matches the path,
   every entry being compiled and matched on its own (an inline flag such as (?i) at the start of
   one entry does not reach the other entries; the entries are not joined into one expression) *)
Theorem C07_exclusion_per_entry : forall c k,
  exclude c k = true <-> exists l e, c_exsub c = Some l /\ In e l /\ entry_match e k = true.
Proof. exact exclude_spec. Qed.
Print Assumptions C07_exclusion_per_entry.

Theorem C07_exclusion_entry_spec : forall e k,
  no_neg_class (p_body (x_pat e)) = true ->
  (entry_match e k = true <->
   exists a b c, k = a ++ b ++ c /\
     (exists b', lang (p_body (x_pat e)) b' /\ (if x_fold e then variants b' b else b' = b)) /\
     (p_bos (x_pat e) = true -> a = []) /\ (p_eos (x_pat e) = true -> c = [])).
Proof. exact entry_match_spec. Qed.
Print Assumptions C07_exclusion_entry_spec.

(* a case-insensitive first entry does not make the second one case-insensitive *)
Example C07_exclusion_flag_does_not_leak :
  let l := Some [ {| x_fold := true;  x_pat := {| p_bos := false; p_body := RLit (B "/api"); p_eos := true |} |};
                  {| x_fold := false; x_pat := {| p_bos := false; p_body := RLit (B "/legacy"); p_eos := true |} |} ] in
  map (excluded_by l) [B "m/cx/API"; B "m/cx/api"; B "m/cx/v2/legacy"; B "m/cx/Legacy"; B "m/cx/legacy/x"]
  = [true; true; true; false; false].
Proof. vm_compute. reflexivity. Qed.

(* the property's sentence, literally, when all recursive packages share one exclusion list xs
   (e.g. it is written at top level only): an unconfigured package is injected iff it has Go
   files, no regex of xs matches it and it lies below (or is) a configured recursive package;
   it carries the settings of the nearest such package *)
Theorem C07_recursive_common_exclusions : forall t root o m0 xs k,
  full root -> NoDup (map fst m0) -> NoDup (map fst t) -> Permutation o (map fst m0) ->
  let m1 := init_pkgs root m0 in
  let final := expand_recursive t root o m0 in
  (forall r, is_recursive m1 r = true -> c_exsub (cfg_of m1 r) = xs) ->
  lookup k m1 = None ->
  (lookup k final <> None <->
     In (k, true) t /\ excluded_by xs k = false /\ exists r, is_recursive m1 r = true /\ is_subpkg r k = true) /\
  (forall r, is_recursive m1 r = true -> is_subpkg r k = true ->
     (forall r', is_recursive m1 r' = true -> is_subpkg r' k = true -> is_subpkg r' r = true) ->
     In (k, true) t -> excluded_by xs k = false ->
     exists p', lookup k final = Some p' /\ p_ifaces p' = [] /\ core (p_cfg p') = core (cfg_of m1 r)).
Proof.
  intros t root o m0 xs k F NDm NDt P m1 final U E. split.
  - unfold final. rewrite (injected_iff_adopted t root o m0 k NDm NDt P E). fold m1. split.
    + intros (r & Hr). pose proof Hr as Hr'. apply (adopter_uniform t m1 xs r k (U r (proj1 Hr))) in Hr'.
      destruct Hr' as (H1 & H2 & H3 & H4). eauto.
    + intros (H2 & H4 & r & H1 & H3). exists r. apply (adopter_uniform t m1 xs r k (U r H1)). auto.
  - intros r H1 H3 Hn H2 H4.
    assert (adopter t m1 r k) as Hr by (apply (adopter_uniform t m1 xs r k (U r H1)); auto).
    destruct (adopted_nearest t root o m0 F NDm NDt P k r E Hr) as (p' & E' & Hi & Hc & _).
    + intros r' Hr'. apply Hn; apply Hr'.
    + eauto.
Qed.
Print Assumptions C07_recursive_common_exclusions.

(* nearest = longest: an injected package carries the settings of the LONGEST configured recursive
   path that pulls it in (a proper path prefix of it, at a `/` boundary, not excluding it) - for
   every iteration order, whatever other packages are configured and however their names sort
   (api-v2, api.v1, api_v2, api0 next to api and api/internal) *)
Theorem C07_recursive_longest_prefix : forall t root o m0 k r,
  full root -> NoDup (map fst m0) -> NoDup (map fst t) -> Permutation o (map fst m0) ->
  let m1 := init_pkgs root m0 in
  let final := expand_recursive t root o m0 in
  lookup k m1 = None -> adopter t m1 r k ->
  (forall r', adopter t m1 r' k -> length r' <= length r) ->
  exists p', lookup k final = Some p' /\ p_ifaces p' = [] /\ core (p_cfg p') = core (cfg_of m1 r).
Proof.
  intros t root o m0 k r F NDm NDt P m1 final E Hr Hmax.
  destruct (adopted_nearest t root o m0 F NDm NDt P k r E Hr (longest_is_nearest t m1 r k Hr Hmax))
    as (p' & E' & Hi & Hc & _). eauto.
Qed.
Print Assumptions C07_recursive_longest_prefix.

(* the whole map is the same for every iteration order *)
Theorem C07_recursive_order_independent : forall t root o o' m0,
  NoDup (map fst m0) -> Permutation o (map fst m0) -> Permutation o' (map fst m0) ->
  expand_recursive t root o m0 = expand_recursive t root o' m0.
Proof. exact expand_order_indep. Qed.
Print Assumptions C07_recursive_order_independent.

(* Initialize is called a second time by RootApp.Run: same packages, same interfaces, same
   settings (sub-package exclusion lists apart, which are not used afterwards) *)
Theorem C07_second_initialize : forall t root o1 o2 m0 k,
  full root -> NoDup (map fst m0) -> NoDup (map fst t) -> Permutation o1 (map fst m0) ->
  Permutation o2 (map fst (expand_recursive t root o1 m0)) ->
  match lookup k (expand_recursive t root o1 m0), lookup k (initialize_twice t root o1 o2 m0) with
  | Some p, Some p' => p_ifaces p' = p_ifaces p /\ core (p_cfg p') = core (p_cfg p)
  | None, None => True
  | _, _ => False
  end.
Proof. intros. now apply second_pass_same. Qed.
Print Assumptions C07_second_initialize.

(* sub-package relation: reflexive, transitive, ancestors of one package form a chain *)
Theorem C07_ancestors_chain : forall a b k,
  is_subpkg a k = true -> is_subpkg b k = true -> is_subpkg a b = true \/ is_subpkg b a = true.
Proof.
  intros a b k Ha Hb. destruct (sltb a b) eqn:E1.
  - left. eapply is_subpkg_chain; eassumption.
  - destruct (sltb b a) eqn:E2.
    + right. eapply is_subpkg_chain; eassumption.
    + pose proof (sltb_total _ _ E1 E2). subst. left. apply is_subpkg_refl.
Qed.
Print Assumptions C07_ancestors_chain.

(* ---- non-vacuity -------------------------------------------------------------------- *)

Definition ex_root : cfg :=
  {| c_all := Some false; c_inc := Some ReUnset; c_exc := Some ReUnset; c_rec := Some false;
     c_exsub := None; c_mark := Some (B "_root") |}.
Local Open Scope string_scope.
Definition ex_decl n r al i sc := {| d_name := B n; d_rhs := r; d_alias := al; d_iface := i; d_scope := sc; d_active := true |}.

(* p and p/q both recursive, p/q/r gets p/q's settings whatever the map order; p excludes
   paths ending in /x; the function-local A does not duplicate A; B (type B A) is mocked,
   AL (type AL = A) and the struct are not; Get has two config entries *)
Example C07_example :
  let t := [(B "m/p", true); (B "m/p/q", true); (B "m/p/q/r", true); (B "m/p/x", true); (B "m/p/nogo", false); (B "m/u", true)] in
  let pdecls := [ex_decl "A" RhsIfaceLit false true PkgLevel; ex_decl "A" RhsIfaceLit false true FuncLocal;
                 ex_decl "B" RhsIdent false true PkgLevel; ex_decl "AL" RhsIdent true true PkgLevel;
                 ex_decl "S" RhsStruct false false PkgLevel; ex_decl "Get" RhsIfaceLit false true PkgLevel] in
  let one n := [ex_decl n RhsIfaceLit false true PkgLevel] in
  let ss := [(B "m/p", pdecls); (B "m/p/q", one "Q"); (B "m/p/q/r", one "R"); (B "m/p/x", one "X"); (B "m/u", one "U")] in
  let pcfg_p := {| p_cfg := {| c_all := None; c_inc := Some (ReOk {| p_bos := true; p_body := RAlt (RLit (B "A")) (RAlt (RLit (B "B")) (RLit (B "R"))); p_eos := false |});
                               c_exc := None; c_rec := Some true;
                               c_exsub := Some [{| x_fold := false; x_pat := {| p_bos := false; p_body := RLit (B "/x"); p_eos := true |} |}];
                               c_mark := Some (B "_P") |};
                   p_ifaces := [(B "Get", {| i_mark := None; i_entries := [Some (B "_1"); None] |})] |} in
  let pcfg_q := {| p_cfg := {| c_all := Some true; c_inc := None; c_exc := None; c_rec := Some true; c_exsub := None; c_mark := Some (B "_Q") |};
                   p_ifaces := [] |} in
  let m0 := [(B "m/p", pcfg_p); (B "m/p/q", pcfg_q)] in
  let mk p n e s := {| m_pkg := B p; m_iface := B n; m_entry := e; m_struct := B s |} in
  let expect := {| o_exit := ExOk;
                   o_mocks := [mk "m/p" "A" 0 "A_P"; mk "m/p" "B" 0 "B_P"; mk "m/p" "Get" 0 "Get_1"; mk "m/p" "Get" 1 "Get_P";
                               mk "m/p/q" "Q" 0 "Q_Q"; mk "m/p/q/r" "R" 0 "R_Q"] |} in
  run t ss ex_root [B "m/p"; B "m/p/q"] [B "m/p/q/r"; B "m/p"; B "m/p/q"] m0 = expect /\
  run t ss ex_root [B "m/p/q"; B "m/p"] [B "m/p"; B "m/p/q"; B "m/p/q/r"] m0 = expect.
Proof. vm_compute. split; reflexivity. Qed.
