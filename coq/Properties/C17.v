(* placeholder while the proofs are being written *)
From Mk Require Import Lib.Bytes Misc.Header.
Example C17_stub : is_generated false [M1] = true.
Proof. vm_compute. reflexivity. Qed.
Print Assumptions C17_stub.
