(* C17 - Generated-file marker, boilerplate and build constraints are effective.
   Only statements; proofs are in Misc/Header_proofs.v.  Model: Misc/Header.v
     header f t bp tags        bytes the template + formatter f put before the package clause
                               (t = testify | matryer; bp = content of boilerplate-file if set;
                               tags = text of mock-build-tags if set)
     file_lines f t bp tags p  the file's lines up to and including "package p"
     is_generated              `go help generate`: ^// Code generated .* DO NOT EDIT\.$ before the
                               first non-comment, non-blank text
     should_build tags         go/build.parseFileHeader + shouldBuild + constraint.Parse/Eval
     fmt_lines / place         go/printer on the header (gofmt and goimports)
   Quantifiers: all boilerplate byte strings with [quiet b = true] (white space, // comments and
   closed /* */ comments only - any number of lines, with or without trailing newline - and no
   //go:build, // +build, //go:binary-only-package line outside block comments), every tag
   text that Go's constraint parser accepts, both templates, all three formatters. *)
From Mk Require Import Lib.Bytes Misc.Header Misc.Header_proofs.

(* 1. The marker.  No hypothesis on the boilerplate bytes or on the tag text. *)
Theorem C17_marker : forall f t bp tags pkg,
  no_lf pkg = true -> is_generated false (file_lines f t bp tags pkg) = true.
Proof. exact marker_present. Qed.
Print Assumptions C17_marker.

(* 2. The boilerplate.  Formatter noop: every byte string, verbatim, directly after the three
   marker lines. *)
Theorem C17_boilerplate_verbatim : forall t b tags,
  header Noop t (Some b) tags =
  (marker_text t ++ [LF]) ++ b ++
  (match tags with Some x => LF :: LF :: GOBUILD ++ x20 :: x | None => [] end ++ [LF; LF]).
Proof. exact boilerplate_verbatim_noop. Qed.
Print Assumptions C17_boilerplate_verbatim.

(* Formatters gofmt/goimports: verbatim for every text the printer leaves alone and does not
   split (fmt_verbatim_guard).  Full statement (false, see the two _refuted lemmas below):
     forall f t b tags, comment_only b = true -> exists pre post, header f t (Some b) tags = pre ++ b ++ post *)
Theorem C17_boilerplate_verbatim_formatted : forall f t b tags,
  fmt_verbatim_guard b = true -> exists pre post, header f t (Some b) tags = pre ++ b ++ post.
Proof. exact boilerplate_verbatim_fmt. Qed.
Print Assumptions C17_boilerplate_verbatim_formatted.

(* known finding C17-formatter-rewrites-boilerplate: a blank line before a block comment makes
   the printer move the constraint into the boilerplate; trailing white space is removed *)
Theorem C17_boilerplate_verbatim_refuted :
  (let b := B "// a" ++ [LF; LF] ++ B "/* b */" in
   quiet b = true /\ fmt_verbatim_guard b = false /\
   is_infix b (header Gofmt Testify (Some b) (Some (B "foo"))) = false /\
   is_infix b (header Noop Testify (Some b) (Some (B "foo"))) = true) /\
  (let b := B "// a " in
   quiet b = true /\ fmt_verbatim_guard b = false /\
   is_infix b (header Goimports Matryer (Some b) None) = false).
Proof. split; [exact split_witness | exact trailing_ws_witness]. Qed.
Print Assumptions C17_boilerplate_verbatim_refuted.

Theorem C17_is_infix_spec : forall p s, is_infix p s = true <-> exists pre post, s = pre ++ p ++ post.
Proof. exact is_infix_spec. Qed.
Print Assumptions C17_is_infix_spec.

(* 3. The constraint is effective: the go command's decision for the file equals the value of
   the expression, for every tag set.  [e] is the expression Go's own parser reads from the
   configured text [x].  Under a formatter the constraint is re-printed from [e]; the guards
   exclude a negation applied directly to a negation (known finding
   C17-gofmt-double-negation) and re-printed forms above the parser's size limit of 1000. *)
Theorem C17_constraint_effective : forall f t bp x e pkg tags,
  obp_quiet bp = true -> no_lf x = true -> no_lf pkg = true ->
  parse_line (trim (gb_text x)) = LOk e ->
  (is_noop f = false -> no_dneg e = true /\ small e = true) ->
  should_build tags (file_lines f t bp (Some x) pkg) = of_bool (eval tags e).
Proof. exact constraint_effective_parsed. Qed.
Print Assumptions C17_constraint_effective.

Theorem C17_constraint_effective_refuted_dneg :
  let x := B "!(!foo)" in
  exists e, parse_line (trim (gb_text x)) = LOk e /\ no_dneg e = false /\
            should_build (fun _ => true) (file_lines Gofmt Testify None (Some x) (B "mocks")) = BadConstraint /\
            should_build (fun _ => true) (file_lines Noop Testify None (Some x) (B "mocks")) = Included.
Proof. exact dneg_witness. Qed.
Print Assumptions C17_constraint_effective_refuted_dneg.

(* known finding C17-boilerplate-constraint-line: comment-only for the lexer, but a second
   constraint source (excluded by [quiet]) *)
Theorem C17_constraint_effective_refuted_directive :
  let b := B "//go:build bar" in
  comment_only b = true /\ quiet b = false /\
  should_build (fun _ => true) (file_lines Noop Testify (Some b) (Some (B "foo")) (B "mocks")) = MultipleGoBuild.
Proof. exact directive_witness. Qed.
Print Assumptions C17_constraint_effective_refuted_directive.

Theorem C17_quiet_is_comment_only : forall b, quiet b = true -> comment_only b = true.
Proof. exact quiet_comment_only. Qed.
Print Assumptions C17_quiet_is_comment_only.

(* without mock-build-tags the file is always included *)
Theorem C17_no_constraint_included : forall f t bp pkg tags,
  obp_quiet bp = true -> no_lf pkg = true -> should_build tags (file_lines f t bp None pkg) = Included.
Proof. exact no_constraint_included. Qed.
Print Assumptions C17_no_constraint_included.

(* the documented form: the //go:build line is preceded only by blank lines and comments and
   followed by a blank line *)
Theorem C17_constraint_followed_by_blank : forall f t bp x pkg,
  obp_quiet bp = true -> no_lf x = true -> no_lf pkg = true ->
  gobuild_followed_by_blank false (file_lines f t bp (Some x) pkg) = true.
Proof. exact constraint_followed_by_blank. Qed.
Print Assumptions C17_constraint_followed_by_blank.

(* "all expressions": every expression tree (tags, !, &&, ||) has a text - its Go String() -
   that the go command reads back with the same meaning; with C17_constraint_effective the
   file is then included exactly when the tree is satisfied.  (Structural induction over the
   tree against the recursive-descent parser; the parser re-associates && and || chains.) *)
Theorem C17_every_expression : forall e,
  wf_tags e = true -> no_dneg e = true -> small e = true ->
  no_lf (go_string e) = true /\
  exists e', parse_line (trim (gb_text (go_string e))) = LOk e' /\
             forall tags, eval tags e' = eval tags e.
Proof. exact every_expression_has_a_text. Qed.
Print Assumptions C17_every_expression.

Theorem C17_constraint_effective_every_expression : forall f t bp e pkg tags,
  obp_quiet bp = true -> no_lf pkg = true ->
  wf_tags e = true -> no_dneg e = true -> small e = true ->
  (forall e', parse_line (trim (gb_text (go_string e))) = LOk e' -> is_noop f = false -> no_dneg e' = true /\ small e' = true) ->
  should_build tags (file_lines f t bp (Some (go_string e)) pkg) = of_bool (eval tags e).
Proof.
  intros f t bp e pkg tags Q Hp W D Sm G.
  destruct (every_expression_has_a_text e W D Sm) as [NL [e' [P E]]].
  rewrite (constraint_effective_parsed f t bp (go_string e) e' pkg tags Q NL Hp P (G e' P)). rewrite E. reflexivity.
Qed.
Print Assumptions C17_constraint_effective_every_expression.

(* 4. Regeneration.  For every earlier content of the output file (absent, or ANY bytes - e.g.
   the mock generated from other settings), every history of earlier runs and every body: after a
   run with force-file-write the file is exactly what THIS run's settings render - so its header
   is [header] of the last run's boilerplate and tags, and theorems 1-3 apply to it.  The
   write is a full overwrite; nothing of the old file survives. *)
Theorem C17_regeneration_last_run_wins : forall body old hist s,
  regen body old (hist ++ [(true, s)]) = Some (render_file body s) /\
  exists rest, regen body old (hist ++ [(true, s)]) =
               Some ((header (s_fmt s) (s_tmpl s) (s_bp s) (s_tags s) ++ pkg_line (s_pkg s)) ++ rest).
Proof. intros. split; [apply regen_last | apply regen_last_prefix]. Qed.
Print Assumptions C17_regeneration_last_run_wins.

(* without force-file-write an existing file is left alone and the run fails; a fresh path is written *)
Theorem C17_regeneration_write_step : forall body c force s,
  write_step body (Some c) false s = (Some c, WExists) /\
  write_step body None force s = (Some (render_file body s), WOk).
Proof. intros. split; reflexivity. Qed.
Print Assumptions C17_regeneration_write_step.

(* 5. Several output files in one run.  The file of a job is rendered from that job's own
   boilerplate path (the bytes the file system holds at exactly that path string) and tags: it
   does not depend on which other files the run writes, before or after, or on their settings -
   so theorems 1-3 apply to every file of a run with ITS OWN boilerplate bytes and tags. *)
Theorem C17_files_independent : forall body fsys pre j post,
  length (run_all body fsys (pre ++ j :: post)) = length (pre ++ j :: post) /\
  nth (length pre) (run_all body fsys (pre ++ j :: post)) None =
  option_map (render_file body) (job_settings fsys j).
Proof. intros. split; [apply run_all_length | apply run_all_independent]. Qed.
Print Assumptions C17_files_independent.

(* 6. Inherited template-data (a sub-package of a `recursive: true` package, a package under the
   top level): the file is rendered from the EFFECTIVE settings - a key the file's own level does
   not set is the ancestor's - so a file that sets neither key carries exactly the ancestor's
   boilerplate and constraint, and theorems 1-3 apply to it with those. *)
Theorem C17_inherited_settings : forall body own parent,
  s_bp own = None -> s_tags own = None ->
  render_file body (effective own parent) =
  header (s_fmt own) (s_tmpl own) (s_bp parent) (s_tags parent) ++ pkg_line (s_pkg own) ++ body (effective own parent).
Proof. intros body own parent B T. unfold render_file, effective. simpl. rewrite B, T. reflexivity. Qed.
Print Assumptions C17_inherited_settings.

(* 7. A file shared by several mocks whose header parameters disagree: the header is that of the
   file-level settings = the first mock's effective settings; what later mocks of the file set
   (another constraint, another boilerplate) has no influence on it. *)
Theorem C17_shared_file_first_mock : forall m rest rest',
  shared_prefix (m :: rest) = shared_prefix (m :: rest') /\
  shared_prefix (m :: rest) = Some (header (s_fmt m) (s_tmpl m) (s_bp m) (s_tags m) ++ pkg_line (s_pkg m)).
Proof. intros. split; reflexivity. Qed.
Print Assumptions C17_shared_file_first_mock.

(* the parser's fuel is always sufficient: never OutOfFuel *)
Theorem C17_parser_total : forall acc ts, or_from (fuel_for ts) acc ts <> PFuel.
Proof. exact or_from_total. Qed.
Print Assumptions C17_parser_total.

(* Non-vacuity: a two-line boilerplate without trailing newline and a block comment meet all
   guards; foo && !bar is included exactly under -tags foo *)
Example C17_example :
  let b := B "// Copyright X" ++ [LF] ++ B "/* second */" in
  let f tags := should_build (fun t => smem t tags) (file_lines Goimports Matryer (Some b) (Some (B "foo&&!bar")) (B "mocks")) in
  quiet b = true /\ fmt_verbatim_guard b = true /\
  f [B "foo"] = Included /\ f [] = Excluded /\ f [B "foo"; B "bar"] = Excluded /\
  parse_line (trim (gb_text (B "foo&&!bar"))) = LOk (And (Tag (B "foo")) (Not (Tag (B "bar")))).
Proof. vm_compute. repeat split. Qed.
