(* C18 - `mockery init` bootstraps safely and its output round-trips.
   Only statements; proofs are in Misc/Init_proofs.v.  Model: Misc/Init.v
     init print f flag pkg     initRun on the file system f (a map path -> node), --config value
                               flag ("" = not given), package argument pkg; result (f', outcome)
     init_tree pkg             the key/value tree handed to the YAML encoder
     load parse content        NewRootConfig + Initialize on the bytes of a config file
     should_generate           PackageConfig.ShouldGenerateInterface
   yaml.v3 / koanf at the text level are the parameters print/parse with the round-trip
   hypothesis [forall pkg, key_safe pkg = true -> parse (print (init_tree pkg)) = Some (init_tree pkg)]
   (trusted; key_safe excludes multi-line keys that start with a newline, a tab or a
   non-ASCII byte, for which the real encoder is observed to fail: known finding
   C18-multiline-package-path); the decoder's merge-key rule is explicit (resolve_merge).  All theorems: for ALL file systems, ALL --config
   values, ALL package-path byte strings. *)
From Mk Require Import Lib.Bytes Misc.Init Misc.Init_proofs.

(* If anything exists at the target (file with any content, directory, symbolic link,
   dangling or not) the command fails and the file system is unchanged. *)
Theorem C18_exclusive : forall print f flag pkg,
  f (target flag) <> None -> init print f flag pkg = (f, ErrExists) /\ exit_code ErrExists = 1.
Proof. intros. split; [apply exclusive; assumption | reflexivity]. Qed.
Print Assumptions C18_exclusive.

(* When exactly the command succeeds, and that every failure leaves everything as it was. *)
Theorem C18_outcome : forall print f flag pkg,
  snd (init print f flag pkg) =
  match f (target flag) with
  | Some _ => ErrExists
  | None => if is_dir f (dirname (target flag)) then Written else ErrNoParent
  end.
Proof. exact outcome_spec. Qed.
Print Assumptions C18_outcome.

Theorem C18_failure_changes_nothing : forall print f flag pkg,
  snd (init print f flag pkg) <> Written -> fst (init print f flag pkg) = f.
Proof. exact failure_changes_nothing. Qed.
Print Assumptions C18_failure_changes_nothing.

(* Nothing but the target is ever written. *)
Theorem C18_frame : forall print f flag pkg q,
  q <> target flag -> fst (init print f flag pkg) q = f q.
Proof. exact frame. Qed.
Print Assumptions C18_frame.

(* On success the target did not exist before and now holds the encoding of init_tree, which is
   the documented defaults followed by packages: {pkg: {config: {all: true}}}. *)
Theorem C18_defaults : forall print f flag pkg,
  snd (init print f flag pkg) = Written ->
  f (target flag) = None /\
  fst (init print f flag pkg) (target flag) = Some (File (print (init_tree pkg))) /\
  init_tree pkg = documented_defaults ++
                  [(B "packages", VMap [(pkg, VMap [(B "config", VMap [(B "all", VBool true)])])])].
Proof.
  intros print f flag pkg H. destruct (written_content print f flag pkg H) as [A C].
  repeat split; [exact A | exact C].
Qed.
Print Assumptions C18_defaults.

(* The written defaults are the loader's own defaults (same source): stating them changes nothing. *)
Theorem C18_defaults_are_loader_defaults : overlay loader_defaults documented_defaults = loader_defaults.
Proof. exact written_defaults_are_loader_defaults. Qed.
Print Assumptions C18_defaults_are_loader_defaults.

(* Composition: the written file is accepted by the loader, names exactly the package pkg -
   unchanged, whatever bytes it consists of - and selects every interface of it.
   Full statement (without the guard) is false: C18_loads_refuted_merge_key. *)
Theorem C18_loads_and_selects_all : forall print parse regex_match,
  (forall pkg, key_safe pkg = true -> parse (print (init_tree pkg)) = Some (init_tree pkg)) ->
  forall f flag pkg, seqb pkg MERGE = false -> key_safe pkg = true -> snd (init print f flag pkg) = Written ->
  exists content cfg p,
    fst (init print f flag pkg) (target flag) = Some (File content) /\
    load parse content = Some cfg /\
    r_config cfg = loader_defaults /\
    r_packages cfg = [(pkg, p)] /\
    get_bool (B "all") (p_config p) = true /\
    forall iface, should_generate regex_match p iface = true.
Proof.
  intros print parse rm PP f flag pkg G K W.
  destruct (written_content print f flag pkg W) as [_ C].
  eexists. eexists. eexists. split; [exact C|]. split; [apply load_written; assumption|].
  repeat split.
Qed.
Print Assumptions C18_loads_and_selects_all.

(* known finding C18-merge-key-package-path: the package path << is written as a plain key, the
   decoder takes it for a merge key, and the strict loader rejects the result *)
Theorem C18_loads_refuted_merge_key : forall print parse,
  (forall pkg, key_safe pkg = true -> parse (print (init_tree pkg)) = Some (init_tree pkg)) ->
  key_safe (B "<<") = true /\ load parse (print (init_tree (B "<<"))) = None.
Proof. intros print parse PP. split; [reflexivity | apply (load_written_merge_key print parse PP)]. Qed.
Print Assumptions C18_loads_refuted_merge_key.

(* Several runs on one fresh target (in the order their atomic exclusive creates take effect -
   concurrent runs included): exactly the first succeeds, every other one fails, and the file is
   the complete document of the winner. *)
Theorem C18_one_winner : forall print f flag pkg rest,
  f (target flag) = None -> is_dir f (dirname (target flag)) = true ->
  init_all print f flag (pkg :: rest) =
  (upd f (target flag) (File (print (init_tree pkg))), Written :: repeat ErrExists (length rest)).
Proof. exact init_all_one_winner. Qed.
Print Assumptions C18_one_winner.

(* The invoking shell's environment is not an input: the outcome and the written file are the
   same under every environment (so the file states the built-in defaults, not MOCKERY_* values). *)
Theorem C18_environment_independent : forall print env1 env2 f flag pkg,
  init_in print env1 f flag pkg = init_in print env2 f flag pkg.
Proof. reflexivity. Qed.
Print Assumptions C18_environment_independent.

(* Non-vacuity: a clean directory; a package path full of YAML-significant characters passes
   the guard, init succeeds, a second init fails and changes nothing. *)
Example C18_example :
  let f : fs := fun q => if seqb q (B ".") then Some Dir else None in
  let pkg := B "a: b #c ""q"" {x}" in
  let r := init (fun _ => B "<yaml>") f [] pkg in
  seqb pkg MERGE = false /\ key_safe pkg = true /\ key_safe (B "a" ++ [x0a] ++ B "b") = true /\
  key_safe [x0a] = false /\ snd r = Written /\ fst r (B ".mockery.yml") = Some (File (B "<yaml>")) /\
  snd (init (fun _ => B "<yaml>") (fst r) [] (B "other")) = ErrExists /\
  dirname (B "a/b/c.yml") = B "a/b" /\ dirname (B "/c.yml") = B "/" /\ dirname (B "c.yml") = B ".".
Proof. vm_compute. repeat split. Qed.
