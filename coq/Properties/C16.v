(* C16 - The template function library matches its documented semantics on all inputs.
   Only statements; proofs are in Funcs/*_proofs.v.  Models: Funcs/Utf8.v Strings.v Arith.v
   Case.v Path.v, the function table with the template argument order in Funcs/FuncMap.v
   ([fm_*] wrappers: subject string LAST; [apply] = one call {{ f a1 .. an }}).
   Strings are byte lists (any bytes: invalid UTF-8 included); Go's int is Z wrapped to 64
   bits; Go's unicode tables are a parameter [U] of every case-function theorem.
   first_is_lower / exported model the behaviour WITH fixes/c16-first-rune.diff.
   Not modelled (no theorem, named in the manifest entry): snakecase kebabcase matchString
   ceil floor round randInt. *)
From Coq Require Import NArith ZArith.
From Mk Require Import Lib.Bytes Funcs.Utf8 Funcs.Utf8_proofs Funcs.Strings Funcs.Strings_proofs
  Funcs.Arith Funcs.Arith_proofs Funcs.Case Funcs.Case_proofs Funcs.Path Funcs.FuncMap Funcs.FuncMap_proofs.

(* ================= contains / hasPrefix / hasSuffix : subject last ================= *)
Theorem C16_contains_spec : forall sub s,
  fm_contains sub s = true <-> exists a b, s = a ++ sub ++ b.
Proof. intros. apply contains_spec. Qed.
Print Assumptions C16_contains_spec.

Theorem C16_hasPrefix_spec : forall p s, fm_has_prefix p s = true <-> exists r, s = p ++ r.
Proof. intros. apply has_prefix_spec. Qed.
Print Assumptions C16_hasPrefix_spec.

Theorem C16_hasSuffix_spec : forall suf s, fm_has_suffix suf s = true <-> exists r, s = r ++ suf.
Proof. intros. apply has_suffix_spec. Qed.
Print Assumptions C16_hasSuffix_spec.

(* strings.Index underneath: the offset found is an occurrence and the leftmost one *)
Theorem C16_index_leftmost : forall s sub m, index s sub = Some m ->
  s = firstn m s ++ sub ++ skipn (m + length sub) s /\
  forall a b, s = a ++ sub ++ b -> m <= length a.
Proof. intros s sub m H. split; [exact (index_some _ _ _ H) | exact (index_least _ _ _ H)]. Qed.
Print Assumptions C16_index_leftmost.

(* ================= split / join / replace ================= *)
Theorem C16_join_split : forall sep s, sep <> [] -> fm_join sep (fm_split sep s) = s.
Proof. intros. apply join_split. assumption. Qed.
Print Assumptions C16_join_split.

(* no piece of a split contains the separator (the split is complete), and there is a piece *)
Theorem C16_split_pieces : forall sep s, sep <> [] ->
  fm_split sep s <> [] /\ Forall (fun p => fm_contains sep p = false) (fm_split sep s).
Proof. intros. split; [apply split_nonempty | apply split_pieces_sep_free]; assumption. Qed.
Print Assumptions C16_split_pieces.

(* empty separator: the UTF-8 sequences of s (invalid bytes one by one), nothing lost *)
Theorem C16_split_empty_sep : forall s, fm_split [] s = chunks s /\ concat (fm_split [] s) = s.
Proof. intros. unfold fm_split. rewrite split_empty_sep. split; [reflexivity | apply runes_concat]. Qed.
Print Assumptions C16_split_empty_sep.

Theorem C16_concat_splitAfter : forall sep s, concat (fm_split_after sep s) = s.
Proof. intros. apply concat_split_after. Qed.
Print Assumptions C16_concat_splitAfter.

Theorem C16_splitAfterN : forall sep n s,
  (n = 0%Z -> fm_split_after_n sep n s = []) /\
  (n <> 0%Z -> concat (fm_split_after_n sep n s) = s) /\
  ((0 < n)%Z -> length (fm_split_after_n sep n s) <= Z.to_nat n).
Proof.
  intros. split; [intros ->; reflexivity|]. split; [apply concat_split_after_n | apply gen_split_length].
Qed.
Print Assumptions C16_splitAfterN.

Theorem C16_replaceAll_join_split : forall old new s, old <> [] ->
  fm_replace_all old new s = fm_join new (fm_split old s).
Proof. intros. apply replace_all_join_split. assumption. Qed.
Print Assumptions C16_replaceAll_join_split.

(* replace with a count n >= 0 = join over SplitN with n+1 pieces (at most n cuts, leftmost first) *)
Theorem C16_replace_n : forall old new n s, old <> [] -> (0 <= n)%Z ->
  fm_replace old new n s = fm_join new (gen_split s old 0 (n + 1)).
Proof. intros. apply replace_n_join_split_n; assumption. Qed.
Print Assumptions C16_replace_n.

Theorem C16_replace_neg_is_all : forall old new n s, (n < 0)%Z ->
  fm_replace old new n s = fm_replace_all old new s.
Proof.
  intros old new n s H. unfold fm_replace, fm_replace_all, replace_all, replace, repl_count.
  destruct (Z.eqb_spec n 0); [lia|]. destruct (Z.ltb_spec n 0); [|lia]. reflexivity.
Qed.
Print Assumptions C16_replace_neg_is_all.

Theorem C16_replace_trivial : forall old new n s,
  fm_replace old new 0 s = s /\ fm_replace old old n s = s.
Proof. intros. split; [apply replace_zero | apply replace_same]. Qed.
Print Assumptions C16_replace_trivial.

(* empty old: new before the first and after every UTF-8 sequence *)
Theorem C16_replaceAll_empty_old : forall new s, new <> [] ->
  fm_replace_all [] new s = new ++ concat (map (fun c => c ++ new) (chunks s)).
Proof. intros. apply replace_all_empty_old. assumption. Qed.
Print Assumptions C16_replaceAll_empty_old.

(* ================= trimPrefix / trimSuffix ================= *)
Theorem C16_trimPrefix : forall p s,
  fm_trim_prefix p (p ++ s) = s /\
  ((exists r, s = p ++ r /\ fm_trim_prefix p s = r) \/ ((forall r, s <> p ++ r) /\ fm_trim_prefix p s = s)).
Proof. intros. split; [apply trim_prefix_app | apply trim_prefix_spec]. Qed.
Print Assumptions C16_trimPrefix.

Theorem C16_trimSuffix : forall suf s,
  fm_trim_suffix suf (s ++ suf) = s /\
  ((exists r, s = r ++ suf /\ fm_trim_suffix suf s = r) \/ ((forall r, s <> r ++ suf) /\ fm_trim_suffix suf s = s)).
Proof. intros. split; [apply trim_suffix_app | apply trim_suffix_spec]. Qed.
Print Assumptions C16_trimSuffix.

(* ================= trim family (cut set = set of runes, ContainsRune) ================= *)
(* trimLeft removes a prefix made of cut-set runes, and what remains does not start with one *)
Theorem C16_trimLeft : forall cut s,
  (exists l1 l2, runes s = l1 ++ l2 /\ forallb (fun p => contains_rune cut (fst p)) l1 = true /\
                 s = concat (map snd l1) ++ fm_trim_left cut s) /\
  (forall b t, fm_trim_left cut s = b :: t -> contains_rune cut (fst (decode (b :: t))) = false) /\
  fm_trim_left cut (fm_trim_left cut s) = fm_trim_left cut s.
Proof.
  intros cut s. unfold fm_trim_left, trim_left. repeat split.
  - destruct (trim_left_func_spec (contains_rune cut) s) as (l1 & l2 & R & F & _ & E & _). eauto.
  - intros b t. apply trim_left_func_head.
  - apply trim_left_func_idem.
Qed.
Print Assumptions C16_trimLeft.

(* trimRight removes a suffix made of cut-set runes; the last remaining rune is not in the set *)
Theorem C16_trimRight : forall cut s,
  (exists l1 l2, runes s = l1 ++ l2 /\ forallb (fun p => contains_rune cut (fst p)) l2 = true /\
                 s = fm_trim_right cut s ++ concat (map snd l2) /\
                 runes (fm_trim_right cut s) = l1 /\
                 match rev l1 with [] => True | p :: _ => contains_rune cut (fst p) = false end) /\
  fm_trim_right cut (fm_trim_right cut s) = fm_trim_right cut s.
Proof.
  intros cut s. unfold fm_trim_right, trim_right. split.
  - destruct (trim_right_func_spec (contains_rune cut) s) as (l1 & l2 & R & F & T & E & H).
    exists l1, l2. repeat split; try assumption. rewrite T. exact (runes_prefix _ _ _ R).
  - apply trim_right_func_idem.
Qed.
Print Assumptions C16_trimRight.

Theorem C16_trim_both : forall cut s, fm_trim cut s = fm_trim_left cut (fm_trim_right cut s).
Proof. reflexivity. Qed.
Print Assumptions C16_trim_both.

Theorem C16_trimSpace : forall s,
  (exists a b, s = a ++ trim_space s ++ b) /\
  (forall b t, trim_space s = b :: t -> is_space (fst (decode (b :: t))) = false).
Proof.
  intros s. unfold trim_space. split.
  - destruct (trim_right_func_spec is_space s) as (_ & l2 & _ & _ & _ & E & _).
    destruct (trim_left_func_spec is_space (trim_right_func is_space s)) as (l1 & _ & _ & _ & _ & E' & _).
    exists (concat (map snd l1)), (concat (map snd l2)). rewrite E at 1. rewrite E' at 1.
    rewrite <- app_assoc. reflexivity.
  - intros b t. apply trim_left_func_head.
Qed.
Print Assumptions C16_trimSpace.

(* ================= UTF-8 ================= *)
Theorem C16_utf8_roundtrip : forall r rest, valid_rune r = true ->
  decode (encode r ++ rest) = (r, length (encode r)).
Proof. exact decode_encode. Qed.
Print Assumptions C16_utf8_roundtrip.

Theorem C16_chunks_lossless : forall s, concat (chunks s) = s.
Proof. exact runes_concat. Qed.
Print Assumptions C16_chunks_lossless.

(* ================= arithmetic over ALL arguments, 64-bit wrap explicit ================= *)
Theorem C16_add_sub_mul_mod64 : forall i1 rest, in_range i1 ->
  add i1 rest = wrap (i1 + zsum rest) /\
  sub i1 rest = wrap (i1 - zsum rest) /\
  mul i1 rest = wrap (i1 * zprod rest).
Proof. intros. split; [|split]; [apply add_spec | apply sub_spec | apply mul_spec]; assumption. Qed.
Print Assumptions C16_add_sub_mul_mod64.

Theorem C16_add_sub_mul_exact : forall i1 rest, in_range i1 ->
  (in_range (i1 + zsum rest) -> add i1 rest = (i1 + zsum rest)%Z) /\
  (in_range (i1 - zsum rest) -> sub i1 rest = (i1 - zsum rest)%Z) /\
  (in_range (i1 * zprod rest) -> mul i1 rest = (i1 * zprod rest)%Z).
Proof. intros. split; [|split]; intros; [apply add_exact | apply sub_exact | apply mul_exact]; assumption. Qed.
Print Assumptions C16_add_sub_mul_exact.

Theorem C16_incr_decr : forall i,
  incr i = wrap (i + 1) /\ decr i = wrap (i - 1) /\
  (in_range (i + 1) -> incr i = (i + 1)%Z) /\ (in_range (i - 1) -> decr i = (i - 1)%Z).
Proof. intros. split; [reflexivity|]. split; [reflexivity|]. split; intros; apply wrap_id; assumption. Qed.
Print Assumptions C16_incr_decr.

Theorem C16_wrap_in_range : forall z, in_range (wrap z) /\ (in_range z -> wrap z = z).
Proof. intros. split; [apply wrap_range | apply wrap_id]. Qed.
Print Assumptions C16_wrap_in_range.

(* div = iterated truncated quotient, left to right; a panic exactly for a zero divisor;
   the only wrap-around is MinInt64 / -1 *)
Theorem C16_div : forall i1 rest,
  (div i1 rest = IPanic <-> In 0%Z rest) /\
  (in_range i1 -> Forall in_range rest -> ~ In 0%Z rest -> no_overflow i1 rest ->
   div i1 rest = IVal (fold_left Z.quot rest i1)) /\
  wrap (Z.quot min_int (-1)) = min_int.
Proof.
  intros. split; [apply div_panic_iff|]. split; [|exact wrap_quot_overflow].
  intros. apply div_exact; assumption.
Qed.
Print Assumptions C16_div.

Theorem C16_mod : forall i1 rest,
  (modulo i1 rest = IPanic <-> In 0%Z rest) /\
  (in_range i1 -> ~ In 0%Z rest -> modulo i1 rest = IVal (fold_left Z.rem rest i1)).
Proof. intros. split; [apply mod_panic_iff | intros; apply mod_exact; assumption]. Qed.
Print Assumptions C16_mod.

Theorem C16_min : forall xs,
  (xs = [] -> minimum xs = IPanic) /\
  (xs <> [] -> exists m, minimum xs = IVal m /\ In m xs /\ Forall (fun y => (m <= y)%Z) xs).
Proof. intros. split; [intros ->; reflexivity | apply minimum_spec]. Qed.
Print Assumptions C16_min.

(* argument order of the non-commutative ones, through the table *)
Theorem C16_argorder_arith : forall U W a b, in_range a -> in_range b ->
  apply U W FSub [AInt a; AInt b] = Val (VInt (wrap (a - b))) /\
  (b <> 0%Z -> apply U W FDiv [AInt a; AInt b] = Val (VInt (wrap (Z.quot a b)))) /\
  (b <> 0%Z -> apply U W FMod [AInt a; AInt b] = Val (VInt (Z.rem a b))).
Proof.
  intros U W a b Ha Hb. split; [|split].
  - cbn [apply ints option_map]. rewrite sub_spec by assumption. cbn [zsum fold_right]. do 3 f_equal. lia.
  - intros Hz. cbn [apply ints option_map of_ires div]. destruct (Z.eqb_spec b 0); [contradiction | reflexivity].
  - intros Hz. cbn [apply ints option_map of_ires modulo]. destruct (Z.eqb_spec b 0); [contradiction|].
    rewrite wrap_rem by assumption. reflexivity.
Qed.
Print Assumptions C16_argorder_arith.

(* ================= case functions, for every Unicode table U ================= *)
Theorem C16_firstIsLower : forall U,
  first_is_lower U [] = false /\
  (forall r rest, valid_rune r = true ->
     first_is_lower U (encode r ++ rest) = is_letter U r && negb (is_upper U r)) /\
  (forall s, first_is_lower U s = true <->
     s <> [] /\ is_letter U (fst (decode s)) = true /\ is_upper U (fst (decode s)) = false).
Proof.
  intros U. split; [reflexivity|]. split; [|apply first_is_lower_spec].
  intros. apply first_is_lower_rune. assumption.
Qed.
Print Assumptions C16_firstIsLower.

Theorem C16_exported : forall U,
  exported U [] = [] /\
  (forall s i, s <> [] -> In i initialisms -> upper U s = i -> exported U s = i) /\
  (forall r rest, valid_rune r = true -> ~ In (upper U (encode r ++ rest)) initialisms ->
     exported U (encode r ++ rest) = encode (to_upper U r) ++ rest) /\
  (forall s, s <> [] -> fst (decode s) = rune_error -> to_upper U rune_error = rune_error ->
     ~ In (upper U s) initialisms -> exported U s = s).
Proof.
  intros U. split; [reflexivity|]. split; [apply exported_initialism|].
  split; [apply exported_first_rune | apply exported_invalid_first].
Qed.
Print Assumptions C16_exported.

Theorem C16_exported_not_first_lower : forall U r rest,
  valid_rune r = true -> valid_rune (to_upper U r) = true ->
  ~ In (upper U (encode r ++ rest)) initialisms ->
  is_letter U (to_upper U r) = false \/ is_upper U (to_upper U r) = true ->
  first_is_lower U (exported U (encode r ++ rest)) = false.
Proof. exact exported_not_first_lower. Qed.
Print Assumptions C16_exported_not_first_lower.

Theorem C16_firstUpper_firstLower : forall U,
  first_upper U [] = [] /\ first_lower U [] = [] /\
  (forall r rest, valid_rune r = true ->
     first_upper U (encode r ++ rest) = if is_lower U r then encode (to_upper U r) ++ rest else encode r ++ rest) /\
  (forall r rest, valid_rune r = true ->
     first_lower U (encode r ++ rest) = if is_upper U r then encode (to_lower U r) ++ rest else encode r ++ rest).
Proof.
  intros U. split; [reflexivity|]. split; [reflexivity|].
  split; [apply first_upper_rune | apply first_lower_rune].
Qed.
Print Assumptions C16_firstUpper_firstLower.

Theorem C16_upper_lower_valid : forall U rs, forallb valid_rune rs = true ->
  upper U (encode_all rs) = encode_all (map (to_upper U) rs) /\
  lower U (encode_all rs) = encode_all (map (to_lower U) rs).
Proof. intros. split; [apply upper_valid | apply lower_valid]; assumption. Qed.
Print Assumptions C16_upper_lower_valid.

(* camelcase.  Full statement (false for the unchanged library):
     forall rs, length (camel_runes U rs) <= length rs      "never invents characters"
   It fails exactly on non-empty inputs made of connectors only (known finding
   C16-camelcase-connectors-only, xstrings): *)
Theorem C16_camelcase_connectors_refuted : forall U,
  exists rs, length (camel_runes U rs) > length rs.
Proof. intros U. exists [95%N]. cbn. lia. Qed.
Print Assumptions C16_camelcase_connectors_refuted.

Definition connectors_only (rs : list N) : Prop := rs <> [] /\ forallb is_connector rs = true.
Theorem C16_camelcase_connectors_class : forall U rs, connectors_only rs ->
  camel_runes U rs = rs ++ [last rs 0%N].
Proof. intros U rs [NE H]. apply camel_runes_connectors_only; assumption. Qed.
Print Assumptions C16_camelcase_connectors_class.

Theorem C16_camelcase_no_growth_guarded : forall U rs, has_word rs = true ->
  length (camel_runes U rs) <= length rs.
Proof. exact camel_runes_no_growth. Qed.
Print Assumptions C16_camelcase_no_growth_guarded.

Example C16_camelcase_guard_satisfiable :
  has_word (rune_vals (B "some_words")) = true /\ has_word (rune_vals (B "_ -")) = false.
Proof. vm_compute. split; reflexivity. Qed.

(* ================= quoteMeta, base, clean, expandEnv ================= *)
Theorem C16_quoteMeta : forall s, unquote (quote_meta s) = s /\ escaped (quote_meta s) = true.
Proof. intros. split; [apply unquote_quote_meta | apply quote_meta_escaped]. Qed.
Print Assumptions C16_quoteMeta.

Theorem C16_base_clean_shape : forall p,
  base p <> [] /\ (base p = [slash] \/ ~ In slash (base p)) /\ clean p <> [] /\ base [] = B "." /\ clean [] = B ".".
Proof.
  intros. split; [apply base_nonempty|]. split; [apply base_no_slash|]. split; [apply clean_nonempty|].
  split; reflexivity.
Qed.
Print Assumptions C16_base_clean_shape.

(* the fuel of expand_env is never exhausted; a string without a dollar sign is unchanged *)
Theorem C16_expandEnv : forall env s,
  (forall f, length s < f -> expand_f f env s = expand_env env s) /\
  (~ In x24 s -> expand_env env s = s).
Proof.
  intros. split; [|apply expand_no_dollar].
  intros f Hf. unfold expand_env. apply expand_f_fuel; lia.
Qed.
Print Assumptions C16_expandEnv.

(* ================= totality ================= *)
(* No call in the table panics, except: a zero divisor in div/mod, and min without arguments
   (text/template reports these as template errors; the run does not crash). *)
Theorem C16_total : forall U W f args, apply U W f args = Panic ->
  (f = FMin /\ args = []) \/
  ((f = FDiv \/ f = FMod) /\ exists i t, args = AInt i :: t /\ In (AInt 0) t).
Proof. exact apply_panic. Qed.
Print Assumptions C16_total.

(* ================= purity ================= *)
(* The model of a call is a function of the call, the Unicode table and the environment/file
   map only: in any sequence of calls (one process, one shared function table) the result of a
   call does not depend on the calls before or after it.  That the implementation's process-wide
   FuncMap behaves like this (no template constructor or config rendering installs a wrapper)
   is NOT proved; it is checked on every run by the history stream of harness/checks/c16.py. *)
Definition run_calls (U : N -> uinfo) (W : world) (calls : list (fn * list arg)) : list res :=
  map (fun c => apply U W (fst c) (snd c)) calls.
Theorem C16_call_independent_of_history : forall U W pre c post,
  nth (length pre) (run_calls U W (pre ++ c :: post)) Err = apply U W (fst c) (snd c).
Proof.
  intros. unfold run_calls. rewrite map_app, app_nth2; rewrite map_length; [|lia].
  rewrite Nat.sub_diag. reflexivity.
Qed.
Print Assumptions C16_call_independent_of_history.

(* Non-vacuity: the model computes the documented examples (and the fixed first-rune cases
   with a two-entry Unicode table: U+00E9 is a lower-case letter with upper case U+00C9). *)
Definition Uex (r : N) : uinfo :=
  if N.eqb r 233 then {| u_letter := true; u_upper := false; u_lower := true; u_toupper := 201; u_tolower := 233 |}
  else if N.eqb r 97 then {| u_letter := true; u_upper := false; u_lower := true; u_toupper := 65; u_tolower := 97 |}
  else {| u_letter := false; u_upper := false; u_lower := false; u_toupper := r; u_tolower := r |}.
Example C16_examples :
  fm_split (B ",") (B "a,b,c") = [B "a"; B "b"; B "c"] /\
  fm_replace (B "old") (B "new") 2 (B "oldoldold") = B "newnewold" /\
  fm_split_after_n (B ",") 2 (B "a,b,c") = [B "a,"; B "b,c"] /\
  fm_trim (B " ,") (B ", a ,") = B "a" /\
  first_is_lower Uex [] = false /\
  first_is_lower Uex [xc3; xa9; x61] = true /\
  exported Uex [xc3; xa9; x61] = [xc3; x89; x61] /\
  div 7 [(-2)%Z] = IVal (-3)%Z /\ modulo (-7) [2%Z] = IVal (-1)%Z /\
  add max_int [1%Z] = min_int.
Proof. vm_compute. repeat split; reflexivity. Qed.
