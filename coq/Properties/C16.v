(* C16 - placeholder while the development is being built *)
From Coq Require Import NArith ZArith.
From Mk Require Import Lib.Bytes Funcs.Utf8 Funcs.Strings Funcs.Arith Funcs.Case Funcs.Path Funcs.FuncMap.

Example C16_example : fm_split (B ",") (B "a,b") = [B "a"; B "b"].
Proof. vm_compute. reflexivity. Qed.
Print Assumptions C16_example.
