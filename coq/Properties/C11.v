(* C11 - Templated config values resolve correctly, to a fixpoint, and always terminate.
   Only statements; proofs are in Cfg/Tmpl_proofs.v.  Model: Cfg/Tmpl.v
     bind e sn            the TemplateData of one ParseTemplates call
     render d v           template.New(..).Funcs(FuncMap).Parse(v) + Execute(d)   (subset of text/template)
     resolve orders d c   the loop over the five parameters with its cap of 20 passes;
                          [orders k] is the Go map iteration order of a pass
     config_used          which config file NewRootConfig loads (env, flag, search)
   The model describes the tree WITH fixes/c11-configdir.diff applied: the `config`
   parameter holds the path of the file that is loaded, also when it was found by search
   (before the fix it was empty in that case and ConfigDir was "."). *)
From Coq Require Import Permutation.
From Mk Require Import Lib.Bytes Cfg.Tmpl Cfg.Tmpl_proofs.

(* ---------------------------------------------------------------- bindings *)
(* Every variable, as computed by ParseTemplates.  Documented meanings (doc comments of
   config.TemplateData):
     ConfigDir             "the directory of where the mockery config file is located"
     InterfaceDir          "the directory of the interface being mocked"
     InterfaceDirRelative  "the same as InterfaceDir, but made relative to the ConfigDir"
                           IMPLEMENTED: relative to the working directory, "." when the
                           interface is not below it (see C11_bind_idr_* below)
     InterfaceFile         "the filename of where the interface is defined"
     InterfaceName         "the name of the interface"
     Mock                  "Mock if the interface is exported, mock otherwise"
     StructName            "the configured name of the mock" (the configured, unrendered value)
     SrcPackageName / SrcPackagePath   name / import path of the source package
     Template              "the value of the template parameter"
   For the per-file call without an interface the interface variables are empty. *)
Theorem C11_bind : forall e sn,
  let d := bind e sn in
  StructName d = sn /\ SrcPackageName d = e_pkgname e /\ SrcPackagePath d = e_pkgpath e /\
  Template d = e_template e /\ ConfigDir d = f_dir (e_config e) /\
  match e_iface e with
  | Some i =>
      InterfaceName d = i_name i /\ InterfaceFile d = i_file i /\ InterfaceDir d = f_dir (i_file i) /\
      InterfaceDirRelative d = match rel_to (f_dir (i_file i)) (e_cwd e) with Some r => r | None => B "." end /\
      Mock d = (if exported (i_name i) then B "Mock" else B "mock")
  | None =>
      InterfaceName d = [] /\ InterfaceFile d = [] /\ InterfaceDir d = [] /\
      InterfaceDirRelative d = [] /\ Mock d = []
  end.
Proof. exact bind_spec. Qed.
Print Assumptions C11_bind.

(* the ten documented names, and only they, are variables of the templates *)
Theorem C11_variables : forall d,
  field d (B "ConfigDir") = Some (ConfigDir d) /\ field d (B "InterfaceDir") = Some (InterfaceDir d) /\
  field d (B "InterfaceDirRelative") = Some (InterfaceDirRelative d) /\
  field d (B "InterfaceFile") = Some (InterfaceFile d) /\ field d (B "InterfaceName") = Some (InterfaceName d) /\
  field d (B "Mock") = Some (Mock d) /\ field d (B "StructName") = Some (StructName d) /\
  field d (B "SrcPackageName") = Some (SrcPackageName d) /\ field d (B "SrcPackagePath") = Some (SrcPackagePath d) /\
  field d (B "Template") = Some (Template d) /\
  forall f, ~ In f (map fst (fields d)) -> field d f = None.
Proof. exact fields_spec. Qed.
Print Assumptions C11_variables.

(* exportedness = upper-case first rune (ASCII and U+00C0..U+00DE are modelled) *)
Theorem C11_bind_exported : forall b r, exported (b :: r) = true <->
  is_upper_ascii b = true \/ (b = xc3 /\ exists b2 r', r = b2 :: r' /\ in_range 128 158 b2 = true /\ b2 <> x97).
Proof. exact exported_ascii. Qed.
Print Assumptions C11_bind_exported.

(* The directory variables in a concrete layout.  File /cw/rel/fname, working directory
   /cw, config file /cfgdir/cfgname (ordinary path components): InterfaceDir is the
   directory that contains the file, InterfaceDirRelative is rel ("." when the file is in
   the working directory), ConfigDir is the directory that contains the config file. *)
Theorem C11_bind_layout : forall cw rel fname cfgdir cfgname name pkgn pkgp tmpl sn,
  Forall tidy cw -> Forall tidy rel -> plain fname -> Forall plain cfgdir -> plain cfgname ->
  let d := bind {| e_iface := Some {| i_name := name; i_file := abs_of ((cw ++ rel) ++ [fname]) |};
                   e_pkgname := pkgn; e_pkgpath := pkgp; e_template := tmpl;
                   e_config := abs_of (cfgdir ++ [cfgname]); e_cwd := abs_of cw |} sn in
  InterfaceDir d = abs_of (cw ++ rel) /\
  InterfaceDirRelative d = match rel with [] => B "." | _ => join_with (B "/") rel end /\
  ConfigDir d = abs_of cfgdir.
Proof. exact bind_layout. Qed.
Print Assumptions C11_bind_layout.

(* --config / MOCKERY_CONFIG given relative to the working directory: ConfigDir is that
   relative directory ("." for a bare file name) *)
Theorem C11_bind_config_relative : forall e sn cfgdir cfgname,
  Forall plain cfgdir -> plain cfgname ->
  e_config e = join_with (B "/") (cfgdir ++ [cfgname]) ->
  ConfigDir (bind e sn) = match cfgdir with [] => B "." | _ => join_with (B "/") cfgdir end.
Proof. exact bind_config_relative. Qed.
Print Assumptions C11_bind_config_relative.

(* Which file is used.  Explicit choices win (environment before flag); otherwise the
   search returns the first existing candidate, candidates being ordered nearest directory
   first (the working directory, then its ancestors, never "/"), .mockery.yaml before
   .mockery.yml - and ConfigDir is the directory in which it was found. *)
Theorem C11_config_explicit : forall envv flagv is_file cwd,
  (envv <> [] -> config_used envv flagv is_file cwd = Some envv) /\
  (envv = [] -> flagv <> [] -> config_used envv flagv is_file cwd = Some flagv) /\
  (envv = [] -> flagv = [] -> config_used envv flagv is_file cwd = find_config is_file cwd).
Proof.
  intros envv flagv is_file cwd. unfold config_used. repeat split.
  - destruct envv; [congruence | reflexivity].
  - intros -> H. destruct flagv; [congruence | reflexivity].
  - intros -> ->. reflexivity.
Qed.
Print Assumptions C11_config_explicit.

Theorem C11_search_order : forall comps, Forall plain comps ->
  candidates (abs_of comps) =
  flat_map (fun pre => [abs_of (pre ++ [B ".mockery.yaml"]); abs_of (pre ++ [B ".mockery.yml"])]) (rev (prefixes comps)).
Proof. exact candidates_order. Qed.
Print Assumptions C11_search_order.

Theorem C11_bind_configdir_search : forall is_file comps p e sn,
  Forall plain comps -> e_cwd e = abs_of comps ->
  config_used [] [] is_file (e_cwd e) = Some p -> e_config e = p ->
  exists pre suf name before after,
    comps = pre ++ suf /\ pre <> [] /\ In name conf_names /\ p = abs_of (pre ++ [name]) /\
    is_file p = true /\
    ConfigDir (bind e sn) = abs_of pre /\
    candidates (abs_of comps) = before ++ p :: after /\ forallb (fun q => negb (is_file q)) before = true.
Proof.
  intros is_file comps p e sn HF Hcwd Hused Hcfg. rewrite Hcwd in Hused. simpl in Hused.
  destruct (search_spec is_file comps p HF Hused) as (pre & suf & name & before & after & H).
  exists pre, suf, name, before, after. simpl. rewrite Hcfg. tauto.
Qed.
Print Assumptions C11_bind_configdir_search.

(* InterfaceDirRelative: documentation says "relative to the ConfigDir".  Full statement
   (documented meaning), for the directory [cfgabs] that contains the config file:
     InterfaceDirRelative (bind e sn) = idr_of file cfgabs.
   The faithful model computes it relative to the working directory, so the statement is
   proved under the guard "working directory = directory of the config file" and refuted
   outside it (known finding C11-interfacedirrelative-cwd). *)
Theorem C11_bind_idr_partial : forall e sn i cfgabs,
  e_iface e = Some i -> seqb (e_cwd e) cfgabs = true ->
  InterfaceDirRelative (bind e sn) = idr_of (i_file i) cfgabs.
Proof. intros e sn i cfgabs Hi Hg. apply seqb_eq in Hg. subst. simpl. now rewrite Hi. Qed.
Print Assumptions C11_bind_idr_partial.

Definition idr_witness : env :=
  {| e_iface := Some {| i_name := B "Foo"; i_file := B "/m/p/sub/a.go" |}; e_pkgname := B "sub";
     e_pkgpath := B "example.com/m/p/sub"; e_template := B "testify";
     e_config := B "/m/.mockery.yml"; e_cwd := B "/m/p" |}.
Theorem C11_bind_idr_refuted : exists e sn i cfgabs,
  e_iface e = Some i /\ cfgabs = f_dir (e_config e) /\
  InterfaceDirRelative (bind e sn) = B "sub" /\ idr_of (i_file i) cfgabs = B "p/sub".
Proof. exists idr_witness, [], {| i_name := B "Foo"; i_file := B "/m/p/sub/a.go" |}, (B "/m"). repeat split. Qed.
Print Assumptions C11_bind_idr_refuted.
(* the guard is satisfiable by a non-trivial layout (file two levels below the config) *)
Example C11_bind_idr_guard_example :
  let e := {| e_iface := Some {| i_name := B "Foo"; i_file := B "/m/p/sub/a.go" |}; e_pkgname := B "sub";
              e_pkgpath := B "example.com/m/p/sub"; e_template := B "testify";
              e_config := B "/m/.mockery.yml"; e_cwd := B "/m" |} in
  seqb (e_cwd e) (f_dir (e_config e)) = true /\ InterfaceDirRelative (bind e []) = B "p/sub".
Proof. split; reflexivity. Qed.

(* ---------------------------------------------------------------- termination *)
(* The resolver makes at least one and at most [cap] = 20 passes (each pass renders each
   parameter once; [render] is one structural pass over the value, no fuel anywhere), and
   reports InfiniteLoop only after all 20. *)
Theorem C11_terminates : forall orders d c,
  exists r k, loop_count cap orders d c = (r, k) /\ r = resolve orders d c /\
              1 <= k /\ k <= cap /\ (r = Err InfiniteLoop -> k = cap).
Proof. exact terminates. Qed.
Print Assumptions C11_terminates.

(* ---------------------------------------------------------------- fixpoint *)
(* A successful result is a fixpoint of rendering in every parameter: no truncated
   (still changing) result is ever returned as success. *)
Theorem C11_fixpoint : forall orders d c c',
  (forall k, Permutation all_params (orders k)) ->
  resolve orders d c = Ok c' -> forall p, render d (get c' p) = ROk (get c' p).
Proof. intros orders d c c' HP. apply loop_ok_stable. intros k. apply perm_valid, HP. Qed.
Print Assumptions C11_fixpoint.

(* If none of the first 20 passes is stable the result is the InfiniteLoop error - and
   only then. *)
Theorem C11_unstable_errors : forall orders d c,
  (forall k, Permutation all_params (orders k)) ->
  (forall m, m < cap -> exists cm cm', iter_rounds d m c = Some cm /\ step1 d cm = inr (cm', true)) ->
  resolve orders d c = Err InfiniteLoop.
Proof. intros orders d c HP. apply loop_unstable. intros k. apply perm_valid, HP. Qed.
Print Assumptions C11_unstable_errors.

Theorem C11_infinite_only_if_unstable : forall orders d c,
  (forall k, Permutation all_params (orders k)) ->
  resolve orders d c = Err InfiniteLoop ->
  forall m, m < cap -> exists cm cm', iter_rounds d m c = Some cm /\ step1 d cm = inr (cm', true).
Proof. intros orders d c HP. apply loop_infinite_inv. intros k. apply perm_valid, HP. Qed.
Print Assumptions C11_infinite_only_if_unstable.

(* ---------------------------------------------------------------- full expansion *)
(* [expands d n v w]: the unbounded meaning of a value - rendering v again and again
   changes it n times and then stays at w.  It is deterministic. *)
Theorem C11_expands_deterministic : forall d n v w n' w',
  expands d n v w -> expands d n' v w' -> n = n' /\ w = w'.
Proof. intros d n v w n' w' H H'. exact (expands_det d n v w H n' w' H'). Qed.
Print Assumptions C11_expands_deterministic.

(* If every parameter reaches its full expansion in fewer than 20 changes the result is
   exactly the full expansion ... *)
Theorem C11_expansion : forall orders d c w (N : param -> nat),
  (forall k, Permutation all_params (orders k)) ->
  (forall p, expands d (N p) (get c p) (get w p)) -> (forall p, N p < cap) ->
  resolve orders d c = Ok w.
Proof. intros orders d c w N HP. apply loop_expands. intros k. apply perm_valid, HP. Qed.
Print Assumptions C11_expansion.
(* ... every successful result is the full expansion of every parameter ... *)
Theorem C11_expansion_complete : forall orders d c w,
  (forall k, Permutation all_params (orders k)) ->
  resolve orders d c = Ok w -> forall p, exists m, m < cap /\ expands d m (get c p) (get w p).
Proof. intros orders d c w HP. apply loop_ok_expands. intros k. apply perm_valid, HP. Qed.
Print Assumptions C11_expansion_complete.
(* ... and a parameter that needs 20 or more changes gives the error, not a cut-off value. *)
Theorem C11_too_deep_errors : forall orders d c (N : param -> nat) (W : param -> str),
  (forall k, Permutation all_params (orders k)) ->
  (forall p, expands d (N p) (get c p) (W p)) -> (exists p, cap <= N p) ->
  resolve orders d c = Err InfiniteLoop.
Proof. intros orders d c N W HP. apply loop_too_deep. intros k. apply perm_valid, HP. Qed.
Print Assumptions C11_too_deep_errors.

(* Syntactic instances.  A value without the delimiter is its own expansion; [quote w]
   renders to w for every w, so reference chains of every depth exist; and for such a
   chain (n escapings around {{.Mock}}) the cap is exact: success up to 18, error from 19. *)
Theorem C11_literal_stable : forall d s, has_delim s = false -> render d s = ROk s.
Proof. exact render_nodelim. Qed.
Print Assumptions C11_literal_stable.
Theorem C11_quote : forall d w, render d (quote w) = ROk w.
Proof. exact render_quote. Qed.
Print Assumptions C11_quote.
Theorem C11_cap_exact : forall orders d c n,
  (forall k, Permutation all_params (orders k)) ->
  Mock d = B "Mock" ->
  (forall p, p <> PPkg -> has_delim (get c p) = false) -> get c PPkg = quote_n n (B "{{.Mock}}") ->
  (n <= 18 -> resolve orders d c = Ok (set c PPkg (B "Mock"))) /\
  (19 <= n -> resolve orders d c = Err InfiniteLoop).
Proof.
  intros orders d c n HP HM Ho Hp.
  destruct (cap_exact orders d c n (B "{{.Mock}}") (B "Mock") 1 (fun k => perm_valid _ (HP k))
              eq_refl (expands_mock d HM) Ho Hp) as [H1 H2].
  split; intros Hn; [apply H1 | apply H2]; unfold cap; lia.
Qed.
Print Assumptions C11_cap_exact.

(* ---------------------------------------------------------------- map order *)
(* The result does not depend on the iteration orders of the parameter map: same values
   on success, InfiniteLoop in both or a template error in both (which parameter's
   template error is reported may differ). *)
Theorem C11_order_independent : forall o1 o2 d c,
  (forall k, Permutation all_params (o1 k)) -> (forall k, Permutation all_params (o2 k)) ->
  res_equiv (resolve o1 d c) (resolve o2 d c).
Proof.
  intros o1 o2 d c H1 H2. apply loop_order_indep; intros k; apply perm_valid; auto.
Qed.
Print Assumptions C11_order_independent.

(* ---------------------------------------------------------------- examples *)
Definition ex_env : env :=
  {| e_iface := Some {| i_name := B "Foo"; i_file := B "/m/p/sub/a.go" |}; e_pkgname := B "sub";
     e_pkgpath := B "example.com/m/p/sub"; e_template := B "testify";
     e_config := B "/m/.mockery.yml"; e_cwd := B "/m/p/sub" |}.
Definition ex_defaults : params :=
  {| p_dir := B "{{.InterfaceDir}}"; p_file := B "mocks_test.go"; p_pkg := B "{{.SrcPackageName}}";
     p_struct := B "{{.Mock}}{{.InterfaceName}}"; p_schema := B "{{.Template}}.schema.json" |}.
(* the defaults; a reference to another templated value (dir -> StructName, two passes);
   ConfigDir for a config two levels above the working directory *)
Example C11_example_defaults :
  parse_templates (fun _ => all_params) ex_env
    (set (set ex_defaults PDir (B "{{.ConfigDir}}/out/{{.StructName}}")) PFile (B "mock_{{.InterfaceName | trimPrefix ""F""}}.go"))
  = Ok {| p_dir := B "/m/out/MockFoo"; p_file := B "mock_oo.go"; p_pkg := B "sub";
          p_struct := B "MockFoo"; p_schema := B "testify.schema.json" |}.
Proof. vm_compute. reflexivity. Qed.
(* a function applied to a reference acts on the referenced TEXT, which is rendered in
   the next pass: lower turns {{.Mock}} into {{.mock}}, an unknown variable *)
Example C11_example_function_on_reference :
  parse_templates (fun _ => all_params) ex_env (set ex_defaults PDir (B "{{.StructName | lower}}"))
  = Err (TemplateError PDir EExec).
Proof. vm_compute. reflexivity. Qed.
(* self reference: an error, not a hang and not a cut-off value *)
Example C11_example_self_reference :
  parse_templates (fun _ => all_params) ex_env (set ex_defaults PStruct (B "{{.StructName}}x")) = Err InfiniteLoop.
Proof. vm_compute. reflexivity. Qed.

(* printer and parser agree on a template that uses every construct of the subset (the
   parser additionally records the empty text between adjacent actions); not proved in
   general - the general statement proved about concrete syntax is C11_quote *)
Definition ex_tmpl : tmpl :=
  [Lit (B "mock_"); Action [{| c_head := HArg (AField (B "InterfaceName")); c_args := [] |};
                            {| c_head := HFn (B "trimPrefix"); c_args := [AStr (B "I")] |};
                            {| c_head := HFn (B "lower"); c_args := [] |}];
   Action [{| c_head := HFn (B "base"); c_args := [AField (B "InterfaceDir")] |}];
   Lit (B "}}.go{x"); Action [{| c_head := HArg (AStr (B "{{")); c_args := [] |}]].
Example C11_print_parse_example :
  print ex_tmpl = B "mock_{{.InterfaceName | trimPrefix ""I"" | lower}}{{base .InterfaceDir}}}}.go{x{{""{{""}}" /\
  (match parse (print ex_tmpl) with
   | POk t => filter (fun p => match p with Lit [] => false | _ => true end) t
   | _ => [] end) = ex_tmpl /\
  render (bind ex_env []) (print ex_tmpl) = ROk (B "mock_foosub}}.go{x{{").
Proof. vm_compute. repeat split. Qed.
(* (a text piece ending in "{" directly before an action would print as "{{{": the
   printer is only meant for templates whose text pieces do not end in "{") *)

(* Resource use is outside the model (Coq lists have no size limit): a value that mentions
   itself k times is multiplied by k in every pass.  With k = 3 it has 3^4 times its size
   after 4 of the 20 passes (known finding C11-exponential-self-reference: the real
   process runs out of memory before it can report InfiniteLoop). *)
Fixpoint iter_render (d : data) (n : nat) (v : str) : rres :=
  match n with 0 => ROk v | S k => match render d v with ROk v' => iter_render d k v' | e => e end end.
Example C11_size_refuted :
  let v := B "{{.StructName}}{{.StructName}}{{.StructName}}" in
  Nat.eqb (match iter_render (bind ex_env v) 4 v with ROk w => length w | RErr _ => 0 end) (3 ^ 4 * length v) = true.
Proof. vm_compute. reflexivity. Qed.

