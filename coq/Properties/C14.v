(* C14 - Data handed to custom templates describes the interfaces faithfully.
   Only statements; proofs are in Gen/Render_proofs.v.  Model: Gen/Types.v (type AST),
   Gen/Render.v (template data, accessors as structured values, denotation), Gen/Alloc.v
   (Registry / MethodScope, shared with C15).

   [gen_file cx dst inpkg is] is the template.Data of one output file: [is] are the
   interfaces rendered into it, each with the methods of its completed method set in
   go/types order (method-set completion and that order are go/types' and are inputs).
   [cx] carries the package-name table, Go's unicode case tables for first runes, and
   template_funcs.Exported (property C16); [tables_ok] says that the case image of a letter
   is neither empty nor "_".

   The model describes the tree WITH the proposed fixes c14-varname-first-rune,
   c14-variadic-underlying and c14-tparam-names-visible (see fixes/). *)
From Coq Require Import Permutation.
From Mk Require Import Lib.Bytes Lib.Fresh Gen.Alloc Gen.Alloc_proofs Gen.Types Gen.Render Gen.Render_proofs.

(* The data model lists each method of the given method set exactly once, in the same
   order, with the same arity, variadic flag and (source) types; struct name and type
   parameter constraints are those of the interface. *)
Theorem C14_methods_once : forall cx, tables_ok cx -> forall dstp inp is,
  Forall2 (fun i id =>
     i_name id = if_name i /\ i_struct id = if_struct i /\
     map dname (i_methods id) = map fst (if_methods i) /\
     Forall2 method_shape (if_methods i) (i_methods id) /\
     map vty (i_tparams id) = map snd (if_tparams i))
    is (f_ifaces (gen_file cx dstp inp is)).
Proof. exact methods_once. Qed.
Print Assumptions C14_methods_once.

(* Import closure (the heart): the reported imports have pairwise distinct paths and
   qualifiers, and for EVERY variable (parameter, result, type parameter constraint) of
   every interface of the file, every package mentioned anywhere inside its type is
   imported under exactly the qualifier its rendered type uses; the file's own package (when
   the output is in-package) is not imported and its types are rendered bare. *)
Theorem C14_import_closure : forall cx, tables_ok cx -> forall dstp inp is,
  let f := gen_file cx dstp inp is in
  NoDup (map ipath (f_imports f)) /\ NoDup (map qualifier (f_imports f)) /\
  forall id v p, In id (f_ifaces f) -> In v (ivars id) -> In p (imports_of (vty v)) -> closed_for cx dstp inp f v p.
Proof. exact import_closure. Qed.
Print Assumptions C14_import_closure.

(* Denotation: placed in a Go file of package [dstp] that imports exactly the reported
   imports under the reported qualifiers, declares the type names [local] at package level,
   has the type parameters [tps] and the variables [sh] in scope, the rendered type of every
   variable resolves to the source type (up to declaration-level information, [norm]),
   provided the scoping side conditions [var_guard] hold (Gen/Render.v: nothing the source
   refers to is shadowed in the destination).  [sh = []] is the signature level; [sh] = the
   offered parameter and result names is the level of a method body. *)
Theorem C14_denote : forall cx, tables_ok cx -> forall dstp inp is local tps sh,
  let f := gen_file cx dstp inp is in
  let E := file_env dstp f local tps sh in
  forall id v, In id (f_ifaces f) -> In v (ivars id) ->
    var_guard cx E inp v = true ->
    resolve_rty E (vrty v) = Some (norm (vty v)).
Proof. exact denote. Qed.
Print Assumptions C14_denote.

(* ... and therefore every list-valued accessor denotes the source signature: ArgList,
   ArgTypeListEllipsis (each element; "...T" denotes []T and is flagged exactly on the last
   parameter of a variadic method), ArgTypeList, ReturnArgTypeList, ReturnArgList; the names
   in ArgList / ReturnArgList / ReturnArgNameList / ArgCallList are the offered names, and
   ArgCallList carries "..." exactly on the variadic parameter.  Signature, Declaration and
   Call are pairs of these by definition. *)
Theorem C14_denote_accessors : forall E d,
  Forall (resolves E) (dvars d) -> variadic_wf d ->
  map (den_arg E) (arg_list d) = map (fun v => Some (norm (vty v))) (dparams d) /\
  map (den_arg E) (arg_type_list_ellipsis d) = map (fun v => Some (norm (vty v))) (dparams d) /\
  map (resolve_rty E) (arg_type_list d) = map (fun v => Some (norm (vty v))) (dparams d) /\
  map (resolve_rty E) (return_arg_type_list d) = map (fun v => Some (norm (vty v))) (dreturns d) /\
  map (den_arg E) (return_arg_list d) = map (fun v => Some (norm (vty v))) (dreturns d) /\
  map a_name (arg_list d) = map vname (dparams d) /\
  map a_name (return_arg_list d) = map vname (dreturns d) /\
  return_arg_name_list d = map vname (dreturns d) /\
  map fst (arg_call_list d) = map vname (dparams d) /\
  map a_ell (arg_list d) = mapi (fun k _ => pvariadic d k) (dparams d) /\
  map snd (arg_call_list d) = mapi (fun k _ => pvariadic d k) (dparams d).
Proof. exact accessors_denote. Qed.
Print Assumptions C14_denote_accessors.

(* Param.MethodArg / TypeStringEllipsis / TypeStringVariadicUnderlying of one parameter *)
Theorem C14_denote_param : forall E v b,
  resolves E v -> (b = true -> exists e, vty v = TSlice e) ->
  den_arg E (param_method_arg v b) = Some (norm (vty v)) /\
  den_arg E (param_type_string_ellipsis v b) = Some (norm (vty v)) /\
  option_map (fun t => if b then TSlice t else t) (resolve_rty E (param_type_string_variadic_underlying v b)) = Some (norm (vty v)).
Proof.
  intros E v b R W. split; [apply den_method_arg; assumption|]. split; [apply den_type_string_ellipsis; assumption|].
  apply den_variadic_underlying; assumption.
Qed.
Print Assumptions C14_denote_param.

(* Names: for every method, in every registry reachable during a generation, the offered
   parameter and result names are pairwise distinct, non-blank, different from every import
   qualifier visible when the method's scope was created, from the interface's type
   parameter names, from the type string of every parameter/result of the method and from
   every qualifier used anywhere inside those types. *)
Theorem C14_names : forall cx, tables_ok cx -> forall tpn r m,
  RInv r -> NInv cx r ->
  let d := resolve_collisions (snd (method_data cx tpn r m)) in
  let names := map vname (dvars d) in
  NoDup names /\ Forall nonblank names /\
  forall n, In n names ->
    ~ In n (quals r) /\ ~ In n tpn /\
    forall v, In v (dvars d) ->
      n <> print_rty (vrty v) /\ forall p, In p (imports_of (vty v)) -> n <> qual_of (vimps v) p.
Proof. exact names_spec. Qed.
Print Assumptions C14_names.

(* Type parameters: constraints are the source constraints (C14_methods_once) and resolve
   like every other variable (C14_denote); the names offered by TypeConstraint and
   TypeInstantiation are the declared names when (guard 1) no declared name is visible in the
   scope in which the type parameters are named and (guard 2) Exported leaves them unchanged. *)
Theorem C14_typeparams : forall cx r i,
  let id := snd (gen_iface cx r i) in
  forallb (fun x => negb (blank (lname (fst x))) && negb (smem (lname (fst x)) (i_tpscope id))) (if_tparams i) = true ->
  (forall x, In x (if_tparams i) -> cx_exported cx (lname (fst x)) = lname (fst x)) ->
  type_instantiation cx id = map (fun x => lname (fst x)) (if_tparams i) /\
  map fst (type_constraint cx id) = map (fun x => lname (fst x)) (if_tparams i) /\
  map snd (type_constraint cx id) = map vrty (i_tparams id).
Proof. exact typeparams_spec. Qed.
Print Assumptions C14_typeparams.

(* Derived accessors (beyond the strings the property enumerates: "describes the interfaces
   faithfully" read as consistency of the data with itself): HasParams / HasReturns /
   ReturnStatement / IsVariadic agree with the parameter and result lists and with the "..."
   carried by ArgList and ArgCallList; ReturnsError is true iff some result's type string is
   "error" - in particular when a result is the predeclared error; by C14_denote that string
   denotes the predeclared error whenever var_guard holds (nothing shadows it), so a result
   that merely IMPLEMENTS error - a pointer to os.PathError, net.Error, a pointer to a local NotFound, an interface
   embedding error - does not set it; AcceptsContext iff the first parameter's type string is
   "context.Context".  (The comparison is on the type STRING, as in the code: a package-level
   type named `error` rendered in-package would also set ReturnsError - not exercised.) *)
Theorem C14_flags : forall d,
  (has_params d = true <-> dparams d <> []) /\
  (has_returns d = true <-> dreturns d <> []) /\
  (return_statement d = B "return" <-> dreturns d <> []) /\
  (is_variadic d = true <-> dparams d <> [] /\ dvariadic d = true) /\
  (is_variadic d = true <-> existsb a_ell (arg_list d) = true) /\
  (is_variadic d = true <-> existsb snd (arg_call_list d) = true) /\
  (returns_error d = true <-> exists v, In v (dreturns d) /\ print_rty (vrty v) = B "error") /\
  ((exists v, In v (dreturns d) /\ vty v = TNamed None (B "error") []) -> returns_error d = true) /\
  (accepts_context d = true <-> exists v r, dparams d = v :: r /\ print_rty (vrty v) = B "context.Context").
Proof. exact flags_spec. Qed.
Print Assumptions C14_flags.

(* The slicing accessors ArgCallListSlice / ArgCallListSliceNoEllipsis start end: in range
   (start <= end' <= number of parameters, end' = the number of parameters for a negative end) the
   result lists exactly the elements of index in [start, end') of ArgCallList / ArgCallListNoEllipsis
   (so "..." appears only when the range reaches the variadic parameter); out of range the Go slice
   expression panics (None), which text/template turns into a failed render. *)
Theorem C14_slices : forall d s e (ell : bool),
  let n := length (dparams d) in
  let e' := eff_end n e in
  let full := if ell then arg_call_list d else arg_call_list_no_ellipsis d in
  (s <= e' <= n -> exists l, arg_call_list_slice d s e ell = Some l /\ length l = e' - s /\
                             forall i, i < e' - s -> nth_error l i = nth_error full (s + i)) /\
  (~ (s <= e' <= n) -> arg_call_list_slice d s e ell = None).
Proof. exact slice_spec. Qed.
Print Assumptions C14_slices.

(* Only the last parameter of a variadic method is variadic; no result ever is; and with the flag
   off, MethodArg / TypeStringEllipsis / TypeStringVariadicUnderlying / CallName are the plain type
   string / name (which C14_denote ties to the source type). *)
Theorem C14_variadic_flags : forall d,
  (forall k, pvariadic d k = true <-> dvariadic d = true /\ S k = length (dparams d)) /\
  (forall k, rvariadic d k = false) /\
  (forall v, param_method_arg v false = {| a_name := vname v; a_ell := false; a_ty := vrty v |} /\
             param_type_string_ellipsis v false = {| a_name := []; a_ell := false; a_ty := vrty v |} /\
             param_type_string_variadic_underlying v false = vrty v /\
             param_call_name true v false = (vname v, false)).
Proof. exact variadic_flags. Qed.
Print Assumptions C14_variadic_flags.

(* ------------------------------------------------------------------------------------ *)
(* Where the property does NOT hold of the faithful model (known findings)               *)
(* ------------------------------------------------------------------------------------ *)
Definition src : str := B "example.com/m/src".
Definition cx0 : ctx :=
  {| cx_names := [(src, B "src"); (B "net/http", B "http"); (B "example.com/m/ext/http", B "http")];
     cx_lower := []; cx_upper := []; cx_exported := exported_ascii |}.
Definition lb (n : str) : label := named_label n.
Definition T2 : ty := TNamed (Some src) (B "T2") [].

(* The witnesses are evaluated by the VM; each statement is a boolean that spells out the
   claim (stating them with nested existentials makes Qed re-check the instances by lazy
   conversion, which takes minutes). *)
Definition is_none {A} (o : option A) : bool := match o with None => true | Some _ => false end.
Fixpoint strs_eqb (a b : list str) : bool :=
  match a, b with
  | [], [] => true
  | x :: a', y :: b' => seqb x y && strs_eqb a' b'
  | _, _ => false
  end.

(* known finding C14-name-captures-inner-type:  P5(T2 []T2)  in-package: the offered name T2
   equals the bare identifier used inside the composite type of the same signature, so
   inside a method body "[]T2" no longer denotes the source type:
     the file has one interface with one method with one variable v;  vname v = "T2";
     capture_free = false;  the signature-level guard holds;  with the offered names in
     scope (method body) the rendered type does not resolve. *)
Definition if_capture : iface :=
  {| if_name := B "A"; if_struct := B "MkA"; if_tparams := [];
     if_methods := [(B "P5", {| sparams := [(lb (B "T2"), TSlice T2)]; svariadic := false; sresults := [] |})] |}.
Definition capture_witness : bool :=
  let f := gen_file cx0 src true [if_capture] in
  match f_ifaces f with
  | [id] =>
      match i_methods id with
      | [d] =>
          match dvars d with
          | [v] => seqb (vname v) (B "T2") && negb (capture_free d) &&
                   var_guard cx0 (file_env src f [B "T2"] [] []) true v &&
                   is_none (resolve_rty (file_env src f [B "T2"] [] (map vname (dvars d))) (vrty v))
          | _ => false
          end
      | _ => false
      end
  | _ => false
  end.
Theorem C14_capture_refuted : capture_witness = true.
Proof. vm_compute. reflexivity. Qed.
Print Assumptions C14_capture_refuted.

(* known finding C14-lowercase-type-parameter:  type G[t any] interface{ M(x t) } :
   TypeInstantiation is [T] (Exported) while the signature refers to t: in a file that
   declares the type parameters offered by the data model, "t" resolves to a (non-existent)
   predeclared object t, whereas the source type is the type parameter t. *)
Definition if_lower : iface :=
  {| if_name := B "G"; if_struct := B "MkG"; if_tparams := [(lb (B "t"), TAlias None (B "any") [])];
     if_methods := [(B "M", {| sparams := [(lb (B "x"), TParam (B "t"))]; svariadic := false; sresults := [] |})] |}.
Definition lower_witness : bool :=
  let f := gen_file cx0 src true [if_lower] in
  match f_ifaces f with
  | [id] =>
      match i_methods id with
      | [d] =>
          match dvars d with
          | [v] => strs_eqb (type_instantiation cx0 id) [B "T"] &&
                   match resolve_rty (file_env src f [] (type_instantiation cx0 id) []) (vrty v), norm (vty v) with
                   | Some (TNamed None n []), TParam n' => seqb n (B "t") && seqb n' (B "t")
                   | _, _ => false
                   end
          | _ => false
          end
      | _ => false
      end
  | _ => false
  end.
Theorem C14_typeparams_refuted : lower_witness = true.
Proof. vm_compute. reflexivity. Qed.
Print Assumptions C14_typeparams_refuted.

(* Not guaranteed (and stated so): a name may equal a qualifier that a LATER method adds to
   the file's imports; ResolveVariableNameCollisions only looks at the method's own scope.
   A(http int) ; B(x net/http.Request): the parameter of A stays "http" while the file
   imports net/http as http.  (Harmless for A's own signature, whose types do not use it.) *)
Definition if_later : iface :=
  {| if_name := B "L"; if_struct := B "MkL"; if_tparams := [];
     if_methods := [(B "A", {| sparams := [(lb (B "http"), TBasic (B "int"))]; svariadic := false; sresults := [] |});
                    (B "B", {| sparams := [(lb (B "x"), TNamed (Some (B "net/http")) (B "Request") [])]; svariadic := false; sresults := [] |})] |}.
Definition later_witness : bool :=
  let f := gen_file cx0 src true [if_later] in
  match f_ifaces f with
  | [id] =>
      match i_methods id with
      | d :: _ => strs_eqb (map vname (dvars d)) [B "http"] && smem (B "http") (map qualifier (f_imports f))
      | _ => false
      end
  | _ => false
  end.
Theorem C14_names_file_qualifier_refuted : later_witness = true.
Proof. vm_compute. reflexivity. Qed.
Print Assumptions C14_names_file_qualifier_refuted.

(* ------------------------------------------------------------------------------------ *)
(* Non-vacuity: two packages named http, a generic instantiation, a variadic parameter,
   out-of-package: the second http package gets the alias http0; the offered names are req,
   vToBox, rest, err; capture_free and all scoping guards hold even at method-body level (so
   C14_denote applies to every variable), and indeed every element of ArgList resolves. *)
Definition if_ok : iface :=
  {| if_name := B "Svc"; if_struct := B "MkSvc"; if_tparams := [(lb (B "K"), TNamed None (B "comparable") [])];
     if_methods :=
       [(B "Do", {| sparams := [(lb (B "req"), TPtr (TNamed (Some (B "net/http")) (B "Request") []));
                                (lb [], TMap (TParam (B "K")) (TNamed (Some (B "example.com/m/ext/http")) (B "Box") [(nolabel, TNamed (Some src) (B "Local") [])]));
                                (lb (B "rest"), TSlice (TNamed (Some src) (B "Local") []))];
                    svariadic := true; sresults := [(lb [], TNamed None (B "error") [])] |})] |}.
Definition ok_witness : bool :=
  let dstp := B "example.com/m/mocks" in
  let f := gen_file cx0 dstp false [if_ok] in
  match f_ifaces f with
  | [id] =>
      match i_methods id with
      | [d] =>
          strs_eqb (map ipath (f_imports f)) [B "example.com/m/ext/http"; src; B "net/http"] &&
          strs_eqb (map qualifier (f_imports f)) [B "http0"; B "src"; B "http"] &&
          strs_eqb (map vname (dvars d)) [B "req"; B "vToBox"; B "rest"; B "err"] && capture_free d &&
          forallb (var_guard cx0 (file_env dstp f [] (type_instantiation cx0 id) (map vname (dvars d))) false) (ivars id) &&
          forallb (fun a => negb (is_none (den_arg (file_env dstp f [] (type_instantiation cx0 id) []) a))) (arg_list d) &&
          strs_eqb (map (fun a => if a_ell a then B "..." else []) (arg_list d)) [[]; []; B "..."]
      | _ => false
      end
  | _ => false
  end.
Example C14_example : ok_witness = true.
Proof. vm_compute. reflexivity. Qed.
