(* C05 - Generated mocks are safe under concurrent use.
   Only statements; proofs are in Mock/Conc_proofs.v.  Model: Mock/Conc.v
   ([exec ps sched] runs the goroutine programs ps under the schedule sched - any list of
   thread numbers, blocked or finished threads are skipped - and returns the final state and
   the list of executed (thread, instruction) events in execution order).
   [wl HNone p = true] is the lock discipline; Harness/C05.v checks on every run that every
   method body the templates emit NOW (translated by harness/go/goskel) satisfies it.
   Not covered (trusted): Go's memory model and scheduler, sync.RWMutex implementing the
   RWMutex specification used here, testify's own locking inside mock.Mock. *)
From Coq Require Import Permutation.
From Mk Require Import Lib.Bytes Mock.Conc Mock.Conc_proofs.

(* Any number of goroutines, any schedule: if every goroutine runs well-locked code, no
   reachable state has two goroutines about to access the same call log with at least one
   writing (accesses are never blocked in the model, so that is a pair of concurrent accesses). *)
Theorem C05_race_free : forall ps sched,
  Forall (fun p => wl HNone p = true) ps -> ~ race (fst (exec ps sched)).
Proof. intros ps sched F. eapply inv_race_free, exec_inv, F. Qed.
Print Assumptions C05_race_free.

(* In EVERY reachable state the log of m is exactly the entries appended to m since the last
   reset of m, in the order the appends executed; every entry comes from an append instruction
   of some goroutine; if the calls carry pairwise different entries, no entry is recorded
   twice; and when all goroutines have finished and nobody resets m, the log is a
   permutation of all appends to m: no call lost, none duplicated, none invented. *)
Theorem C05_no_lost_call : forall ps sched m,
  Forall (fun p => wl HNone p = true) ps ->
  let s := fst (exec ps sched) in let evs := snd (exec ps sched) in
  log s m = since_reset m evs /\
  incl (log s m) (all_appends m ps) /\
  (NoDup (all_appends m ps) -> NoDup (log s m)) /\
  (all_done s -> no_reset m ps -> Permutation (log s m) (all_appends m ps)).
Proof. exact no_lost_call. Qed.
Print Assumptions C05_no_lost_call.

(* Every <M>Calls() result is the log as it was at some point of the execution, and, when
   nobody resets m, a prefix of the log in every later state (of the eventual write order). *)
Theorem C05_snapshot_prefix : forall ps sched sched' t th m snap,
  Forall (fun p => wl HNone p = true) ps ->
  nth_error (ths (fst (exec ps sched))) t = Some th -> In (m, snap) (outs th) ->
  (exists k, k <= length (snd (exec ps sched)) /\ snap = since_reset m (firstn k (snd (exec ps sched)))) /\
  (no_reset m ps -> exists rest, log (fst (exec ps (sched ++ sched'))) m = snap ++ rest).
Proof. exact snapshot_prefix. Qed.
Print Assumptions C05_snapshot_prefix.

(* The model can see the bug: the same two calls with the lock operations removed have a
   schedule on which both goroutines finish and one call is lost, and a reachable race;
   with the locks, the same programs are fine under every schedule. *)
Theorem C05_unlocked_refuted :
  let ps := map strip_locks two_calls in
  let s := fst (exec ps losing_schedule) in
  all_done s /\ no_reset 0 ps /\ log s 0 = [2] /\ all_appends 0 ps = [1; 2] /\
  ~ Permutation (log s 0) (all_appends 0 ps) /\
  race (fst (exec ps [0; 0; 0; 1; 1])).
Proof. exact unlocked_loses. Qed.
Print Assumptions C05_unlocked_refuted.

Theorem C05_locked_fine : forall sched,
  let s := fst (exec two_calls sched) in
  ~ race s /\ (all_done s -> Permutation (log s 0) [1; 2]).
Proof. exact locked_same_programs_fine. Qed.
Print Assumptions C05_locked_fine.

(* Testify wrappers consist of locals and calls into the embedded mock.Mock only: such code is
   well locked, never races, never touches a call log, and no executed instruction is an
   access to generated shared state. *)
Theorem C05_testify_no_shared : forall ps,
  Forall (fun p => forallb testify_instr p = true) ps ->
  Forall (fun p => wl HNone p = true) ps /\
  forall sched, ~ race (fst (exec ps sched)) /\
                (forall m, log (fst (exec ps sched)) m = []) /\
                (forall e, In e (snd (exec ps sched)) -> acc_of (snd e) = None).
Proof. exact testify_no_shared. Qed.
Print Assumptions C05_testify_no_shared.

(* A closure handed to testify (typed Run / RunAndReturn wrapper) that reads or writes a captured
   mutable variable: goskel translates that to Snap k / WriteNil k on a location k no lock protects.
   Such code is rejected by the kernel check (neither well locked nor testify-local), and two
   invocations of the handler do race in the model. *)
Theorem C05_shared_closure_races : forall k,
  wl HNone [WriteNil k] = false /\ wl HNone [Snap k] = false /\
  testify_instr (WriteNil k) = false /\ testify_instr (Snap k) = false /\
  race (init [[WriteNil k]; [WriteNil k]]) /\ race (init [[Snap k]; [WriteNil k]]).
Proof. exact shared_closure_races. Qed.
Print Assumptions C05_shared_closure_races.

(* The bodies written from the template text are well locked for every method and call. *)
Theorem C05_template_bodies_wl : forall m v,
  wl HNone (call_body m v) = true /\ wl HNone (calls_body m) = true /\ wl HNone (reset_body m) = true.
Proof. exact template_bodies_wl. Qed.
Print Assumptions C05_template_bodies_wl.

(* Non-vacuity: three goroutines - two calls of method 0 and a Calls() reader - under one schedule. *)
Example C05_example :
  let ps := [call_body 0 1; calls_body 0; call_body 0 2] in
  let s := fst (exec ps [0; 0; 0; 2; 2; 2; 0; 0; 0; 1; 1; 1; 2; 2; 2; 1; 2; 2; 2; 0; 0; 0; 2; 2; 2]) in
  log s 0 = [1; 2] /\ map outs (ths s) = [[]; [(0, [1])]; []] /\ forallb (fun t => match prog t with [] => true | _ => false end) (ths s) = true.
Proof. vm_compute. auto. Qed.
