(* C12 - template-data is validated against the template's JSON schema at every level.
   Only statements; proofs are in Cfg/Schema_proofs.v.  Model: Cfg/Schema.v.

   [run km e fo]      the loop of RootApp.Run over the output files in map order [fo], with the
                      per-run template/schema cache as state, stopping at the first error;
                      result = (exit class, paths written).  [KTemplateSchema] = cache keyed by
                      template AND schema location (fixes/c12-schema-cache-key.diff);
                      [KTemplate] = the pinned code.
   [spec_file e f]    what happens to one file when nothing is cached.
   [f_rest_ok f]      "the other stages succeed" (rendering, formatting, writing). *)
From Coq Require Import ZArith Permutation.
From Mk Require Import Lib.Bytes Cfg.Schema Cfg.Schema_proofs.

(* ---- written iff valid --------------------------------------------------------------- *)
(* For every set of output files, every schema (of the subset), all data and every map order:
   the run succeeds iff every file is acceptable; only acceptable files are ever written; a
   successful run writes all of them. *)
Theorem C12_written_iff_valid : forall e fs fo,
  Permutation fs fo ->
  (fst (run KTemplateSchema e fo) = ExitOk <-> forall f, In f fs -> spec_file e f = FWritten) /\
  (forall p, In p (snd (run KTemplateSchema e fo)) ->
             exists f, In f fs /\ f_path f = p /\ spec_file e f = FWritten) /\
  (fst (run KTemplateSchema e fo) = ExitOk -> Permutation (snd (run KTemplateSchema e fo)) (map f_path fs)).
Proof. exact written_iff_valid. Qed.
Print Assumptions C12_written_iff_valid.

(* "acceptable": the template is retrievable and usable, the other stages succeed, and - when a
   schema applies - the file-level data and the data of every interface in the file validate. *)
Theorem C12_file_written_iff : forall e f,
  spec_file e f = FWritten <->
  template_ok e f = Some true /\ f_rest_ok f = true /\
  match select_schema e f with
  | SelError => False
  | SelNoValidation => True
  | SelSchema s => validate s (JObj (f_data f)) = true /\
                   forall n d, In (n, d) (f_ifaces f) -> validate s (JObj d) = true
  end.
Proof. exact spec_file_written_iff. Qed.
Print Assumptions C12_file_written_iff.

(* the cache never changes an answer (fixed key), in any order, from the empty cache *)
Theorem C12_cache_transparent : forall e fo, run KTemplateSchema e fo = spec_run e fo.
Proof. exact cache_transparent. Qed.
Print Assumptions C12_cache_transparent.

(* a file whose data is rejected is absent after the run and the run fails, in any order *)
Theorem C12_invalid_never_written : forall w fs fo f,
  world_files w = Some fs -> Permutation fs fo -> In f fs -> spec_file (w_env w) f = FError ->
  ~ In (f_path f) (snd (run KTemplateSchema (w_env w) fo)) /\
  fst (run KTemplateSchema (w_env w) fo) = ExitErr.
Proof. exact invalid_never_written. Qed.
Print Assumptions C12_invalid_never_written.

(* ---- the pinned cache key (template name only) violates the property ------------------- *)
(* Two packages share one file:// template with different template-schema values; each
   package's data conforms to its own schema; the run fails, and which file is missing
   depends on the map order.  With the fixed key the same input succeeds. *)
Theorem C12_written_iff_valid_refuted_for_pinned_key :
  exists e fs fs',
    Permutation fs fs' /\
    (forall f, In f fs -> spec_file e f = FWritten) /\
    fst (run KTemplate e fs) = ExitErr /\ fst (run KTemplate e fs') = ExitErr /\
    snd (run KTemplate e fs) <> snd (run KTemplate e fs') /\
    fst (run KTemplateSchema e fs) = ExitOk.
Proof. exact cache_by_name_refuted. Qed.
Print Assumptions C12_written_iff_valid_refuted_for_pinned_key.

(* ---- no schema ------------------------------------------------------------------------- *)
(* custom template, schema not retrievable (missing, not a schema, unsupported protocol):
   error iff require-template-schema-exists; with false the file is written whenever the other
   stages succeed *)
Theorem C12_no_schema : forall e f,
  is_remote (f_template f) = true -> schema_retrievable e f = false ->
  (f_require f = true -> spec_file e f = FError) /\
  (f_require f = false ->
   spec_file e f = if match template_ok e f with Some true => f_rest_ok f | _ => false end
                   then FWritten else FError).
Proof. exact no_schema. Qed.
Print Assumptions C12_no_schema.

(* with the flag off nothing is validated: the outcome is the same for ALL data *)
Theorem C12_no_validation_when_not_required : forall e f dat ifs,
  is_remote (f_template f) = true -> f_require f = false ->
  spec_file e {| f_path := f_path f; f_template := f_template f; f_schema := f_schema f;
                 f_require := false; f_data := dat; f_ifaces := ifs; f_rest_ok := f_rest_ok f |}
  = spec_file e f.
Proof. exact require_false_no_validation. Qed.
Print Assumptions C12_no_validation_when_not_required.

(* built-in templates: validation does not depend on require-template-schema-exists (the flag
   only waives the existence of a schema for custom templates) *)
Theorem C12_builtin_ignores_require_flag : forall e f b,
  is_remote (f_template f) = false ->
  spec_file e {| f_path := f_path f; f_template := f_template f; f_schema := f_schema f;
                 f_require := b; f_data := f_data f; f_ifaces := f_ifaces f; f_rest_ok := f_rest_ok f |}
  = spec_file e f.
Proof.
  intros e f b H. unfold spec_file, template_ok, select_schema, data_valid; simpl. rewrite H. reflexivity.
Qed.
Print Assumptions C12_builtin_ignores_require_flag.

(* a strict file (flag true) of a custom template whose schema is not retrievable fails the run
   and is never written - in every order of the file loop, whatever the other files of the run
   are (e.g. files of the same template and schema URL that opted out with flag false): the
   cache entry they leave behind cannot turn "no retrievable schema" into "nothing to validate" *)
Theorem C12_strict_file_fails_in_any_company : forall w fs fo f,
  world_files w = Some fs -> Permutation fs fo -> In f fs ->
  is_remote (f_template f) = true -> schema_retrievable (w_env w) f = false -> f_require f = true ->
  ~ In (f_path f) (snd (run KTemplateSchema (w_env w) fo)) /\
  fst (run KTemplateSchema (w_env w) fo) = ExitErr.
Proof.
  intros w fs fo f Hw HP Hin Hrem Hs Hreq. eapply invalid_never_written; try eassumption.
  exact (proj1 (no_schema (w_env w) f Hrem Hs) Hreq).
Qed.
Print Assumptions C12_strict_file_fails_in_any_company.

(* ---- why wrapping Schema() / Template() in a retry is unsound as the code stands ------------------ *)
(* RemoteTemplate sets its "downloaded" flag BEFORE the download.  In [run] a failed download
   aborts the run, so the flag is harmless (C12_cache_transparent).  But a second call on the same
   entry answers (nil schema, nil error) - "nothing to validate" - although the schema was never
   retrieved; likewise the template becomes the empty string. *)
Theorem C12_second_call_after_failed_download : forall fs t s,
  download fs s = None -> download fs t = None ->
  snd (rt_schema fs (new_rt t s)) = None /\
  snd (rt_schema fs (fst (rt_schema fs (new_rt t s)))) = Some None /\
  snd (rt_template fs (new_rt t s)) = None /\
  snd (rt_template fs (fst (rt_template fs (new_rt t s)))) = Some None.
Proof.
  intros fs t s Hs Ht. unfold rt_schema, rt_template, new_rt; simpl. rewrite Hs, Ht. simpl.
  repeat split; reflexivity.
Qed.
Print Assumptions C12_second_call_after_failed_download.

(* ---- levels ------------------------------------------------------------------------------ *)
(* [chain levels]: the data maps from the most general to the most specific level, merged key
   by key as config.mergeStringMaps does.
   Reach: a scalar placed at one level and not overridden below arrives unchanged; a key placed
   at any level is present; a key placed nowhere is absent. *)
Theorem C12_levels_reach : forall pre L post k,
  (forall v, alookup k L = Some v -> is_obj v = false ->
             (forall M, In M post -> has_key k M = false) ->
             alookup k (chain (pre ++ L :: post)) = Some v) /\
  (has_key k L = true -> has_key k (chain (pre ++ L :: post)) = true) /\
  ((forall M, In M (pre ++ L :: post) -> has_key k M = false) ->
   has_key k (chain (pre ++ L :: post)) = false).
Proof.
  intros pre L post k. split; [|split].
  - intros v. apply chain_reach.
  - apply chain_has_key.
  - apply chain_lacks_key.
Qed.
Print Assumptions C12_levels_reach.

(* Caught: whatever single level carries the violation (a wrongly typed value, an unknown key
   under additionalProperties=false) or if no level carries a required key, the merged map is
   rejected. *)
Theorem C12_levels_caught : forall ty props req addl pre L post k,
  (forall v ps1, alookup k L = Some v -> is_obj v = false ->
                 (forall M, In M post -> has_key k M = false) ->
                 In (k, ps1) props -> validate ps1 v = false ->
                 validate (Sch ty props req addl) (JObj (chain (pre ++ L :: post))) = false) /\
  (has_key k L = true -> has_key k props = false -> addl = false ->
   validate (Sch ty props req addl) (JObj (chain (pre ++ L :: post))) = false) /\
  (In k req -> (forall M, In M (pre ++ L :: post) -> has_key k M = false) ->
   validate (Sch ty props req addl) (JObj (chain (pre ++ L :: post))) = false).
Proof.
  intros ty props req addl pre L post k. split; [|split].
  - intros v ps1 HL Hv Hp Hin Hval. apply levels_caught_value with (k := k) (v := v); try assumption.
    intros o Ho. eapply violation_property; eassumption.
  - intros HL Hp ->. apply levels_caught_key with (k := k); [exact HL|].
    intros o Ho. now apply violation_unknown_key with (k := k).
  - intros Hr Hl. apply levels_caught_missing with (k := k); [exact Hl|].
    intros o Ho. now apply violation_missing_required with (k := k).
Qed.
Print Assumptions C12_levels_caught.

(* ... and the merged maps are what is validated: for a `configs` entry the four levels
   root / package / interface config / entry; rejected data => that entry's file is not
   written and the run fails, in any map order. *)
Theorem C12_levels : forall w fs fo p name d file es en s,
  world_files w = Some fs -> Permutation fs fo ->
  In p (w_pkgs w) -> In (name, Listed d file es) (p_ifaces p) -> In en es ->
  (forall f, In f (files_of_pkg (w_fl w) (w_root w) p) -> select_schema (w_env w) f = SelSchema s) ->
  validate s (JObj (chain [l_data (w_root w); l_data (p_lvl p); d; en_data en])) = false ->
  ~ In (en_file en) (snd (run KTemplateSchema (w_env w) fo)) /\
  fst (run KTemplateSchema (w_env w) fo) = ExitErr.
Proof. exact levels_entry. Qed.
Print Assumptions C12_levels.

Theorem C12_levels_listed_interface : forall w fs fo p name d file s,
  world_files w = Some fs -> Permutation fs fo ->
  In p (w_pkgs w) -> In (name, Listed d file []) (p_ifaces p) ->
  (forall f, In f (files_of_pkg (w_fl w) (w_root w) p) -> select_schema (w_env w) f = SelSchema s) ->
  validate s (JObj (chain [l_data (w_root w); l_data (p_lvl p); d])) = false ->
  ~ In file (snd (run KTemplateSchema (w_env w) fo)) /\
  fst (run KTemplateSchema (w_env w) fo) = ExitErr.
Proof. exact levels_listed. Qed.
Print Assumptions C12_levels_listed_interface.

(* file-level data (root merged under package): every file of the package is refused *)
Theorem C12_levels_file_level : forall w fs fo p f s,
  w_fl w = FLPackage ->
  world_files w = Some fs -> Permutation fs fo ->
  In p (w_pkgs w) -> In f (files_of_pkg (w_fl w) (w_root w) p) ->
  select_schema (w_env w) f = SelSchema s ->
  validate s (JObj (chain [l_data (w_root w); l_data (p_lvl p)])) = false ->
  ~ In (f_path f) (snd (run KTemplateSchema (w_env w) fo)) /\
  fst (run KTemplateSchema (w_env w) fo) = ExitErr.
Proof. exact levels_package. Qed.
Print Assumptions C12_levels_file_level.

(* if instead the file-level data is taken from the first mock of the file, it is one of the
   validated interface maps (so the levels theorems above cover it) *)
Theorem C12_file_level_first_mock : forall r p f,
  In f (files_of_pkg FLFirstMock r p) -> exists n, In (n, f_data f) (f_ifaces f).
Proof. exact files_of_pkg_data_first. Qed.
Print Assumptions C12_file_level_first_mock.

(* every mock of every interface is validated in the file it names (nothing escapes, nothing
   is invented) *)
Theorem C12_every_mock_is_validated : forall m r p file name d,
  In (file, (name, d)) (flat_map (mocks_of_iface (pkg_data r (p_lvl p)) (p_all p) (p_file p)) (p_ifaces p)) <->
  exists f, In f (files_of_pkg m r p) /\ f_path f = file /\ In (name, d) (f_ifaces f).
Proof.
  intros m r p file name d. split; [apply mock_reaches_file|].
  intros [f [Hf [<- Hm]]]. eapply file_members_are_mocks; eassumption.
Qed.
Print Assumptions C12_every_mock_is_validated.

(* ---- meta-theorems about validate ---------------------------------------------------------- *)
Theorem C12_required_monotone : forall ty props req req' addl j,
  incl req req' ->
  validate (Sch ty props req' addl) j = true -> validate (Sch ty props req addl) j = true.
Proof. exact validate_required_monotone. Qed.
Print Assumptions C12_required_monotone.

(* additionalProperties=false rejects exactly the objects that have a key outside "properties" *)
Theorem C12_additional_properties_exact : forall ty props req kv,
  validate (Sch ty props req false) (JObj kv) =
  validate (Sch ty props req true) (JObj kv) &&
  match unknown_keys kv props with [] => true | _ => false end.
Proof. exact validate_addl_false. Qed.
Print Assumptions C12_additional_properties_exact.

Theorem C12_unknown_keys_spec : forall kv props k,
  In k (unknown_keys kv props) <-> (exists v, In (k, v) kv) /\ has_key k props = false.
Proof. exact unknown_keys_spec. Qed.
Print Assumptions C12_unknown_keys_spec.

(* complete characterisation of acceptance of an object *)
Theorem C12_validate_object_iff : forall ty props req addl kv,
  validate (Sch ty props req addl) (JObj kv) = true <->
  type_ok ty (JObj kv) = true /\
  (forall k, In k req -> has_key k kv = true) /\
  (forall k ps1 v, In (k, ps1) props -> alookup k kv = Some v -> validate ps1 v = true) /\
  (addl = false -> forall k v, In (k, v) kv -> has_key k props = true).
Proof. exact validate_object_iff. Qed.
Print Assumptions C12_validate_object_iff.

(* object keywords do not constrain non-objects *)
Theorem C12_validate_non_object : forall s j,
  (forall kv, j <> JObj kv) -> validate s j = type_ok (s_ty s) j.
Proof. exact validate_non_object. Qed.
Print Assumptions C12_validate_non_object.

(* ---- non-vacuity ----------------------------------------------------------------------------- *)
(* the testify schema: a bool under unroll-variadic is fine at any level; a string is not;
   an unknown key is not *)
Example C12_example_testify :
  validate testify_schema (JObj (chain [[(B "unroll-variadic", JBool true)]; []; []; [(B "mock-build-tags", JStr (B "x"))]])) = true /\
  validate testify_schema (JObj (chain [[]; [(B "unroll-variadic", JStr (B "yes"))]; []; []])) = false /\
  validate testify_schema (JObj (chain [[]; []; []; [(B "with-resets", JBool true)]])) = false /\
  validate matryer_schema (JObj (chain [[]; []; []; [(B "with-resets", JBool true)]])) = true.
Proof. vm_compute. repeat split; reflexivity. Qed.

(* nested maps are merged, scalars are overridden by the more specific level *)
Example C12_example_merge :
  chain [[(B "a", JNum 1%Z 0); (B "n", JObj [(B "x", JNum 1%Z 0)])];
         [(B "a", JNum 2%Z 0); (B "n", JObj [(B "y", JNum 2%Z 0)])]]
  = [(B "a", JNum 2%Z 0); (B "n", JObj [(B "y", JNum 2%Z 0); (B "x", JNum 1%Z 0)])].
Proof. vm_compute. reflexivity. Qed.
