(* C02 - The generated mock type implements exactly the source interface.
   Only statements; proofs are in Gen/MethodSet_proofs.v.  Model: Gen/MethodSet.v
     part 1  SPECIFICATION of method sets over the type AST of Gen/Types.v
             (method_set E fuel p n: explicit methods + method sets of the embedded elements -
             local, foreign, stdlib, instantiated generic, aliases, interface literals, error -
             with type-argument substitution, overlapping methods merged when their signatures
             are identical, sorted by Id as go/types does).  go/types is TRUSTED to compute
             this; the harness compares it on every run with the methods of the mocks that the
             real mockery wrote.
     part 2  the methods of the generated mock type for both built-in templates, as a function
             of the data model of Gen/Render.v (C14): one method per data-model method
     part 3  grouping of mocks into output files (internal/cmd/mockery.go)

   [mock_iface n sname tps ms] is the interface handed to Generate when go/types enumerates
   the method set [ms]; [gen_file cx dst inpkg is] is the template data of one output file
   (Gen/Render.v); [implements cx E' inp m d] says that the mock method generated from the
   data-model method d has the name, arity and "..." flags of the source method m and that -
   under C14's scoping side conditions var_guard - its parameter and result types denote
   the source types in the generated file (environment E'). *)
From Coq Require Import Permutation Sorted.
From Mk Require Import Lib.Bytes Lib.Fresh Gen.Alloc Gen.Types Gen.Render Gen.Render_proofs Gen.MethodSet Gen.MethodSet_proofs.

(* For every interface p.n (any embedding depth: any E, any fuel that gives an answer), every
   output file [is] that contains its mock, both templates: the mock type has exactly the
   methods of the method set, in the same order, each with the same arity, the same variadic
   flag and (through C14_denote) parameter / result types that denote the source types. *)
Theorem C02_method_set : forall cx, tables_ok cx -> forall E fuel p n ms,
  method_set E fuel p n = Ok ms ->
  forall dstp inp is sname tps local tpn sh,
  In (mock_iface n sname tps ms) is ->
  let f := gen_file cx dstp inp is in
  let E' := file_env dstp f local tpn sh in
  exists id, In id (f_ifaces f) /\ i_name id = n /\ i_struct id = sname /\
    (forall t, iface_methods t id = map mock_method (i_methods id)) /\
    (forall t, map mm_name (iface_methods t id) = map m_name ms) /\
    Forall2 (implements cx E' inp) ms (i_methods id).
Proof. exact method_set_main. Qed.
Print Assumptions C02_method_set.

(* Nothing dropped, nothing duplicated: the method set has pairwise distinct Ids, sorted as
   go/types sorts; the mock's method names are a permutation of (in fact equal to) the names of
   the method set; they are pairwise distinct (when all unexported methods come from one
   package - otherwise no type outside those packages can implement the interface at all);
   together with the mock's own API they are pairwise distinct under the guard api_free. *)
Theorem C02_no_drop_no_dup : forall cx, tables_ok cx -> forall E fuel p n ms,
  method_set E fuel p n = Ok ms ->
  NoDup (map mkey ms) /\ StronglySorted klt ms /\
  forall dstp inp is sname tps, In (mock_iface n sname tps ms) is ->
  exists id, In id (f_ifaces (gen_file cx dstp inp is)) /\ i_name id = n /\ i_struct id = sname /\
    forall t,
      Permutation (map mm_name (iface_methods t id)) (map m_name ms) /\
      (one_pkg ms -> NoDup (map mm_name (iface_methods t id))) /\
      (forall wr, api_free t wr (map m_name ms) = true -> NoDup (declared_methods t wr id)).
Proof. exact no_drop_no_dup. Qed.
Print Assumptions C02_no_drop_no_dup.

(* Any embedding depth: more fuel never changes an answer, and for an acyclic environment
   (ranked by rk) fuel above the rank of the interface is enough - OutOfFuel is excluded. *)
Theorem C02_embedding_depth : forall E,
  (forall f f' p n ms, f <= f' -> method_set E f p n = Ok ms -> method_set E f' p n = Ok ms) /\
  (forall rk, ranked rk E -> forall f p n, S (rk p n) <= f -> method_set E f p n <> Err EOutOfFuel).
Proof. exact embedding_depth. Qed.
Print Assumptions C02_embedding_depth.

(* Instantiation: the method set of I[targs] is the generic method set of I with the type
   arguments substituted - for every tuple of type arguments (admissibility is the type
   checker's business and does not matter here).  Together with C02_method_set (the mock of
   I has the generic methods) and Go's rule that the methods of Mock[targs] are those of Mock
   with targs substituted, Mock[targs] has the method set of I[targs]. *)
Theorem C02_instantiation : forall E f p n d targs ms,
  wf_env E = true -> lookup_decl E p n = Some (EIface d) -> length targs = length (d_tparams d) ->
  method_set E f p n = Ok ms ->
  method_set_of E f p (TNamed (Some p) n targs) = Ok (map (subst_meth (inst_sub [] (d_tparams d) targs)) ms).
Proof. exact instantiation. Qed.
Print Assumptions C02_instantiation.

(* The method SET does not depend on the order of declaration or of embedding: permuting the
   explicit methods and the embedded elements gives the same Ids with the same signatures
   (up to parameter names, which two embedding paths may spell differently). *)
Theorem C02_order_free : forall E f pkg sub ms ms' es es' r,
  Permutation ms ms' -> Permutation es es' -> body_set E f pkg sub ms es = Ok r ->
  exists r', body_set E f pkg sub ms' es' = Ok r' /\ map view r = map view r'.
Proof. exact order_free. Qed.
Print Assumptions C02_order_free.

(* ... where the method set of a declared interface is such a body *)
Theorem C02_method_set_is_body : forall E f p n d,
  lookup_decl E p n = Some (EIface d) ->
  method_set E (S f) p n = body_set E f p (inst_sub [] (d_tparams d) (self_args (d_tparams d))) (d_methods d) (d_embeds d).
Proof. exact method_set_unfold. Qed.
Print Assumptions C02_method_set_is_body.

(* Grouping: the mocks rendered into output file f are exactly the (interface, configs entry)
   requests routed to f, in request order - so there is exactly one mock type per request, the
   number of mocks of interface I in f is the number of I's entries routed to f, no request
   appears twice, and the struct names of one file are pairwise distinct whenever the
   configuration gives distinct (file, struct name) pairs. *)
Theorem C02_once : forall reqs f,
  mock_types (file_reqs (group reqs) f) = map q_struct (filter (routed f) reqs) /\
  (forall I, length (filter (fun q => seqb I (q_iface q)) (file_reqs (group reqs) f))
             = length (filter (fun q => seqb I (q_iface q) && routed f q) reqs)) /\
  (NoDup (map (fun q => (q_iface q, q_entry q)) reqs) ->
     NoDup (map (fun q => (q_iface q, q_entry q)) (file_reqs (group reqs) f))) /\
  (NoDup (map (fun q => (q_file q, q_struct q)) reqs) -> NoDup (mock_types (file_reqs (group reqs) f))).
Proof. exact once. Qed.
Print Assumptions C02_once.

Theorem C02_once_routed : forall reqs q f, In q (file_reqs (group reqs) f) <-> In q reqs /\ q_file q = f.
Proof. exact once_routed. Qed.
Print Assumptions C02_once_routed.

(* the collection has one entry per output file, each holding exactly its requests *)
Theorem C02_group_files : forall reqs,
  NoDup (map fst (group reqs)) /\
  forall f l, In (f, l) (group reqs) -> l = filter (routed f) reqs /\ l <> [].
Proof. exact group_files. Qed.
Print Assumptions C02_group_files.

(* Type parameters of the mock type (the model describes the tree WITH
   fixes/c02-blank-type-params.diff): a blank parameter `_` of the interface gets a generated
   name; as printed (Exported) the names of all parameters of the mock are pairwise distinct
   and the name of a blank one differs from every declared name - provided the declared
   names are distinct as printed and are offered unchanged (C14_typeparams' guards: [kept]).
   So `Mock[...]` can be declared and instantiated: [_ any, _ any], [K comparable, _ any, V any]. *)
Theorem C02_tparams_distinct : forall cx r tps ns,
  mock_tparams cx r tps = Some ns -> Forall2 kept tps ns ->
  NoDup (map (cx_exported cx) (declared_names tps)) ->
  NoDup (map (cx_exported cx) ns) /\ length ns = length tps /\
  Forall2 (fun x n => blank (lname (fst x)) = true -> ~ In (cx_exported cx n) (map (cx_exported cx) (declared_names tps))) tps ns.
Proof. exact tparams_distinct. Qed.
Print Assumptions C02_tparams_distinct.

(* the search for a name never runs out of fuel when Exported keeps n, n1, n2, ... apart *)
Theorem C02_tparams_total : forall cx,
  (forall base i j, cx_exported cx (cand 1 base i) = cx_exported cx (cand 1 base j) -> i = j) ->
  forall tps taken st, exists ns, tp_names cx taken st tps = Some ns.
Proof. exact tparams_total. Qed.
Print Assumptions C02_tparams_total.

(* ------------------------------------------------------------------------------------ *)
(* Where the property does NOT hold of the faithful model: known finding                 *)
(* C02-own-api-collision (the guard api_free of C02_no_drop_no_dup is false)             *)
(* ------------------------------------------------------------------------------------ *)
Definition sg0 (rs : list (label * ty)) : sig := {| sparams := []; svariadic := false; sresults := rs |}.
Definition cx0 : ctx := {| cx_names := [(B "example.com/m/src", B "src"); (B "io", B "io")]; cx_lower := []; cx_upper := []; cx_exported := exported_ascii |}.
Definition id_of (ms : list meth) : idata :=
  match f_ifaces (gen_file cx0 (B "example.com/m/src") true [mock_iface (B "I") (B "MockI") [] ms]) with id :: _ => id | [] =>
    {| i_name := []; i_struct := []; i_tparams := []; i_methods := []; i_tpscope := [] |} end.
Definition mk (n : str) : meth := {| m_pkg := B "example.com/m/src"; m_name := n; m_sig := sg0 [] |}.

(* testify: an interface with a method EXPECT *)
Theorem C02_own_api_refuted_testify :
  api_free Testify false [B "EXPECT"; B "Get"] = false /\
  ~ NoDup (declared_methods Testify false (id_of [mk (B "EXPECT"); mk (B "Get")])).
Proof. split; [reflexivity|]. intros H. apply NoDup_nodupb in H. vm_compute in H. discriminate. Qed.
Print Assumptions C02_own_api_refuted_testify.

(* matryer: methods Get and GetCalls; with-resets: methods X and ResetX (ResetXCalls twice) *)
Theorem C02_own_api_refuted_matryer :
  api_free Matryer false [B "Get"; B "GetCalls"] = false /\
  ~ NoDup (declared_methods Matryer false (id_of [mk (B "Get"); mk (B "GetCalls")])) /\
  api_free Matryer false [B "ResetX"; B "X"] = true /\ api_free Matryer true [B "ResetX"; B "X"] = false /\
  ~ NoDup (declared_methods Matryer true (id_of [mk (B "ResetX"); mk (B "X")])).
Proof.
  split; [reflexivity|]. split; [|split; [reflexivity|split; [reflexivity|]]];
    intros H; apply NoDup_nodupb in H; vm_compute in H; discriminate.
Qed.
Print Assumptions C02_own_api_refuted_matryer.

(* ------------------------------------------------------------------------------------ *)
(* Non-vacuity: a chain of depth 5 through an alias, a diamond through io.ReadCloser and     *)
(* io.WriteCloser, an instantiated generic, a variadic []byte element                      *)
(* ------------------------------------------------------------------------------------ *)
Definition src : str := B "example.com/m/src".
Definition io : str := B "io".
Definition bytes_ty : ty := TSlice (TBasic (B "byte")).
Definition nerr : list (label * ty) := [(named_label (B "n"), TBasic (B "int")); (named_label (B "err"), TNamed None (B "error") [])].
Definition rw (n : str) : str * sig := (n, {| sparams := [(named_label (B "p"), bytes_ty)]; svariadic := false; sresults := nerr |}).
Definition ifc (tps : list str) (ms : list (str * sig)) (es : list ty) : entry := EIface {| d_tparams := tps; d_methods := ms; d_embeds := es |}.
Definition N (p n : str) : ty := TNamed (Some p) n [].
Definition E0 : denv :=
  [ (io, B "Reader", ifc [] [rw (B "Read")] []);
    (io, B "Writer", ifc [] [rw (B "Write")] []);
    (io, B "Closer", ifc [] [(B "Close", sg0 [(nolabel, TNamed None (B "error") [])])] []);
    (io, B "ReadCloser", ifc [] [] [N io (B "Reader"); N io (B "Closer")]);
    (io, B "WriteCloser", ifc [] [] [N io (B "Writer"); N io (B "Closer")]);
    (src, B "RC", EAlias (N io (B "ReadCloser")));
    (src, B "Gen", ifc [B "T"] [(B "Produce", sg0 [(nolabel, TParam (B "T"))])] []);
    (src, B "Mid", ifc [] [(B "Put", {| sparams := [(named_label (B "xs"), TSlice bytes_ty)]; svariadic := true; sresults := [] |})]
                        [TAlias (Some src) (B "RC") []; N io (B "WriteCloser")]);
    (src, B "Top", ifc [B "K"] [(B "low", sg0 [])] [N src (B "Mid"); TNamed (Some src) (B "Gen") [(nolabel, TMap (TParam (B "K")) (TBasic (B "int")))]]) ].

Definition ms0 : list meth := Eval vm_compute in match method_set E0 5 src (B "Top") with Ok ms => ms | Err _ => [] end.
Definition id0 : idata :=
  match f_ifaces (gen_file cx0 src true [mock_iface (B "Top") (B "MockTop") [(named_label (B "K"), TNamed None (B "comparable") [])] ms0]) with
  | id :: _ => id | [] => id_of [] end.

Example C02_example :
  wf_env E0 = true /\
  method_set E0 5 src (B "Top") = Ok ms0 /\
  map m_name ms0 = [B "Close"; B "Produce"; B "Put"; B "Read"; B "Write"; B "low"] /\
  (* the mock (testify and matryer alike) declares these six methods, Put with "..." on its only parameter *)
  map mm_name (iface_methods Matryer id0) = map m_name ms0 /\
  map (fun x => map a_ell (mm_params x)) (iface_methods Testify id0) = [[]; []; [true]; [false]; [false]; []] /\
  api_free Matryer true (map m_name ms0) = true /\
  (* Top[string] has the same methods with K := string *)
  method_set_of E0 5 src (TNamed (Some src) (B "Top") [(nolabel, TBasic (B "string"))])
    = Ok (map (subst_meth [(B "K", TBasic (B "string"))]) ms0) /\
  (* embedding depth 5: Top -> Mid -> RC (alias) -> io.ReadCloser -> io.Reader *)
  method_set E0 5 src (B "Top") <> Err EOutOfFuel /\ method_set E0 4 src (B "Top") = Err EOutOfFuel.
Proof. repeat split; try (vm_compute; reflexivity). vm_compute. discriminate. Qed.

(* blank type parameters: [K comparable, _ any, V any], [_ any, _ any], in-package [_ Num] *)
Definition r00 : registry := {| dst := src; inpkg := true; imports := [] |}.
Definition anyc : ty := TAlias None (B "any") [].
Example C02_tparams_example :
  printed_tparams cx0 r00 [(named_label (B "K"), TNamed None (B "comparable") []); (named_label (B "_"), anyc); (named_label (B "V"), anyc)]
    = Some [B "K"; B "V1"; B "V"] /\
  printed_tparams cx0 r00 [(named_label (B "_"), anyc); (named_label (B "_"), anyc)] = Some [B "V"; B "V1"] /\
  printed_tparams cx0 r00 [(named_label (B "_"), TNamed (Some src) (B "Num") [])] = Some [B "Num1"] /\
  printed_tparams cx0 r00 [(named_label (B "_"), anyc); (named_label (B "T"), anyc)] = Some [B "V"; B "T"].
Proof. vm_compute. repeat split. Qed.
