(* C03 - Testify-style mocks route arguments, callbacks and return values faithfully.
   Only statements; proofs are in Mock/Testify_proofs.v.  Model: Mock/Testify.v
     - an explicit small semantics of testify mock.Mock v1.10.0 (On, Called/findExpectedCall,
       Arguments.Diff with mock.Anything, Repeatability, RunFn, fail, AssertExpectations, Get/Error),
     - on top, the code mockery's testify template generates for ONE method signature [s : msig]
       (parameter names, arity, variadic, results, which are `error` / nillable) and one
       `unroll-variadic` setting [unroll]: Called(...) argument packing in its three modes, return
       extraction (whole-function / per-result providers, error / nillable / plain), the expecter,
       typed Run / Return / RunAndReturn, constructor + cleanup.
   All theorems quantify over ALL signatures [s] (wf_sig: distinct parameter names, interface types
   nillable, the variadic parameter a slice), ALL well-typed argument values, BOTH modes and ALL
   mock states [mk] (hence all histories of registrations and calls that lead to them), Go's
   "implements" relation [impl] and the behaviour of user functions [beh].
   Specification refined: "the first live matching expectation decides" = [decides]. *)
From Coq Require Import ZArith.
From Mk Require Import Lib.Bytes Mock.Testify Mock.Testify_proofs.

(* findExpectedCall computes exactly the first live matching expectation *)
Theorem C03_first_live_match_decides : forall l m args i e,
  decides l m args i e <-> fst (find_expected m args l 0 false) = Some (i, e).
Proof.
  intros l m args i e. split.
  - intros D. exact (find_expected_decides l m args i e D 0 false).
  - intros H. destruct (find_expected_sound l m args 0 false i e H) as (j & -> & D). exact D.
Qed.
Print Assumptions C03_first_live_match_decides.

(* EXPECT().M(xs...) registers exactly xs after all earlier expectations; it decides every call
   whose arguments match xs position by position unless an earlier live expectation matches *)
Theorem C03_registered_decides : forall unroll s mk xs ss mk' args,
  expect unroll s mk xs ss = Ok mk' ->
  let e := fold_left (apply_setup unroll s) ss (new_expectation (ms_name s) xs) in
  no_live_match (m_exp mk) (ms_name s) args ->
  pad_match xs args = true -> e_live e = true ->
  decides (m_exp mk') (ms_name s) args (length (m_exp mk)) e.
Proof. exact registered_decides. Qed.
Print Assumptions C03_registered_decides.

(* Expectation arguments passed by spreading a caller-owned []interface{} are captured by value at
   registration: later writes to that slice change no expectation (the generated expecter always
   hands mock.On a fresh slice), and a history with buffers is the history with the snapshots. *)
Theorem C03_registration_copies_arguments : forall impl beh im mk bs mi s fixed b ss muts mk1,
  nth_error (im_methods im) mi = Some s ->
  expect (im_unroll im) s mk (fixed ++ getbuf b bs) ss = Ok mk1 ->
  Forall is_bufop muts ->
  fst (wrun impl beh im mk bs (WExpectBuf mi fixed b ss :: muts)) = mk1 /\
  exists e, m_exp mk1 = m_exp mk ++ [e] /\ e_args e = fixed ++ getbuf b bs /\ e_method e = ms_name s.
Proof. exact registration_copies. Qed.
Print Assumptions C03_registration_copies_arguments.

Theorem C03_buffers_resolve_to_snapshots : forall impl beh im ws mk bs,
  wrun impl beh im mk bs ws = run_ops impl beh im mk (resolve bs ws).
Proof. exact wrun_resolve. Qed.
Print Assumptions C03_buffers_resolve_to_snapshots.

(* Calling the method with matching arguments returns exactly the values given to Return. *)
Theorem C03_return : forall impl beh unroll s mk fixed elems i e,
  wf_sig s -> wt_call impl s fixed elems ->
  decides (m_exp mk) (ms_name s) (packed unroll s fixed elems) i e ->
  e_run e = None -> ms_results s <> [] ->
  Forall2 (typed_ret impl) (ms_results s) (e_ret e) ->
  call_method impl beh unroll s mk (typed_args s fixed elems) =
  (after_call mk i e (ms_name s) (packed unroll s fixed elems), (Returned (e_ret e), [])).
Proof. exact return_exact. Qed.
Print Assumptions C03_return.

(* Run / RunAndReturn callbacks and providers receive exactly the arguments of the call, position
   by position, variadic arguments included, nil included - whatever was configured ... *)
Theorem C03_run_args : forall impl beh unroll s mk fixed elems i e,
  wf_sig s -> wt_call impl s fixed elems -> run_ok unroll s e ->
  decides (m_exp mk) (ms_name s) (packed unroll s fixed elems) i e ->
  Forall (cb_args_are (typed_args s fixed elems))
         (snd (snd (call_method impl beh unroll s mk (typed_args s fixed elems)))).
Proof. exact callbacks_get_call_args. Qed.
Print Assumptions C03_run_args.

(* ... and the Run callback runs exactly once per call (Run + Return, or Run alone on a method
   without results). *)
Theorem C03_run_once : forall impl beh unroll s mk fixed elems i e f,
  wf_sig s -> wt_call impl s fixed elems ->
  decides (m_exp mk) (ms_name s) (packed unroll s fixed elems) i e ->
  e_run e = Some (RunTyped s unroll f) ->
  (ms_results s = [] \/ Forall2 (typed_ret impl) (ms_results s) (e_ret e)) ->
  call_method impl beh unroll s mk (typed_args s fixed elems) =
  (after_call mk i e (ms_name s) (packed unroll s fixed elems),
   (Returned (match ms_results s with [] => [] | _ => e_ret e end), [EvCallback f (typed_args s fixed elems)])).
Proof. exact run_exactly_once. Qed.
Print Assumptions C03_run_once.

(* The wrapper that Run installs, applied to what testify's Called received, rebuilds the typed
   arguments in all three packing modes (the nil guard and the rolled trailing slice are the
   content of fix c03-typed-run-wrapper). *)
Theorem C03_run_wrapper_inverts_packing : forall impl unroll s fixed elems,
  wf_sig s -> wt_call impl s fixed elems ->
  run_typed impl s unroll (packed unroll s fixed elems) = Ok (typed_args s fixed elems).
Proof. exact run_typed_pack. Qed.
Print Assumptions C03_run_wrapper_inverts_packing.

(* RunAndReturn: the call returns exactly what the function returns; the function is called
   once, with the call's arguments. *)
Theorem C03_run_and_return : forall impl beh unroll s mk fixed elems i e f,
  wf_sig s -> wt_call impl s fixed elems ->
  decides (m_exp mk) (ms_name s) (packed unroll s fixed elems) i e ->
  ms_results s <> [] -> e_run e = None -> e_ret e = [VTok (whole_ty s) f] ->
  let vs := typed_args s fixed elems in
  length (beh f vs) = length (ms_results s) ->
  call_method impl beh unroll s mk vs =
  (after_call mk i e (ms_name s) (packed unroll s fixed elems), (Returned (beh f vs), [EvCallback f vs])).
Proof. exact run_and_return. Qed.
Print Assumptions C03_run_and_return.

Theorem C03_run_and_return_void : forall impl beh unroll s mk fixed elems i e f,
  wf_sig s -> wt_call impl s fixed elems ->
  decides (m_exp mk) (ms_name s) (packed unroll s fixed elems) i e ->
  ms_results s = [] -> e_run e = Some (RunTyped s unroll f) ->
  call_method impl beh unroll s mk (typed_args s fixed elems) =
  (after_call mk i e (ms_name s) (packed unroll s fixed elems),
   (Returned [], [EvCallback f (typed_args s fixed elems)])).
Proof. exact run_and_return_void. Qed.
Print Assumptions C03_run_and_return_void.

Theorem C03_run_and_return_installs : forall unroll s e0 f,
  let e := apply_setup unroll s e0 (SetRunAndReturn f) in
  (ms_results s = [] -> e_run e = Some (RunTyped s unroll f) /\ e_ret e = e_ret e0) /\
  (ms_results s <> [] -> e_ret e = [VTok (whole_ty s) f] /\ e_run e = e_run e0).
Proof. exact run_and_return_setup. Qed.
Print Assumptions C03_run_and_return_installs.

(* Return with function providers, nil and plain values mixed per result: every result is the
   provider's result / nil / the value; providers are called once each, in result order, with
   the call's arguments (whatever the parameters are called: ok, returnFunc, ret, ...). *)
Theorem C03_function_providers : forall impl beh unroll s mk fixed elems i e items,
  wf_sig s -> wt_call impl s fixed elems -> run_ok unroll s e ->
  decides (m_exp mk) (ms_name s) (packed unroll s fixed elems) i e ->
  ms_results s <> [] ->
  e_ret e = map2 (item_value s) (ms_results s) items ->
  Forall2 (item_ok impl) (ms_results s) items ->
  let vs := typed_args s fixed elems in
  call_method impl beh unroll s mk vs =
  (after_call mk i e (ms_name s) (packed unroll s fixed elems),
   (Returned (map2 (item_result beh vs) (ms_results s) items),
    run_events s e vs ++ flat_map (item_events vs) items)).
Proof. exact decided_call. Qed.
Print Assumptions C03_function_providers.

(* whole-function providers for methods with >= 2 results, also on variadic methods in both
   modes (fix c03-variadic-multi-return); the slice-typed form stays accepted when not unrolled *)
Theorem C03_whole_function_provider : forall impl beh unroll s vs f rest,
  wf_sig s -> length vs = length (ms_params s) -> 2 <= length (ms_results s) ->
  extract impl beh unroll s vs (VTok (whole_ty s) f :: rest) = (Returned (beh f vs), [EvCallback f vs]).
Proof. exact whole_provider. Qed.
Print Assumptions C03_whole_function_provider.

Theorem C03_legacy_slice_provider : forall impl beh s vs f rest,
  wf_sig s -> length vs = length (ms_params s) -> 2 <= length (ms_results s) -> ms_variadic s = true ->
  extract impl beh false s vs (VTok (legacy_ty s) f :: rest) = (Returned (beh f vs), [EvCallback f vs]).
Proof. exact legacy_provider. Qed.
Print Assumptions C03_legacy_slice_provider.

(* the template's locals never capture a parameter *)
Theorem C03_no_capture : forall s prov vs, wf_sig s -> length vs = length (ms_params s) ->
  provider_args s prov vs = Some vs.
Proof. exact provider_args_ok. Qed.
Print Assumptions C03_no_capture.

(* A call with no matching expectation fails the test instead of returning. *)
Theorem C03_unmatched_fails : forall impl beh unroll s mk fixed elems,
  wf_sig s -> wt_call impl s fixed elems -> m_test mk = true ->
  no_live_match (m_exp mk) (ms_name s) (packed unroll s fixed elems) ->
  exists k, call_method impl beh unroll s mk (typed_args s fixed elems) = (mk, (TestFailed, [EvErrorf k; EvFailNow])).
Proof. exact unmatched_fails. Qed.
Print Assumptions C03_unmatched_fails.

(* A method with results and no return values configured panics naming the method. *)
Theorem C03_no_return_panics : forall impl beh unroll s mk fixed elems i e,
  wf_sig s -> wt_call impl s fixed elems -> run_ok unroll s e ->
  decides (m_exp mk) (ms_name s) (packed unroll s fixed elems) i e ->
  ms_results s <> [] -> e_ret e = [] ->
  fst (snd (call_method impl beh unroll s mk (typed_args s fixed elems))) = Panicked (PNoReturn (ms_name s)).
Proof. exact no_return_panics. Qed.
Print Assumptions C03_no_return_panics.

(* nil may be returned for any nillable result type (and for error results): no panic, the
   result is the nil of its type; other values are returned as they are *)
Theorem C03_nil_nillable : forall impl beh unroll s mk fixed elems i e,
  wf_sig s -> wt_call impl s fixed elems -> run_ok unroll s e ->
  decides (m_exp mk) (ms_name s) (packed unroll s fixed elems) i e ->
  ms_results s <> [] ->
  Forall2 (fun T v => plain v /\ ret_ok impl T v) (ms_results s) (e_ret e) ->
  fst (snd (call_method impl beh unroll s mk (typed_args s fixed elems))) =
  Returned (map2 unbox_ret (ms_results s) (e_ret e)).
Proof. exact nil_nillable. Qed.
Print Assumptions C03_nil_nillable.

(* Unmet expectations are reported when the cleanup registered by the constructor runs; when all
   are met nothing is reported. *)
Theorem C03_cleanup_reports : forall impl beh im mk,
  m_test mk = true ->
  let evs := snd (snd (step impl beh im mk OCleanup)) in
  ((exists e, In e (m_exp mk) /\ unmet mk e = true) ->
     evs = repeat EvLogf (length (filter (unmet mk) (m_exp mk))) ++ [EvErrorf EAssert] /\
     length (filter (unmet mk) (m_exp mk)) <> 0) /\
  ((forall e, In e (m_exp mk) -> unmet mk e = false) -> evs = []).
Proof. exact cleanup_reports. Qed.
Print Assumptions C03_cleanup_reports.

(* History level: whatever registrations, calls of OTHER methods and cleanups follow, an
   expectation registered through EXPECT() whose method is never called is reported. *)
Theorem C03_cleanup_reports_never_called : forall impl beh im mk0 mi s xs ss mk1 ops,
  nth_error (im_methods im) mi = Some s -> m_test mk0 = true ->
  (forall c, In c (m_calls mk0) -> c_method c <> ms_name s) ->
  fst (step impl beh im mk0 (OExpect mi xs ss)) = mk1 -> mk1 <> mk0 ->
  Forall (calls_other im (ms_name s)) ops ->
  In (EvErrorf EAssert) (snd (snd (step impl beh im (fst (run_ops impl beh im mk1 ops)) OCleanup))).
Proof. exact cleanup_reports_never_called. Qed.
Print Assumptions C03_cleanup_reports_never_called.

(* The report does not depend on t having failed already (a non-fatal t.Errorf of the test, an
   unexpected call, another mock's cleanup on the same t): erasing every such event from a history
   changes no observation of this mock. *)
Theorem C03_cleanup_reports_on_failed_t : forall impl beh im ws mk bs,
  wrun impl beh im mk bs ws = wrun impl beh im mk bs (filter not_terrorf ws).
Proof. exact failed_t_is_invisible. Qed.
Print Assumptions C03_cleanup_reports_on_failed_t.

Theorem C03_unmet_spec : forall mk e,
  unmet mk e = true <-> (e_total e = 0 /\ was_called mk e = false) \/ (0 < e_rep e)%Z.
Proof. exact unmet_spec. Qed.
Print Assumptions C03_unmet_spec.

(* unroll-variadic true: testify sees the variadic arguments element-wise; false/unset: one
   trailing slice, absent when empty.  Matching is position-wise (shorter side padded). *)
Theorem C03_variadic_modes : forall unroll s fixed elems,
  wf_sig s -> length fixed = nfixed s ->
  pack unroll s (typed_args s fixed elems) = Some (packed unroll s fixed elems) /\
  (ms_variadic s = true -> packed true s fixed elems = fixed ++ elems) /\
  (ms_variadic s = true -> elems <> [] ->
     packed false s fixed elems = fixed ++ [VSlice (dyn_of_sty (last_ty s)) elems]) /\
  (ms_variadic s = true -> packed false s fixed [] = fixed) /\
  (ms_variadic s = false -> packed unroll s fixed elems = fixed).
Proof.
  intros unroll s fixed elems W L. split; [exact (pack_typed unroll s fixed elems W L)|].
  unfold packed. repeat split; intros V; rewrite V; try reflexivity.
  intros NE. destruct elems; [congruence | reflexivity].
Qed.
Print Assumptions C03_variadic_modes.

Theorem C03_matching_is_positionwise : forall exps acts,
  (diff exps acts = 0 <-> pad_match exps acts = true) /\
  (length exps = length acts ->
   (pad_match exps acts = true <-> Forall2 (fun e a => posmatch e a = true) exps acts)).
Proof. intros exps acts. split; [apply diff_zero | apply pad_match_same_length]. Qed.
Print Assumptions C03_matching_is_positionwise.

(* Once/Times consumption order, repeated calls: the next k identical calls are answered by the
   expectations in registration order, each as often as its Times says (0 = always), then fail. *)
Theorem C03_times_order : forall mk m args k,
  fst (calls_k mk m args k) = schedule (m_exp mk) m args k.
Proof. exact times_order. Qed.
Print Assumptions C03_times_order.

Theorem C03_called_is_one_schedule_step : forall mk m args,
  m_exp (fst (called mk m args)) = snd (step_l (m_exp mk) m args) /\
  match fst (step_l (m_exp mk) m args) with
  | Some i => exists e, nth_error (m_exp mk) i = Some e /\ snd (called mk m args) = CRet e
  | None => forall e, snd (called mk m args) <> CRet e
  end.
Proof. exact called_step_l. Qed.
Print Assumptions C03_called_is_one_schedule_step.

(* ---------------------------------------------------------------------------------------------
   Non-vacuity and examples (all by computation). *)
Definition xT (id : nat) (iface empty err nillable : bool) : sty :=
  {| s_id := id; s_iface := iface; s_empty := empty; s_fn := false; s_error := err; s_nillable := nillable |}.
Definition x_int := xT 4 false false false false.
Definition x_bool := xT 5 false false false false.
Definition x_any := xT 3 true true false true.
Definition x_err := xT 2 true false true true.
Definition x_anys := xT 6 false false false true.      (* []any *)
Definition x_impl (_ : nat) (d : dty) : bool := dty_eqb d (DId 1 false).
Definition x_beh (f : nat) (vs : list value) : list value := [VTok (DId 4 false) (f + length vs); VNil].

(* Ok(a int, ok bool, rest ...any) (int, error) *)
Definition x_sig : msig :=
  {| ms_name := B "Ok";
     ms_params := [ {| p_name := B "a"; p_ty := x_int |}; {| p_name := B "ok"; p_ty := x_bool |};
                    {| p_name := B "rest"; p_ty := x_anys |} ];
     ms_variadic := true; ms_elem := x_any; ms_results := [x_int; x_err]; ms_visible := [] |}.
Definition x_im (unroll : bool) : iface_model := {| im_methods := [x_sig]; im_unroll := unroll |}.
Definition vi (k : nat) := VTok (DId 4 false) k.
Definition vb (k : nat) := VTok (DId 5 false) k.
Definition vt (k : nat) := VTok (DId 1 false) k.
Definition vsl (l : list value) := VSlice (DId 6 false) l.

Example C03_example_wf : wf_sig x_sig.
Proof.
  constructor; simpl.
  - repeat constructor; simpl; intros H; repeat (destruct H as [H|H]; [discriminate H|]); exact H.
  - repeat constructor; simpl; auto; discriminate.
  - repeat constructor; simpl; auto; discriminate.
  - intros _. split; [discriminate | reflexivity].
Qed.

Example C03_example_wt : wt_call x_impl x_sig [vi 7; vb 0] [VNil; vt 3].
Proof.
  constructor; simpl.
  - repeat constructor; right; reflexivity.
  - constructor; [left; split; reflexivity | constructor; [right; reflexivity | constructor]].
Qed.

(* a history in both modes: RunAndReturn on a variadic method with two results and a bool
   parameter named ok; Once; then the call is refused; cleanup is silent *)
Example C03_example_history :
  snd (run_ops x_impl x_beh (x_im false) (new_mock true)
    [ OExpect 0 [vi 7; VAnything; vsl [VNil; vt 3]] [SetRunAndReturn 9; SetTimes 1];
      OCall 0 [vi 7; vb 0; vsl [VNil; vt 3]];
      OCall 0 [vi 7; vb 0; vsl [VNil; vt 3]];
      OCleanup ])
  = [ (Done, []);
      (Returned [vi 12; VNil], [EvCallback 9 [vi 7; vb 0; vsl [VNil; vt 3]]]);
      (TestFailed, [EvErrorf EOverCalled; EvFailNow]);
      (Done, []) ]
  /\
  snd (run_ops x_impl x_beh (x_im true) (new_mock true)
    [ OExpect 0 [vi 7; vb 0; VNil; VAnything] [SetRun 1; SetReturn [vi 1; VNil]];
      OCall 0 [vi 7; vb 0; vsl [VNil; vt 3]];
      OCall 0 [vi 7; vb 0; vsl [vt 2; vt 3]];
      OExpect 0 [vi 8] [];
      OCleanup ])
  = [ (Done, []);
      (Returned [vi 1; VNil], [EvCallback 1 [vi 7; vb 0; vsl [VNil; vt 3]]]);
      (TestFailed, [EvErrorf EClosest; EvFailNow]);
      (Done, []);
      (Done, [EvLogf; EvErrorf EAssert]) ].
Proof. split; vm_compute; reflexivity. Qed.

(* the template's own names: the locals are returnFunc and ok1 here, so the parameter ok is not
   captured; with the unallocated names `returnFunc, ok` of the unfixed template it was *)
Example C03_example_locals :
  rf_local x_sig = B "returnFunc" /\ ok_local x_sig = B "ok1" /\
  provider_args x_sig (vi 0) [vi 7; vb 0; vsl []] = Some [vi 7; vb 0; vsl []] /\
  provider_args_with (B "returnFunc") (B "ok") x_sig (vi 0) [vi 7; vb 0; vsl []] = Some [vi 7; VNil; vsl []].
Proof. vm_compute. repeat split. Qed.

(* Once, Times(2), unlimited, in registration order; a dead (Times(-1)) one is skipped *)
Definition x_exp (rep : Z) (tag : nat) : expectation :=
  {| e_method := B "Ok"; e_args := [VAnything; VAnything]; e_ret := [vi tag; VNil]; e_run := None;
     e_rep := rep; e_total := 0 |}.
Example C03_example_schedule :
  schedule [x_exp (-1) 0; x_exp 1 1; x_exp 2 2; x_exp 0 3; x_exp 1 4] (B "Ok") [vi 7; vb 0] 6
  = [Some 1; Some 2; Some 2; Some 3; Some 3; Some 3].
Proof. vm_compute. reflexivity. Qed.

(* a table-driven test reusing ONE []interface{} buffer: both registrations keep their own values *)
Example C03_example_buffer_reuse :
  snd (wrun x_impl x_beh (x_im true) (new_mock true) []
    [ WSetBuf 1 [vt 1]; WExpectBuf 0 [vi 7; vb 0] 1 [SetReturn [vi 1; VNil]];
      WSetBuf 1 [vt 2]; WExpectBuf 0 [vi 7; vb 0] 1 [SetReturn [vi 2; VNil]];
      WMutate 1 0 (vt 3);
      WOp (OCall 0 [vi 7; vb 0; vsl [vt 1]]); WOp (OCall 0 [vi 7; vb 0; vsl [vt 2]]);
      WOp (OCall 0 [vi 7; vb 0; vsl [vt 3]]) ])
  = [ (Done, []); (Done, []); (Returned [vi 1; VNil], []); (Returned [vi 2; VNil], []);
      (TestFailed, [EvErrorf EClosest; EvFailNow]) ].
Proof. vm_compute. reflexivity. Qed.
