(* C01 - Generated mock files are valid Go in their destination package.
   Only statements; proofs are in Gen/Skeleton_proofs.v.  Model: Gen/Skeleton.v.

   FULL STATEMENT (not provable here, see below):
     for every loadable package, every selected method-set interface, both built-in templates, every documented
     template-data option, every formatter and every placement, each written file parses and type-checks
     together with its destination package.

   What is proved (PARTIAL): the part of "type-checks" that is mockery's own business - NAME BINDING.
   [testify_skel] / [matryer_skel] are models of the two templates at the level of scoping skeletons (which
   identifier is declared where, which identifier is used where, which imports the file has); [wf_file] is the
   executable scoping judgement of Go restricted to skeletons (unique import paths and qualifiers, no unused
   import, unique top-level names distinct from qualifiers and from the rest of the package, no redeclaration
   in a block, every use resolves to the intended object and is not captured by an inner declaration).
   C01_wf_partial_* : for ALL interface data, options and placements that satisfy the guards (= the complement
   of the known-finding classes) and the obligations of the data model, the model file is well scoped.
   MISSING: that a well-scoped file is accepted by the Go type checker (expression typing inside the template
   bodies: assertion syntax, assignability, instantiation) is not formalised - the Go type checker is the
   oracle on the generated corpus; and the templates are modelled by hand: the harness ties the models to
   /repo on every run (extracted skeleton = model skeleton, wf_file extracted = true re-checked by the kernel).
   The template data (names after collision resolution, rendered types, imports) is an INPUT here; that it is
   faithful is C14's claim, that allocated names are fresh is C15's (used below through Gen/Alloc.v). *)
From Coq Require Import Permutation.
From Coq Require Strings.String.
From Mk Require Import Lib.Bytes Lib.Fresh Gen.Alloc Gen.Alloc_proofs Gen.Skeleton Gen.Skeleton_proofs.
Local Delimit Scope string_scope with string.

(* ------------------------------------------------------------------ main theorems *)
(* guards: tf_guards = no parameter named like an identifier of the template in the same function (g_tf_params,
   g_tf_results), no type / qualifier / type parameter named like a variable of the template or a generated
   type (g_tf_types, g_tf_tps, g_tf_mock_import), no lower-case type parameter (g_tparams, C14), no parameter
   capturing a type name of its own signature (g_capture, C14).
   data_ok / d_tf / file_names_ok: obligations of the data model and of the configuration (distinct resolved
   names, known types, only needed imports, no clash among generated top-level names): checked on every case. *)
Theorem C01_wf_partial_testify : forall (o : topts) (f : fdata),
  data_ok f (skel_ctx (testify_skel o f)) = true ->
  d_tf f = true ->
  tf_guards f = true ->
  file_names_ok (testify_skel o f) = true ->
  wf_file (testify_skel o f) = true.
Proof. exact testify_wf. Qed.
Print Assumptions C01_wf_partial_testify.

Theorem C01_wf_partial_matryer : forall (o : mopts) (f : fdata),
  data_ok f (skel_ctx (matryer_skel o f)) = true ->
  d_mt o f (skel_ctx (matryer_skel o f)) = true ->
  mt_guards o f = true ->
  file_names_ok (matryer_skel o f) = true ->
  wf_file (matryer_skel o f) = true.
Proof. exact matryer_wf. Qed.
Print Assumptions C01_wf_partial_matryer.

(* C01_self, first half: an in-package registry never holds the destination package itself, whatever is added *)
Theorem C01_self_inpkg : forall d ops,
  ~ In d (map ipath (imports (fst (final (init d true) ops)))).
Proof. exact self_never_imported. Qed.
Print Assumptions C01_self_inpkg.

(* C01_self, second half (soundness of the judgement for bare type names): in a well-scoped file every bare type
   name that is not a type parameter is a type of the DESTINATION package or predeclared, and is not an import
   qualifier - so out of package no type of the source package is mentioned without its qualifier, and a
   qualifier is always an import of the file. *)
Theorem C01_bare_types_resolve : forall c env n,
  resolve_ok c env KPkgType n = true ->
  (In n (c_types c) \/ In n universe_types) /\ ~ In n (c_quals c).
Proof. exact bare_types_resolve. Qed.
Print Assumptions C01_bare_types_resolve.
Theorem C01_qualifiers_resolve : forall c env q,
  resolve_ok c env KQual q = true -> In q (c_quals c) /\ lookup q env = None.
Proof. exact qualifiers_resolve. Qed.
Print Assumptions C01_qualifiers_resolve.

(* the names the testify template allocates through Scope.AllocateName (Gen/Alloc.v) are pairwise distinct and
   distinct from every parameter the method scope sees *)
Theorem C01_allocated_fresh : forall m,
  forallb (fun n => smem n (mvisible m)) (pnames (mps m)) = true ->
  nodupb [ret_name m; rf_name m; ok_name m] = true /\
  disjointb [ret_name m; rf_name m; ok_name m] (pnames (mps m)) = true.
Proof. exact tf_alloc_fresh. Qed.
Print Assumptions C01_allocated_fresh.

(* Frame property of the model: a run that writes several files (into one destination package or not) is modelled file
   by file - the skeleton, in particular the import set and the qualifiers, of file number k is a function of that file's
   own template data and of nothing else; there is no state shared between the registries of two files.  The harness
   checks that the implementation has this property: for every file of a several-files-per-package run the data model
   must be what the run that writes this file alone produces, and every file is checked against its own model. *)
Theorem C01_files_independent : forall (ot : topts) (om : mopts) (fs : list fdata) k f,
  nth_error fs k = Some f ->
  nth_error (map (testify_skel ot) fs) k = Some (testify_skel ot f) /\
  nth_error (map (matryer_skel om) fs) k = Some (matryer_skel om f).
Proof. intros ot om fs k f H. split; now apply map_nth_error. Qed.
Print Assumptions C01_files_independent.

(* template/var.go, varName: the name generated for an unnamed parameter of ANY named type is never on the
   reserved list - never `mock` / `callInfo` (identifiers of the templates themselves), a keyword or a basic type
   name.  The harness compares [reserved_names] with the list parsed from var.go and [gen_name] with the names
   the data model reports, on every run. *)
Theorem C01_generated_names_avoid_reserved : forall tn, ~ In (gen_name tn) reserved_names.
Proof. intros tn. apply smem_false, gen_name_not_reserved. Qed.
Print Assumptions C01_generated_names_avoid_reserved.
Example C01_generated_names_examples :
  map gen_name [B "Mock"; B "CallInfo"; B "String"; B "Func"; B "Ret"; B "error"; B "hidden"; B "Client"]
  = [B "mockParam"; B "callInfoParam"; B "stringParam"; B "funcParam"; B "ret"; B "err"; B "hiddenMoqParam"; B "client"].
Proof. vm_compute. reflexivity. Qed.

(* ------------------------------------------------------------------ witnesses: every guard is needed *)
Definition ty (n : String.string) : tyitems := [IUse KType (B n)].
Definition par (n e : String.string) (t : tyitems) : pdata :=
  {| pn := B n; pexp := B e; pty := t; pvariadic := false; pany := false; pnil := false |}.
Definition res (n : String.string) (t : tyitems) : rdata := {| rn := B n; rty := t; riserr := false; rnil := false |}.
Definition meth (n : String.string) (ps : list pdata) (rs : list rdata) : mdata :=
  {| mn := B n; mps := ps; mrs := rs; mvisible := map pn ps ++ map rn rs |}.
Definition one (tps : list tpdata) (s : String.string) (ms : list mdata) (imps : list (str * str)) (inp : bool)
           (others : list str) : fdata :=
  {| f_inpkg := inp; f_srcname := B "src"; f_imports := imps;
     f_ifaces := [{| ifname := B "W"; ifstruct := B s; iftps := tps; ifms := ms |}];
     f_other_types := B "W" :: others; f_other_vals := [] |}.
Arguments ty _%string. Arguments par _%string _%string _. Arguments res _%string _. Arguments meth _%string _ _.
Arguments one _ _%string _ _ _ _.
Definition first_method (f : fdata) : mdata :=
  match f_ifaces f with
  | i :: _ => match ifms i with m :: _ => m | [] => {| mn := []; mps := []; mrs := []; mvisible := [] |} end
  | [] => {| mn := []; mps := []; mrs := []; mvisible := [] |}
  end.
Definition TO := {| unroll := false |}.
Definition MO := {| skip_ensure := false; stub_impl := false; with_resets := false |}.

(* everything but the named guard holds, and the file is ill scoped *)
Definition tf_witness (f : fdata) : bool :=
  data_ok f (skel_ctx (testify_skel TO f)) && d_tf f && file_names_ok (testify_skel TO f)
  && negb (tf_guards f) && negb (wf_file (testify_skel TO f)).
Definition mt_witness (o : mopts) (f : fdata) : bool :=
  data_ok f (skel_ctx (matryer_skel o f)) && d_mt o f (skel_ctx (matryer_skel o f)) && file_names_ok (matryer_skel o f)
  && negb (mt_guards o f) && negb (wf_file (matryer_skel o f)).

(* testify: Get(r0 int) int  ->  "r0 redeclared in this block" (DESIGN section 6 row 17) *)
Theorem C01_tf_params_refuted : exists f,
  g_tf_params (first_method f) = false /\ tf_witness f = true.
Proof.
  exists (one [] "MockW" [meth "Get" [par "r0" "R0" (ty "int")] [res "n" (ty "int")]] [] true []).
  split; vm_compute; reflexivity.
Qed.
Print Assumptions C01_tf_params_refuted.

(* testify: Do() (_c int)  ->  "_c redeclared" in Return *)
Theorem C01_tf_results_refuted : exists f,
  g_tf_results (first_method f) = false /\ tf_witness f = true.
Proof.
  exists (one [] "MockW" [meth "Do" [] [res "_c" (ty "int")]] [] true []).
  split; vm_compute; reflexivity.
Qed.
Print Assumptions C01_tf_results_refuted.

(* testify: a local type named args (Get(x args, y int)) is captured by the Run wrapper's `args` *)
Theorem C01_tf_types_refuted : exists f, tf_witness f = true.
Proof.
  exists (one [] "MockW" [meth "Get" [par "x" "X" (ty "args"); par "y" "Y" (ty "int")] []] [] true [B "args"]).
  vm_compute; reflexivity.
Qed.
Print Assumptions C01_tf_types_refuted.

(* testify: the interface mentions a type of a package NAMED mock: the hard-coded import collides *)
Theorem C01_tf_mock_import_refuted : exists f, g_tf_mock_import f = false /\ tf_witness f = true.
Proof.
  exists (one [] "MockW" [meth "Get" [par "c" "C" [IUse KQual (B "mock"); IUse KType (B "int")]] []]
              [(B "example.com/m/ext5/mock", B "mock")] true []).
  split; vm_compute; reflexivity.
Qed.
Print Assumptions C01_tf_mock_import_refuted.

(* C14's classes, needed as guards here too: lower-case type parameter (row 18), parameter capturing a type of
   its own signature (row 17b) *)
Theorem C01_tparams_refuted : exists f, tf_witness f = true.
Proof.
  exists (one [{| tdecl := B "T"; torig := B "t"; tcon := [IUse KCon (B "any")]; tens := Some (ty "any") |}] "MockW"
              [meth "Get" [par "x" "X" (ty "t")] []] [] true []).
  vm_compute; reflexivity.
Qed.
Print Assumptions C01_tparams_refuted.
Theorem C01_capture_refuted : exists f, tf_witness f = true.
Proof.
  exists (one [] "MockW" [meth "Get" [par "string" "String" (ty "int"); par "xs" "Xs" (ty "string")] [res "n" (ty "int")]] [] true []).
  vm_compute; reflexivity.
Qed.
Print Assumptions C01_capture_refuted.

(* matryer (row 19): Get(mock int) -> "mock redeclared"; Get(a int, A string) -> duplicate field A;
   [K comparable] -> ensure line MoqW[comparable]; out-of-package ensure line without the import;
   a package named mock is captured by the receiver *)
Theorem C01_mt_params_refuted : exists f, mt_witness MO f = true.
Proof.
  exists (one [] "MoqW" [meth "Get" [par "mock" "Mock" (ty "int")] []] [] true []).
  vm_compute; reflexivity.
Qed.
Print Assumptions C01_mt_params_refuted.
Theorem C01_mt_fields_refuted : exists f,
  g_mt_fields (first_method f) = false /\
  wf_file (matryer_skel MO f) = false.
Proof.
  exists (one [] "MoqW" [meth "Get" [par "a" "A" (ty "int"); par "A" "A" (ty "string")] []] [] true []).
  split; vm_compute; reflexivity.
Qed.
Print Assumptions C01_mt_fields_refuted.
Theorem C01_mt_ensure_generic_refuted : exists f,
  data_ok f (skel_ctx (matryer_skel MO f)) = true /\ file_names_ok (matryer_skel MO f) = true /\
  forallb (fun i => forallb (g_mt_ensure_arg (iftps i)) (iftps i)) (f_ifaces f) = false /\
  wf_file (matryer_skel MO f) = false.
Proof.
  exists (one [{| tdecl := B "K"; torig := B "K"; tcon := [IUse KCon (B "comparable")]; tens := Some (ty "comparable") |}]
              "MoqW" [meth "Get" [par "k" "K" (ty "K")] []] [] true []).
  repeat split; vm_compute; reflexivity.
Qed.
Print Assumptions C01_mt_ensure_generic_refuted.
Theorem C01_mt_ensure_import_refuted : exists f, g_mt_ensure_import f = false /\ mt_witness MO f = true.
Proof.
  exists (one [] "MoqW" [meth "Ping" [] [res "err" (ty "error")]] [] false []).
  split; vm_compute; reflexivity.
Qed.
Print Assumptions C01_mt_ensure_import_refuted.
Theorem C01_mt_types_refuted : exists f, mt_witness {| skip_ensure := true; stub_impl := false; with_resets := false |} f = true.
Proof.
  exists (one [] "MoqW" [meth "Get" [par "c" "C" [IUse KQual (B "mock"); IUse KType (B "int")]] []]
              [(B "example.com/m/ext5/mock", B "mock")] true []).
  vm_compute; reflexivity.
Qed.
Print Assumptions C01_mt_types_refuted.

(* regression lemma for fixes/c01-matryer-fmt: with the fmt import the unchanged template added, no matryer
   file is well scoped (the import is never used) *)
Definition matryer_skel_with_fmt (o : mopts) (f : fdata) : skeleton :=
  {| s_imports := imports_of (matryer_reg_with_fmt f);
     s_other_types := f_other_types f; s_other_vals := f_other_vals f; s_tops := s_tops (matryer_skel o f) |}.
Theorem C01_fmt_import_unused : exists f,
  wf_file (matryer_skel MO f) = true /\ wf_file (matryer_skel_with_fmt MO f) = false.
Proof.
  exists (one [] "MoqW" [meth "Get" [par "path" "Path" (ty "string")] [res "err" (ty "error")]] [] true []).
  split; vm_compute; reflexivity.
Qed.
Print Assumptions C01_fmt_import_unused.

(* ------------------------------------------------------------------ non-vacuity *)
(* a generic interface with a variadic method, a foreign type, parameters named like harmless template locals
   (run, args, ret) and like the allocated names (ok, returnFunc): all hypotheses hold, for every option *)
Definition demo : fdata :=
  one [{| tdecl := B "T"; torig := B "T"; tcon := [IUse KCon (B "any")]; tens := Some (ty "any") |}] "MockW"
      [meth "Get" [par "ok" "Ok" (ty "T"); par "ret" "Ret" [IUse KQual (B "http"); IUse KType (B "string")];
                   {| pn := B "args"; pexp := B "Args"; pty := ty "int"; pvariadic := true; pany := false; pnil := true |}]
            [res "returnFunc" (ty "T"); res "err" (ty "error")];
       meth "Close" [] []]
      [(B "net/http", B "http")] true [].
Example C01_guards_satisfiable_testify :
  forallb (fun o => data_ok demo (skel_ctx (testify_skel o demo)) && d_tf demo && tf_guards demo
                    && file_names_ok (testify_skel o demo) && wf_file (testify_skel o demo))
          [{| unroll := true |}; {| unroll := false |}] = true.
Proof. vm_compute. reflexivity. Qed.
Example C01_guards_satisfiable_matryer :
  forallb (fun o => data_ok demo (skel_ctx (matryer_skel o demo)) && d_mt o demo (skel_ctx (matryer_skel o demo))
                    && mt_guards o demo && file_names_ok (matryer_skel o demo) && wf_file (matryer_skel o demo))
          [{| skip_ensure := false; stub_impl := false; with_resets := false |};
           {| skip_ensure := true; stub_impl := true; with_resets := true |}] = true.
Proof. vm_compute. reflexivity. Qed.
