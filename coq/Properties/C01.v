(* C01 - placeholder while the proofs are being written *)
From Mk Require Import Lib.Bytes Gen.Alloc Gen.Skeleton.
Example C01_placeholder : wf_file {| s_imports := []; s_other_types := []; s_other_vals := []; s_tops := [] |} = true.
Proof. reflexivity. Qed.
Print Assumptions C01_placeholder.
