(* C04 - Matryer-style mocks forward calls and record them faithfully.
   Only statements; proofs are in Mock/Matryer_proofs.v.  Model: Mock/Matryer.v
   (state = per method (user function option, list of records); [step fuel d st op] gives the new
   state, the observable outcome and the list of events: record appends, clears, user-function
   invocations and outcomes of nested operations; [trace]/[final] run whole histories).
   User functions are SCRIPTS: while running they may read <M>Calls(), call methods of the
   mock (the one being served included) and call the reset methods, and go on depending on the
   outcomes.  A mock that keeps lock<M> while <M>Func runs cannot behave like this model: the
   nested operation never returns (observable `deadlock` of the driver).
   The specification side is "a list of argument tuples per method": [tuples m evs] = the argument
   tuples of the ERecord events of m; [eff d m] = what one event does to m's records;
   [last_func] = the function most recently stored in <M>Func.
   Fuel: [callf] is total by explicit fuel; a nested call made with no fuel left gives OOutOfFuel,
   which propagates to the top (Go would overflow the stack on unbounded recursion); the statements
   below are for arbitrary fuel [S f] and [C04_forward_once_no_nested_call] shows that functions
   which do not call into the mock never run out of fuel. *)
From Mk Require Import Lib.Bytes Mock.Matryer Mock.Matryer_proofs.

(* After ANY history [pre] from ANY state: if the function last stored in <M>Func is g, a call of M
   appends the record, THEN invokes g - once: the activation's events start with exactly
   [ERecord m vals; EInvoke m vals] and everything after that is what g's own script does -
   with exactly the call's arguments, and the call's outcome is the outcome of g's script. *)
Theorem C04_forward_once : forall fuel f d st0 pre m a s vals g,
  find_method (methods d) m = Some s -> pack s a = Some vals ->
  last_func d m (func_of st0 m) pre = Some g ->
  let st := final fuel d st0 pre in
  step (S f) d st (Call m a) =
  run_script (nstep (callf f d) d) (g vals) (upd st m (Some g, log_of st m ++ [mkrec s vals])) [ERecord m vals; EInvoke m vals].
Proof. exact forward_once. Qed.
Print Assumptions C04_forward_once.

(* ... in particular, for a function that just returns (or panics): exactly its results, exactly one invocation. *)
Theorem C04_forward_once_plain : forall fuel f d st0 pre m a s vals g r,
  find_method (methods d) m = Some s -> pack s a = Some vals ->
  last_func d m (func_of st0 m) pre = Some g -> g vals = SRet r ->
  let st := final fuel d st0 pre in
  step (S f) d st (Call m a) = (upd st m (Some g, log_of st m ++ [mkrec s vals]), of_ures r, [ERecord m vals; EInvoke m vals]).
Proof. exact forward_once_plain. Qed.
Print Assumptions C04_forward_once_plain.

(* The outcome of a call that reached its function is the function's own return value or panic
   (whatever it did to the mock meanwhile) ... *)
Theorem C04_returns_funcs_results : forall ns sc st evs,
  let x := snd (fst (run_script ns sc st evs)) in (exists rs, x = ORet rs) \/ x = OPanicUser \/ x = OOutOfFuel.
Proof. exact run_script_out. Qed.
Print Assumptions C04_returns_funcs_results.

(* ... and a function that reads Calls() / resets but never calls a method always returns, with
   exactly one user-function invocation in the whole step (any fuel >= 1). *)
Theorem C04_forward_once_no_nested_call : forall f d st m a s vals g,
  find_method (methods d) m = Some s -> pack s a = Some vals -> func_of st m = Some g ->
  no_ncall (g vals) ->
  let r := step (S f) d st (Call m a) in
  ((exists rs, snd (fst r) = ORet rs) \/ snd (fst r) = OPanicUser) /\ count_invokes (snd r) = 1.
Proof. exact call_no_ncall. Qed.
Print Assumptions C04_forward_once_no_nested_call.

(* No other operation runs user code; a call whose <M>Func is nil runs none either. *)
Theorem C04_no_other_invocation : forall fuel d st o,
  let evs := snd (step fuel d st o) in
  match o with
  | Call m a => func_of st m = None -> count_invokes evs = 0
  | _ => count_invokes evs = 0
  end.
Proof. exact no_other_invocation. Qed.
Print Assumptions C04_no_other_invocation.

(* Re-entrancy: a user function that reads <M>Calls() of the method it is serving gets the records
   so far WITH the record of the running call as last element, and the call goes on with the
   rest of the function. *)
Theorem C04_nested_calls_sees_running_call : forall f d st m a s vals g k,
  find_method (methods d) m = Some s -> pack s a = Some vals -> func_of st m = Some g ->
  g vals = SDo (NCalls m) k ->
  let st' := upd st m (Some g, log_of st m ++ [mkrec s vals]) in
  let seen := ORecords (log_of st m ++ [mkrec s vals]) in
  step (S f) d st (Call m a) =
  run_script (nstep (callf f d) d) (k seen) st' [ERecord m vals; EInvoke m vals; ENested (NCalls m) seen].
Proof. exact nested_calls_sees_running. Qed.
Print Assumptions C04_nested_calls_sees_running_call.

(* Nested reads and resets are the same operations as the top-level ones (so every theorem about
   them applies inside a running function), and every operation - nested calls of any depth
   included - moves the logs exactly as its events say and never touches a function. *)
Theorem C04_nested_ops_same : forall call fuel d st,
  (forall m, nstep call d st (NResetM m) = step fuel d st (ResetM m)) /\
  nstep call d st NResetAll = step fuel d st ResetAll /\
  (forall m, nstep call d st (NCalls m) = step fuel d st (Calls m)).
Proof. exact nested_reset_same. Qed.
Print Assumptions C04_nested_ops_same.

Theorem C04_events_sound : forall fuel d st m a m0,
  let r := callf fuel d st m a in
  log_of (fst (fst r)) m0 = fold_left (eff d m0) (snd r) (log_of st m0) /\ func_of (fst (fst r)) m0 = func_of st m0.
Proof. intros fuel d st m a m0. apply callf_sound. Qed.
Print Assumptions C04_events_sound.

(* <M>Calls() = one record per recorded call of M (top-level or nested), in call order, since the
   last clear of M's log (refinement to the tuple list; induction over the history) ... *)
Theorem C04_log_order : forall fuel d st ops m s e1 e2,
  find_method (methods d) m = Some s ->
  all_events (trace fuel d st ops) = e1 ++ EClear m :: e2 ->
  forallb (fun e => negb (clears m e)) e2 = true ->
  snd (fst (step fuel d (final fuel d st ops) (Calls m))) = ORecords (map (mkrec s) (tuples m e2)).
Proof. exact calls_after_clear. Qed.
Print Assumptions C04_log_order.

(* ... and from a fresh mock for all histories in which M's log is never cleared. *)
Theorem C04_log_order_fresh : forall fuel d ops m s,
  find_method (methods d) m = Some s ->
  forallb (fun e => negb (clears m e)) (all_events (trace fuel d init ops)) = true ->
  snd (fst (step fuel d (final fuel d init ops) (Calls m))) = ORecords (map (mkrec s) (tuples m (all_events (trace fuel d init ops)))) /\
  length (log_of (final fuel d init ops) m) = length (tuples m (all_events (trace fuel d init ops))).
Proof. exact calls_no_clear. Qed.
Print Assumptions C04_log_order_fresh.

(* The general form: after any history the records of every method are the fold of the events. *)
Theorem C04_log_refines_events : forall fuel d st ops m0,
  log_of (final fuel d st ops) m0 = fold_left (eff d m0) (all_events (trace fuel d st ops)) (log_of st m0).
Proof. exact final_log. Qed.
Print Assumptions C04_log_refines_events.

(* Which calls are recorded: all but those that panicked on the nil check; the record event is the
   first event of the call. *)
Theorem C04_recorded_iff : forall f d st m a s vals,
  find_method (methods d) m = Some s -> pack s a = Some vals ->
  let evs := snd (step (S f) d st (Call m a)) in
  match func_of st m, stub_impl (mopts d) with
  | None, false => evs = []
  | _, _ => exists rest, evs = ERecord m vals :: rest
  end.
Proof. exact recorded_iff. Qed.
Print Assumptions C04_recorded_iff.

(* Reading the calls changes nothing. *)
Theorem C04_calls_pure : forall fuel d st m s,
  find_method (methods d) m = Some s -> step fuel d st (Calls m) = (st, ORecords (log_of st m), []).
Proof. exact calls_pure. Qed.
Print Assumptions C04_calls_pure.

(* The fields of a record are the exported parameter names, in parameter order, holding the
   arguments in the same order; a variadic parameter is one field holding the packed slice
   (nil when no variadic argument was passed) or the slice that was spread. *)
Theorem C04_fields_in_param_order : forall s a vals,
  pack s a = Some vals ->
  map fst (mkrec s vals) = map exported (mparams s) /\ map snd (mkrec s vals) = vals /\
  length (mkrec s vals) = length (mparams s).
Proof. exact fields_in_param_order. Qed.
Print Assumptions C04_fields_in_param_order.

Theorem C04_variadic_field : forall s a vals,
  mvariadic s = true -> pack s a = Some vals ->
  exists v, packv (var a) = Some v /\ vals = fixed a ++ [v] /\ S (length (fixed a)) = length (mparams s).
Proof. exact pack_variadic. Qed.
Print Assumptions C04_variadic_field.

(* <M>Func nil (after any history) and stub-impl off: the call panics with the message naming
   <M>Func; nothing is recorded, nothing is invoked, nothing changes. *)
Theorem C04_nil_panics_names_func : forall fuel f d st0 pre m a s vals,
  find_method (methods d) m = Some s -> pack s a = Some vals ->
  last_func d m (func_of st0 m) pre = None -> stub_impl (mopts d) = false ->
  let st := final fuel d st0 pre in
  step (S f) d st (Call m a) = (st, OPanicNil (nil_msg d m), []) /\
  exists pre' post', nil_msg d m = pre' ++ (m ++ B "Func") ++ post' /\
                     pre' = struct_name d ++ B "." /\
                     post' = B ": method is nil but " ++ iface_name d ++ B "." ++ m ++ B " was just called".
Proof.
  intros fuel f d st0 pre m a s vals Hm Hp Hl Hs st. split.
  - now apply (nil_panics_history fuel f d st0 pre m a s vals).
  - apply nil_msg_names_func.
Qed.
Print Assumptions C04_nil_panics_names_func.

(* stub-impl on: the call is still recorded, zero values are returned, nothing is invoked. *)
Theorem C04_stub_records_and_zero : forall fuel f d st0 pre m a s vals,
  find_method (methods d) m = Some s -> pack s a = Some vals ->
  last_func d m (func_of st0 m) pre = None -> stub_impl (mopts d) = true ->
  let st := final fuel d st0 pre in
  step (S f) d st (Call m a) = (upd st m (None, log_of st m ++ [mkrec s vals]), ORet (repeat vzero (mnres s)), [ERecord m vals]).
Proof. exact stub_history. Qed.
Print Assumptions C04_stub_records_and_zero.

(* Reset<M>Calls empties exactly M's records; ResetCalls empties the records of all methods;
   neither touches any function nor any other method's records; without with-resets the
   methods do not exist. *)
Theorem C04_reset_isolated : forall fuel d st,
  with_resets (mopts d) = true ->
  (forall m s, find_method (methods d) m = Some s ->
     let '(st', x, ev) := step fuel d st (ResetM m) in
     x = OUnit /\ ev = [EClear m] /\ log_of st' m = [] /\
     (forall m', func_of st' m' = func_of st m') /\
     (forall m', m' <> m -> log_of st' m' = log_of st m')) /\
  (let '(st', x, ev) := step fuel d st ResetAll in
     x = OUnit /\ ev = map (fun sg => EClear (mname sg)) (methods d) /\
     (forall m, In m (map mname (methods d)) -> log_of st' m = []) /\
     (forall m, func_of st' m = func_of st m) /\
     (forall m, ~ In m (map mname (methods d)) -> log_of st' m = log_of st m)).
Proof.
  intros fuel d st Hw. split.
  - intros m s Hm. now apply (reset_one_isolated fuel d st m s).
  - now apply reset_all_isolated.
Qed.
Print Assumptions C04_reset_isolated.

Theorem C04_no_resets_without_option : forall fuel d st o,
  with_resets (mopts d) = false -> (o = ResetAll \/ exists m, o = ResetM m) ->
  step fuel d st o = (st, ONoMethod, []).
Proof. exact no_resets_without_option. Qed.
Print Assumptions C04_no_resets_without_option.

(* Rejected operations (unknown method, ill-typed call, nil panic) leave the whole mock unchanged. *)
Theorem C04_rejected_no_change : forall fuel d st o,
  let '(st', x, _) := step fuel d st o in
  (x = ONoMethod \/ x = OIllTyped \/ (exists msg, x = OPanicNil msg)) -> st' = st.
Proof. exact rejected_no_change. Qed.
Print Assumptions C04_rejected_no_change.

(* Kept <M>Calls() results are values: whatever history follows - calls, nested calls, resets, function
   changes, other kept results - looking again at a result kept under [id] gives exactly the records
   <M>Calls() returned when it was kept (which were the log of that moment).  The real mock hands out its
   internal slice; a reset that keeps the backing array (calls = calls[:0]) breaks this. *)
Theorem C04_snapshots_are_values : forall fuel d ts id m l rest,
  snd (fst (tstep fuel d ts (TKeep id m))) = ORecords l ->
  forallb (fun t => negb (keeps_id id t)) rest = true ->
  let ts1 := fst (fst (tstep fuel d ts (TKeep id m))) in
  tstep fuel d (tfinal fuel d ts1 rest) (TRecheck id) = (tfinal fuel d ts1 rest, ORecords l, []).
Proof. exact snapshots_are_values. Qed.
Print Assumptions C04_snapshots_are_values.

Theorem C04_keep_returns_log : forall fuel d ts id m s,
  find_method (methods d) m = Some s ->
  tstep fuel d ts (TKeep id m) =
  ((fst ts, fun i => if Nat.eqb i id then Some (log_of (fst ts) m) else snd ts i), ORecords (log_of (fst ts) m), []).
Proof. exact keep_returns_log. Qed.
Print Assumptions C04_keep_returns_log.

(* Non-vacuity: Do(id, s, xs...) served by a function that reads DoCalls() while running (sees its
   own record), calls A (nil function: panic, recovered by the function) and resets A. *)
Example C04_example :
  let d := {| struct_name := B "MoqI"; iface_name := B "I";
              methods := [ {| mname := B "A"; mparams := []; mvariadic := false; mnres := 0 |};
                           {| mname := B "Do"; mparams := [B "id"; B "s"; B "xs"]; mvariadic := true; mnres := 2 |} ];
              mopts := {| skip_ensure := false; stub_impl := false; with_resets := true |} |} in
  let f : ufunc := fun _ => SDo (NCalls (B "Do")) (fun _ => SDo (NCall (B "A") {| fixed := []; var := NoVar |})
                            (fun _ => SDo (NResetM (B "A")) (fun _ => SRet (URet [VTok 7; VTok 0])))) in
  map (fun e => (snd (fst e), filter (fun x => match x with ENested _ _ => true | _ => false end) (snd e)))
    (trace 3 d init [ SetFunc (B "Do") (Some f);
                      Call (B "Do") {| fixed := [VTok 1; VTok 2]; var := Elems [] |};
                      Call (B "Do") {| fixed := [VTok 3; VTok 4]; var := Elems [5; 6] |};
                      Calls (B "Do"); ResetAll; Calls (B "Do") ])
  = let r1 := [(B "ID", VTok 1); (B "S", VTok 2); (B "Xs", VNilSlice)] in
    let r2 := [(B "ID", VTok 3); (B "S", VTok 4); (B "Xs", VSlice [5; 6])] in
    let npanic := ENested (NCall (B "A") {| fixed := []; var := NoVar |}) (OPanicNil (B "MoqI.AFunc: method is nil but I.A was just called")) in
    [ (OUnit, []);
      (ORet [VTok 7; VTok 0], [ENested (NCalls (B "Do")) (ORecords [r1]); npanic; ENested (NResetM (B "A")) OUnit]);
      (ORet [VTok 7; VTok 0], [ENested (NCalls (B "Do")) (ORecords [r1; r2]); npanic; ENested (NResetM (B "A")) OUnit]);
      (ORecords [r1; r2], []); (OUnit, []); (ORecords [], []) ].
Proof. vm_compute. reflexivity. Qed.
