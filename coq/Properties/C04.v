(* C04 - Matryer-style mocks forward calls and record them faithfully.
   Only statements; proofs are in Mock/Matryer_proofs.v.  Model: Mock/Matryer.v
   (state = per method (user function option, list of records); [step d st op] gives the new
   state, the observable outcome and the list of user-function invocations; [trace]/[final]
   run whole histories).  The specification side is "a list of argument tuples per method":
   [tuples d m tr] = the packed argument tuples of the calls of m in the trace tr that got
   past the nil check, in call order; [last_func] = the function most recently stored in
   <M>Func; [resets d m o] = o is a reset method that exists (with-resets) and covers m. *)
From Mk Require Import Lib.Bytes Mock.Matryer Mock.Matryer_proofs.

(* After ANY history [pre] from ANY state: if the function last stored in <M>Func is g, a call
   of M invokes g exactly once ([EInvoke m vals] is the whole event list of the step), with exactly
   the call's arguments (vals = the packed call-site arguments), returns exactly g's results
   (or propagates its panic), and the record was appended before forwarding. *)
Theorem C04_forward_once : forall d st0 pre m a s vals g,
  find_method (methods d) m = Some s -> pack s a = Some vals ->
  last_func d m (func_of st0 m) pre = Some g ->
  let st := final d st0 pre in
  step d st (Call m a) = (upd st m (Some g, log_of st m ++ [mkrec s vals]), of_ures (g vals), [EInvoke m vals]).
Proof. exact forward_once. Qed.
Print Assumptions C04_forward_once.

(* No other operation invokes any user function; a call invokes at most the one of its own method. *)
Theorem C04_no_other_invocation : forall d st o,
  let '(_, x, ev) := step d st o in
  match o with
  | Call m a =>
    match func_of st m, find_method (methods d) m with
    | Some g, Some s => match pack s a with
                        | Some vals => ev = [EInvoke m vals] /\ x = of_ures (g vals)
                        | None => ev = [] /\ x = OIllTyped
                        end
    | _, _ => ev = []
    end
  | _ => ev = []
  end.
Proof. exact events_shape. Qed.
Print Assumptions C04_no_other_invocation.

(* <M>Calls() = one record per call of M since the last reset covering M, in call order
   (refinement to the tuple list), for all histories around the reset ... *)
Theorem C04_log_order : forall d st pre r post m s,
  find_method (methods d) m = Some s -> resets d m r = true ->
  forallb (fun o => negb (resets d m o)) post = true ->
  snd (fst (step d (final d st (pre ++ r :: post)) (Calls m)))
  = ORecords (map (mkrec s) (tuples d m (trace d (final d st (pre ++ [r])) post))).
Proof. exact calls_after_reset. Qed.
Print Assumptions C04_log_order.

(* ... and from a fresh mock for all histories without a reset covering M. *)
Theorem C04_log_order_fresh : forall d ops m s,
  find_method (methods d) m = Some s ->
  forallb (fun o => negb (resets d m o)) ops = true ->
  snd (fst (step d (final d init ops) (Calls m))) = ORecords (map (mkrec s) (tuples d m (trace d init ops)))
  /\ length (log_of (final d init ops) m) = length (tuples d m (trace d init ops)).
Proof. intros d ops m s Hm Hp. split; [now apply calls_no_reset | now apply (record_count d ops m s)]. Qed.
Print Assumptions C04_log_order_fresh.

(* Which calls are "recorded": all but those that panicked on the nil check. *)
Theorem C04_recorded_iff : forall d st m a s vals,
  find_method (methods d) m = Some s -> pack s a = Some vals ->
  let '(st', x, ev) := step d st (Call m a) in
  recorded d m (Call m a, x, ev) =
  match func_of st m, stub_impl (mopts d) with None, false => None | _, _ => Some vals end.
Proof. exact recorded_iff. Qed.
Print Assumptions C04_recorded_iff.

(* Reading the calls changes nothing. *)
Theorem C04_calls_pure : forall d st m s,
  find_method (methods d) m = Some s -> step d st (Calls m) = (st, ORecords (log_of st m), []).
Proof. exact calls_pure. Qed.
Print Assumptions C04_calls_pure.

(* The fields of a record are the exported parameter names, in parameter order, holding the
   arguments in the same order; a variadic parameter is one field holding the packed slice
   (nil when no variadic argument was passed) or the slice that was spread. *)
Theorem C04_fields_in_param_order : forall s a vals,
  pack s a = Some vals ->
  map fst (mkrec s vals) = map exported (mparams s) /\ map snd (mkrec s vals) = vals /\
  length (mkrec s vals) = length (mparams s).
Proof. exact fields_in_param_order. Qed.
Print Assumptions C04_fields_in_param_order.

Theorem C04_variadic_field : forall s a vals,
  mvariadic s = true -> pack s a = Some vals ->
  exists v, packv (var a) = Some v /\ vals = fixed a ++ [v] /\ S (length (fixed a)) = length (mparams s).
Proof. exact pack_variadic. Qed.
Print Assumptions C04_variadic_field.

(* <M>Func nil (after any history) and stub-impl off: the call panics with the message naming
   <M>Func; nothing is recorded, nothing is invoked, nothing changes. *)
Theorem C04_nil_panics_names_func : forall d st0 pre m a s vals,
  find_method (methods d) m = Some s -> pack s a = Some vals ->
  last_func d m (func_of st0 m) pre = None -> stub_impl (mopts d) = false ->
  let st := final d st0 pre in
  step d st (Call m a) = (st, OPanicNil (nil_msg d m), []) /\
  exists pre' post', nil_msg d m = pre' ++ (m ++ B "Func") ++ post' /\
                     pre' = struct_name d ++ B "." /\
                     post' = B ": method is nil but " ++ iface_name d ++ B "." ++ m ++ B " was just called".
Proof.
  intros d st0 pre m a s vals Hm Hp Hl Hs st. split.
  - now apply (nil_panics_history d st0 pre m a s vals).
  - apply nil_msg_names_func.
Qed.
Print Assumptions C04_nil_panics_names_func.

(* stub-impl on: the call is still recorded, zero values are returned, nothing is invoked. *)
Theorem C04_stub_records_and_zero : forall d st0 pre m a s vals,
  find_method (methods d) m = Some s -> pack s a = Some vals ->
  last_func d m (func_of st0 m) pre = None -> stub_impl (mopts d) = true ->
  let st := final d st0 pre in
  step d st (Call m a) = (upd st m (None, log_of st m ++ [mkrec s vals]), ORet (repeat vzero (mnres s)), []).
Proof. exact stub_history. Qed.
Print Assumptions C04_stub_records_and_zero.

(* Reset<M>Calls empties exactly M's records; ResetCalls empties the records of all methods;
   neither touches any function nor any other method's records; without with-resets the
   methods do not exist. *)
Theorem C04_reset_isolated : forall d st,
  with_resets (mopts d) = true ->
  (forall m s, find_method (methods d) m = Some s ->
     let '(st', x, ev) := step d st (ResetM m) in
     x = OUnit /\ ev = [] /\ log_of st' m = [] /\
     (forall m', func_of st' m' = func_of st m') /\
     (forall m', m' <> m -> log_of st' m' = log_of st m')) /\
  (let '(st', x, ev) := step d st ResetAll in
     x = OUnit /\ ev = [] /\
     (forall m, In m (map mname (methods d)) -> log_of st' m = []) /\
     (forall m, func_of st' m = func_of st m) /\
     (forall m, ~ In m (map mname (methods d)) -> log_of st' m = log_of st m)).
Proof.
  intros d st Hw. split.
  - intros m s Hm. now apply (reset_one_isolated d st m s).
  - now apply reset_all_isolated.
Qed.
Print Assumptions C04_reset_isolated.

Theorem C04_no_resets_without_option : forall d st o,
  with_resets (mopts d) = false -> (o = ResetAll \/ exists m, o = ResetM m) ->
  step d st o = (st, ONoMethod, []).
Proof. exact no_resets_without_option. Qed.
Print Assumptions C04_no_resets_without_option.

(* Rejected operations (unknown method, ill-typed call, nil panic) leave the whole mock unchanged. *)
Theorem C04_rejected_no_change : forall d st o,
  let '(st', x, _) := step d st o in
  (x = ONoMethod \/ x = OIllTyped \/ (exists msg, x = OPanicNil msg)) -> st' = st.
Proof. exact rejected_no_change. Qed.
Print Assumptions C04_rejected_no_change.

(* Non-vacuity: a two-method mock; B(s, n, xs...) recorded twice around a nil-func panic of A and a reset of A. *)
Example C04_example :
  let d := {| struct_name := B "MoqI"; iface_name := B "I";
              methods := [ {| mname := B "A"; mparams := []; mvariadic := false; mnres := 0 |};
                           {| mname := B "Do"; mparams := [B "id"; B "s"; B "xs"]; mvariadic := true; mnres := 2 |} ];
              mopts := {| skip_ensure := false; stub_impl := false; with_resets := true |} |} in
  let f : ufunc := fun _ => URet [VTok 7; VTok 0] in
  map (fun e => snd (fst e))
    (trace d init [ SetFunc (B "Do") (Some f);
                    Call (B "Do") {| fixed := [VTok 1; VTok 2]; var := Elems [] |};
                    Call (B "A") {| fixed := []; var := NoVar |};
                    Call (B "Do") {| fixed := [VTok 3; VTok 4]; var := Elems [5; 6] |};
                    ResetM (B "A");
                    Calls (B "Do"); ResetAll; Calls (B "Do") ])
  = [ OUnit; ORet [VTok 7; VTok 0];
      OPanicNil (B "MoqI.AFunc: method is nil but I.A was just called");
      ORet [VTok 7; VTok 0]; OUnit;
      ORecords [ [(B "ID", VTok 1); (B "S", VTok 2); (B "Xs", VNilSlice)];
                 [(B "ID", VTok 3); (B "S", VTok 4); (B "Xs", VSlice [5; 6])] ];
      OUnit; ORecords [] ].
Proof. vm_compute. reflexivity. Qed.
