(* C09 - Invalid or unsatisfiable input fails loudly: non-zero exit, never a crash.
   Only statements; proofs are in Cfg/Pipeline_proofs.v and Cfg/GoMod_proofs.v.
   Model: Cfg/Pipeline.v ([run w ord] = (exit class, final file system); [ord] is the
   iteration order of the output-file map), Cfg/GoMod.v (the go.mod reader).
   The model describes /repo with the repairs of fixes/ applied (in particular c09-*.diff and
   c08-file-level-config.diff: the settings of an output file are those of its first mock). *)
From Mk Require Import Lib.Bytes Cfg.Fs Cfg.GoMod Cfg.Pipeline Cfg.Pipeline_proofs Cfg.GoMod_proofs Cfg.Env Cfg.Env_proofs.

(* mockery never terminates by an unrecovered panic: for every world and every order.
   (The only panic site left in the model is srcPkg.GoFiles[0] in NewTemplateGenerator; it
   is unreachable because interfaces only come from packages that have Go files.) *)
Theorem C09_no_panic : forall w ord, fst (run w ord) <> Panic.
Proof. exact no_panic. Qed.
Print Assumptions C09_no_panic.

(* Exit status zero only if every configured mock was generated and written: every config
   entry of every selected interface has its file, with the complete generated content.
   [incl (out_keys w) ord]: the order argument really enumerates the map.
   Guard [no_alias]: distinct map keys denote distinct files (see the refutation below). *)
Theorem C09_zero_complete : forall w ord,
  no_alias w ->
  fst (run w ord) = Exit0 -> incl (out_keys w) ord ->
  forall p q, In (p, q) (selected_reqs w) ->
    snd (run w ord) (q_path q) = Some (File (w_content w (q_key q))).
Proof. exact zero_complete. Qed.
Print Assumptions C09_zero_complete.

(* Each class of invalid input gives a non-zero exit (and not a panic), alone or together
   with anything else in the world.  Classes that are detected while the files are being
   produced need the file to be visited and packages to be keyed by their path. *)
Theorem C09_each_class : forall w ord c,
  has_class w c ->
  (needs_visit c = true -> wf_world w /\ incl (out_keys w) ord) ->
  fst (run w ord) = ExitErr.
Proof. exact each_class. Qed.
Print Assumptions C09_each_class.

(* An invalid interface regex is "reached" exactly when the selection cannot be decided. *)
Theorem C09_bad_regex_undecided : forall p n, bad_regex_reached p n -> should_generate p n = None.
Proof. exact bad_regex_none. Qed.
Print Assumptions C09_bad_regex_undecided.

(* The go.mod reader returns the module path for every way of writing the directive:
   any blank / comment lines before it; spaces or tabs between keyword and path; the path
   bare or in double quotes; a trailing // comment; or the block form with blank and
   comment lines inside; followed by any remainder that the parser accepts and that has no
   second module directive. *)
Theorem C09_modpath : forall aux pre dir rest p,
  Forall blank_line pre -> directive p dir -> rest_ok aux rest ->
  Forall no_nl (pre ++ dir ++ rest) ->
  module_path aux (join_lines (pre ++ dir ++ rest)) = MOk p.
Proof. exact module_path_spec. Qed.
Print Assumptions C09_modpath.

(* The scan of the pinned tree panics on a tab and returns wrong paths for the quoted,
   commented and block forms (what fixes/c09-gomod-modfile.diff repairs). *)
Theorem C09_modpath_old_refuted :
  module_path_old (B "module" ++ [x09] ++ B "example.com/m") = OPanic /\
  module_path_old (B "module ""example.com/m""") = OOk (B """example.com/m""") /\
  module_path_old (B "module example.com/m // c") = OOk (B "example.com/m // c") /\
  module_path_old (B "module (" ++ [x0a; x09] ++ B "example.com/m" ++ [x0a] ++ B ")") = OOk (B "(").
Proof.
  split; [exact old_panics|]. split; [exact old_quoted_wrong|].
  split; [exact old_comment_wrong | exact old_block_wrong].
Qed.
Print Assumptions C09_modpath_old_refuted.

(* MOCKERY_<KEY> values: a value is taken for a boolean exactly when its lower-cased form is
   the word true or false, and then strconv.ParseBool of that form succeeds - the panic(err) of
   the environment callback is unreachable; for a boolean key any other value is refused by the
   decoder.  With case FOLDING in the test (strings.EqualFold) the panic is reachable. *)
Theorem C09_env_bool : forall v,
  classify v <> EPanic /\ env_bool_key v <> EnvCrash /\
  (forall b, classify v = EBool b -> parse_bool (lower v) = Some b) /\
  ((exists b, classify v = EBool b) <-> (lower v = B "true" \/ lower v = B "false")).
Proof.
  intros v. split; [apply classify_no_panic|]. split; [apply env_bool_key_no_crash|].
  split; [apply classify_bool | apply classify_bool_iff].
Qed.
Print Assumptions C09_env_bool.
Theorem C09_env_fold_refuted : exists v, classify_fold v = EPanic.
Proof. eexists. exact classify_fold_panics. Qed.
Print Assumptions C09_env_fold_refuted.

(* Non-vacuity of C09_modpath: the same four spellings, with a realistic remainder. *)
Example C09_modpath_example :
  let ok := fun _ : list (str * list str) => true in
  let rest := [x0a] ++ B "go 1.23" ++ [x0a] ++ B "require (" ++ [x0a; x09] ++ B "a.b/c v1.0.0 // indirect" ++ [x0a] ++ B ")" ++ [x0a] in
  module_path ok (B "module" ++ [x09] ++ B "example.com/m" ++ rest) = MOk (B "example.com/m") /\
  module_path ok (B "// hello" ++ [x0a] ++ B "module ""example.com/m""" ++ rest) = MOk (B "example.com/m") /\
  module_path ok (B "module example.com/m // c" ++ rest) = MOk (B "example.com/m") /\
  module_path ok (B "module (" ++ [x0a; x09] ++ B "example.com/m" ++ [x0a] ++ B ")" ++ rest) = MOk (B "example.com/m").
Proof. vm_compute. repeat split. Qed.

(* Non-vacuity of the run theorems: a world with one package, one interface, one file. *)
Definition ex_req : request :=
  {| q_iface := B "I"; q_tstatus := TOk; q_key := B "/m/a/mocks_test.go";
     q_path := [B "m"; B "a"; B "mocks_test.go"];
     q_pkgname := B "a"; q_template := B "testify";
     q_require_schema := true; q_schema_ok := true; q_force := false; q_formatter := FGoimports;
     q_prep_ok := true; q_data_ok := true; q_exec_ok := true |}.
Definition ex_cfg : pkgcfg := {| c_tstatus := TOk |}.
Definition ex_tinfo : str -> tinfo := fun _ => {| ti_kind := TBuiltin; ti_found := true; ti_parses := true |}.
Definition ex_pkg (listed : list str) : package :=
  {| p_path := B "example.com/m/a"; p_nfiles := 1; p_nerrors := 0;
     p_decls := [ {| d_name := B "I"; d_reqs := [ex_req] |} ];
     p_listed := listed; p_all := false; p_include := None; p_exclude := None; p_cfg := ex_cfg |}.
Definition ex_fs : fs := fun p =>
  if path_eqb p [] || path_eqb p [B "m"] || path_eqb p [B "m"; B "a"] then Some Dir
  else if path_eqb p [B "m"; B "go.mod"] then Some (File (B "module example.com/m"))
  else None.
Definition ex_world (listed : list str) : world :=
  {| w_cfg := CfgOk; w_roots := []; w_pkgs := [ex_pkg listed];
     w_tinfo := ex_tinfo; w_modaux := fun _ => true; w_fs := ex_fs; w_ro := fun _ => false;
     w_content := fun _ => B "generated"; w_valid_go := fun _ => true |}.

Example C09_example :
  fst (run (ex_world [B "I"]) [B "/m/a/mocks_test.go"]) = Exit0 /\
  snd (run (ex_world [B "I"]) [B "/m/a/mocks_test.go"]) [B "m"; B "a"; B "mocks_test.go"]
    = Some (File (B "generated")) /\
  fst (run (ex_world [B "I"; B "Typo"]) [B "/m/a/mocks_test.go"]) = ExitErr.
Proof. vm_compute. repeat split. Qed.

(* Without the guard the statement is false of the faithful model (and of mockery: known
   finding C09-output-path-alias): two interfaces of one package, one with the default
   absolute dir, one with the same directory spelled relative to the working directory,
   force-file-write true.  Two map keys, one file: exit status 0, and the file holds only
   the mocks of the key that came last. *)
Definition alias_req (name key : str) : request :=
  {| q_iface := name; q_tstatus := TOk; q_key := key; q_path := [B "m"; B "a"; B "mocks_test.go"];
     q_pkgname := B "a"; q_template := B "testify";
     q_require_schema := true; q_schema_ok := true; q_force := true; q_formatter := FGoimports;
     q_prep_ok := true; q_data_ok := true; q_exec_ok := true |}.
Definition alias_world : world :=
  {| w_cfg := CfgOk; w_roots := [];
     w_pkgs := [ {| p_path := B "example.com/m/a"; p_nfiles := 1; p_nerrors := 0;
                    p_decls := [ {| d_name := B "I"; d_reqs := [alias_req (B "I") (B "/m/a/mocks_test.go")] |};
                                 {| d_name := B "J"; d_reqs := [alias_req (B "J") (B "a/mocks_test.go")] |} ];
                    p_listed := [B "I"; B "J"]; p_all := false; p_include := None; p_exclude := None;
                    p_cfg := ex_cfg |} ];
     w_tinfo := ex_tinfo; w_modaux := fun _ => true; w_fs := ex_fs; w_ro := fun _ => false;
     w_content := fun k => B "mocks of " ++ k; w_valid_go := fun _ => true |}.

Theorem C09_zero_complete_refuted :
  exists w ord p q,
    fst (run w ord) = Exit0 /\ incl (out_keys w) ord /\ In (p, q) (selected_reqs w) /\
    snd (run w ord) (q_path q) <> Some (File (w_content w (q_key q))).
Proof.
  exists alias_world, [B "/m/a/mocks_test.go"; B "a/mocks_test.go"].
  eexists. exists (alias_req (B "I") (B "/m/a/mocks_test.go")).
  split; [vm_compute; reflexivity|]. split; [vm_compute; intros a H; exact H|].
  split; [vm_compute; left; reflexivity|]. vm_compute. discriminate.
Qed.
Print Assumptions C09_zero_complete_refuted.

(* The guards are satisfiable by a non-trivial world (the one of C09_example, which exits 0
   with its file written): keys and files correspond, package paths are distinct. *)
Example C09_guards_satisfiable : no_alias (ex_world [B "I"]) /\ wf_world (ex_world [B "I"]).
Proof.
  split.
  - intros p1 q1 p2 q2 H1 H2.
    change (selected_reqs (ex_world [B "I"])) with [(ex_pkg [B "I"], ex_req)] in H1, H2.
    destruct H1 as [H1|[]], H2 as [H2|[]]. injection H1 as <- <-. injection H2 as <- <-. tauto.
  - unfold wf_world. simpl. constructor; [intros [] | constructor].
Qed.
