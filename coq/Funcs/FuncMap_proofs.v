(* Proofs about quoteMeta, base/dir, expandEnv's fuel, and totality of the function table. *)
From Coq Require Import NArith ZArith.
From Mk Require Import Lib.Bytes Funcs.Utf8 Funcs.Strings Funcs.Strings_proofs Funcs.Arith Funcs.Arith_proofs Funcs.Case Funcs.Path Funcs.FuncMap.

(* --- quoteMeta: removing the inserted backslashes gives the input back, and every special
   byte of the output is escaped --- *)
Fixpoint unquote (s : str) : str :=
  match s with
  | [] => []
  | b :: t => if beqb b x5c then match t with [] => [b] | c :: t' => c :: unquote t' end else b :: unquote t
  end.

Lemma unquote_quote_meta s : unquote (quote_meta s) = s.
Proof.
  induction s as [|b s IH]; [reflexivity|].
  unfold quote_meta in *. cbn [flat_map]. destruct (special_byte b) eqn:Sp.
  - cbn [app unquote]. change (beqb x5c x5c) with true. cbn iota. f_equal. exact IH.
  - cbn [app unquote]. destruct (beqb b x5c) eqn:Bs.
    + apply beqb_eq in Bs. subst b. vm_compute in Sp. discriminate.
    + f_equal. exact IH.
Qed.

(* escaped s: every special byte is preceded by a backslash that is not itself escaped *)
Fixpoint escaped (s : str) : bool :=
  match s with
  | [] => true
  | b :: t => if beqb b x5c then match t with [] => false | _ :: t' => escaped t' end
              else negb (special_byte b) && escaped t
  end.
Lemma quote_meta_escaped s : escaped (quote_meta s) = true.
Proof.
  induction s as [|b s IH]; [reflexivity|].
  unfold quote_meta in *. cbn [flat_map]. destruct (special_byte b) eqn:Sp.
  - cbn [app escaped]. change (beqb x5c x5c) with true. cbn iota. exact IH.
  - cbn [app escaped]. destruct (beqb b x5c) eqn:Bs.
    + apply beqb_eq in Bs. subst b. vm_compute in Sp. discriminate.
    + rewrite Sp. exact IH.
Qed.

(* --- base --- *)
Lemma base_nonempty p : base p <> [].
Proof.
  unfold base. destruct p; [discriminate|].
  destruct (after_last_slash _); discriminate.
Qed.

Lemma take_no_slash l :
  ~ In slash ((fix take (l : str) : str :=
                 match l with [] => [] | b :: t => if beqb b slash then [] else b :: take t end) l).
Proof.
  induction l as [|b t IH]; [intros []|].
  destruct (beqb b slash) eqn:E; [intros []|].
  intros [H|H]; [subst b; rewrite (proj2 (beqb_eq slash slash) eq_refl) in E; discriminate | exact (IH H)].
Qed.

Lemma after_last_slash_no_slash p : ~ In slash (after_last_slash p).
Proof. unfold after_last_slash. intros H. apply in_rev in H. exact (take_no_slash _ H). Qed.

(* Base returns a single path element: no separator inside, except for the path "/" itself *)
Lemma base_no_slash p : base p = [slash] \/ ~ In slash (base p).
Proof.
  unfold base. destruct p as [|b t]; [right; vm_compute; intros [H|[]]; discriminate|].
  destruct (after_last_slash (strip_trailing_slashes (b :: t))) eqn:E; [left; reflexivity|].
  right. rewrite <- E. apply after_last_slash_no_slash.
Qed.

Lemma clean_nonempty p : clean p <> [].
Proof.
  unfold clean. destruct p as [|b t]; [discriminate|].
  destruct (beqb b slash); [discriminate|]. destruct (join _ _); discriminate.
Qed.

(* --- expandEnv: the fuel S (length s) is never exhausted (every step consumes a byte) --- *)
Lemma shell_name_width_le s : snd (shell_name s) <= length s.
Proof.
  unfold shell_name. destruct s as [|c t]; [cbn; lia|].
  destruct (beqb c x7b).
  - destruct (index t [x7d]) as [[|i]|] eqn:E; cbn [snd length]; try lia;
      apply index_bound in E; cbn [length] in E; lia.
  - destruct (shell_special c); [cbn; lia|]. cbn [snd].
    generalize (c :: t). intros l. induction l as [|x l IH]; [cbn; lia|].
    cbn [take_while]. destruct (alnum x); cbn [length]; lia.
Qed.

Lemma expand_f_fuel env f1 : forall f2 s, length s < f1 -> length s < f2 ->
  expand_f f1 env s = expand_f f2 env s.
Proof.
  induction f1 as [|f1 IH]; intros f2 s H1 H2; [lia|].
  destruct f2 as [|f2]; [lia|]. cbn [expand_f].
  destruct s as [|c t]; [reflexivity|]. destruct t as [|d t']; [reflexivity|].
  destruct (beqb c x24).
  - pose proof (shell_name_width_le (d :: t')) as Hw.
    destruct (shell_name (d :: t')) as [name w]. cbn [snd] in Hw. f_equal.
    apply IH; rewrite skipn_length; cbn [length] in *; lia.
  - f_equal. apply IH; cbn [length] in *; lia.
Qed.

Lemma expand_no_dollar env s : ~ In x24 s -> expand_env env s = s.
Proof.
  unfold expand_env. generalize (S (length s)) as f. intros f. revert s.
  induction f as [|f IH]; intros s H; [reflexivity|]. cbn [expand_f].
  destruct s as [|c t]; [reflexivity|]. destruct t as [|d t']; [reflexivity|].
  destruct (beqb c x24) eqn:E.
  - apply beqb_eq in E. subst c. exfalso. apply H. now left.
  - f_equal. apply IH. intros Hin. apply H. now right.
Qed.

(* --- totality: the only run-time panics are a zero divisor in div/mod and an empty min --- *)
Lemma ints_in_zero t : forall l, ints t = Some l -> In 0%Z l -> In (AInt 0) t.
Proof.
  induction t as [|a t IH]; intros l E Hin.
  - cbn in E. injection E as <-. destruct Hin.
  - cbn [ints] in E. destruct a as [s|z|x]; try discriminate.
    destruct (ints t) as [l'|] eqn:E'; [|discriminate]. cbn in E. injection E as <-.
    destruct Hin as [->|Hin]; [now left | right; exact (IH _ eq_refl Hin)].
Qed.

Ltac crush H :=
  repeat match type of H with
         | context [match ?x with _ => _ end] => destruct x; try discriminate H
         end.

Lemma apply_panic U W f args : apply U W f args = Panic ->
  (f = FMin /\ args = []) \/
  ((f = FDiv \/ f = FMod) /\ exists i t, args = AInt i :: t /\ In (AInt 0) t).
Proof.
  intros H. destruct f; unfold apply, read_file in H;
    try (exfalso; crush H; fail).
  - (* div *)
    destruct args as [|[s|i|x] t]; cbv beta iota in H; try discriminate H.
    destruct (ints t) as [l|] eqn:E; [|discriminate H].
    right. split; [now left|]. exists i, t. split; [reflexivity|].
    apply (ints_in_zero _ _ E). apply (div_panic_iff l i).
    unfold of_ires in H. destruct (div i l); [discriminate H | reflexivity].
  - (* min *)
    destruct (ints args) as [xs|] eqn:E; [|discriminate H].
    destruct xs as [|x xs]; [|discriminate H].
    left. split; [reflexivity|]. destruct args as [|[s|i|x] t]; [reflexivity | discriminate E | | discriminate E].
    cbn [ints] in E. destruct (ints t); discriminate E.
  - (* mod *)
    destruct args as [|[s|i|x] t]; cbv beta iota in H; try discriminate H.
    destruct (ints t) as [l|] eqn:E; [|discriminate H].
    right. split; [now right|]. exists i, t. split; [reflexivity|].
    apply (ints_in_zero _ _ E). apply (mod_panic_iff l i).
    unfold of_ires in H. destruct (modulo i l); [discriminate H | reflexivity].
Qed.
