(* UTF-8 as Go's unicode/utf8 sees it: DecodeRuneInString (RuneError, width 1 on any
   malformed or truncated sequence; overlong forms and surrogates are malformed),
   AppendRune (invalid scalar values are written as U+FFFD), and the forward chunking of a
   string into (rune, bytes) pairs that [for _, r := range s] performs.  Model only. *)
From Coq Require Import NArith.
From Mk Require Import Lib.Bytes.
Local Open Scope N_scope.

Definition bN (b : byte) : N := Byte.to_N b.
Definition nb (n : N) : byte := match Byte.of_N n with Some b => b | None => x00 end.

Definition rune_error : N := 65533.
Definition max_rune : N := 1114111.

Definition in_rng (lo hi : N) (b : byte) : bool := (lo <=? bN b) && (bN b <=? hi).
Definition is_cont (b : byte) : bool := in_rng 128 191 b.

(* utf8.DecodeRuneInString: (rune, width); width 0 only for the empty string *)
Definition decode (s : str) : N * nat :=
  match s with
  | [] => (rune_error, 0%nat)
  | b0 :: t =>
    let n0 := bN b0 in
    if n0 <? 128 then (n0, 1%nat)
    else if n0 <? 194 then (rune_error, 1%nat)
    else if n0 <? 224 then
      match t with
      | b1 :: _ => if is_cont b1 then ((n0 - 192) * 64 + (bN b1 - 128), 2%nat) else (rune_error, 1%nat)
      | _ => (rune_error, 1%nat)
      end
    else if n0 <? 240 then
      let lo := if n0 =? 224 then 160 else 128 in
      let hi := if n0 =? 237 then 159 else 191 in
      match t with
      | b1 :: b2 :: _ =>
        if in_rng lo hi b1 && is_cont b2
        then ((n0 - 224) * 4096 + (bN b1 - 128) * 64 + (bN b2 - 128), 3%nat)
        else (rune_error, 1%nat)
      | _ => (rune_error, 1%nat)
      end
    else if n0 <? 245 then
      let lo := if n0 =? 240 then 144 else 128 in
      let hi := if n0 =? 244 then 143 else 191 in
      match t with
      | b1 :: b2 :: b3 :: _ =>
        if in_rng lo hi b1 && is_cont b2 && is_cont b3
        then ((n0 - 240) * 262144 + (bN b1 - 128) * 4096 + (bN b2 - 128) * 64 + (bN b3 - 128), 4%nat)
        else (rune_error, 1%nat)
      | _ => (rune_error, 1%nat)
      end
    else (rune_error, 1%nat)
  end.

Definition valid_rune (r : N) : bool := (r <=? max_rune) && negb ((55296 <=? r) && (r <=? 57343)).

(* utf8.AppendRune / strings.Builder.WriteRune / string(rune) *)
Definition encode (r : N) : str :=
  if r <? 128 then [nb r]
  else if r <? 2048 then [nb (192 + r / 64); nb (128 + r mod 64)]
  else if negb (valid_rune r) then [xef; xbf; xbd]
  else if r <? 65536 then [nb (224 + r / 4096); nb (128 + (r / 64) mod 64); nb (128 + r mod 64)]
  else [nb (240 + r / 262144); nb (128 + (r / 4096) mod 64); nb (128 + (r / 64) mod 64); nb (128 + r mod 64)].

(* the chunks of [for i, r := range s]: every chunk is (rune, its bytes); fuel = length *)
Fixpoint runes_f (fuel : nat) (s : str) : list (N * str) :=
  match fuel with
  | O => []
  | S f =>
    match s with
    | [] => []
    | _ :: _ => let '(r, w) := decode s in (r, firstn w s) :: runes_f f (skipn w s)
    end
  end.
Definition runes (s : str) : list (N * str) := runes_f (length s) s.
Definition chunks (s : str) : list str := map snd (runes s).
Definition rune_vals (s : str) : list N := map fst (runes s).
Definition encode_all (rs : list N) : str := concat (map encode rs).

(* utf8.ValidString *)
Definition valid_utf8 (s : str) : bool :=
  forallb (fun p => negb ((fst p =? rune_error) && (length (snd p) =? 1)%nat)) (runes s).
