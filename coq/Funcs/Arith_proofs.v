(* Proofs about Funcs/Arith.v: the helpers are integer arithmetic modulo 2^64 over ALL their
   arguments, exact whenever the mathematical result fits; truncated division/remainder. *)
From Coq Require Import ZArith List Lia.
Import ListNotations.
From Mk Require Import Funcs.Arith.
Local Open Scope Z_scope.
Ltac Zify.zify_post_hook ::= Z.to_euclidean_division_equations.

Definition zsum (l : list Z) : Z := fold_right Z.add 0 l.
Definition zprod (l : list Z) : Z := fold_right Z.mul 1 l.

Lemma wrap_range z : in_range (wrap z).
Proof.
  unfold in_range, wrap, min_int, max_int, two63, two64.
  pose proof (Z.mod_pos_bound (z + 9223372036854775808) 18446744073709551616 ltac:(lia)). lia.
Qed.

Lemma wrap_id z : in_range z -> wrap z = z.
Proof.
  unfold in_range, wrap, min_int, max_int, two63, two64. intros H.
  rewrite Z.mod_small by lia. lia.
Qed.

Lemma wrap_cong x y : x mod two64 = y mod two64 -> wrap x = wrap y.
Proof.
  intros H. unfold wrap. f_equal.
  rewrite (Z.add_mod x), (Z.add_mod y) by (unfold two64; lia). rewrite H. reflexivity.
Qed.

Lemma wrap_mod z : (wrap z) mod two64 = z mod two64.
Proof.
  unfold wrap. rewrite Zminus_mod_idemp_l. f_equal. lia.
Qed.

Lemma wrap_add_l a b : wrap (wrap a + b) = wrap (a + b).
Proof. apply wrap_cong. rewrite Z.add_mod, wrap_mod, <- Z.add_mod by (unfold two64; lia). reflexivity. Qed.
Lemma wrap_sub_l a b : wrap (wrap a - b) = wrap (a - b).
Proof.
  apply wrap_cong. rewrite Zminus_mod, wrap_mod, <- Zminus_mod. reflexivity.
Qed.
Lemma wrap_mul_l a b : wrap (wrap a * b) = wrap (a * b).
Proof. apply wrap_cong. rewrite Z.mul_mod, wrap_mod, <- Z.mul_mod by (unfold two64; lia). reflexivity. Qed.

Lemma add_fold acc rest : fold_left (fun a b => wrap (a + b)) rest (wrap acc) = wrap (acc + zsum rest).
Proof.
  revert acc; induction rest as [|b rest IH]; intros acc; cbn [fold_left zsum fold_right].
  - f_equal. lia.
  - rewrite wrap_add_l, IH. f_equal. unfold zsum. lia.
Qed.
Lemma sub_fold acc rest : fold_left (fun a b => wrap (a - b)) rest (wrap acc) = wrap (acc - zsum rest).
Proof.
  revert acc; induction rest as [|b rest IH]; intros acc; cbn [fold_left zsum fold_right].
  - f_equal. lia.
  - rewrite wrap_sub_l, IH. f_equal. unfold zsum. lia.
Qed.
Lemma mul_fold acc rest : fold_left (fun a b => wrap (a * b)) rest (wrap acc) = wrap (acc * zprod rest).
Proof.
  revert acc; induction rest as [|b rest IH]; intros acc; cbn [fold_left zprod fold_right].
  - f_equal. lia.
  - rewrite wrap_mul_l, IH. f_equal. unfold zprod. lia.
Qed.

Lemma add_spec i1 rest : in_range i1 -> add i1 rest = wrap (i1 + zsum rest).
Proof. intros H. unfold add. rewrite <- (wrap_id i1 H) at 1. apply add_fold. Qed.
Lemma sub_spec i1 rest : in_range i1 -> sub i1 rest = wrap (i1 - zsum rest).
Proof. intros H. unfold sub. rewrite <- (wrap_id i1 H) at 1. apply sub_fold. Qed.
Lemma mul_spec i1 rest : in_range i1 -> mul i1 rest = wrap (i1 * zprod rest).
Proof. intros H. unfold mul. rewrite <- (wrap_id i1 H) at 1. apply mul_fold. Qed.

Lemma add_exact i1 rest : in_range i1 -> in_range (i1 + zsum rest) -> add i1 rest = i1 + zsum rest.
Proof. intros H1 H2. rewrite add_spec by exact H1. apply wrap_id. exact H2. Qed.
Lemma sub_exact i1 rest : in_range i1 -> in_range (i1 - zsum rest) -> sub i1 rest = i1 - zsum rest.
Proof. intros H1 H2. rewrite sub_spec by exact H1. apply wrap_id. exact H2. Qed.
Lemma mul_exact i1 rest : in_range i1 -> in_range (i1 * zprod rest) -> mul i1 rest = i1 * zprod rest.
Proof. intros H1 H2. rewrite mul_spec by exact H1. apply wrap_id. exact H2. Qed.

Lemma add_in_range i1 rest : in_range i1 -> in_range (add i1 rest).
Proof. intros H. rewrite add_spec by exact H. apply wrap_range. Qed.

(* division *)
Lemma quot_abs_le a d : d <> 0 -> Z.abs (Z.quot a d) <= Z.abs a.
Proof. intros. nia. Qed.
Lemma quot_abs_half a d : d <> 0 -> d <> 1 -> d <> -1 -> 2 * Z.abs (Z.quot a d) <= Z.abs a.
Proof. intros. nia. Qed.

Lemma quot_in_range a d : in_range a -> in_range d -> d <> 0 -> ~ (a = min_int /\ d = -1) ->
  in_range (Z.quot a d).
Proof.
  unfold in_range, min_int, max_int, two63. intros Ha Hd Hz Hov.
  pose proof (quot_abs_le a d Hz) as Habs.
  destruct (Z.eq_dec d (-1)) as [->|Hd1].
  - lia.
  - destruct (Z.eq_dec d 1) as [->|Hd2]; [lia|].
    pose proof (quot_abs_half a d Hz Hd2 Hd1). lia.
Qed.

Lemma wrap_quot a d : in_range a -> in_range d -> d <> 0 -> ~ (a = min_int /\ d = -1) ->
  wrap (Z.quot a d) = Z.quot a d.
Proof. intros. apply wrap_id, quot_in_range; assumption. Qed.

Lemma wrap_quot_overflow : wrap (Z.quot min_int (-1)) = min_int.
Proof. vm_compute. reflexivity. Qed.

Lemma rem_in_range a d : in_range a -> d <> 0 -> in_range (Z.rem a d).
Proof.
  unfold in_range, min_int, max_int, two63. intros Ha Hz.
  assert (Habs : Z.abs (Z.rem a d) <= Z.abs a).
  { rewrite <- Z.rem_abs by exact Hz.
    destruct (Z.lt_ge_cases (Z.abs a) (Z.abs d)) as [L|G].
    - rewrite Z.rem_small by lia. lia.
    - pose proof (Z.rem_bound_pos (Z.abs a) (Z.abs d) ltac:(lia) ltac:(lia)). lia. }
  destruct (Z.le_gt_cases 0 a) as [P|Ng].
  - pose proof (Z.rem_nonneg a d Hz P). lia.
  - pose proof (Z.rem_nonpos a d Hz ltac:(lia)). lia.
Qed.

Lemma wrap_rem a d : in_range a -> d <> 0 -> wrap (Z.rem a d) = Z.rem a d.
Proof. intros. apply wrap_id, rem_in_range; assumption. Qed.

Lemma div_panic_iff rest : forall i1, div i1 rest = IPanic <-> In 0 rest.
Proof.
  induction rest as [|d t IH]; intros i1; cbn [div In].
  - split; [discriminate | tauto].
  - destruct (Z.eqb_spec d 0) as [->|Hd].
    + split; [auto | reflexivity].
    + rewrite IH. split; [auto | intros [H|H]; [congruence | exact H]].
Qed.
Lemma mod_panic_iff rest : forall i1, modulo i1 rest = IPanic <-> In 0 rest.
Proof.
  induction rest as [|d t IH]; intros i1; cbn [modulo In].
  - split; [discriminate | tauto].
  - destruct (Z.eqb_spec d 0) as [->|Hd].
    + split; [auto | reflexivity].
    + rewrite IH. split; [auto | intros [H|H]; [congruence | exact H]].
Qed.

Lemma div_spec rest : forall i1, ~ In 0 rest ->
  div i1 rest = IVal (fold_left (fun a d => wrap (Z.quot a d)) rest i1).
Proof.
  induction rest as [|d t IH]; intros i1 H; cbn [div fold_left]; [reflexivity|].
  destruct (Z.eqb_spec d 0) as [->|Hd]; [exfalso; apply H; now left|].
  apply IH. intros Hin. apply H. now right.
Qed.
Lemma mod_spec rest : forall i1, ~ In 0 rest ->
  modulo i1 rest = IVal (fold_left (fun a d => wrap (Z.rem a d)) rest i1).
Proof.
  induction rest as [|d t IH]; intros i1 H; cbn [modulo fold_left]; [reflexivity|].
  destruct (Z.eqb_spec d 0) as [->|Hd]; [exfalso; apply H; now left|].
  apply IH. intros Hin. apply H. now right.
Qed.

(* remainders never wrap: mod is the iterated truncated remainder *)
Lemma mod_exact rest : forall i1, in_range i1 -> ~ In 0 rest ->
  modulo i1 rest = IVal (fold_left Z.rem rest i1).
Proof.
  induction rest as [|d t IH]; intros i1 Hr H; cbn [modulo fold_left]; [reflexivity|].
  destruct (Z.eqb_spec d 0) as [->|Hd]; [exfalso; apply H; now left|].
  rewrite wrap_rem by assumption. apply IH; [apply rem_in_range; assumption|].
  intros Hin. apply H. now right.
Qed.

(* quotients wrap only for MinInt64 / -1 *)
Fixpoint no_overflow (i1 : Z) (rest : list Z) : Prop :=
  match rest with
  | [] => True
  | d :: t => ~ (i1 = min_int /\ d = -1) /\ no_overflow (Z.quot i1 d) t
  end.
Lemma div_exact rest : forall i1, in_range i1 -> Forall in_range rest -> ~ In 0 rest -> no_overflow i1 rest ->
  div i1 rest = IVal (fold_left Z.quot rest i1).
Proof.
  induction rest as [|d t IH]; intros i1 Hr Hf H Hno; cbn [div fold_left]; [reflexivity|].
  destruct (Z.eqb_spec d 0) as [->|Hd]; [exfalso; apply H; now left|].
  inversion Hf as [|? ? Hdr Hft]; subst. destruct Hno as [Hn1 Hn2].
  rewrite wrap_quot by assumption. apply IH; try assumption.
  - apply quot_in_range; assumption.
  - intros Hin. apply H. now right.
Qed.

(* minimum *)
Lemma fold_min_spec t : forall x, let m := fold_left Z.min t x in
  In m (x :: t) /\ Forall (fun y => m <= y) (x :: t).
Proof.
  induction t as [|y t IH]; intros x; cbn [fold_left].
  - split; [now left | constructor; [lia | constructor]].
  - specialize (IH (Z.min x y)). cbn zeta in *. destruct IH as [Hin Hall].
    inversion Hall as [|? ? Hm Ht]; subst. split.
    + destruct Hin as [E|Hin]; [|right; right; exact Hin].
      destruct (Z.min_spec x y) as [[_ E']|[_ E']]; [left | right; left]; congruence.
    + constructor; [lia|]. constructor; [lia | exact Ht].
Qed.

Lemma minimum_spec xs : xs <> [] ->
  exists m, minimum xs = IVal m /\ In m xs /\ Forall (fun y => m <= y) xs.
Proof.
  destruct xs as [|x t]; [congruence|]. intros _. eexists. split; [reflexivity|]. apply fold_min_spec.
Qed.
Lemma minimum_empty : minimum [] = IPanic.
Proof. reflexivity. Qed.
