(* Proofs about Funcs/Strings.v: characterisations of index/contains/prefix/suffix,
   split/join/replace laws, trimPrefix/trimSuffix, trim family, quoteMeta. *)
From Coq Require Import NArith ZArith.
From Mk Require Import Lib.Bytes Funcs.Utf8 Funcs.Utf8_proofs Funcs.Strings.

(* ---------- index / contains / prefix / suffix ---------- *)
Lemma has_prefix_app s p r : s = p ++ r -> has_prefix s p = true.
Proof. intros ->. apply has_prefix_spec. eauto. Qed.

Lemma has_prefix_skipn s p : has_prefix s p = true -> s = p ++ skipn (length p) s.
Proof.
  intros H. apply has_prefix_spec in H as [r ->].
  rewrite skipn_app, Nat.sub_diag, skipn_all. reflexivity.
Qed.

Lemma index_some s : forall sub m, index s sub = Some m ->
  s = firstn m s ++ sub ++ skipn (m + length sub) s.
Proof.
  induction s as [|c s IH]; intros sub m H.
  - cbn [index] in H. destruct (has_prefix [] sub) eqn:P; [|discriminate]. injection H as <-.
    apply has_prefix_skipn in P. exact P.
  - cbn [index] in H. destruct (has_prefix (c :: s) sub) eqn:P.
    + injection H as <-. apply has_prefix_skipn in P. exact P.
    + destruct (index s sub) as [k|] eqn:K; [|discriminate]. injection H as <-.
      cbn [firstn app Nat.add skipn]. f_equal. apply IH. exact K.
Qed.

Lemma index_none s : forall sub, index s sub = None -> forall a b, s <> a ++ sub ++ b.
Proof.
  induction s as [|c s IH]; intros sub H a b E.
  - cbn [index] in H. destruct (has_prefix [] sub) eqn:P; [discriminate|].
    symmetry in E. apply app_eq_nil in E as [-> E]. apply app_eq_nil in E as [-> ->]. discriminate.
  - cbn [index] in H. destruct (has_prefix (c :: s) sub) eqn:P; [discriminate|].
    destruct (index s sub) eqn:K; [discriminate|].
    destruct a as [|x a].
    + cbn [app] in E. rewrite (has_prefix_app _ _ _ E) in P. discriminate.
    + cbn [app] in E. injection E as _ E. exact (IH _ K _ _ E).
Qed.

Lemma index_least s : forall sub m, index s sub = Some m ->
  forall a b, s = a ++ sub ++ b -> m <= length a.
Proof.
  induction s as [|c s IH]; intros sub m H a b E.
  - cbn [index] in H. destruct (has_prefix [] sub); [|discriminate]. injection H as <-. lia.
  - cbn [index] in H. destruct (has_prefix (c :: s) sub) eqn:P; [injection H as <-; lia|].
    destruct (index s sub) as [k|] eqn:K; [|discriminate]. injection H as <-.
    destruct a as [|x a].
    + cbn [app] in E. rewrite (has_prefix_app _ _ _ E) in P. discriminate.
    + cbn [app] in E. injection E as _ E. cbn [length]. apply le_n_S. exact (IH _ _ K _ _ E).
Qed.

Lemma has_prefix_length s p : has_prefix s p = true -> length p <= length s.
Proof. intros H. apply has_prefix_spec in H as [r ->]. rewrite app_length. lia. Qed.

Lemma index_bound s : forall sub m, index s sub = Some m -> m + length sub <= length s.
Proof.
  induction s as [|c s IH]; intros sub m H.
  - cbn [index] in H. destruct (has_prefix [] sub) eqn:P; [|discriminate]. injection H as <-.
    apply has_prefix_length in P. lia.
  - cbn [index] in H. destruct (has_prefix (c :: s) sub) eqn:P.
    + injection H as <-. apply has_prefix_length in P. lia.
    + destruct (index s sub) as [k|] eqn:K; [|discriminate]. injection H as <-.
      apply IH in K. cbn [length]. lia.
Qed.

Lemma contains_spec s sub : contains s sub = true <-> exists a b, s = a ++ sub ++ b.
Proof.
  unfold contains. destruct (index s sub) as [m|] eqn:E.
  - split; [intros _|reflexivity]. eexists _, _. exact (index_some _ _ _ E).
  - split; [discriminate|]. intros (a & b & H). exfalso. exact (index_none _ _ E _ _ H).
Qed.

Lemma has_suffix_spec s suf : has_suffix s suf = true <-> exists r, s = r ++ suf.
Proof.
  unfold has_suffix. rewrite has_prefix_spec. split.
  - intros [r H]. exists (rev r). apply (f_equal (@rev _)) in H.
    rewrite rev_involutive, rev_app_distr, rev_involutive in H. exact H.
  - intros [r ->]. exists (rev r). apply rev_app_distr.
Qed.

(* ---------- join / split ---------- *)
Lemma join_cons a t sep : t <> [] -> join (a :: t) sep = a ++ sep ++ join t sep.
Proof. destruct t; [congruence | reflexivity]. Qed.

Lemma gsplit_nonempty cuts sep save s : gsplit cuts sep save s <> [].
Proof. destruct cuts; cbn [gsplit]; [discriminate|]. destruct (index s sep); discriminate. Qed.

Lemma join_gsplit cuts sep : forall s, join (gsplit cuts sep 0 s) sep = s.
Proof.
  induction cuts as [|c IH]; intros s; [reflexivity|].
  cbn [gsplit]. destruct (index s sep) as [m|] eqn:E; [|reflexivity].
  rewrite join_cons by apply gsplit_nonempty. rewrite IH, Nat.add_0_r.
  symmetry. exact (index_some _ _ _ E).
Qed.

Lemma firstn_plus_app {A} (s : list A) m k : firstn (m + k) s = firstn m s ++ firstn k (skipn m s).
Proof.
  revert s; induction m as [|m IH]; intros s; [reflexivity|].
  destruct s as [|x s]; [cbn; rewrite firstn_nil; reflexivity|].
  cbn [Nat.add firstn skipn app]. f_equal. apply IH.
Qed.

Lemma concat_gsplit_after cuts sep : forall s, concat (gsplit cuts sep (length sep) s) = s.
Proof.
  induction cuts as [|c IH]; intros s; [cbn; apply app_nil_r|].
  cbn [gsplit]. destruct (index s sep) as [m|] eqn:E; [|cbn; apply app_nil_r].
  cbn [concat]. rewrite IH. apply firstn_skipn.
Qed.

(* after [length s] cuts nothing is left to cut: the bound is never hit *)
Lemma gsplit_fuel sep save : sep <> [] -> forall c1 c2 s, length s <= c1 -> length s <= c2 ->
  gsplit c1 sep save s = gsplit c2 sep save s.
Proof.
  intros NE. induction c1 as [|c1 IH]; intros c2 s H1 H2.
  - destruct s; [|cbn [length] in H1; lia].
    destruct c2; cbn [gsplit]; [reflexivity|].
    destruct (index [] sep) eqn:E; [|reflexivity].
    apply index_bound in E. destruct sep; [congruence | cbn [length] in E; lia].
  - destruct c2 as [|c2].
    + destruct s; [|cbn [length] in H2; lia]. cbn [gsplit].
      destruct (index [] sep) eqn:E; [|reflexivity].
      apply index_bound in E. destruct sep; [congruence | cbn [length] in E; lia].
    + cbn [gsplit]. destruct (index s sep) as [m|] eqn:E; [|reflexivity]. f_equal.
      pose proof (index_bound _ _ _ E) as Hb.
      assert (0 < length sep) by (destruct sep; [congruence | cbn [length]; lia]).
      apply IH; rewrite skipn_length; lia.
Qed.

Lemma gsplit_pieces_sep_free sep : sep <> [] -> forall c s, length s <= c ->
  Forall (fun p => contains p sep = false) (gsplit c sep 0 s).
Proof.
  intros NE. induction c as [|c IH]; intros s Hl.
  - destruct s; [|cbn [length] in Hl; lia]. cbn [gsplit]. constructor; [|constructor].
    unfold contains. destruct (index [] sep) eqn:E; [|reflexivity].
    apply index_bound in E. destruct sep; [congruence | cbn [length] in E; lia].
  - cbn [gsplit]. destruct (index s sep) as [m|] eqn:E.
    + pose proof (index_bound _ _ _ E) as Hb.
      assert (0 < length sep) by (destruct sep; [congruence | cbn [length]; lia]).
      constructor.
      * rewrite Nat.add_0_r. destruct (contains (firstn m s) sep) eqn:C; [|reflexivity]. exfalso.
        apply contains_spec in C as (a & b & C).
        pose proof (index_some _ _ _ E) as Es. rewrite C in Es. rewrite <- !app_assoc in Es.
        pose proof (index_least _ _ _ E _ _ Es) as Hle.
        apply (f_equal (@length _)) in C. rewrite firstn_length, !app_length in C. lia.
      * apply IH. rewrite skipn_length. lia.
    + constructor; [|constructor]. unfold contains. rewrite E. reflexivity.
Qed.

Lemma gsplit_length cuts sep save : forall s, length (gsplit cuts sep save s) <= S cuts.
Proof.
  induction cuts as [|c IH]; intros s; [cbn; lia|].
  cbn [gsplit]. destruct (index s sep); cbn [length]; [|lia]. specialize (IH (skipn (n + length sep) s)). lia.
Qed.

(* explode *)
Lemma concat_explode_k k : forall cs, concat (explode_k k cs) = concat cs.
Proof.
  induction k as [|k IH]; intros cs.
  - destruct cs as [|c [|d t]]; cbn [explode_k concat]; rewrite ?app_nil_r; reflexivity.
  - destruct cs as [|c [|d t]]; cbn [explode_k]; try reflexivity.
    change (concat (c :: explode_k k (d :: t)) = concat (c :: d :: t)).
    cbn [concat]. f_equal. apply (IH (d :: t)).
Qed.

Lemma explode_k_all k : forall cs, length cs <= S k -> explode_k k cs = cs.
Proof.
  induction k as [|k IH]; intros cs H.
  - destruct cs as [|c [|d t]]; try reflexivity. cbn [length] in H. lia.
  - destruct cs as [|c [|d t]]; try reflexivity. cbn [explode_k]. f_equal.
    apply IH. cbn [length] in *. lia.
Qed.

Lemma explode_k_length k : forall cs, length (explode_k k cs) <= S k.
Proof.
  induction k as [|k IH]; intros cs.
  - destruct cs as [|c [|d t]]; cbn; lia.
  - destruct cs as [|c [|d t]]; cbn [explode_k length]; try lia.
    specialize (IH (d :: t)). lia.
Qed.

Lemma nonempty_pieces_length (l : list str) : Forall (fun c => c <> []) l -> length l <= length (concat l).
Proof.
  induction 1 as [|c l Hc F IH]; [cbn; lia|].
  cbn [concat length]. rewrite app_length. destruct c; [congruence|]. cbn [length]. lia.
Qed.

Lemma chunks_length s : length (chunks s) <= length s.
Proof.
  rewrite <- (runes_concat s) at 2. apply nonempty_pieces_length.
  unfold chunks. apply Forall_map. apply runes_chunks_nonempty.
Qed.

(* ---------- replace ---------- *)
Lemma replace_ne_join cuts old new : forall s,
  replace_ne cuts old new s = join (gsplit cuts old 0 s) new.
Proof.
  induction cuts as [|c IH]; intros s; [reflexivity|].
  cbn [replace_ne gsplit]. destruct (index s old) as [m|]; [|reflexivity].
  rewrite join_cons by apply gsplit_nonempty. rewrite IH, Nat.add_0_r. reflexivity.
Qed.

(* ---------- trimPrefix / trimSuffix ---------- *)
Lemma trim_prefix_app p s : trim_prefix (p ++ s) p = s.
Proof.
  unfold trim_prefix. rewrite (has_prefix_app (p ++ s) p s eq_refl).
  rewrite skipn_app, Nat.sub_diag, skipn_all. reflexivity.
Qed.
Lemma trim_prefix_no p s : has_prefix s p = false -> trim_prefix s p = s.
Proof. unfold trim_prefix. intros ->. reflexivity. Qed.
Lemma trim_prefix_spec s p :
  (exists r, s = p ++ r /\ trim_prefix s p = r) \/ ((forall r, s <> p ++ r) /\ trim_prefix s p = s).
Proof.
  destruct (has_prefix s p) eqn:H.
  - left. apply has_prefix_spec in H as [r ->]. exists r. split; [reflexivity | apply trim_prefix_app].
  - right. split; [|apply trim_prefix_no; exact H].
    intros r E. rewrite (has_prefix_app _ _ _ E) in H. discriminate.
Qed.

Lemma trim_suffix_app s suf : trim_suffix (s ++ suf) suf = s.
Proof.
  unfold trim_suffix. assert (H : has_suffix (s ++ suf) suf = true) by (apply has_suffix_spec; eauto).
  rewrite H, app_length, Nat.add_sub, firstn_app, Nat.sub_diag, firstn_O, app_nil_r, firstn_all. reflexivity.
Qed.
Lemma trim_suffix_no s suf : has_suffix s suf = false -> trim_suffix s suf = s.
Proof. unfold trim_suffix. intros ->. reflexivity. Qed.
Lemma trim_suffix_spec s suf :
  (exists r, s = r ++ suf /\ trim_suffix s suf = r) \/ ((forall r, s <> r ++ suf) /\ trim_suffix s suf = s).
Proof.
  destruct (has_suffix s suf) eqn:H.
  - left. apply has_suffix_spec in H as [r ->]. exists r. split; [reflexivity | apply trim_suffix_app].
  - right. split; [|apply trim_suffix_no; exact H].
    intros r E. assert (T : has_suffix s suf = true) by (apply has_suffix_spec; eauto). congruence.
Qed.

(* ---------- the split family at the level of the Go functions ---------- *)
Lemma join_split s sep : sep <> [] -> join (split s sep) sep = s.
Proof.
  intros NE. unfold split, gen_split. cbn [Z.eqb]. destruct sep as [|c sep]; [congruence|].
  apply join_gsplit.
Qed.

Lemma split_pieces_sep_free s sep : sep <> [] -> Forall (fun p => contains p sep = false) (split s sep).
Proof.
  intros NE. unfold split, gen_split. cbn [Z.eqb]. destruct sep as [|c sep]; [congruence|].
  apply gsplit_pieces_sep_free; [discriminate|]. unfold cuts_of. cbn [Z.ltb Z.compare]. lia.
Qed.

Lemma split_nonempty s sep : sep <> [] -> split s sep <> [].
Proof.
  intros NE. unfold split, gen_split. cbn [Z.eqb]. destruct sep as [|c sep]; [congruence|].
  apply gsplit_nonempty.
Qed.

Lemma split_empty_sep s : split s [] = chunks s.
Proof.
  unfold split, gen_split. cbn [Z.eqb]. apply explode_k_all.
  unfold cuts_of. cbn [Z.ltb Z.compare]. pose proof (chunks_length s). lia.
Qed.

Lemma concat_gen_split s sep n : (n <> 0)%Z -> concat (gen_split s sep (length sep) n) = s.
Proof.
  intros Hn. unfold gen_split. destruct (Z.eqb_spec n 0) as [->|_]; [congruence|].
  destruct sep as [|c sep].
  - rewrite concat_explode_k. apply runes_concat.
  - apply concat_gsplit_after.
Qed.

Lemma concat_split_after s sep : concat (split_after s sep) = s.
Proof. apply concat_gen_split. discriminate. Qed.

Lemma concat_split_after_n s sep n : (n <> 0)%Z -> concat (split_after_n s sep n) = s.
Proof. apply concat_gen_split. Qed.

Lemma split_after_n_zero s sep : split_after_n s sep 0 = [].
Proof. reflexivity. Qed.

Lemma gen_split_length s sep save n : (0 < n)%Z -> length (gen_split s sep save n) <= Z.to_nat n.
Proof.
  intros Hn. unfold gen_split. destruct (Z.eqb_spec n 0) as [->|_]; [lia|].
  assert (Hc : S (cuts_of n s) <= Z.to_nat n).
  { unfold cuts_of. destruct (Z.ltb_spec n 0); lia. }
  destruct sep as [|c sep].
  - pose proof (explode_k_length (cuts_of n s) (chunks s)). lia.
  - pose proof (gsplit_length (cuts_of n s) (c :: sep) save s). lia.
Qed.

(* split is the unlimited splitAfterN without the separators; SplitN below is genSplit with save = 0 *)
Lemma replace_all_join_split s old new : old <> [] -> replace_all s old new = join (split s old) new.
Proof.
  intros NE. unfold replace_all, replace, split, gen_split. cbn [Z.eqb orb].
  destruct old as [|c old]; [congruence|].
  destruct (seqb (c :: old) new) eqn:E.
  - apply seqb_eq in E. subst new. cbn [orb]. symmetry. apply join_gsplit.
  - cbn [orb]. rewrite replace_ne_join. f_equal.
    apply gsplit_fuel; [discriminate | unfold repl_count; cbn [Z.ltb Z.compare]; lia | unfold cuts_of; cbn [Z.ltb Z.compare]; lia].
Qed.

Lemma replace_n_join_split_n s old new n : old <> [] -> (0 <= n)%Z ->
  replace s old new n = join (gen_split s old 0 (n + 1)) new.
Proof.
  intros NE Hn. unfold replace, gen_split.
  destruct (Z.eqb_spec (n + 1) 0) as [Hz|_]; [lia|].
  destruct old as [|c old]; [congruence|].
  destruct (Z.eqb_spec n 0) as [->|Hn0].
  - rewrite orb_true_r.
    assert (cuts_of (0 + 1) s = 0) as -> by (unfold cuts_of; destruct (Z.ltb_spec (0 + 1) 0); lia).
    reflexivity.
  - rewrite orb_false_r. destruct (seqb (c :: old) new) eqn:E.
    + apply seqb_eq in E. subst new. symmetry. apply join_gsplit.
    + rewrite replace_ne_join. f_equal. unfold repl_count, cuts_of.
      destruct (Z.ltb_spec n 0); [lia|]. destruct (Z.ltb_spec (n + 1) 0); [lia|].
      replace (n + 1 - 1)%Z with n by lia.
      destruct (Z.le_gt_cases n (Z.of_nat (length s))) as [Hle|Hgt].
      * rewrite !Z.min_l by lia. reflexivity.
      * apply gsplit_fuel; [discriminate | lia | lia].
Qed.

Lemma replace_zero s old new : replace s old new 0 = s.
Proof. unfold replace. rewrite orb_true_r. reflexivity. Qed.

Lemma replace_same s old n : replace s old old n = s.
Proof. unfold replace. rewrite seqb_refl. reflexivity. Qed.

Lemma repl_after_all k new : forall cs, length cs <= k ->
  repl_after k new cs = concat (map (fun c => c ++ new) cs).
Proof.
  induction k as [|k IH]; intros cs H.
  - destruct cs; [reflexivity | cbn [length] in H; lia].
  - destruct cs as [|c t]; [reflexivity|]. cbn [repl_after map concat]. rewrite <- app_assoc.
    rewrite IH by (cbn [length] in H; lia). reflexivity.
Qed.

(* empty old: new goes before the first and after every UTF-8 sequence *)
Lemma replace_all_empty_old s new : new <> [] ->
  replace_all s [] new = new ++ concat (map (fun c => c ++ new) (chunks s)).
Proof.
  intros NE. unfold replace_all, replace. cbn [Z.eqb orb].
  destruct (seqb [] new) eqn:E; [apply seqb_eq in E; congruence|]. cbn [orb].
  unfold repl_count. cbn [Z.ltb Z.compare repl_empty]. f_equal.
  apply repl_after_all. apply chunks_length.
Qed.

(* ---------- trim family ---------- *)
Lemma drop_while_spec {A} (f : A -> bool) (l : list A) :
  exists l1, l = l1 ++ drop_while f l /\ forallb f l1 = true /\
             match drop_while f l with [] => True | x :: _ => f x = false end.
Proof.
  induction l as [|x l (l1 & E & F & H)].
  - exists []. repeat split.
  - cbn [drop_while]. destruct (f x) eqn:Fx.
    + exists (x :: l1). repeat split; [cbn [app]; f_equal; exact E | cbn [forallb]; rewrite Fx, F; reflexivity | exact H].
    + exists []. repeat split. exact Fx.
Qed.

Lemma drop_while_id {A} (f : A -> bool) (l : list A) :
  match l with [] => True | x :: _ => f x = false end -> drop_while f l = l.
Proof. destruct l as [|x l]; [reflexivity|]. cbn [drop_while]. intros ->. reflexivity. Qed.

Lemma trim_left_func_spec f s :
  exists l1 l2, runes s = l1 ++ l2 /\ forallb (fun p => f (fst p)) l1 = true /\
                trim_left_func f s = concat (map snd l2) /\
                s = concat (map snd l1) ++ trim_left_func f s /\
                match l2 with [] => True | p :: _ => f (fst p) = false end.
Proof.
  unfold trim_left_func.
  destruct (drop_while_spec (fun p => f (fst p)) (runes s)) as (l1 & E & F & H).
  exists l1, (drop_while (fun p => f (fst p)) (runes s)). repeat split; try assumption.
  apply runes_app_chunks. exact E.
Qed.

(* the first rune of a left-trimmed string does not satisfy the predicate *)
Lemma trim_left_func_head f s b t :
  trim_left_func f s = b :: t -> f (fst (decode (b :: t))) = false.
Proof.
  intros E. destruct (trim_left_func_spec f s) as (l1 & l2 & R & _ & T & _ & H).
  pose proof (runes_suffix _ _ _ R) as RS. rewrite <- T, E in RS.
  rewrite runes_cons in RS. destruct l2 as [|p l2]; [discriminate|].
  injection RS as <- _. exact H.
Qed.

Lemma trim_left_func_idem f s : trim_left_func f (trim_left_func f s) = trim_left_func f s.
Proof.
  destruct (trim_left_func_spec f s) as (l1 & l2 & R & _ & T & _ & H).
  pose proof (runes_suffix _ _ _ R) as RS. rewrite <- T in RS.
  unfold trim_left_func at 1. rewrite RS, drop_while_id by exact H. symmetry. exact T.
Qed.

Lemma trim_right_func_spec f s :
  exists l1 l2, runes s = l1 ++ l2 /\ forallb (fun p => f (fst p)) l2 = true /\
                trim_right_func f s = concat (map snd l1) /\
                s = trim_right_func f s ++ concat (map snd l2) /\
                match rev l1 with [] => True | p :: _ => f (fst p) = false end.
Proof.
  unfold trim_right_func.
  destruct (drop_while_spec (fun p => f (fst p)) (rev (runes s))) as (l2 & E & F & H).
  set (d := drop_while (fun p => f (fst p)) (rev (runes s))) in *.
  assert (R : runes s = rev d ++ rev l2).
  { rewrite <- rev_app_distr, <- E, rev_involutive. reflexivity. }
  exists (rev d), (rev l2). repeat split.
  - exact R.
  - rewrite forallb_forall in *. intros x Hx. apply F. apply in_rev. exact Hx.
  - apply runes_app_chunks. exact R.
  - rewrite rev_involutive. exact H.
Qed.

Lemma trim_right_func_idem f s : trim_right_func f (trim_right_func f s) = trim_right_func f s.
Proof.
  destruct (trim_right_func_spec f s) as (l1 & l2 & R & _ & T & _ & H).
  assert (RS : runes (trim_right_func f s) = l1) by (rewrite T; exact (runes_prefix _ _ _ R)).
  unfold trim_right_func at 1. rewrite RS, drop_while_id by exact H.
  rewrite rev_involutive. symmetry. exact T.
Qed.
