(* Proofs about Funcs/Strings.v: characterisations of index/contains/prefix/suffix,
   split/join/replace laws, trimPrefix/trimSuffix, trim family, quoteMeta. *)
From Coq Require Import NArith ZArith.
From Mk Require Import Lib.Bytes Funcs.Utf8 Funcs.Utf8_proofs Funcs.Strings.

(* ---------- index / contains / prefix / suffix ---------- *)
Lemma has_prefix_app s p r : s = p ++ r -> has_prefix s p = true.
Proof. intros ->. apply has_prefix_spec. eauto. Qed.

Lemma has_prefix_skipn s p : has_prefix s p = true -> s = p ++ skipn (length p) s.
Proof.
  intros H. apply has_prefix_spec in H as [r ->].
  rewrite skipn_app, Nat.sub_diag, skipn_all. reflexivity.
Qed.

Lemma index_some s : forall sub m, index s sub = Some m ->
  s = firstn m s ++ sub ++ skipn (m + length sub) s.
Proof.
  induction s as [|c s IH]; intros sub m H.
  - cbn [index] in H. destruct (has_prefix [] sub) eqn:P; [|discriminate]. injection H as <-.
    apply has_prefix_skipn in P. exact P.
  - cbn [index] in H. destruct (has_prefix (c :: s) sub) eqn:P.
    + injection H as <-. apply has_prefix_skipn in P. exact P.
    + destruct (index s sub) as [k|] eqn:K; [|discriminate]. injection H as <-.
      cbn [firstn app Nat.add skipn]. f_equal. apply IH. exact K.
Qed.

Lemma index_none s : forall sub, index s sub = None -> forall a b, s <> a ++ sub ++ b.
Proof.
  induction s as [|c s IH]; intros sub H a b E.
  - cbn [index] in H. destruct (has_prefix [] sub) eqn:P; [discriminate|].
    symmetry in E. apply app_eq_nil in E as [-> E]. apply app_eq_nil in E as [-> ->]. discriminate.
  - cbn [index] in H. destruct (has_prefix (c :: s) sub) eqn:P; [discriminate|].
    destruct (index s sub) eqn:K; [discriminate|].
    destruct a as [|x a].
    + cbn [app] in E. rewrite (has_prefix_app _ _ _ E) in P. discriminate.
    + cbn [app] in E. injection E as _ E. exact (IH _ K _ _ E).
Qed.

Lemma index_least s : forall sub m, index s sub = Some m ->
  forall a b, s = a ++ sub ++ b -> m <= length a.
Proof.
  induction s as [|c s IH]; intros sub m H a b E.
  - cbn [index] in H. destruct (has_prefix [] sub); [|discriminate]. injection H as <-. lia.
  - cbn [index] in H. destruct (has_prefix (c :: s) sub) eqn:P; [injection H as <-; lia|].
    destruct (index s sub) as [k|] eqn:K; [|discriminate]. injection H as <-.
    destruct a as [|x a].
    + cbn [app] in E. rewrite (has_prefix_app _ _ _ E) in P. discriminate.
    + cbn [app] in E. injection E as _ E. cbn [length]. apply le_n_S. exact (IH _ _ K _ _ E).
Qed.

Lemma has_prefix_length s p : has_prefix s p = true -> length p <= length s.
Proof. intros H. apply has_prefix_spec in H as [r ->]. rewrite app_length. lia. Qed.

Lemma index_bound s : forall sub m, index s sub = Some m -> m + length sub <= length s.
Proof.
  induction s as [|c s IH]; intros sub m H.
  - cbn [index] in H. destruct (has_prefix [] sub) eqn:P; [|discriminate]. injection H as <-.
    apply has_prefix_length in P. lia.
  - cbn [index] in H. destruct (has_prefix (c :: s) sub) eqn:P.
    + injection H as <-. apply has_prefix_length in P. lia.
    + destruct (index s sub) as [k|] eqn:K; [|discriminate]. injection H as <-.
      apply IH in K. cbn [length]. lia.
Qed.

Lemma contains_spec s sub : contains s sub = true <-> exists a b, s = a ++ sub ++ b.
Proof.
  unfold contains. destruct (index s sub) as [m|] eqn:E.
  - split; [intros _|reflexivity]. eexists _, _. exact (index_some _ _ _ E).
  - split; [discriminate|]. intros (a & b & H). exfalso. exact (index_none _ _ E _ _ H).
Qed.

Lemma has_suffix_spec s suf : has_suffix s suf = true <-> exists r, s = r ++ suf.
Proof.
  unfold has_suffix. rewrite has_prefix_spec. split.
  - intros [r H]. exists (rev r). apply (f_equal (@rev _)) in H.
    rewrite rev_involutive, rev_app_distr, rev_involutive in H. exact H.
  - intros [r ->]. exists (rev r). apply rev_app_distr.
Qed.

(* ---------- join / split ---------- *)
Lemma join_cons a t sep : t <> [] -> join (a :: t) sep = a ++ sep ++ join t sep.
Proof. destruct t; [congruence | reflexivity]. Qed.

Lemma gsplit_nonempty cuts sep save s : gsplit cuts sep save s <> [].
Proof. destruct cuts; cbn [gsplit]; [discriminate|]. destruct (index s sep); discriminate. Qed.

Lemma join_gsplit cuts sep : forall s, join (gsplit cuts sep 0 s) sep = s.
Proof.
  induction cuts as [|c IH]; intros s; [reflexivity|].
  cbn [gsplit]. destruct (index s sep) as [m|] eqn:E; [|reflexivity].
  rewrite join_cons by apply gsplit_nonempty. rewrite IH, Nat.add_0_r.
  symmetry. exact (index_some _ _ _ E).
Qed.

Lemma firstn_plus_app {A} (s : list A) m k : firstn (m + k) s = firstn m s ++ firstn k (skipn m s).
Proof.
  revert s; induction m as [|m IH]; intros s; [reflexivity|].
  destruct s as [|x s]; [cbn; rewrite firstn_nil; reflexivity|].
  cbn [Nat.add firstn skipn app]. f_equal. apply IH.
Qed.

Lemma concat_gsplit_after cuts sep : forall s, concat (gsplit cuts sep (length sep) s) = s.
Proof.
  induction cuts as [|c IH]; intros s; [cbn; apply app_nil_r|].
  cbn [gsplit]. destruct (index s sep) as [m|] eqn:E; [|cbn; apply app_nil_r].
  cbn [concat]. rewrite IH. apply firstn_skipn.
Qed.

(* after [length s] cuts nothing is left to cut: the bound is never hit *)
Lemma gsplit_fuel sep save : sep <> [] -> forall c1 c2 s, length s <= c1 -> length s <= c2 ->
  gsplit c1 sep save s = gsplit c2 sep save s.
Proof.
  intros NE. induction c1 as [|c1 IH]; intros c2 s H1 H2.
  - destruct s; [|cbn [length] in H1; lia].
    destruct c2; cbn [gsplit]; [reflexivity|].
    destruct (index [] sep) eqn:E; [|reflexivity].
    apply index_bound in E. destruct sep; [congruence | cbn [length] in E; lia].
  - destruct c2 as [|c2].
    + destruct s; [|cbn [length] in H2; lia]. cbn [gsplit].
      destruct (index [] sep) eqn:E; [|reflexivity].
      apply index_bound in E. destruct sep; [congruence | cbn [length] in E; lia].
    + cbn [gsplit]. destruct (index s sep) as [m|] eqn:E; [|reflexivity]. f_equal.
      pose proof (index_bound _ _ _ E) as Hb.
      assert (0 < length sep) by (destruct sep; [congruence | cbn [length]; lia]).
      apply IH; rewrite skipn_length; lia.
Qed.

Lemma gsplit_pieces_sep_free sep : sep <> [] -> forall c s, length s <= c ->
  Forall (fun p => contains p sep = false) (gsplit c sep 0 s).
Proof.
  intros NE. induction c as [|c IH]; intros s Hl.
  - destruct s; [|cbn [length] in Hl; lia]. cbn [gsplit]. constructor; [|constructor].
    unfold contains. destruct (index [] sep) eqn:E; [|reflexivity].
    apply index_bound in E. destruct sep; [congruence | cbn [length] in E; lia].
  - cbn [gsplit]. destruct (index s sep) as [m|] eqn:E.
    + pose proof (index_bound _ _ _ E) as Hb.
      assert (0 < length sep) by (destruct sep; [congruence | cbn [length]; lia]).
      constructor.
      * rewrite Nat.add_0_r. destruct (contains (firstn m s) sep) eqn:C; [|reflexivity]. exfalso.
        apply contains_spec in C as (a & b & C).
        pose proof (index_some _ _ _ E) as Es. rewrite C in Es. rewrite <- !app_assoc in Es.
        pose proof (index_least _ _ _ E _ _ Es) as Hle.
        apply (f_equal (@length _)) in C. rewrite firstn_length, !app_length in C. lia.
      * apply IH. rewrite skipn_length. lia.
    + constructor; [|constructor]. unfold contains. rewrite E. reflexivity.
Qed.

Lemma gsplit_length cuts sep save : forall s, length (gsplit cuts sep save s) <= S cuts.
Proof.
  induction cuts as [|c IH]; intros s; [cbn; lia|].
  cbn [gsplit]. destruct (index s sep); cbn [length]; [|lia]. specialize (IH (skipn (n + length sep) s)). lia.
Qed.

(* explode *)
Lemma concat_explode_k k : forall cs, concat (explode_k k cs) = concat cs.
Proof.
  induction k as [|k IH]; intros cs.
  - destruct cs as [|c [|d t]]; cbn [explode_k concat]; rewrite ?app_nil_r; reflexivity.
  - destruct cs as [|c [|d t]]; cbn [explode_k]; try reflexivity.
    change (concat (c :: explode_k k (d :: t)) = concat (c :: d :: t)).
    cbn [concat]. f_equal. apply (IH (d :: t)).
Qed.

Lemma explode_k_all k : forall cs, length cs <= S k -> explode_k k cs = cs.
Proof.
  induction k as [|k IH]; intros cs H.
  - destruct cs as [|c [|d t]]; try reflexivity. cbn [length] in H. lia.
  - destruct cs as [|c [|d t]]; try reflexivity. cbn [explode_k]. f_equal.
    apply IH. cbn [length] in *. lia.
Qed.

Lemma explode_k_length k : forall cs, length (explode_k k cs) <= S k.
Proof.
  induction k as [|k IH]; intros cs.
  - destruct cs as [|c [|d t]]; cbn; lia.
  - destruct cs as [|c [|d t]]; cbn [explode_k length]; try lia.
    specialize (IH (d :: t)). lia.
Qed.

Lemma nonempty_pieces_length (l : list str) : Forall (fun c => c <> []) l -> length l <= length (concat l).
Proof.
  induction 1 as [|c l Hc F IH]; [cbn; lia|].
  cbn [concat length]. rewrite app_length. destruct c; [congruence|]. cbn [length]. lia.
Qed.

Lemma chunks_length s : length (chunks s) <= length s.
Proof.
  rewrite <- (runes_concat s) at 2. apply nonempty_pieces_length.
  unfold chunks. apply Forall_map. apply runes_chunks_nonempty.
Qed.

(* ---------- replace ---------- *)
Lemma replace_ne_join cuts old new : forall s,
  replace_ne cuts old new s = join (gsplit cuts old 0 s) new.
Proof.
  induction cuts as [|c IH]; intros s; [reflexivity|].
  cbn [replace_ne gsplit]. destruct (index s old) as [m|]; [|reflexivity].
  rewrite join_cons by apply gsplit_nonempty. rewrite IH, Nat.add_0_r. reflexivity.
Qed.

(* ---------- trimPrefix / trimSuffix ---------- *)
Lemma trim_prefix_app p s : trim_prefix (p ++ s) p = s.
Proof.
  unfold trim_prefix. rewrite (has_prefix_app (p ++ s) p s eq_refl).
  rewrite skipn_app, Nat.sub_diag, skipn_all. reflexivity.
Qed.
Lemma trim_prefix_no p s : has_prefix s p = false -> trim_prefix s p = s.
Proof. unfold trim_prefix. intros ->. reflexivity. Qed.
Lemma trim_prefix_spec s p :
  (exists r, s = p ++ r /\ trim_prefix s p = r) \/ ((forall r, s <> p ++ r) /\ trim_prefix s p = s).
Proof.
  destruct (has_prefix s p) eqn:H.
  - left. apply has_prefix_spec in H as [r ->]. exists r. split; [reflexivity | apply trim_prefix_app].
  - right. split; [|apply trim_prefix_no; exact H].
    intros r E. rewrite (has_prefix_app _ _ _ E) in H. discriminate.
Qed.

Lemma trim_suffix_app s suf : trim_suffix (s ++ suf) suf = s.
Proof.
  unfold trim_suffix. assert (H : has_suffix (s ++ suf) suf = true) by (apply has_suffix_spec; eauto).
  rewrite H, app_length, Nat.add_sub, firstn_app, Nat.sub_diag, firstn_O, app_nil_r, firstn_all. reflexivity.
Qed.
Lemma trim_suffix_no s suf : has_suffix s suf = false -> trim_suffix s suf = s.
Proof. unfold trim_suffix. intros ->. reflexivity. Qed.
Lemma trim_suffix_spec s suf :
  (exists r, s = r ++ suf /\ trim_suffix s suf = r) \/ ((forall r, s <> r ++ suf) /\ trim_suffix s suf = s).
Proof.
  destruct (has_suffix s suf) eqn:H.
  - left. apply has_suffix_spec in H as [r ->]. exists r. split; [reflexivity | apply trim_suffix_app].
  - right. split; [|apply trim_suffix_no; exact H].
    intros r E. assert (T : has_suffix s suf = true) by (apply has_suffix_spec; eauto). congruence.
Qed.
