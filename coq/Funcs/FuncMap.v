(* template_funcs.FuncMap: the table of functions offered to templates, with the argument
   order of the template call convention (subject string LAST, so that pipelines work).
   [apply] is what a call {{ f a1 .. an }} evaluates to.  Not modelled (named in the
   manifest entry): snakecase kebabcase matchString ceil floor round randInt. *)
From Coq Require Import NArith ZArith.
From Mk Require Import Lib.Bytes Funcs.Utf8 Funcs.Strings Funcs.Arith Funcs.Case Funcs.Path.

(* wrappers, in FuncMap argument order *)
Definition fm_contains (substr s : str) : bool := contains s substr.
Definition fm_has_prefix (prefix s : str) : bool := has_prefix s prefix.
Definition fm_has_suffix (suffix s : str) : bool := has_suffix s suffix.
Definition fm_join (sep : str) (elems : list str) : str := join elems sep.
Definition fm_replace (old new : str) (n : Z) (s : str) : str := replace s old new n.
Definition fm_replace_all (old new s : str) : str := replace_all s old new.
Definition fm_split (sep s : str) : list str := split s sep.
Definition fm_split_after (sep s : str) : list str := split_after s sep.
Definition fm_split_after_n (sep : str) (n : Z) (s : str) : list str := split_after_n s sep n.
Definition fm_trim (cutset s : str) : str := trim s cutset.
Definition fm_trim_left (cutset s : str) : str := trim_left s cutset.
Definition fm_trim_right (cutset s : str) : str := trim_right s cutset.
Definition fm_trim_prefix (prefix s : str) : str := trim_prefix s prefix.
Definition fm_trim_suffix (suffix s : str) : str := trim_suffix s suffix.

Inductive fn :=
| FContains | FHasPrefix | FHasSuffix | FJoin | FReplace | FReplaceAll | FSplit | FSplitAfter
| FSplitAfterN | FTrim | FTrimLeft | FTrimPrefix | FTrimRight | FTrimSpace | FTrimSuffix
| FLower | FUpper | FCamelcase | FFirstIsLower | FFirstLower | FFirstUpper | FExported
| FQuoteMeta | FBase | FClean | FDir | FReadFile | FExpandEnv | FGetenv
| FAdd | FDecr | FDiv | FIncr | FMin | FMod | FMul | FSub.

Inductive arg := AStr (s : str) | AInt (z : Z) | AList (l : list str).
Inductive val := VBool (b : bool) | VStr (s : str) | VList (l : list str) | VInt (z : Z).
(* Panic: a run-time panic inside the function (text/template reports it as an error);
   Err: the function returned an error, or the call is ill-typed (template error). *)
Inductive res := Val (v : val) | Panic | Err.

Record world := { w_env : list (str * str); w_files : list (str * str) }.

Fixpoint ints (l : list arg) : option (list Z) :=
  match l with
  | [] => Some []
  | AInt z :: t => option_map (cons z) (ints t)
  | _ :: _ => None
  end.

Definition of_ires (r : ires) : res := match r with IVal z => Val (VInt z) | IPanic => Panic end.

Definition read_file (W : world) (p : str) : res :=
  match p with
  | [] => Val (VStr [])
  | _ :: _ => match lookup p (w_files W) with Some c => Val (VStr c) | None => Err end
  end.

Definition apply (U : N -> uinfo) (W : world) (f : fn) (args : list arg) : res :=
  match f, args with
  | FContains, [AStr a; AStr s] => Val (VBool (fm_contains a s))
  | FHasPrefix, [AStr a; AStr s] => Val (VBool (fm_has_prefix a s))
  | FHasSuffix, [AStr a; AStr s] => Val (VBool (fm_has_suffix a s))
  | FJoin, [AStr sep; AList l] => Val (VStr (fm_join sep l))
  | FReplace, [AStr o; AStr n; AInt k; AStr s] => Val (VStr (fm_replace o n k s))
  | FReplaceAll, [AStr o; AStr n; AStr s] => Val (VStr (fm_replace_all o n s))
  | FSplit, [AStr sep; AStr s] => Val (VList (fm_split sep s))
  | FSplitAfter, [AStr sep; AStr s] => Val (VList (fm_split_after sep s))
  | FSplitAfterN, [AStr sep; AInt n; AStr s] => Val (VList (fm_split_after_n sep n s))
  | FTrim, [AStr c; AStr s] => Val (VStr (fm_trim c s))
  | FTrimLeft, [AStr c; AStr s] => Val (VStr (fm_trim_left c s))
  | FTrimRight, [AStr c; AStr s] => Val (VStr (fm_trim_right c s))
  | FTrimPrefix, [AStr p; AStr s] => Val (VStr (fm_trim_prefix p s))
  | FTrimSuffix, [AStr p; AStr s] => Val (VStr (fm_trim_suffix p s))
  | FTrimSpace, [AStr s] => Val (VStr (trim_space s))
  | FLower, [AStr s] => Val (VStr (lower U s))
  | FUpper, [AStr s] => Val (VStr (upper U s))
  | FCamelcase, [AStr s] => Val (VStr (camelcase U s))
  | FFirstIsLower, [AStr s] => Val (VBool (first_is_lower U s))
  | FFirstLower, [AStr s] => Val (VStr (first_lower U s))
  | FFirstUpper, [AStr s] => Val (VStr (first_upper U s))
  | FExported, [AStr s] => Val (VStr (exported U s))
  | FQuoteMeta, [AStr s] => Val (VStr (quote_meta s))
  | FBase, [AStr s] => Val (VStr (base s))
  | FClean, [AStr s] => Val (VStr (clean s))
  | FDir, [AStr s] => Val (VStr (dir s))
  | FReadFile, [AStr p] => read_file W p
  | FExpandEnv, [AStr s] => Val (VStr (expand_env (w_env W) s))
  | FGetenv, [AStr k] => Val (VStr (getenv (w_env W) k))
  | FIncr, [AInt i] => Val (VInt (incr i))
  | FDecr, [AInt i] => Val (VInt (decr i))
  | FAdd, AInt i :: t => match ints t with Some l => Val (VInt (add i l)) | None => Err end
  | FSub, AInt i :: t => match ints t with Some l => Val (VInt (sub i l)) | None => Err end
  | FMul, AInt i :: t => match ints t with Some l => Val (VInt (mul i l)) | None => Err end
  | FDiv, AInt i :: t => match ints t with Some l => of_ires (div i l) | None => Err end
  | FMod, AInt i :: t => match ints t with Some l => of_ires (modulo i l) | None => Err end
  | FMin, l => match ints l with Some xs => of_ires (minimum xs) | None => Err end
  | _, _ => Err
  end.
