(* Go's strings package (the functions reachable from template_funcs.FuncMap) over byte
   strings, in the stdlib argument order (subject first).  The FuncMap wrappers with the
   subject LAST are in Funcs/FuncMap.v.  Model only; proofs in Strings_proofs.v. *)
From Coq Require Import NArith ZArith.
From Mk Require Import Lib.Bytes Funcs.Utf8.

(* strings.Index: offset of the first occurrence (Some 0 for the empty needle) *)
Fixpoint index (s sub : str) : option nat :=
  match s with
  | [] => if has_prefix [] sub then Some 0 else None
  | _ :: t => if has_prefix s sub then Some 0 else option_map S (index t sub)
  end.

Definition contains (s sub : str) : bool := match index s sub with Some _ => true | None => false end.
Definition has_suffix (s suf : str) : bool := has_prefix (rev s) (rev suf).

Fixpoint join (elems : list str) (sep : str) : str :=
  match elems with
  | [] => []
  | a :: t => match t with [] => a | _ :: _ => a ++ sep ++ join t sep end
  end.

(* genSplit's loop for a non-empty separator: at most [cuts] cuts, leftmost match first;
   [save] = how many bytes of the separator stay attached to the piece (0 or length sep). *)
Fixpoint gsplit (cuts : nat) (sep : str) (save : nat) (s : str) : list str :=
  match cuts with
  | O => [s]
  | S c =>
    match index s sep with
    | None => [s]
    | Some m => firstn (m + save) s :: gsplit c sep save (skipn (m + length sep) s)
    end
  end.

(* explode: at most k single UTF-8 sequences, then the undivided rest *)
Fixpoint explode_k (k : nat) (cs : list str) : list str :=
  match cs with
  | [] => []
  | c :: t =>
    match t with
    | [] => [c]
    | _ :: _ => match k with O => [concat cs] | S k' => c :: explode_k k' t end
    end
  end.

(* number of cuts allowed by the count argument n (<0: unlimited; clamped like Go does) *)
Definition cuts_of (n : Z) (s : str) : nat :=
  if (n <? 0)%Z then length s else Z.to_nat (Z.min (n - 1) (Z.of_nat (length s))).

Definition gen_split (s sep : str) (save : nat) (n : Z) : list str :=
  if (n =? 0)%Z then []
  else match sep with
       | [] => explode_k (cuts_of n s) (chunks s)
       | _ :: _ => gsplit (cuts_of n s) sep save s
       end.

Definition split (s sep : str) : list str := gen_split s sep 0 (-1).
Definition split_after (s sep : str) : list str := gen_split s sep (length sep) (-1).
Definition split_after_n (s sep : str) (n : Z) : list str := gen_split s sep (length sep) n.

(* strings.Replace *)
Fixpoint replace_ne (cuts : nat) (old new s : str) : str :=
  match cuts with
  | O => s
  | S c =>
    match index s old with
    | None => s
    | Some m => firstn m s ++ new ++ replace_ne c old new (skipn (m + length old) s)
    end
  end.

Fixpoint repl_after (k : nat) (new : str) (cs : list str) : str :=
  match cs with
  | [] => []
  | c :: t => match k with O => concat cs | S k' => c ++ new ++ repl_after k' new t end
  end.
Definition repl_empty (k : nat) (new : str) (cs : list str) : str :=
  match k with O => concat cs | S k' => new ++ repl_after k' new cs end.

Definition repl_count (n : Z) (s : str) : nat :=
  if (n <? 0)%Z then S (length s) else Z.to_nat (Z.min n (Z.of_nat (S (length s)))).

Definition replace (s old new : str) (n : Z) : str :=
  if seqb old new || (n =? 0)%Z then s
  else match old with
       | [] => repl_empty (repl_count n s) new (chunks s)
       | _ :: _ => replace_ne (repl_count n s) old new s
       end.
Definition replace_all (s old new : str) : str := replace s old new (-1).

(* strings.TrimPrefix / TrimSuffix *)
Definition trim_prefix (s p : str) : str := if has_prefix s p then skipn (length p) s else s.
Definition trim_suffix (s suf : str) : str :=
  if has_suffix s suf then firstn (length s - length suf) s else s.

(* strings.ContainsRune (IndexRune >= 0) *)
Definition contains_rune (set : str) (r : N) : bool :=
  if (r <? 128)%N then existsb (fun b => N.eqb (bN b) r) set
  else if (r =? rune_error)%N then existsb (fun p => N.eqb (fst p) rune_error) (runes set)
  else if negb (valid_rune r) then false
  else contains set (encode r).

Fixpoint drop_while {A} (f : A -> bool) (l : list A) : list A :=
  match l with
  | [] => []
  | x :: t => if f x then drop_while f t else l
  end.

(* TrimLeftFunc / TrimRightFunc over the UTF-8 chunks of s *)
Definition trim_left_func (f : N -> bool) (s : str) : str :=
  concat (map snd (drop_while (fun p => f (fst p)) (runes s))).
Definition trim_right_func (f : N -> bool) (s : str) : str :=
  concat (map snd (rev (drop_while (fun p => f (fst p)) (rev (runes s))))).

Definition trim_left (s cutset : str) : str := trim_left_func (contains_rune cutset) s.
Definition trim_right (s cutset : str) : str := trim_right_func (contains_rune cutset) s.
Definition trim (s cutset : str) : str := trim_left (trim_right s cutset) cutset.

(* unicode.IsSpace: the White_Space property (stable since Unicode 4.1) *)
Definition is_space (r : N) : bool :=
  (((9 <=? r) && (r <=? 13)) || (r =? 32) || (r =? 133) || (r =? 160) || (r =? 5760)
   || ((8192 <=? r) && (r <=? 8202)) || (r =? 8232) || (r =? 8233) || (r =? 8239)
   || (r =? 8287) || (r =? 12288))%N.
Definition trim_space (s : str) : str := trim_left_func is_space (trim_right_func is_space s).

(* regexp.QuoteMeta: a backslash before each of \.+*?()|[]{}^$ *)
Definition special_byte (b : byte) : bool :=
  existsb (beqb b) (B "\.+*?()|[]{}^$").
Definition quote_meta (s : str) : str :=
  flat_map (fun b => if special_byte b then [x5c; b] else [b]) s.
