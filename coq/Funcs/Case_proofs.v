(* Proofs about Funcs/Case.v, for every Unicode table U. *)
From Coq Require Import NArith.
From Mk Require Import Lib.Bytes Funcs.Utf8 Funcs.Utf8_proofs Funcs.Strings Funcs.Case.
Local Open Scope N_scope.

Section CaseProofs.
Variable U : N -> uinfo.

Lemma encode_app_cons r rest : exists b t, encode r ++ rest = b :: t.
Proof.
  pose proof (encode_nonempty r) as NE. destruct (encode r) as [|b t]; [congruence|].
  exists b, (t ++ rest). reflexivity.
Qed.

(* --- firstIsLower --- *)
Lemma first_is_lower_empty : first_is_lower U [] = false.
Proof. reflexivity. Qed.

Lemma first_is_lower_rune r rest : valid_rune r = true ->
  first_is_lower U (encode r ++ rest) = is_letter U r && negb (is_upper U r).
Proof.
  intros V. destruct (encode_app_cons r rest) as (b & t & E).
  unfold first_is_lower. rewrite E, <- E. rewrite decode_encode by exact V. reflexivity.
Qed.

Lemma first_is_lower_spec s :
  first_is_lower U s = true <->
  s <> [] /\ is_letter U (fst (decode s)) = true /\ is_upper U (fst (decode s)) = false.
Proof.
  destruct s as [|b t]; cbn [first_is_lower].
  - split; [discriminate | intros [H _]; congruence].
  - rewrite andb_true_iff, negb_true_iff. split; [intros [A C]; repeat split; [discriminate|..]; assumption | intros (_ & A & C); split; assumption].
Qed.

(* --- exported --- *)
Lemma exported_empty : exported U [] = [].
Proof. reflexivity. Qed.

Lemma exported_initialism s i : s <> [] -> In i initialisms -> upper U s = i -> exported U s = i.
Proof.
  intros NE Hin Hu. destruct s as [|b t]; [congruence|]. cbn [exported].
  destruct (find (fun i0 => seqb (upper U (b :: t)) i0) initialisms) as [j|] eqn:F.
  - apply find_some in F as [_ F]. apply seqb_eq in F. congruence.
  - exfalso. apply (find_none _ _ F) in Hin. rewrite Hu, seqb_refl in Hin. discriminate.
Qed.

Lemma exported_first_rune r rest : valid_rune r = true ->
  ~ In (upper U (encode r ++ rest)) initialisms ->
  exported U (encode r ++ rest) = encode (to_upper U r) ++ rest.
Proof.
  intros V NI. destruct (encode_app_cons r rest) as (b & t & E).
  unfold exported. rewrite E, <- E.
  destruct (find (fun i => seqb (upper U (encode r ++ rest)) i) initialisms) as [j|] eqn:F.
  - exfalso. apply find_some in F as [Hin F]. apply seqb_eq in F. rewrite F in NI. contradiction.
  - rewrite decode_encode by exact V.
    destruct (N.eqb_spec (to_upper U r) r) as [Eq|Ne].
    + rewrite Eq. reflexivity.
    + rewrite skipn_app, Nat.sub_diag, skipn_all. reflexivity.
Qed.

(* an invalid first byte is not a letter: the string is returned unchanged *)
Lemma exported_invalid_first s : s <> [] -> fst (decode s) = rune_error ->
  to_upper U rune_error = rune_error -> ~ In (upper U s) initialisms -> exported U s = s.
Proof.
  intros NE D TU NI. destruct s as [|b t]; [congruence|]. cbn [exported].
  destruct (find (fun i => seqb (upper U (b :: t)) i) initialisms) as [j|] eqn:F.
  - exfalso. apply find_some in F as [Hin F]. apply seqb_eq in F. rewrite F in NI. contradiction.
  - destruct (decode (b :: t)) as [r w]. cbn [fst] in D. subst r. rewrite TU, N.eqb_refl. reflexivity.
Qed.

(* the result of exported never starts with a lower-case letter when the table maps to upper case *)
Lemma exported_not_first_lower r rest : valid_rune r = true -> valid_rune (to_upper U r) = true ->
  ~ In (upper U (encode r ++ rest)) initialisms ->
  is_letter U (to_upper U r) = false \/ is_upper U (to_upper U r) = true ->
  first_is_lower U (exported U (encode r ++ rest)) = false.
Proof.
  intros V V' NI H. rewrite exported_first_rune by assumption.
  rewrite first_is_lower_rune by exact V'. destruct H as [-> | ->]; [reflexivity | apply andb_false_r].
Qed.

(* --- firstUpper / firstLower --- *)
Lemma first_upper_rune r rest : valid_rune r = true ->
  first_upper U (encode r ++ rest) =
  if is_lower U r then encode (to_upper U r) ++ rest else encode r ++ rest.
Proof.
  intros V. destruct (encode_app_cons r rest) as (b & t & E).
  unfold first_upper. rewrite E, <- E. rewrite decode_encode by exact V.
  destruct (is_lower U r); [|reflexivity].
  rewrite skipn_app, Nat.sub_diag, skipn_all. reflexivity.
Qed.
Lemma first_lower_rune r rest : valid_rune r = true ->
  first_lower U (encode r ++ rest) =
  if is_upper U r then encode (to_lower U r) ++ rest else encode r ++ rest.
Proof.
  intros V. destruct (encode_app_cons r rest) as (b & t & E).
  unfold first_lower. rewrite E, <- E. rewrite decode_encode by exact V.
  destruct (is_upper U r); [|reflexivity].
  rewrite skipn_app, Nat.sub_diag, skipn_all. reflexivity.
Qed.
Lemma first_upper_empty : first_upper U [] = [].
Proof. reflexivity. Qed.
Lemma first_lower_empty : first_lower U [] = [].
Proof. reflexivity. Qed.

(* --- upper / lower on valid UTF-8 --- *)
Lemma upper_valid rs : forallb valid_rune rs = true -> upper U (encode_all rs) = encode_all (map (to_upper U) rs).
Proof. intros V. unfold upper, map_runes. rewrite rune_vals_encode_all by exact V. reflexivity. Qed.
Lemma lower_valid rs : forallb valid_rune rs = true -> lower U (encode_all rs) = encode_all (map (to_lower U) rs).
Proof. intros V. unfold lower, map_runes. rewrite rune_vals_encode_all by exact V. reflexivity. Qed.

(* --- camelcase --- *)
Lemma camel_loop_length rest : forall r0 up, (length (camel_loop U r0 up rest) <= S (length rest))%nat.
Proof.
  induction rest as [|x t IH]; intros r0 up; cbn [camel_loop length]; [lia|].
  destruct (is_connector x && is_connector r0).
  { cbn [length]. specialize (IH x up). lia. }
  destruct (is_connector r0).
  { specialize (IH (to_upper U x) (is_upper U x)). lia. }
  destruct up.
  - destruct (is_upper U x); cbn [length]; [specialize (IH (to_lower U x) true) | specialize (IH x false)]; lia.
  - cbn [length]. specialize (IH x false). lia.
Qed.

Definition has_word (rs : list N) : bool := existsb (fun r => negb (is_connector r)) rs.

Lemma camel_runes_no_growth rs : has_word rs = true -> (length (camel_runes U rs) <= length rs)%nat.
Proof.
  induction rs as [|r t IH]; intros H; [discriminate|].
  cbn [camel_runes]. destruct (is_connector r) eqn:C.
  - destruct t as [|x t']; [cbn in H; rewrite C in H; discriminate|].
    cbn [length]. apply le_n_S. apply IH. unfold has_word in *. cbn [existsb] in H. rewrite C in H. exact H.
  - destruct t as [|x t']; [cbn; lia|].
    pose proof (camel_loop_length (x :: t') (to_lower U r) (is_upper U r)). cbn [length] in *. lia.
Qed.

(* the class of known finding C16-camelcase-connectors-only *)
Lemma camel_runes_connectors_only rs : rs <> [] -> forallb is_connector rs = true ->
  camel_runes U rs = rs ++ [last rs 0].
Proof.
  induction rs as [|r t IH]; intros NE H; [congruence|].
  cbn [forallb] in H. apply andb_true_iff in H as [C H]. cbn [camel_runes]. rewrite C.
  destruct t as [|x t']; [reflexivity|].
  rewrite IH by (discriminate || exact H). reflexivity.
Qed.
End CaseProofs.
