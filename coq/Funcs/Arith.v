(* The integer helpers Add/Sub/Mul/Div/Mod/Incr/Decr/Min instantiated at Go's int (64-bit
   two's complement): every operation result is wrapped; division truncates toward zero;
   a zero divisor and an empty Min panic (text/template turns that into an error). *)
From Coq Require Import ZArith List.
Import ListNotations.
Local Open Scope Z_scope.

Definition two63 : Z := 9223372036854775808.
Definition two64 : Z := 18446744073709551616.
Definition min_int : Z := - two63.
Definition max_int : Z := two63 - 1.
Definition in_range (z : Z) : Prop := min_int <= z <= max_int.
Definition in_rangeb (z : Z) : bool := (min_int <=? z) && (z <=? max_int).

Definition wrap (z : Z) : Z := (z + two63) mod two64 - two63.

Inductive ires := IVal (z : Z) | IPanic.

Definition add (i1 : Z) (rest : list Z) : Z := fold_left (fun a b => wrap (a + b)) rest i1.
Definition sub (i1 : Z) (rest : list Z) : Z := fold_left (fun a b => wrap (a - b)) rest i1.
Definition mul (i1 : Z) (rest : list Z) : Z := fold_left (fun a b => wrap (a * b)) rest i1.
Definition incr (i : Z) : Z := wrap (i + 1).
Definition decr (i : Z) : Z := wrap (i - 1).

Fixpoint div (i1 : Z) (rest : list Z) : ires :=
  match rest with
  | [] => IVal i1
  | d :: t => if d =? 0 then IPanic else div (wrap (Z.quot i1 d)) t
  end.
Fixpoint modulo (i1 : Z) (rest : list Z) : ires :=
  match rest with
  | [] => IVal i1
  | d :: t => if d =? 0 then IPanic else modulo (wrap (Z.rem i1 d)) t
  end.

(* slices.Min: panics on the empty list *)
Definition minimum (xs : list Z) : ires :=
  match xs with
  | [] => IPanic
  | x :: t => IVal (fold_left Z.min t x)
  end.
