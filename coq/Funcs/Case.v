(* The case functions of the function map: lower upper firstLower firstUpper firstIsLower
   exported camelcase.  Go's unicode tables are a Section parameter [U] (classification and
   simple case mapping per code point); the harness instantiates it with the table dumped
   from Go's unicode package for the code points of the run.
   [first_is_lower] and [exported] describe the behaviour WITH fixes/c16-first-rune.diff
   (first rune decoded with unicode/utf8, length checked first). *)
From Coq Require Import NArith.
From Mk Require Import Lib.Bytes Funcs.Utf8 Funcs.Strings.
Local Open Scope N_scope.

Record uinfo := { u_letter : bool; u_upper : bool; u_lower : bool; u_toupper : N; u_tolower : N }.

Definition initialisms : list str :=
  [B "ACL"; B "API"; B "ASCII"; B "CPU"; B "CSS"; B "DNS"; B "EOF"; B "GUID"; B "HTML"; B "HTTP";
   B "HTTPS"; B "ID"; B "IP"; B "JSON"; B "LHS"; B "QPS"; B "RAM"; B "RHS"; B "RPC"; B "SLA";
   B "SMTP"; B "SQL"; B "SSH"; B "TCP"; B "TLS"; B "TTL"; B "UDP"; B "UI"; B "UID"; B "UUID";
   B "URI"; B "URL"; B "UTF8"; B "VM"; B "XML"; B "XMPP"; B "XSRF"; B "XSS"].

Definition is_connector (r : N) : bool := (r =? 45) || (r =? 95) || is_space r.

Section Case.
Variable U : N -> uinfo.
Definition is_letter r := u_letter (U r).
Definition is_upper r := u_upper (U r).
Definition is_lower r := u_lower (U r).
Definition to_upper r := u_toupper (U r).
Definition to_lower r := u_tolower (U r).

(* strings.Map over the runes of s (an invalid byte is a RuneError and is re-encoded) *)
Definition map_runes (f : N -> N) (s : str) : str := encode_all (map f (rune_vals s)).
Definition upper (s : str) : str := map_runes to_upper s.
Definition lower (s : str) : str := map_runes to_lower s.

(* xstrings.FirstRuneToUpper / FirstRuneToLower *)
Definition first_upper (s : str) : str :=
  match s with
  | [] => []
  | _ :: _ => let '(r, w) := decode s in if is_lower r then encode (to_upper r) ++ skipn w s else s
  end.
Definition first_lower (s : str) : str :=
  match s with
  | [] => []
  | _ :: _ => let '(r, w) := decode s in if is_upper r then encode (to_lower r) ++ skipn w s else s
  end.

(* FirstIsLower (fixed): false for "", else first RUNE is a letter and not upper case *)
Definition first_is_lower (s : str) : bool :=
  match s with
  | [] => false
  | _ :: _ => let r := fst (decode s) in is_letter r && negb (is_upper r)
  end.

(* Exported (fixed): "" for "", the initialism when upper s is one, else first RUNE upper-cased *)
Definition exported (s : str) : str :=
  match s with
  | [] => []
  | _ :: _ =>
    match find (fun i => seqb (upper s) i) initialisms with
    | Some i => i
    | None => let '(r, w) := decode s in
              if to_upper r =? r then s else encode (to_upper r) ++ skipn w s
    end
  end.

(* xstrings.ToCamelCase on the rune sequence *)
Fixpoint camel_loop (r0 : N) (up : bool) (rest : list N) : list N :=
  match rest with
  | [] => [if up then to_lower r0 else r0]
  | x :: t =>
    if is_connector x && is_connector r0 then r0 :: camel_loop x up t
    else if is_connector r0 then camel_loop (to_upper x) (is_upper x) t
    else if up then
      (if is_upper x then r0 :: camel_loop (to_lower x) up t else r0 :: camel_loop x false t)
    else r0 :: camel_loop x up t
  end.

Fixpoint camel_runes (rs : list N) : list N :=
  match rs with
  | [] => []
  | r :: t =>
    if is_connector r then
      match t with
      | [] => [r; r]          (* only connectors: xstrings writes the last one twice *)
      | _ :: _ => r :: camel_runes t
      end
    else
      match t with
      | [] => [to_lower r]
      | _ :: _ => camel_loop (to_lower r) (is_upper r) t
      end
  end.

Definition camelcase (s : str) : str := encode_all (camel_runes (rune_vals s)).
End Case.
