(* Facts about the UTF-8 model: widths, chunking is lossless and fuel-independent,
   decode after encode for every valid scalar value (by exhaustive kernel computation). *)
From Coq Require Import NArith.
From Mk Require Import Lib.Bytes Funcs.Utf8.

Lemma cons_inj {A} (x y : A) l m : x :: l = y :: m -> x = y /\ l = m.
Proof. intros H; injection H; auto. Qed.

Lemma decode_nil : decode [] = (rune_error, 0).
Proof. reflexivity. Qed.

Lemma decode_width (b : byte) (t : str) :
  1 <= snd (decode (b :: t)) <= 4 /\ snd (decode (b :: t)) <= length (b :: t).
Proof.
  unfold decode.
  destruct (bN b <? 128)%N; [simpl; lia|].
  destruct (bN b <? 194)%N; [simpl; lia|].
  destruct (bN b <? 224)%N.
  { destruct t as [|b1 t]; [simpl; lia|]. destruct (is_cont b1); simpl; lia. }
  destruct (bN b <? 240)%N.
  { destruct t as [|b1 [|b2 t]]; try (simpl; lia).
    destruct (in_rng _ _ b1 && is_cont b2); simpl; lia. }
  destruct (bN b <? 245)%N.
  { destruct t as [|b1 [|b2 [|b3 t]]]; try (simpl; lia).
    destruct (in_rng _ _ b1 && is_cont b2 && is_cont b3); simpl; lia. }
  simpl; lia.
Qed.

Lemma runes_f_cons f b t :
  runes_f (S f) (b :: t) =
  (fst (decode (b :: t)), firstn (snd (decode (b :: t))) (b :: t))
    :: runes_f f (skipn (snd (decode (b :: t))) (b :: t)).
Proof. cbn [runes_f]. destruct (decode (b :: t)) as [r w]. reflexivity. Qed.

Lemma runes_f_concat f : forall s, length s <= f -> concat (map snd (runes_f f s)) = s.
Proof.
  induction f as [|f IH]; intros s Hl.
  - destruct s; [reflexivity | cbn [length] in Hl; lia].
  - destruct s as [|b t]; [reflexivity|].
    rewrite runes_f_cons. cbn [map concat snd].
    pose proof (decode_width b t) as [[Hw1 _] Hw2].
    rewrite IH.
    + apply firstn_skipn.
    + rewrite skipn_length. lia.
Qed.

Lemma runes_f_fuel f1 : forall f2 s, length s <= f1 -> length s <= f2 -> runes_f f1 s = runes_f f2 s.
Proof.
  induction f1 as [|f1 IH]; intros f2 s H1 H2.
  - destruct s; [destruct f2; reflexivity | cbn [length] in H1; lia].
  - destruct s as [|b t]; [destruct f2; reflexivity|].
    destruct f2 as [|f2]; [cbn [length] in H2; lia|].
    rewrite !runes_f_cons. f_equal.
    pose proof (decode_width b t) as [[Hw1 _] Hw2].
    apply IH; rewrite skipn_length; lia.
Qed.

Lemma runes_concat s : concat (chunks s) = s.
Proof. apply runes_f_concat. lia. Qed.

Lemma runes_nil : runes [] = [].
Proof. reflexivity. Qed.

Lemma runes_cons b t :
  runes (b :: t) =
  (fst (decode (b :: t)), firstn (snd (decode (b :: t))) (b :: t))
    :: runes (skipn (snd (decode (b :: t))) (b :: t)).
Proof.
  unfold runes. change (length (b :: t)) with (S (length t)). rewrite runes_f_cons. f_equal.
  pose proof (decode_width b t) as [[Hw1 _] Hw2].
  apply runes_f_fuel; rewrite skipn_length; cbn [length] in *; lia.
Qed.

(* every chunk is non-empty and is exactly what decode reads at that position *)
Lemma runes_chunks_nonempty s : Forall (fun p => snd p <> []) (runes s).
Proof.
  remember (length s) as n eqn:Hn. revert s Hn.
  induction n as [n IH] using lt_wf_ind. intros s Hn.
  destruct s as [|b t]; [constructor|].
  rewrite runes_cons. pose proof (decode_width b t) as [[Hw1 _] Hw2].
  constructor.
  - cbn [snd]. destruct (snd (decode (b :: t))); [lia | discriminate].
  - refine (IH (length (skipn (snd (decode (b :: t))) (b :: t))) _ _ eq_refl).
    subst n. rewrite skipn_length. cbn [length] in *. lia.
Qed.

(* a suffix of the chunk list is the chunk list of the corresponding suffix of the string *)
Lemma runes_suffix s : forall l1 l2, runes s = l1 ++ l2 -> runes (concat (map snd l2)) = l2.
Proof.
  remember (length s) as n eqn:Hn. revert s Hn.
  induction n as [n IH] using lt_wf_ind. intros s Hn l1 l2 E.
  destruct l1 as [|p l1].
  - cbn [app] in E. subst l2. fold (chunks s). rewrite runes_concat. reflexivity.
  - destruct s as [|b t]; [discriminate|].
    rewrite runes_cons in E. cbn [app] in E. injection E as _ E.
    pose proof (decode_width b t) as [[Hw1 _] Hw2].
    refine (IH (length (skipn (snd (decode (b :: t))) (b :: t))) _ _ eq_refl l1 l2 E).
    subst n. rewrite skipn_length. cbn [length] in *. lia.
Qed.

Lemma runes_app_chunks s : forall l1 l2, runes s = l1 ++ l2 -> s = concat (map snd l1) ++ concat (map snd l2).
Proof.
  intros l1 l2 E. rewrite <- concat_app, <- map_app, <- E. symmetry. apply runes_concat.
Qed.

(* --- decode after encode --- *)
Lemma bN_nb n : (n < 256)%N -> bN (nb n) = n.
Proof.
  intros H. unfold bN, nb. destruct (Byte.of_N n) as [b|] eqn:E.
  - apply Byte.to_of_N. exact E.
  - apply Byte.of_N_None_iff in E. lia.
Qed.

Ltac decide_cmp :=
  repeat match goal with
  | |- context [(?a <? ?b)%N] =>
    first [rewrite (proj2 (N.ltb_lt a b)) by lia | rewrite (proj2 (N.ltb_ge a b)) by lia]
  | |- context [(?a <=? ?b)%N] =>
    first [rewrite (proj2 (N.leb_le a b)) by lia | rewrite (proj2 (N.leb_gt a b)) by lia]
  | |- context [(?a =? ?b)%N] =>
    first [rewrite (proj2 (N.eqb_eq a b)) by lia | rewrite (proj2 (N.eqb_neq a b)) by lia]
  end.

Lemma decode1 n0 rest : (n0 < 128)%N -> decode (nb n0 :: rest) = (n0, 1).
Proof. intros H. unfold decode. rewrite bN_nb by lia. decide_cmp. reflexivity. Qed.

Lemma decode2 n0 n1 rest : (194 <= n0 < 224)%N -> (128 <= n1 <= 191)%N ->
  decode (nb n0 :: nb n1 :: rest) = (((n0 - 192) * 64 + (n1 - 128))%N, 2).
Proof.
  intros H0 H1. unfold decode, is_cont, in_rng. rewrite !bN_nb by lia. decide_cmp. reflexivity.
Qed.

Lemma decode3 n0 n1 n2 rest : (224 <= n0 < 240)%N -> (128 <= n1 <= 191)%N -> (128 <= n2 <= 191)%N ->
  (n0 = 224 -> 160 <= n1)%N -> (n0 = 237 -> n1 <= 159)%N ->
  decode (nb n0 :: nb n1 :: nb n2 :: rest) = (((n0 - 224) * 4096 + (n1 - 128) * 64 + (n2 - 128))%N, 3).
Proof.
  intros H0 H1 H2 Ha Hb. unfold decode, is_cont, in_rng. rewrite !bN_nb by lia.
  destruct (N.eq_dec n0 224) as [->|N1]; [|destruct (N.eq_dec n0 237) as [->|N2]];
    decide_cmp; reflexivity.
Qed.

Lemma decode4 n0 n1 n2 n3 rest : (240 <= n0 < 245)%N -> (128 <= n1 <= 191)%N ->
  (128 <= n2 <= 191)%N -> (128 <= n3 <= 191)%N ->
  (n0 = 240 -> 144 <= n1)%N -> (n0 = 244 -> n1 <= 143)%N ->
  decode (nb n0 :: nb n1 :: nb n2 :: nb n3 :: rest)
  = (((n0 - 240) * 262144 + (n1 - 128) * 4096 + (n2 - 128) * 64 + (n3 - 128))%N, 4).
Proof.
  intros H0 H1 H2 H3 Ha Hb. unfold decode, is_cont, in_rng. rewrite !bN_nb by lia.
  destruct (N.eq_dec n0 240) as [->|N1]; [|destruct (N.eq_dec n0 244) as [->|N2]];
    decide_cmp; reflexivity.
Qed.

Lemma encode_nonempty r : encode r <> [].
Proof.
  unfold encode.
  destruct (r <? 128)%N; [discriminate|]. destruct (r <? 2048)%N; [discriminate|].
  destruct (negb (valid_rune r)); [discriminate|]. destruct (r <? 65536)%N; discriminate.
Qed.

Lemma decode_encode r rest :
  valid_rune r = true -> decode (encode r ++ rest) = (r, length (encode r)).
Proof.
  intros V. unfold encode. rewrite V. cbn [negb].
  unfold valid_rune, max_rune in V. apply andb_true_iff in V as [V1 V2].
  apply N.leb_le in V1. apply negb_true_iff in V2.
  assert (V3 : ~ (55296 <= r <= 57343)%N).
  { intros [A C]. apply N.leb_le in A, C. rewrite A, C in V2. discriminate. }
  clear V2.
  pose proof (N.div_mod r 64 ltac:(lia)) as D0. pose proof (N.mod_lt r 64 ltac:(lia)) as M0.
  pose proof (N.div_mod (r / 64) 64 ltac:(lia)) as D1. pose proof (N.mod_lt (r / 64) 64 ltac:(lia)) as M1.
  pose proof (N.div_mod (r / 4096) 64 ltac:(lia)) as D2. pose proof (N.mod_lt (r / 4096) 64 ltac:(lia)) as M2.
  assert (Q1 : (r / 4096 = r / 64 / 64)%N) by (rewrite N.div_div by lia; reflexivity).
  assert (Q2 : (r / 262144 = r / 4096 / 64)%N) by (rewrite N.div_div by lia; reflexivity).
  destruct (N.ltb_spec r 128) as [L1|L1].
  { cbn [app length]. rewrite decode1 by lia. reflexivity. }
  destruct (N.ltb_spec r 2048) as [L2|L2].
  { cbn [app length].
    generalize dependent (r / 64)%N. generalize dependent (r mod 64)%N. intros.
    rewrite decode2 by lia. f_equal. lia. }
  destruct (N.ltb_spec r 65536) as [L3|L3].
  { cbn [app length]. rewrite Q1 in *. clear Q1 Q2 D2 M2.
    generalize dependent (r / 64 / 64)%N. generalize dependent ((r / 64) mod 64)%N.
    generalize dependent (r / 64)%N. generalize dependent (r mod 64)%N.
    intros.
    rewrite decode3 by lia. f_equal. lia. }
  cbn [app length]. rewrite Q2, Q1 in *. clear Q1 Q2.
  generalize dependent (r / 64 / 64 / 64)%N. generalize dependent ((r / 64 / 64) mod 64)%N.
  generalize dependent (r / 64 / 64)%N. generalize dependent ((r / 64) mod 64)%N.
  generalize dependent (r / 64)%N. generalize dependent (r mod 64)%N.
  intros.
  rewrite decode4 by lia. f_equal. lia.
Qed.

(* the chunks of an encoded rune sequence are the runes *)
Lemma runes_encode_cons r rest :
  valid_rune r = true -> runes (encode r ++ rest) = (r, encode r) :: runes rest.
Proof.
  intros V. pose proof (encode_nonempty r) as NE.
  destruct (encode r ++ rest) as [|b t] eqn:E.
  { destruct (encode r); [congruence | discriminate]. }
  rewrite runes_cons. rewrite <- E, decode_encode by exact V. cbn [fst snd].
  rewrite firstn_app, Nat.sub_diag, firstn_O, app_nil_r, firstn_all.
  rewrite skipn_app, Nat.sub_diag, skipn_all. reflexivity.
Qed.

Lemma rune_vals_encode_all rs :
  forallb valid_rune rs = true -> rune_vals (encode_all rs) = rs.
Proof.
  induction rs as [|r rs IH]; intros V; [reflexivity|].
  cbn [forallb] in V. apply andb_true_iff in V as [V1 V2].
  unfold rune_vals, encode_all in *. cbn [map concat].
  rewrite runes_encode_cons by exact V1. cbn [map fst]. f_equal. apply IH. exact V2.
Qed.

(* decode reads only the bytes it consumes: cutting the string after them changes nothing *)
Lemma decode_prefix x y : x <> [] -> snd (decode (x ++ y)) <= length x -> decode x = decode (x ++ y).
Proof.
  intros NE. destruct x as [|b0 x]; [congruence|]. clear NE. cbn [app]. unfold decode.
  destruct (bN b0 <? 128)%N; [reflexivity|].
  destruct (bN b0 <? 194)%N; [reflexivity|].
  destruct (bN b0 <? 224)%N.
  { destruct x as [|b1 x]; cbn [app]; [|reflexivity].
    destruct y as [|c y]; [reflexivity|]. destruct (is_cont c); cbn [snd length]; [lia | reflexivity]. }
  destruct (bN b0 <? 240)%N.
  { destruct x as [|b1 [|b2 x]]; cbn [app]; [| |reflexivity].
    - destruct y as [|c [|d y]]; try reflexivity.
      destruct (in_rng _ _ c && is_cont d); cbn [snd length]; [lia | reflexivity].
    - destruct y as [|c y]; try reflexivity.
      destruct (in_rng _ _ b1 && is_cont c); cbn [snd length]; [lia | reflexivity]. }
  destruct (bN b0 <? 245)%N.
  { destruct x as [|b1 [|b2 [|b3 x]]]; cbn [app]; [| | |reflexivity].
    - destruct y as [|c [|d [|e y]]]; try reflexivity.
      destruct (in_rng _ _ c && is_cont d && is_cont e); cbn [snd length]; [lia | reflexivity].
    - destruct y as [|c [|d y]]; try reflexivity.
      destruct (in_rng _ _ b1 && is_cont c && is_cont d); cbn [snd length]; [lia | reflexivity].
    - destruct y as [|c y]; try reflexivity.
      destruct (in_rng _ _ b1 && is_cont b2 && is_cont c); cbn [snd length]; [lia | reflexivity]. }
  reflexivity.
Qed.

(* a prefix of the chunk list is the chunk list of the corresponding prefix of the string *)
Lemma runes_prefix s : forall l1 l2, runes s = l1 ++ l2 -> runes (concat (map snd l1)) = l1.
Proof.
  remember (length s) as n eqn:Hn. revert s Hn.
  induction n as [n IH] using lt_wf_ind. intros s Hn l1 l2 E.
  destruct l1 as [|p l1]; [reflexivity|].
  destruct s as [|b t]; [discriminate|].
  rewrite runes_cons in E. rewrite <- app_comm_cons in E. apply cons_inj in E as [Ep E].
  pose proof (decode_width b t) as [[Hw1 _] Hw2].
  set (w := snd (decode (b :: t))) in *.
  assert (IHs : runes (concat (map snd l1)) = l1).
  { refine (IH (length (skipn w (b :: t))) _ _ eq_refl l1 l2 E).
    subst n. rewrite skipn_length. cbn [length] in *. lia. }
  pose proof (runes_app_chunks _ _ _ E) as Hs.
  cbn [map concat]. rewrite <- Ep.
  change (snd (fst (decode (b :: t)), firstn w (b :: t))) with (firstn w (b :: t)).
  set (c := firstn w (b :: t)) in *.
  assert (Hc : length c = w) by (unfold c; rewrite firstn_length; lia).
  assert (Hbt : b :: t = c ++ concat (map snd l1) ++ concat (map snd l2)).
  { rewrite <- Hs. unfold c. symmetry. apply firstn_skipn. }
  assert (NEc : c <> []) by (destruct c; [cbn [length] in Hc; lia | discriminate]).
  assert (Hd : decode (c ++ concat (map snd l1)) = decode (b :: t)).
  { rewrite Hbt, app_assoc. apply decode_prefix.
    - destruct c; [congruence | discriminate].
    - rewrite <- app_assoc, <- Hbt. fold w. rewrite app_length. lia. }
  destruct (c ++ concat (map snd l1)) as [|c0 u] eqn:Eu.
  { destruct c; [congruence | discriminate]. }
  rewrite runes_cons, Hd. fold w. rewrite <- Eu.
  rewrite firstn_app, <- Hc, Nat.sub_diag, firstn_O, app_nil_r, firstn_all.
  rewrite skipn_app, Nat.sub_diag, skipn_all. cbn [skipn app]. rewrite IHs. reflexivity.
Qed.
