(* path/filepath Base, Clean, Dir (Unix, lexical), os.Getenv / os.ExpandEnv over an explicit
   environment, ReadFile over an explicit file map.  Model only. *)
From Coq Require Import NArith.
From Mk Require Import Lib.Bytes Funcs.Strings.

Definition slash : byte := x2f.
Definition dotdot : str := B "..".

Definition components (p : str) : list str := gsplit (length p) [slash] 0 p.

(* the stack is kept reversed (top first) *)
Fixpoint clean_stack (rooted : bool) (stack : list str) (cs : list str) : list str :=
  match cs with
  | [] => stack
  | c :: t =>
    if seqb c [] || seqb c (B ".") then clean_stack rooted stack t
    else if seqb c dotdot then
      match stack with
      | top :: below =>
        if seqb top dotdot then clean_stack rooted (dotdot :: stack) t   (* only when not rooted *)
        else clean_stack rooted below t
      | [] => if rooted then clean_stack rooted [] t else clean_stack rooted [dotdot] t
      end
    else clean_stack rooted (c :: stack) t
  end.

Definition clean (p : str) : str :=
  match p with
  | [] => B "."
  | b :: _ =>
    let rooted := beqb b slash in
    let body := join (rev (clean_stack rooted [] (components p))) [slash] in
    if rooted then slash :: body
    else match body with [] => B "." | _ :: _ => body end
  end.

Definition strip_trailing_slashes (p : str) : str := rev (drop_while (beqb slash) (rev p)).
(* the bytes after the last slash *)
Definition after_last_slash (p : str) : str :=
  rev ((fix take (l : str) : str := match l with [] => [] | b :: t => if beqb b slash then [] else b :: take t end) (rev p)).
(* the bytes up to and including the last slash *)
Definition upto_last_slash (p : str) : str := firstn (length p - length (after_last_slash p)) p.

Definition base (p : str) : str :=
  match p with
  | [] => B "."
  | _ :: _ =>
    match after_last_slash (strip_trailing_slashes p) with
    | [] => [slash]
    | r => r
    end
  end.

Definition dir (p : str) : str := clean (upto_last_slash p).

(* --- environment --- *)
Fixpoint lookup (k : str) (m : list (str * str)) : option str :=
  match m with
  | [] => None
  | (k', v) :: t => if seqb k k' then Some v else lookup k t
  end.
Definition getenv (env : list (str * str)) (k : str) : str :=
  match lookup k env with Some v => v | None => [] end.

Definition shell_special (c : byte) : bool := existsb (beqb c) (B "*#$@!?-0123456789").
Definition alnum (c : byte) : bool :=
  let n := Byte.to_nat c in
  beqb c x5f || ((48 <=? n) && (n <=? 57)) || ((97 <=? n) && (n <=? 122)) || ((65 <=? n) && (n <=? 90)).

Fixpoint take_while (f : byte -> bool) (s : str) : str :=
  match s with [] => [] | b :: t => if f b then b :: take_while f t else [] end.

(* os.getShellName on the text after the dollar sign: (name, bytes consumed) *)
Definition shell_name (s : str) : str * nat :=
  match s with
  | [] => ([], 0)
  | c :: t =>
    if beqb c x7b then
      match index t [x7d] with
      | None => ([], 1)
      | Some 0 => ([], 2)
      | Some i => (firstn i t, i + 2)
      end
    else if shell_special c then ([c], 1)
    else let n := take_while alnum s in (n, length n)
  end.

Fixpoint expand_f (fuel : nat) (env : list (str * str)) (s : str) : str :=
  match fuel with
  | O => s
  | S f =>
    match s with
    | [] => []
    | c :: t =>
      match t with
      | [] => [c]
      | _ :: _ =>
        if beqb c x24 then
          let '(name, w) := shell_name t in
          (match name with
           | [] => match w with O => [c] | S _ => [] end
           | _ :: _ => getenv env name
           end) ++ expand_f f env (skipn w t)
        else c :: expand_f f env t
      end
    end
  end.
Definition expand_env (env : list (str * str)) (s : str) : str := expand_f (S (length s)) env s.
