(* C18 - `mockery init`: model of internal/cmd/init.go (initRun), the defaults of
   config.NewDefaultKoanf (config/config.go:87-108), the strict loader config.NewRootConfig +
   RootConfig.Initialize as far as the written file exercises it, and
   PackageConfig.ShouldGenerateInterface.

   External libraries:
     - yaml.v3 encoder (init) and the koanf YAML parser (loader) at the text level are Section
       variables [print]/[parse] with the stated round-trip hypothesis (trusted);
     - what the YAML decoder does with the *merge key* "<<" is an explicit small semantics
       ([resolve_merge]): yaml.v3 emits the key << unquoted, so the decoder treats it as a
       merge (observed; the correspondence checks it);
     - regexp.MatchString is a Section variable (never reached when all: true).
   No proofs in this file. *)
From Mk Require Import Lib.Bytes.

(* ---------- YAML / koanf trees ---------- *)
Inductive val := VBool (b : bool) | VStr (s : str) | VMap (m : list (str * val)).
Definition tree := list (str * val).

Fixpoint lookup (k : str) (m : tree) : option val :=
  match m with
  | [] => None
  | (k', v) :: t => if seqb k k' then Some v else lookup k t
  end.
Definition keys (m : tree) : list str := map fst m.

(* ---------- what init writes ---------- *)
(* config.Config in field order; None = nil pointer / nil map *)
Definition fields := list (str * option val).

(* NewDefaultKoanf, unmarshalled into RootConfig.Config *)
Definition default_fields : fields := [
  (B "all", Some (VBool false));
  (B "_anchors", None);
  (B "build-tags", None);
  (B "config", None);
  (B "dir", Some (VStr (B "{{.InterfaceDir}}")));
  (B "exclude-subpkg-regex", None);
  (B "exclude-interface-regex", None);
  (B "filename", Some (VStr (B "mocks_test.go")));
  (B "force-file-write", Some (VBool false));
  (B "formatter", Some (VStr (B "goimports")));
  (B "include-interface-regex", None);
  (B "log-level", Some (VStr (B "info")));
  (B "structname", Some (VStr (B "{{.Mock}}{{.InterfaceName}}")));
  (B "pkgname", Some (VStr (B "{{.SrcPackageName}}")));
  (B "recursive", Some (VBool false));
  (B "replace-type", None);
  (B "require-template-schema-exists", Some (VBool true));
  (B "template", Some (VStr (B "testify")));
  (B "template-data", Some (VMap []));
  (B "template-schema", Some (VStr (B "{{.Template}}.schema.json")))
].

(* yaml `omitempty`: nil pointers and empty maps are not written *)
Fixpoint emit (fs : fields) : tree :=
  match fs with
  | [] => []
  | (_, None) :: t => emit t
  | (_, Some (VMap [])) :: t => emit t
  | (k, Some v) :: t => (k, v) :: emit t
  end.

(* Config{All: true} *)
Definition all_true_fields : fields := [(B "all", Some (VBool true))].

(* RootConfig{Config: defaults, Packages: {pkg: {Config: {All: true}, Interfaces: {}}}};
   PackageConfig.Interfaces is an empty map: omitted *)
Definition init_tree (pkg : str) : tree :=
  emit default_fields ++
  [(B "packages", VMap [(pkg, VMap (emit [(B "config", Some (VMap (emit all_true_fields)));
                                          (B "interfaces", Some (VMap []))]))])].

(* the defaults as documented (docs/configuration.md, `mockery init` example; the expected
   text of Test_initRun) *)
Definition documented_defaults : tree := [
  (B "all", VBool false);
  (B "dir", VStr (B "{{.InterfaceDir}}"));
  (B "filename", VStr (B "mocks_test.go"));
  (B "force-file-write", VBool false);
  (B "formatter", VStr (B "goimports"));
  (B "log-level", VStr (B "info"));
  (B "structname", VStr (B "{{.Mock}}{{.InterfaceName}}"));
  (B "pkgname", VStr (B "{{.SrcPackageName}}"));
  (B "recursive", VBool false);
  (B "require-template-schema-exists", VBool true);
  (B "template", VStr (B "testify"));
  (B "template-schema", VStr (B "{{.Template}}.schema.json"))
].

(* ---------- file system and initRun ---------- *)
Inductive node := File (content : str) | Dir | Symlink (target : str).
Definition fs := str -> option node.
Definition upd (f : fs) (p : str) (n : node) : fs := fun q => if seqb q p then Some n else f q.

Definition SLASH : byte := x2f.
(* directory part of a path: everything before the last '/', "." if there is none, "/" for "/x" *)
Fixpoint drop_last_component (r : str) : str :=        (* on the reversed path *)
  match r with
  | [] => []
  | c :: t => if beqb c SLASH then t else drop_last_component t
  end.
Definition has_slash (s : str) : bool := existsb (fun c => beqb c SLASH) s.
Definition dirname (p : str) : str :=
  if has_slash p then
    match rev (drop_last_component (rev p)) with [] => [SLASH] | d => d end
  else B ".".

(* a directory, or a symbolic link to one (one level) *)
Definition is_dir (f : fs) (d : str) : bool :=
  match f d with
  | Some Dir => true
  | Some (Symlink t) => match f t with Some Dir => true | _ => false end
  | _ => false
  end.

Inductive outcome := Written | ErrExists | ErrNoParent.
Definition exit_code (o : outcome) : nat := match o with Written => 0 | _ => 1 end.

Definition DEFAULT_TARGET : str := B ".mockery.yml".

(* ---------- the loader, on trees ---------- *)
(* yaml.v3 decoder, mapping(): a key << whose value is a mapping is merged into the
   enclosing mapping (keys already present win); any other value is an error.
   [resolve_merge] descends through the whole tree. *)
Fixpoint merge_into (m extra : tree) : tree :=
  match extra with
  | [] => m
  | (k, v) :: t => match lookup k m with
                   | Some _ => merge_into m t
                   | None => merge_into (m ++ [(k, v)]) t
                   end
  end.
Definition MERGE : str := B "<<".

Fixpoint resolve_merge (v : val) : option val :=
  match v with
  | VMap m =>
    let fix go (m : list (str * val)) : option (tree * list tree) :=    (* (plain entries, merged maps) *)
      match m with
      | [] => Some ([], [])
      | (k, x) :: t =>
        match resolve_merge x, go t with
        | Some x', Some (plain, merged) =>
          if seqb k MERGE then
            match x' with
            | VMap mm => Some (plain, mm :: merged)
            | _ => None                               (* map merge requires map *)
            end
          else Some ((k, x') :: plain, merged)
        | _, _ => None
        end
      end in
    match go m with
    | Some (plain, merged) => Some (VMap (fold_left merge_into merged plain))
    | None => None
    end
  | _ => Some v
  end.

(* keys mapstructure accepts (ErrorUnused) *)
Definition config_keys : list str := map fst default_fields.
Definition pkg_keys : list str := [B "config"; B "interfaces"].
Definition iface_keys : list str := [B "config"; B "configs"].

Definition all_in (ks allowed : list str) : bool := forallb (fun k => smem k allowed) ks.

Record pkgcfg := { p_config : tree; p_ifaces : list str }.
Record rootcfg := { r_config : tree; r_packages : list (str * pkgcfg) }.

(* mergeConfigs(src, dest): a key missing in dest is taken from src *)
Definition merge_cfg (src dest : tree) : tree := merge_into dest src.

Definition load_pkg (root : tree) (v : val) : option pkgcfg :=
  match v with
  | VMap m =>
    if all_in (keys m) pkg_keys then
      match lookup (B "config") m with
      | Some (VMap c) =>
        if all_in (keys c) config_keys then
          Some {| p_config := merge_cfg root c;
                  p_ifaces := match lookup (B "interfaces") m with Some (VMap i) => keys i | _ => [] end |}
        else None
      | None => Some {| p_config := root;
                        p_ifaces := match lookup (B "interfaces") m with Some (VMap i) => keys i | _ => [] end |}
      | Some _ => None
      end
    else None
  | _ => None                                           (* (a nil package is not produced by init) *)
  end.

Fixpoint load_pkgs (root : tree) (ps : tree) : option (list (str * pkgcfg)) :=
  match ps with
  | [] => Some []
  | (name, v) :: t =>
    match load_pkg root v, load_pkgs root t with
    | Some p, Some r => Some ((name, p) :: r)
    | _, _ => None
    end
  end.

(* the loader's own defaults: every Config key, set by NewDefaultKoanf or zero-valued *)
Definition loader_defaults : tree :=
  map (fun kv => (fst kv, match snd kv with Some v => v | None => VStr [] end)) default_fields.

(* NewRootConfig on a decoded file: defaults, overlaid by the file's top-level keys; strict keys *)
Definition overlay (base over : tree) : tree :=
  map (fun kv => (fst kv, match lookup (fst kv) over with Some v => v | None => snd kv end)) base.

Definition load_tree (t : tree) : option rootcfg :=
  match resolve_merge (VMap t) with
  | Some (VMap t') =>
    if all_in (keys t') (B "packages" :: config_keys) then
      let root := overlay loader_defaults t' in
      match lookup (B "packages") t' with
      | Some (VMap ps) =>
        match load_pkgs root ps with
        | Some l => Some {| r_config := root; r_packages := l |}
        | None => None
        end
      | None => Some {| r_config := root; r_packages := [] |}
      | Some _ => None
      end
    else None
  | _ => None
  end.

(* Keys the YAML encoder is trusted to write so that they read back unchanged.  Outside:
   a key that contains a newline and starts with a newline, a tab or a non-ASCII byte - yaml.v3
   may emit it as a literal block scalar whose indentation indicator / first line is wrong
   (observed: "\n" reads back as "", "\na" as "a", "\t\n" is rejected).  The class is a
   superset of the failing keys. *)
Definition has_lf (k : str) : bool := existsb (fun c => beqb c x0a) k.
Definition bad_start (k : str) : bool :=
  match k with
  | [] => false
  | c :: _ => beqb c x0a || beqb c x09 || Nat.leb 128 (Byte.to_nat c)
  end.
Definition key_safe (k : str) : bool := negb (has_lf k && bad_start k).

Definition get_bool (k : str) (c : tree) : bool := match lookup k c with Some (VBool b) => b | _ => false end.
Definition get_str (k : str) (c : tree) : str := match lookup k c with Some (VStr s) => s | _ => [] end.

Section External.
  Variable print : tree -> str.            (* yaml.v3 Encoder, SetIndent(2) *)
  Variable parse : str -> option tree.     (* koanf yaml parser, before merge keys are resolved *)
  Variable regex_match : str -> str -> bool.

  (* initRun: the config flag's value ("" = not given), the package argument *)
  Definition init (f : fs) (config_flag pkg : str) : fs * outcome :=
    let path := match config_flag with [] => DEFAULT_TARGET | _ => config_flag end in
    match f path with
    | Some _ => (f, ErrExists)                          (* O_CREATE|O_EXCL *)
    | None =>
      if is_dir f (dirname path) then (upd f path (File (print (init_tree pkg))), Written)
      else (f, ErrNoParent)
    end.

  (* initRun consults the value of the --config flag and config.NewDefaultKoanf (built-in
     defaults) only; the process environment - MOCKERY_DIR, MOCKERY_TEMPLATE, ..., MOCKERY_CONFIG
     included (they are read by NewRootConfig for a normal run) - is not an input. *)
  Definition init_in (env : list (str * str)) (f : fs) (config_flag pkg : str) : fs * outcome :=
    init f config_flag pkg.

  (* several init runs on the same target, in the order in which their exclusive creates take
     effect (open(2) with O_CREAT|O_EXCL is atomic, so concurrent runs behave like one of their
     sequential orders) *)
  Fixpoint init_all (f : fs) (config_flag : str) (pkgs : list str) : fs * list outcome :=
    match pkgs with
    | [] => (f, [])
    | pkg :: rest =>
      let (f1, o) := init f config_flag pkg in
      let (f2, os) := init_all f1 config_flag rest in
      (f2, o :: os)
    end.

  Definition load (content : str) : option rootcfg :=
    match parse content with Some t => load_tree t | None => None end.

  (* PackageConfig.ShouldGenerateInterface *)
  Definition should_generate (p : pkgcfg) (iface : str) : bool :=
    if get_bool (B "all") (p_config p) then true
    else if smem iface (p_ifaces p) then true
    else
      let inc := get_str (B "include-interface-regex") (p_config p) in
      let exc := get_str (B "exclude-interface-regex") (p_config p) in
      match inc with
      | [] => false
      | _ => if regex_match inc iface
             then match exc with [] => true | _ => negb (regex_match exc iface) end
             else false
      end.
End External.
