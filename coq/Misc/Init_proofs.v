(* Proofs for Misc/Init.v (C18). *)
From Mk Require Import Lib.Bytes Misc.Init.

Definition target (config_flag : str) : str :=
  match config_flag with [] => DEFAULT_TARGET | _ => config_flag end.

Section P.
  Variable print : tree -> str.
  Variable parse : str -> option tree.
  Variable regex_match : str -> str -> bool.
  (* trusted: the YAML libraries round-trip the trees init writes, for safe package keys *)
  Hypothesis parse_print : forall pkg, key_safe pkg = true -> parse (print (init_tree pkg)) = Some (init_tree pkg).

  Lemma exclusive f cf pkg : f (target cf) <> None -> init print f cf pkg = (f, ErrExists).
  Proof.
    intros H. unfold init. cbv zeta. fold (target cf). destruct (f (target cf)) as [n|]; [reflexivity | exfalso; apply H; reflexivity].
  Qed.

  Lemma outcome_spec f cf pkg :
    snd (init print f cf pkg) =
    match f (target cf) with
    | Some _ => ErrExists
    | None => if is_dir f (dirname (target cf)) then Written else ErrNoParent
    end.
  Proof.
    unfold init. cbv zeta. fold (target cf). destruct (f (target cf)); [reflexivity|].
    destruct (is_dir f (dirname (target cf))); reflexivity.
  Qed.

  Lemma failure_changes_nothing f cf pkg : snd (init print f cf pkg) <> Written -> fst (init print f cf pkg) = f.
  Proof.
    unfold init. cbv zeta. fold (target cf). destruct (f (target cf)); [reflexivity|].
    destruct (is_dir f (dirname (target cf))); simpl; congruence.
  Qed.

  Lemma frame f cf pkg q : q <> target cf -> fst (init print f cf pkg) q = f q.
  Proof.
    intros N. unfold init. cbv zeta. fold (target cf). destruct (f (target cf)); [reflexivity|].
    destruct (is_dir f (dirname (target cf))); [|reflexivity]. simpl. unfold upd.
    destruct (seqb q (target cf)) eqn:E; [apply seqb_eq in E; contradiction | reflexivity].
  Qed.

  Lemma written_content f cf pkg :
    snd (init print f cf pkg) = Written ->
    f (target cf) = None /\ fst (init print f cf pkg) (target cf) = Some (File (print (init_tree pkg))).
  Proof.
    unfold init. cbv zeta. fold (target cf). destruct (f (target cf)); [discriminate|].
    destruct (is_dir f (dirname (target cf))); [|discriminate]. intros _. split; [reflexivity|].
    simpl. unfold upd. rewrite seqb_refl. reflexivity.
  Qed.

  Lemma init_all_losers f cf pkgs : f (target cf) <> None ->
    init_all print f cf pkgs = (f, repeat ErrExists (length pkgs)).
  Proof.
    intros H. induction pkgs as [|p r IH]; [reflexivity|]. simpl.
    rewrite (exclusive f cf p H), IH. reflexivity.
  Qed.

  Lemma init_all_one_winner f cf pkg rest :
    f (target cf) = None -> is_dir f (dirname (target cf)) = true ->
    init_all print f cf (pkg :: rest) =
    (upd f (target cf) (File (print (init_tree pkg))), Written :: repeat ErrExists (length rest)).
  Proof.
    intros A D. simpl.
    assert (E : init print f cf pkg = (upd f (target cf) (File (print (init_tree pkg))), Written)).
    { unfold init. cbv zeta. fold (target cf). rewrite A, D. reflexivity. }
    rewrite E. rewrite init_all_losers; [reflexivity|].
    unfold upd. rewrite seqb_refl. discriminate.
  Qed.

  Definition pkg_entry (pkg : str) : tree :=
    [(B "packages", VMap [(pkg, VMap [(B "config", VMap [(B "all", VBool true)])])])].

  Lemma init_tree_defaults pkg : init_tree pkg = documented_defaults ++ pkg_entry pkg.
  Proof. reflexivity. Qed.

  (* what the decoder makes of the written tree *)
  Lemma resolve_init_tree pkg :
    resolve_merge (VMap (init_tree pkg)) =
    if seqb pkg MERGE
    then Some (VMap (documented_defaults ++ [(B "packages", VMap [(B "config", VMap [(B "all", VBool true)])])]))
    else Some (VMap (init_tree pkg)).
  Proof.
    rewrite init_tree_defaults. unfold documented_defaults, pkg_entry.
    cbn -[seqb MERGE]. destruct (seqb pkg MERGE); vm_compute; reflexivity.
  Qed.

  Definition loaded_root : tree := overlay loader_defaults documented_defaults.

  Lemma load_written pkg : seqb pkg MERGE = false -> key_safe pkg = true ->
    load parse (print (init_tree pkg)) =
    Some {| r_config := loaded_root;
            r_packages := [(pkg, {| p_config := merge_cfg loaded_root [(B "all", VBool true)]; p_ifaces := [] |})] |}.
  Proof.
    intros E K. unfold load. rewrite (parse_print pkg K). unfold load_tree. rewrite resolve_init_tree, E.
    rewrite init_tree_defaults. unfold pkg_entry. vm_compute. reflexivity.
  Qed.

  Lemma load_written_merge_key : load parse (print (init_tree MERGE)) = None.
  Proof.
    unfold load. rewrite (parse_print MERGE eq_refl). unfold load_tree. rewrite resolve_init_tree.
    vm_compute. reflexivity.
  Qed.

  Lemma selects_all pkg p : seqb pkg MERGE = false -> key_safe pkg = true ->
    forall cfg, load parse (print (init_tree pkg)) = Some cfg ->
    r_packages cfg = [(pkg, p)] -> forall iface, should_generate regex_match p iface = true.
  Proof.
    intros E K cfg L R iface. rewrite (load_written pkg E K) in L. injection L as <-. simpl in R.
    injection R as <-. reflexivity.
  Qed.

  (* the loader's defaults are not changed by the defaults the file states *)
  Lemma written_defaults_are_loader_defaults : loaded_root = loader_defaults.
  Proof. vm_compute. reflexivity. Qed.
End P.
