(* Proofs for Misc/Header.v (C17). *)
From Mk Require Import Lib.Bytes Misc.Header.

(* ================= white space, lines ================= *)
Lemma rstrip_cons_nonws c s : is_ws c = false -> rstrip (c :: s) = c :: rstrip s.
Proof. intros H. simpl. destruct (rstrip s); [rewrite H|]; reflexivity. Qed.

Lemma rstrip_idem l : rstrip (rstrip l) = rstrip l.
Proof.
  induction l as [|c t IH]; [reflexivity|]. simpl.
  destruct (rstrip t) as [|d t'] eqn:E.
  - destruct (is_ws c) eqn:W; [reflexivity|]. simpl. rewrite W. reflexivity.
  - simpl. simpl in IH. rewrite IH. reflexivity.
Qed.

Lemma trim_rstrip l : trim (rstrip l) = trim l.
Proof. unfold trim. rewrite rstrip_idem. reflexivity. Qed.

Lemma rstrip_snoc a c : is_ws c = false -> rstrip (a ++ [c]) = a ++ [c].
Proof.
  intros W. induction a as [|x a IH]; simpl; [rewrite W; reflexivity|].
  rewrite IH. destruct (a ++ [c]) eqn:E; [destruct a; discriminate | reflexivity].
Qed.

Lemma trim_cons_nonws c s : is_ws c = false -> trim (c :: s) = c :: rstrip s.
Proof. intros W. unfold trim. rewrite rstrip_cons_nonws by exact W. simpl. rewrite W. reflexivity. Qed.

Lemma split_nl_nonnil s : split_nl s <> [].
Proof.
  destruct s as [|c t]; simpl; [discriminate|].
  destruct (split_nl t); [discriminate|]. destruct (beqb c LF); discriminate.
Qed.

Lemma split_nl_app a b : split_nl (a ++ LF :: b) = split_nl a ++ split_nl b.
Proof.
  induction a as [|c a IH]; simpl.
  - destruct (split_nl b) eqn:E; [exfalso; eapply split_nl_nonnil; exact E | reflexivity].
  - rewrite IH. destruct (split_nl a) as [|l ls] eqn:E; [exfalso; eapply split_nl_nonnil; exact E|].
    simpl. destruct (beqb c LF); reflexivity.
Qed.

Definition no_lf (s : str) : bool := forallb (fun c => negb (beqb c LF)) s.

Lemma split_nl_nolf a : no_lf a = true -> split_nl a = [a].
Proof.
  induction a as [|c a IH]; simpl; [reflexivity|]. rewrite andb_true_iff. intros [H1 H2].
  rewrite (IH H2). apply negb_true_iff in H1. rewrite H1. reflexivity.
Qed.

Lemma unlines_app a b : unlines (a ++ b) = unlines a ++ unlines b.
Proof. unfold unlines. rewrite map_app, concat_app. reflexivity. Qed.

Lemma unlines_split s : unlines (split_nl s) = s ++ [LF].
Proof.
  induction s as [|c t IH]; [reflexivity|]. simpl.
  destruct (split_nl t) as [|l ls] eqn:E; [exfalso; eapply split_nl_nonnil; exact E|].
  destruct (beqb c LF) eqn:C.
  - apply beqb_eq in C. subst c. change (unlines ([] :: l :: ls)) with (LF :: unlines (l :: ls)).
    rewrite IH. reflexivity.
  - change (unlines ((c :: l) :: ls)) with (c :: unlines (l :: ls)). rewrite IH. reflexivity.
Qed.

(* ================= the constraint lexer ================= *)
Lemma tag_char_not_ws c : is_tag_char c = true -> is_ws c = false.
Proof. destruct c; try reflexivity; intros H; vm_compute in H; discriminate. Qed.

Lemma lex_tagchars s : forall cur x, forallb is_tag_char s = true -> lex cur (s ++ x) = lex (cur ++ s) x.
Proof.
  induction s as [|c s IH]; intros cur x H; simpl.
  - rewrite app_nil_r. reflexivity.
  - simpl in H. apply andb_true_iff in H as [H1 H2]. rewrite H1.
    rewrite IH by exact H2. rewrite <- app_assoc. reflexivity.
Qed.

(* token lists whose text lexes back: well-formed tags, no two tags in a row *)
Fixpoint toks_ok (prev_tag : bool) (ts : list token) : bool :=
  match ts with
  | [] => true
  | TTag s :: r => negb prev_tag && wf_tag s && toks_ok true r
  | _ :: r => toks_ok false r
  end.

Lemma flush_some cur ts : cur <> [] -> flush cur (Some ts) = Some (TTag cur :: ts).
Proof. destruct cur; [congruence | reflexivity]. Qed.

Lemma lex_render ts : forall cur,
  toks_ok (negb (is_nil cur)) ts = true -> lex cur (render ts) = flush cur (Some ts).
Proof.
  induction ts as [|t r IH]; intros cur H; [reflexivity|].
  destruct t as [s| | | | |].
  - (* tag: cur must be empty *)
    simpl in H. apply andb_true_iff in H as [H H3]. apply andb_true_iff in H as [H1 H2].
    destruct cur; [|discriminate]. unfold wf_tag in H2. apply andb_true_iff in H2 as [N A].
    change (render (TTag s :: r)) with (s ++ render r).
    rewrite lex_tagchars by exact A. simpl app.
    rewrite IH by (destruct s; [discriminate | exact H3]).
    destruct s; [discriminate | reflexivity].
  - change (render (TNot :: r)) with (x21 :: render r). simpl in H.
    change (lex cur (x21 :: render r)) with (flush cur (ocons TNot (lex [] (render r)))).
    rewrite IH by exact H. destruct cur; reflexivity.
  - change (render (TAnd :: r)) with (x20 :: x26 :: x26 :: x20 :: render r). simpl in H.
    change (lex cur (x20 :: x26 :: x26 :: x20 :: render r)) with (flush cur (ocons TAnd (lex [] (render r)))).
    rewrite IH by exact H. destruct cur; reflexivity.
  - change (render (TOr :: r)) with (x20 :: x7c :: x7c :: x20 :: render r). simpl in H.
    change (lex cur (x20 :: x7c :: x7c :: x20 :: render r)) with (flush cur (ocons TOr (lex [] (render r)))).
    rewrite IH by exact H. destruct cur; reflexivity.
  - change (render (TLP :: r)) with (x28 :: render r). simpl in H.
    change (lex cur (x28 :: render r)) with (flush cur (ocons TLP (lex [] (render r)))).
    rewrite IH by exact H. destruct cur; reflexivity.
  - change (render (TRP :: r)) with (x29 :: render r). simpl in H.
    change (lex cur (x29 :: render r)) with (flush cur (ocons TRP (lex [] (render r)))).
    rewrite IH by exact H. destruct cur; reflexivity.
Qed.

(* the printed form of an expression is such a token list *)
Definition non_tag (t : token) : bool := match t with TTag _ => false | _ => true end.

Lemma toks_ok_split a : forall p t b, non_tag t = true ->
  toks_ok p (a ++ t :: b) = toks_ok p a && toks_ok false b.
Proof.
  induction a as [|x a IH]; intros p t b N.
  - destruct t; try discriminate; reflexivity.
  - destruct x; simpl; rewrite IH by exact N; try reflexivity.
    rewrite andb_assoc. reflexivity.
Qed.

Lemma toks_ok_paren g : toks_ok false (paren g) = toks_ok false g.
Proof.
  unfold paren. change (toks_ok false (TLP :: g ++ [TRP])) with (toks_ok false (g ++ [TRP])).
  rewrite toks_ok_split by reflexivity. simpl. apply andb_true_r.
Qed.

Lemma go_toks_ok e : wf_tags e = true -> toks_ok false (go_toks e) = true.
Proof.
  induction e as [t|x IH|x IHx y IHy|x IHx y IHy]; simpl; intros W.
  - rewrite W. reflexivity.
  - destruct x; try (apply IH; exact W); rewrite toks_ok_paren; apply IH; exact W.
  - apply andb_true_iff in W as [Wx Wy]. rewrite toks_ok_split by reflexivity.
    apply andb_true_iff. split.
    + destruct x; try (apply IHx; exact Wx); rewrite toks_ok_paren; apply IHx; exact Wx.
    + destruct y; try (apply IHy; exact Wy); rewrite toks_ok_paren; apply IHy; exact Wy.
  - apply andb_true_iff in W as [Wx Wy]. rewrite toks_ok_split by reflexivity.
    apply andb_true_iff. split.
    + destruct x; try (apply IHx; exact Wx); rewrite toks_ok_paren; apply IHx; exact Wx.
    + destruct y; try (apply IHy; exact Wy); rewrite toks_ok_paren; apply IHy; exact Wy.
Qed.

Lemma lex_go_string e : wf_tags e = true -> lex [] (go_string e) = Some (go_toks e).
Proof. intros W. unfold go_string. rewrite lex_render by (apply go_toks_ok; exact W). reflexivity. Qed.

(* ================= the constraint parser: fuel ================= *)
(* a result other than PFuel does not change when more fuel is given *)
Lemma fuel_mono_step n :
  (forall acc ts, or_from n acc ts <> PFuel -> or_from (S n) acc ts = or_from n acc ts) /\
  (forall acc ts, and_from n acc ts <> PFuel -> and_from (S n) acc ts = and_from n acc ts) /\
  (forall ts, p_not n ts <> PFuel -> p_not (S n) ts = p_not n ts).
Proof.
  induction n as [|n [IHo [IHa IHn]]].
  - repeat split; intros; simpl in *; congruence.
  - assert (Hatom : forall ts, atom (or_from n None) ts <> PFuel ->
                               atom (or_from (S n) None) ts = atom (or_from n None) ts).
    { intros ts H. destruct ts as [|[s| | | | |] r]; try reflexivity.
      unfold atom in *. destruct (or_from n None r) eqn:E; try congruence; rewrite IHo by congruence; rewrite E; reflexivity. }
    repeat split.
    + intros acc ts H. change (or_from (S n) acc ts) with
        (match and_from n None ts with
         | POk y r => match r with TOr :: r' => or_from n (Some (comb Or acc y)) r' | _ => POk (comb Or acc y) r end
         | o => o end) in *.
      change (or_from (S (S n)) acc ts) with
        (match and_from (S n) None ts with
         | POk y r => match r with TOr :: r' => or_from (S n) (Some (comb Or acc y)) r' | _ => POk (comb Or acc y) r end
         | o => o end).
      destruct (and_from n None ts) as [y r| |] eqn:E; try congruence;
        rewrite IHa by congruence; rewrite E; try reflexivity.
      destruct r as [|[s| | | | |] r']; try reflexivity. apply IHo. exact H.
    + intros acc ts H. change (and_from (S n) acc ts) with
        (match p_not n ts with
         | POk u r => match r with TAnd :: r' => and_from n (Some (comb And acc u)) r' | _ => POk (comb And acc u) r end
         | o => o end) in *.
      change (and_from (S (S n)) acc ts) with
        (match p_not (S n) ts with
         | POk u r => match r with TAnd :: r' => and_from (S n) (Some (comb And acc u)) r' | _ => POk (comb And acc u) r end
         | o => o end).
      destruct (p_not n ts) as [u r| |] eqn:E; try congruence;
        rewrite IHn by congruence; rewrite E; try reflexivity.
      destruct r as [|[s| | | | |] r']; try reflexivity. apply IHa. exact H.
    + intros ts H.
      change (p_not (S n) ts) with
        (match ts with
         | TNot :: TNot :: _ => PErr
         | TNot :: r => match atom (or_from n None) r with POk x r' => POk (Not x) r' | o => o end
         | _ => atom (or_from n None) ts end) in *.
      change (p_not (S (S n)) ts) with
        (match ts with
         | TNot :: TNot :: _ => PErr
         | TNot :: r => match atom (or_from (S n) None) r with POk x r' => POk (Not x) r' | o => o end
         | _ => atom (or_from (S n) None) ts end).
      destruct ts as [|[s| | | | |] r]; try (apply Hatom; exact H); try reflexivity.
      destruct r as [|[s| | | | |] r']; try reflexivity;
        (rewrite Hatom; [reflexivity|]); intros E; rewrite E in H; congruence.
Qed.

Lemma or_from_mono n m acc ts : n <= m -> or_from n acc ts <> PFuel -> or_from m acc ts = or_from n acc ts.
Proof.
  induction 1 as [|m L IH]; intros H; [reflexivity|].
  rewrite <- (IH H). apply (fuel_mono_step m). rewrite (IH H). exact H.
Qed.

(* results are strictly shorter than the input *)
Lemma shrink_step n :
  (forall acc ts x r, or_from n acc ts = POk x r -> length r < length ts) /\
  (forall acc ts x r, and_from n acc ts = POk x r -> length r < length ts) /\
  (forall ts x r, p_not n ts = POk x r -> length r < length ts).
Proof.
  induction n as [|n [IHo [IHa IHn]]].
  - repeat split; intros; simpl in *; discriminate.
  - assert (Hatom : forall ts x r, atom (or_from n None) ts = POk x r -> length r < length ts).
    { intros ts x r H. destruct ts as [|[s| | | | |] t]; simpl in H; try discriminate.
      - injection H as <- <-. simpl. lia.
      - destruct (or_from n None t) as [y r0| |] eqn:E; try discriminate.
        destruct r0 as [|[s| | | | |] r1]; try discriminate. injection H as <- <-.
        apply IHo in E. simpl in *. lia. }
    repeat split.
    + intros acc ts x r H. simpl in H.
      destruct (and_from n None ts) as [y r0| |] eqn:E; try discriminate. apply IHa in E.
      destruct r0 as [|[s| | | | |] r1]; try (injection H as <- <-; exact E).
      apply IHo in H. simpl in *. lia.
    + intros acc ts x r H. simpl in H.
      destruct (p_not n ts) as [y r0| |] eqn:E; try discriminate. apply IHn in E.
      destruct r0 as [|[s| | | | |] r1]; try (injection H as <- <-; exact E).
      apply IHa in H. simpl in *. lia.
    + intros ts x r H.
      change (p_not (S n) ts) with
        (match ts with
         | TNot :: TNot :: _ => PErr
         | TNot :: r => match atom (or_from n None) r with POk x r' => POk (Not x) r' | o => o end
         | _ => atom (or_from n None) ts end) in H.
      destruct ts as [|[s| | | | |] t]; try (apply Hatom in H; exact H).
      destruct t as [|[s| | | | |] t']; try discriminate;
        match type of H with
        | match atom ?f ?l with _ => _ end = _ =>
          destruct (atom f l) as [y r0| |] eqn:E; try discriminate; injection H as <- <-;
          apply Hatom in E; simpl in *; lia
        end.
Qed.

(* the fuel handed out by [parse_expr] is always enough *)
Lemma total_step n :
  (forall acc ts, 3 * length ts + 3 <= n -> or_from n acc ts <> PFuel) /\
  (forall acc ts, 3 * length ts + 2 <= n -> and_from n acc ts <> PFuel) /\
  (forall ts, 3 * length ts + 1 <= n -> p_not n ts <> PFuel).
Proof.
  induction n as [|n [IHo [IHa IHn]]].
  - repeat split; intros; lia.
  - assert (Hatom : forall ts, 3 * length ts <= n -> atom (or_from n None) ts <> PFuel).
    { intros ts L. destruct ts as [|[s| | | | |] t]; simpl; try discriminate.
      destruct (or_from n None t) as [y r0| |] eqn:E; try discriminate.
      - destruct r0 as [|[s| | | | |] r1]; discriminate.
      - exfalso. eapply IHo; [|exact E]. simpl in L. lia. }
    repeat split.
    + intros acc ts L. simpl.
      destruct (and_from n None ts) as [y r0| |] eqn:E; try discriminate.
      * destruct r0 as [|[s| | | | |] r1]; try discriminate.
        apply (proj1 (proj2 (shrink_step n))) in E. apply IHo. simpl in E. lia.
      * exfalso. eapply IHa; [|exact E]. lia.
    + intros acc ts L. simpl.
      destruct (p_not n ts) as [y r0| |] eqn:E; try discriminate.
      * destruct r0 as [|[s| | | | |] r1]; try discriminate.
        apply (proj2 (proj2 (shrink_step n))) in E. apply IHa. simpl in E. lia.
      * exfalso. eapply IHn; [|exact E]. lia.
    + intros ts L.
      change (p_not (S n) ts) with
        (match ts with
         | TNot :: TNot :: _ => PErr
         | TNot :: r => match atom (or_from n None) r with POk x r' => POk (Not x) r' | o => o end
         | _ => atom (or_from n None) ts end).
      destruct ts as [|[s| | | | |] t]; try (apply Hatom; simpl in *; lia).
      destruct t as [|[s| | | | |] t']; try discriminate;
        match goal with
        | |- match atom ?f ?l with _ => _ end <> _ =>
          destruct (atom f l) as [y r0| |] eqn:E; try discriminate;
          exfalso; eapply (Hatom l); [simpl in *; lia | exact E]
        end.
Qed.

Lemma or_from_total acc ts : or_from (fuel_for ts) acc ts <> PFuel.
Proof. apply (total_step (fuel_for ts)). unfold fuel_for. lia. Qed.

(* ================= parsing the printed form gives back an equivalent expression ================= *)
Definition equiv (a b : expr) : Prop := forall tags, eval tags a = eval tags b.
Lemma equiv_refl a : equiv a a. Proof. intros t; reflexivity. Qed.
Lemma equiv_trans a b c : equiv a b -> equiv b c -> equiv a c.
Proof. intros H1 H2 t. rewrite H1. apply H2. Qed.

(* [f n] has the value [res] for all large enough n *)
Definition ev_to (f : nat -> pres) (res : pres) : Prop := exists n0, forall n, n0 <= n -> f n = res.

Definition cont_and (x : expr) (r : list token) (res : pres) : Prop :=
  match r with
  | TAnd :: r' => ev_to (fun n => and_from n (Some x) r') res
  | _ => res = POk x r
  end.
Definition cont_or (x : expr) (r : list token) (res : pres) : Prop :=
  match r with
  | TOr :: r' => ev_to (fun n => or_from n (Some x) r') res
  | _ => res = POk x r
  end.
Definition not_and_next (r : list token) : Prop := match r with TAnd :: _ => False | _ => True end.
Definition not_or_next (r : list token) : Prop := match r with TOr :: _ => False | _ => True end.

Lemma and_step acc ts u r res :
  ev_to (fun n => p_not n ts) (POk u r) -> cont_and (comb And acc u) r res ->
  ev_to (fun n => and_from n acc ts) res.
Proof.
  intros [n1 H1] C. unfold cont_and in C.
  destruct r as [|[s| | | | |] r'];
    try (subst res; exists (S n1); intros n L; destruct n as [|n]; [lia|]; simpl; rewrite H1 by lia; reflexivity).
  destruct C as [n2 H2]. exists (S (Nat.max n1 n2)). intros n L. destruct n as [|n]; [lia|].
  simpl. rewrite H1 by lia. apply H2. lia.
Qed.

Lemma or_step acc ts y r res :
  ev_to (fun n => and_from n None ts) (POk y r) -> cont_or (comb Or acc y) r res ->
  ev_to (fun n => or_from n acc ts) res.
Proof.
  intros [n1 H1] C. unfold cont_or in C.
  destruct r as [|[s| | | | |] r'];
    try (subst res; exists (S n1); intros n L; destruct n as [|n]; [lia|]; simpl; rewrite H1 by lia; reflexivity).
  destruct C as [n2 H2]. exists (S (Nat.max n1 n2)). intros n L. destruct n as [|n]; [lia|].
  simpl. rewrite H1 by lia. apply H2. lia.
Qed.

Lemma not_tag s r : ev_to (fun n => p_not n (TTag s :: r)) (POk (Tag s) r).
Proof. exists 1. intros n L. destruct n; [lia | reflexivity]. Qed.
Lemma not_not_tag s r : ev_to (fun n => p_not n (TNot :: TTag s :: r)) (POk (Not (Tag s)) r).
Proof. exists 1. intros n L. destruct n; [lia | reflexivity]. Qed.
Lemma not_paren ts x r :
  ev_to (fun n => or_from n None ts) (POk x (TRP :: r)) -> ev_to (fun n => p_not n (TLP :: ts)) (POk x r).
Proof.
  intros [n1 H1]. exists (S n1). intros n L. destruct n as [|n]; [lia|].
  change (p_not (S n) (TLP :: ts)) with (atom (or_from n None) (TLP :: ts)). simpl. rewrite H1 by lia. reflexivity.
Qed.
Lemma not_not_paren ts x r :
  ev_to (fun n => or_from n None ts) (POk x (TRP :: r)) ->
  ev_to (fun n => p_not n (TNot :: TLP :: ts)) (POk (Not x) r).
Proof.
  intros [n1 H1]. exists (S n1). intros n L. destruct n as [|n]; [lia|].
  change (p_not (S n) (TNot :: TLP :: ts)) with
    (match atom (or_from n None) (TLP :: ts) with POk x r' => POk (Not x) r' | o => o end).
  simpl. rewrite H1 by lia. reflexivity.
Qed.

(* the three views of the printed form of [e]: as an operand of !/&& (una), of && (and_arg),
   of || (or_arg) *)
Definition una (e : expr) : list token :=
  match e with And _ _ | Or _ _ => paren (go_toks e) | _ => go_toks e end.
Definition and_arg (e : expr) : list token :=
  match e with Or _ _ => paren (go_toks e) | _ => go_toks e end.
Definition or_arg (e : expr) : list token :=
  match e with And _ _ => paren (go_toks e) | _ => go_toks e end.

Definition PU (e : expr) : Prop :=
  exists e', equiv e' e /\ forall r, ev_to (fun n => p_not n (una e ++ r)) (POk e' r).
Definition PA (e : expr) : Prop :=
  forall acc, exists x', equiv x' (comb And acc e) /\
    forall r res, cont_and x' r res -> ev_to (fun n => and_from n acc (and_arg e ++ r)) res.
Definition PO (e : expr) : Prop :=
  forall acc, exists x', equiv x' (comb Or acc e) /\
    forall r res, not_and_next r -> cont_or x' r res -> ev_to (fun n => or_from n acc (or_arg e ++ r)) res.
Definition PT (e : expr) : Prop :=
  exists e', equiv e' e /\
    forall r, not_and_next r -> not_or_next r -> ev_to (fun n => or_from n None (go_toks e ++ r)) (POk e' r).

Lemma equiv_comb_and acc a b : equiv a b -> equiv (comb And acc a) (comb And acc b).
Proof. intros H t. destruct acc; simpl; rewrite H; reflexivity. Qed.
Lemma equiv_comb_or acc a b : equiv a b -> equiv (comb Or acc a) (comb Or acc b).
Proof. intros H t. destruct acc; simpl; rewrite H; reflexivity. Qed.

Lemma PA_single e : and_arg e = una e -> PU e -> PA e.
Proof.
  intros E [e' [Q H]] acc. exists (comb And acc e'). split; [apply equiv_comb_and; exact Q|].
  intros r res C. rewrite E. eapply and_step; [apply H | exact C].
Qed.

Lemma PO_single e : or_arg e = una e -> PU e -> PO e.
Proof.
  intros E [e' [Q H]] acc. exists (comb Or acc e'). split; [apply equiv_comb_or; exact Q|].
  intros r res NA C. rewrite E. eapply or_step; [|exact C].
  eapply and_step; [apply H|]. unfold cont_and. simpl.
  destruct r as [|[s| | | | |] r']; try reflexivity. destruct NA.
Qed.

Lemma PT_of_PO e : or_arg e = go_toks e -> PO e -> PT e.
Proof.
  intros E H. destruct (H None) as [x' [Q C]]. exists x'. split; [exact Q|].
  intros r NA NO. rewrite <- E. apply C; [exact NA|]. unfold cont_or.
  destruct r as [|[s| | | | |] r']; try reflexivity. destruct NO.
Qed.

Lemma PT_of_PA e : and_arg e = go_toks e -> PA e -> PT e.
Proof.
  intros E H. destruct (H None) as [x' [Q C]]. exists x'. split; [exact Q|].
  intros r NA NO. rewrite <- E. eapply or_step with (y := x').
  - apply C. unfold cont_and. destruct r as [|[s| | | | |] r']; try reflexivity. destruct NA.
  - unfold cont_or. simpl. destruct r as [|[s| | | | |] r']; try reflexivity. destruct NO.
Qed.

Lemma PU_of_PT e : una e = paren (go_toks e) -> PT e -> PU e.
Proof.
  intros E [e' [Q H]]. exists e'. split; [exact Q|]. intros r. rewrite E. unfold paren.
  simpl. apply not_paren. rewrite <- app_assoc. simpl. apply H; exact I.
Qed.

Lemma PA_and x y : PA x -> PA y -> PA (And x y).
Proof.
  intros Hx Hy acc. destruct (Hx acc) as [x1 [Q1 C1]]. destruct (Hy (Some x1)) as [x2 [Q2 C2]].
  exists x2. split.
  - intros t. rewrite Q2. simpl. rewrite Q1. destruct acc; simpl; [rewrite andb_assoc|]; reflexivity.
  - intros r res C. change (and_arg (And x y)) with (and_arg x ++ TAnd :: and_arg y).
    rewrite <- app_assoc. simpl. apply C1. unfold cont_and. apply C2. exact C.
Qed.

Lemma PO_or x y : PO x -> PO y -> PO (Or x y).
Proof.
  intros Hx Hy acc. destruct (Hx acc) as [x1 [Q1 C1]]. destruct (Hy (Some x1)) as [x2 [Q2 C2]].
  exists x2. split.
  - intros t. rewrite Q2. simpl. rewrite Q1. destruct acc; simpl; [rewrite orb_assoc|]; reflexivity.
  - intros r res NA C. change (or_arg (Or x y)) with (or_arg x ++ TOr :: or_arg y).
    rewrite <- app_assoc. simpl. apply C1; [exact I|]. unfold cont_or. apply C2; assumption.
Qed.

Lemma roundtrip_all e : no_dneg e = true -> PU e /\ PA e /\ PO e /\ PT e.
Proof.
  induction e as [t|x IH|x IHx y IHy|x IHx y IHy]; intros D.
  - assert (U : PU (Tag t)).
    { exists (Tag t). split; [apply equiv_refl|]. intros r. apply not_tag. }
    assert (O : PO (Tag t)) by (apply PO_single; [reflexivity | exact U]).
    repeat split; [exact U | apply PA_single; [reflexivity | exact U] | exact O | apply PT_of_PO; [reflexivity | exact O]].
  - assert (U : PU (Not x)).
    { destruct x as [t|x'|a b|a b].
      - exists (Not (Tag t)). split; [apply equiv_refl|]. intros r. apply not_not_tag.
      - simpl in D. discriminate.
      - destruct (IH D) as [_ [_ [_ [e' [Q H]]]]]. exists (Not e'). split; [intros t; simpl; rewrite Q; reflexivity|].
        intros r. change (una (Not (And a b)) ++ r) with (TNot :: TLP :: (go_toks (And a b) ++ [TRP]) ++ r).
        apply not_not_paren. rewrite <- app_assoc. apply H; exact I.
      - destruct (IH D) as [_ [_ [_ [e' [Q H]]]]]. exists (Not e'). split; [intros t; simpl; rewrite Q; reflexivity|].
        intros r. change (una (Not (Or a b)) ++ r) with (TNot :: TLP :: (go_toks (Or a b) ++ [TRP]) ++ r).
        apply not_not_paren. rewrite <- app_assoc. apply H; exact I. }
    assert (O : PO (Not x)) by (apply PO_single; [reflexivity | exact U]).
    repeat split; [exact U | apply PA_single; [reflexivity | exact U] | exact O | apply PT_of_PO; [reflexivity | exact O]].
  - simpl in D. apply andb_true_iff in D as [Dx Dy].
    assert (A : PA (And x y)) by (apply PA_and; [apply (IHx Dx) | apply (IHy Dy)]).
    assert (T : PT (And x y)) by (apply PT_of_PA; [reflexivity | exact A]).
    assert (U : PU (And x y)) by (apply PU_of_PT; [reflexivity | exact T]).
    repeat split; [exact U | exact A | apply PO_single; [reflexivity | exact U] | exact T].
  - simpl in D. apply andb_true_iff in D as [Dx Dy].
    assert (O : PO (Or x y)) by (apply PO_or; [apply (IHx Dx) | apply (IHy Dy)]).
    assert (T : PT (Or x y)) by (apply PT_of_PO; [reflexivity | exact O]).
    assert (U : PU (Or x y)) by (apply PU_of_PT; [reflexivity | exact T]).
    repeat split; [exact U | apply PA_single; [reflexivity | exact U] | exact O | exact T].
Qed.

Theorem parse_go_string e :
  wf_tags e = true -> no_dneg e = true -> small e = true ->
  exists e', parse_expr (go_string e) = LOk e' /\ equiv e' e.
Proof.
  intros W D S. destruct (roundtrip_all e D) as [_ [_ [_ [e' [Q H]]]]].
  exists e'. split; [|exact Q]. unfold parse_expr. rewrite lex_go_string by exact W.
  unfold small in S. apply Nat.leb_le in S.
  destruct (Nat.ltb_spec max_size (calls (go_toks e))) as [L|_]; [lia|].
  specialize (H [] I I). rewrite app_nil_r in H. destruct H as [n0 H].
  pose proof (or_from_total None (go_toks e)) as T.
  pose proof (or_from_mono (fuel_for (go_toks e)) (Nat.max n0 (fuel_for (go_toks e))) None (go_toks e)
                (Nat.le_max_r _ _) T) as M.
  rewrite H in M by apply Nat.le_max_l. rewrite <- M. reflexivity.
Qed.

(* ================= the printed constraint line ================= *)
Lemma lstrip_cons_nonws c s : is_ws c = false -> lstrip (c :: s) = c :: s.
Proof. intros W. simpl. rewrite W. reflexivity. Qed.

Lemma render_app a b : render (a ++ b) = render a ++ render b.
Proof. unfold render. rewrite map_app, concat_app. reflexivity. Qed.

(* the printed form starts and ends with a byte that is not white space *)
Lemma go_toks_first e : wf_tags e = true -> exists c s, go_string e = c :: s /\ is_ws c = false.
Proof.
  unfold go_string.
  induction e as [t|x IH|x IHx y IHy|x IHx y IHy]; simpl; intros W.
  - unfold wf_tag in W. apply andb_true_iff in W as [N A]. destruct t as [|c t]; [discriminate|].
    simpl in A. apply andb_true_iff in A as [A _]. exists c, (t ++ []). split; [reflexivity|].
    apply tag_char_not_ws. exact A.
  - exists x21. eexists. split; reflexivity.
  - apply andb_true_iff in W as [Wx _]. rewrite render_app.
    destruct x; try (destruct (IHx Wx) as [c [s [E N]]]; rewrite E; exists c; eexists; split; [reflexivity | exact N]).
    exists x28. eexists. split; reflexivity.
  - apply andb_true_iff in W as [Wx _]. rewrite render_app.
    destruct x; try (destruct (IHx Wx) as [c [s [E N]]]; rewrite E; exists c; eexists; split; [reflexivity | exact N]).
    exists x28. eexists. split; reflexivity.
Qed.

Lemma snoc_app_cons {A} (a : list A) x b c : exists a', a ++ x :: b ++ [c] = a' ++ [c].
Proof. exists (a ++ x :: b). rewrite <- app_assoc. reflexivity. Qed.

Lemma go_toks_last e : wf_tags e = true -> exists s c, go_string e = s ++ [c] /\ is_ws c = false.
Proof.
  unfold go_string.
  assert (P : forall g, exists s, render (paren g) = s ++ [x29]).
  { intros g. unfold paren. exists (x28 :: render g). change (TLP :: g ++ [TRP]) with ([TLP] ++ g ++ [TRP]).
    rewrite !render_app. reflexivity. }
  induction e as [t|x IH|x IHx y IHy|x IHx y IHy]; simpl; intros W.
  - unfold wf_tag in W. apply andb_true_iff in W as [N A].
    destruct (exists_last (l := t)) as [s [c E]]; [destruct t; [discriminate | congruence]|]. subst t.
    rewrite forallb_app in A. apply andb_true_iff in A as [_ A]. simpl in A. apply andb_true_iff in A as [A _].
    exists s, c. split; [unfold render; simpl; rewrite app_nil_r; reflexivity | apply tag_char_not_ws; exact A].
  - destruct x; try (destruct (IH W) as [s [c [E N]]]; change (render (TNot :: ?g)) with (x21 :: render g);
                     rewrite E; exists (x21 :: s), c; split; [reflexivity | exact N]).
    + destruct (P (go_toks (And x1 x2))) as [s E]. change (render (TNot :: ?g)) with (x21 :: render g).
      rewrite E. exists (x21 :: s), x29. split; reflexivity.
    + destruct (P (go_toks (Or x1 x2))) as [s E]. change (render (TNot :: ?g)) with (x21 :: render g).
      rewrite E. exists (x21 :: s), x29. split; reflexivity.
  - apply andb_true_iff in W as [_ Wy]. rewrite render_app.
    change (render (TAnd :: ?g)) with (B " && " ++ render g).
    destruct y; try (destruct (IHy Wy) as [s [c [E N]]]; rewrite E; eexists; exists c; split; [rewrite !app_assoc; reflexivity | exact N]).
    destruct (P (go_toks (Or y1 y2))) as [s E]. rewrite E. eexists; exists x29. split; [rewrite !app_assoc; reflexivity | reflexivity].
  - apply andb_true_iff in W as [_ Wy]. rewrite render_app.
    change (render (TOr :: ?g)) with (B " || " ++ render g).
    destruct y; try (destruct (IHy Wy) as [s [c [E N]]]; rewrite E; eexists; exists c; split; [rewrite !app_assoc; reflexivity | exact N]).
    destruct (P (go_toks (And y1 y2))) as [s E]. rewrite E. eexists; exists x29. split; [rewrite !app_assoc; reflexivity | reflexivity].
Qed.

Definition gb_text (x : str) : str := GOBUILD ++ x20 :: x.

Lemma rstrip_gobuild y : rstrip (GOBUILD ++ y) = GOBUILD ++ rstrip y.
Proof.
  unfold GOBUILD. set (g := B "//go:build"). vm_compute in g. subst g. cbn [app].
  repeat (rewrite rstrip_cons_nonws by reflexivity). reflexivity.
Qed.

Lemma trim_gb_text x : trim (gb_text x) = GOBUILD ++ rstrip (x20 :: x).
Proof. unfold trim, gb_text. rewrite rstrip_gobuild. reflexivity. Qed.

Lemma trim_gb_go_string e : wf_tags e = true -> trim (gb_text (go_string e)) = gb_text (go_string e).
Proof.
  intros W. rewrite trim_gb_text. destruct (go_toks_last e W) as [s [c [E N]]]. rewrite E.
  change (x20 :: s ++ [c]) with ((x20 :: s) ++ [c]). rewrite rstrip_snoc by exact N. reflexivity.
Qed.

Lemma skipn_gobuild y : skipn 10 (GOBUILD ++ y) = y.
Proof. reflexivity. Qed.
Lemma has_prefix_gobuild y : has_prefix (GOBUILD ++ y) GOBUILD = true.
Proof. apply has_prefix_spec. exists y. reflexivity. Qed.

Lemma parse_line_canon e :
  wf_tags e = true -> no_dneg e = true -> small e = true ->
  exists e', parse_line (trim (gb_text (go_string e))) = LOk e' /\ equiv e' e.
Proof.
  intros W D Sm. rewrite trim_gb_go_string by exact W. unfold parse_line, gb_text.
  rewrite has_prefix_gobuild, skipn_gobuild.
  destruct (go_toks_last e W) as [s [c [E N]]]. destruct (go_toks_first e W) as [c0 [s0 [E0 N0]]].
  assert (T : trim (x20 :: go_string e) = go_string e).
  { unfold trim. rewrite E. change (x20 :: s ++ [c]) with ((x20 :: s) ++ [c]). rewrite rstrip_snoc by exact N.
    simpl. rewrite <- E, E0. apply lstrip_cons_nonws. exact N0. }
  rewrite T. simpl length. destruct (Nat.eqb_spec (S (length (go_string e))) (length (go_string e))) as [X|_]; [lia|].
  apply parse_go_string; assumption.
Qed.

(* ================= go/build's header scan ================= *)
Lemma run_app chk a : forall st b,
  run chk st (a ++ b) = match run chk st a with Some st' => run chk st' b | None => None end.
Proof.
  induction a as [|l a IH]; intros st b; [reflexivity|]. simpl.
  destruct (chk && negb st && is_directive (trim l)); [reflexivity|].
  destruct (scan_line st (trim l)); try apply IH; reflexivity.
Qed.

Lemma run_true_false st ls r : run true st ls = Some r -> run false st ls = Some r.
Proof.
  revert st. induction ls as [|l t IH]; intros st H; [exact H|]. simpl in *.
  destruct (negb st && is_directive (trim l)); [discriminate|].
  destruct (scan_line st (trim l)); try apply IH; try exact H.
Qed.

Lemma quiet_comment_only bp : quiet bp = true -> comment_only bp = true.
Proof.
  unfold quiet, comment_only. destruct (run true false (split_nl bp)) as [[|]|] eqn:E; try discriminate.
  rewrite (run_true_false _ _ _ E). reflexivity.
Qed.

Lemma pfh_quiet pre : forall st st' a rest,
  run true st pre = Some st' -> parse_file_header st a (pre ++ rest) = parse_file_header st' a rest.
Proof.
  induction pre as [|l t IH]; intros st st' a rest H; simpl in H.
  - injection H as <-. reflexivity.
  - simpl. unfold is_directive in H.
    destruct st; simpl in *.
    + destruct (scan_line true (trim l)); try discriminate; apply IH; exact H.
    + destruct (is_gobuild (trim l)); [discriminate|]. destruct (is_plusbuild (trim l)); [discriminate|].
      destruct (is_binary_only (trim l)); [discriminate|]. simpl.
      destruct (scan_line false (trim l)); try discriminate; apply IH; exact H.
Qed.

Lemma run_map_rstrip chk ls : forall st, run chk st (map rstrip ls) = run chk st ls.
Proof.
  induction ls as [|l t IH]; intros st; [reflexivity|]. simpl. rewrite trim_rstrip.
  destruct (chk && negb st && is_directive (trim l)); [reflexivity|].
  destruct (scan_line st (trim l)); try apply IH; reflexivity.
Qed.

Lemma run_collapse chk ls : forall st pb, run chk st (collapse st pb ls) = run chk st ls.
Proof.
  induction ls as [|l t IH]; intros st pb; [reflexivity|]. simpl.
  destruct st; simpl.
  - rewrite andb_false_r. simpl. destruct (scan_line true (trim l)) eqn:E; try reflexivity; apply IH.
  - destruct l as [|c l']; simpl.
    + destruct pb; simpl; rewrite ?andb_false_r; apply IH.
    + match goal with |- (if ?b then _ else _) = _ => destruct b; [reflexivity|] end.
      destruct (scan_line false (trim (c :: l'))) eqn:E; try reflexivity; apply IH.
Qed.

Lemma run_norm chk ls st : run chk st (collapse st false (map rstrip ls)) = run chk st ls.
Proof. rewrite run_collapse. apply run_map_rstrip. Qed.

(* the three lines every header ends with *)
Definition gb_ok (gl : str) : Prop :=
  is_gobuild (trim gl) = true /\ scan_line false (trim gl) = ROut.
Definition code_line (l : str) : Prop :=
  scan_line false (trim l) = RCode /\ is_gobuild (trim l) = false /\
  is_plusbuild (trim l) = false /\ is_binary_only (trim l) = false.

Lemma gb_ok_text x : gb_ok (gb_text x).
Proof.
  unfold gb_ok. rewrite trim_gb_text. split.
  - unfold is_gobuild. rewrite has_prefix_gobuild, skipn_gobuild. simpl.
    destruct (rstrip x); reflexivity.
  - reflexivity.
Qed.

Lemma code_pkg pkg : code_line (pkg_line pkg).
Proof.
  unfold code_line, pkg_line. change (B "package " ++ pkg) with (x70 :: (B "ackage " ++ pkg)).
  rewrite trim_cons_nonws by reflexivity. repeat split; reflexivity.
Qed.

Lemma pfh_blank a t : parse_file_header false a ([] :: t) = parse_file_header false a t.
Proof. reflexivity. Qed.

Lemma pfh_gb a l t :
  is_gobuild (trim l) = true -> h_gb a = None -> scan_line false (trim l) = ROut ->
  parse_file_header false a (l :: t) = parse_file_header false {| h_gb := Some (trim l); h_other := h_other a |} t.
Proof. intros G N S. simpl. rewrite G, N, S. reflexivity. Qed.
Lemma pfh_code a l t :
  scan_line false (trim l) = RCode -> is_gobuild (trim l) = false ->
  is_plusbuild (trim l) = false -> is_binary_only (trim l) = false ->
  parse_file_header false a (l :: t) = HOk a.
Proof. intros C1 C2 C3 C4. simpl. rewrite C1, C2, C3, C4. reflexivity. Qed.

Lemma should_build_shape tags A gl Bq pl :
  run true false A = Some false -> run true false Bq = Some false -> gb_ok gl -> code_line pl ->
  should_build tags (A ++ gl :: [] :: Bq ++ [pl]) =
  match parse_line (trim gl) with LOk e => of_bool (eval tags e) | LErr => BadConstraint | LFuel => FuelOut end.
Proof.
  intros HA HB [G1 G2] [C1 [C2 [C3 C4]]]. unfold should_build.
  rewrite (pfh_quiet A false false _ _ HA).
  rewrite pfh_gb by (try reflexivity; assumption).
  rewrite pfh_blank. rewrite (pfh_quiet Bq false false _ _ HB).
  rewrite pfh_code by assumption. reflexivity.
Qed.

Lemma should_build_noconstraint tags A pl :
  run true false A = Some false -> code_line pl -> should_build tags (A ++ [pl]) = Included.
Proof.
  intros HA [C1 [C2 [C3 C4]]]. unfold should_build. rewrite (pfh_quiet A false false _ _ HA).
  rewrite pfh_code by assumption. reflexivity.
Qed.

Lemma followed_shape A gl rest :
  run true false A = Some false -> gb_ok gl ->
  gobuild_followed_by_blank false (A ++ gl :: [] :: rest) = true.
Proof.
  intros HA [G1 G2]. revert HA. generalize false at 1 3 as st.
  induction A as [|l t IH]; intros st HA; simpl in HA.
  - injection HA as ->. simpl. rewrite G1. reflexivity.
  - simpl. unfold is_directive in HA. destruct st; simpl in *.
    + destruct (scan_line true (trim l)); try discriminate; apply IH; exact HA.
    + destruct (is_gobuild (trim l)); [discriminate|]. simpl in HA.
      destruct (is_plusbuild (trim l) || is_binary_only (trim l)); [discriminate|].
      destruct (scan_line false (trim l)); try discriminate; apply IH; exact HA.
Qed.

(* ================= marker ================= *)
Lemma is_generated_after pre : forall st rest,
  run false st pre = Some false -> is_generated st (pre ++ M1 :: rest) = true.
Proof.
  induction pre as [|l t IH]; intros st rest H; simpl in H.
  - injection H as ->. reflexivity.
  - simpl. destruct (negb st && matches_generated l); [reflexivity|].
    destruct (scan_line st (trim l)); try discriminate; apply IH; exact H.
Qed.

(* ================= the templates' lines ================= *)
Arguments gb_text : simpl never.

Lemma marker_lines t : split_nl (marker_text t) = [M1; M2; M3 t].
Proof. destruct t; vm_compute; reflexivity. Qed.

Definition bp_lines (bp : option str) : list str := match bp with Some b => split_nl b | None => [] end.
Definition markers (t : tmpl) : list str := [M1; M2; M3 t].

Lemma above_lines t bp : split_nl (above_constraint t bp) = markers t ++ bp_lines bp.
Proof.
  unfold above_constraint. destruct bp as [b|]; simpl bp_lines.
  - rewrite split_nl_app, marker_lines. reflexivity.
  - rewrite !app_nil_r. apply marker_lines.
Qed.

Lemma split_nl_lf b : split_nl (LF :: b) = [] :: split_nl b.
Proof. apply (split_nl_app [] b). Qed.

Lemma no_lf_gb_text x : no_lf x = true -> no_lf (gb_text x) = true.
Proof. intros H. unfold gb_text, no_lf. rewrite forallb_app. simpl. exact H. Qed.
Lemma no_lf_pkg_line pkg : no_lf pkg = true -> no_lf (pkg_line pkg) = true.
Proof. intros H. unfold pkg_line, no_lf. rewrite forallb_app. simpl. exact H. Qed.

Lemma noop_lines_tags t bp x pkg : no_lf x = true -> no_lf pkg = true ->
  file_lines Noop t bp (Some x) pkg = (markers t ++ bp_lines bp ++ [[]]) ++ gb_text x :: [] :: [] ++ [pkg_line pkg].
Proof.
  intros Hx Hp. unfold file_lines, header_noop. change (GOBUILD ++ x20 :: x) with (gb_text x).
  replace ((above_constraint t bp ++ (LF :: LF :: gb_text x) ++ [LF; LF]) ++ pkg_line pkg)
    with (above_constraint t bp ++ LF :: LF :: gb_text x ++ LF :: LF :: pkg_line pkg)
    by (rewrite <- !app_assoc; reflexivity).
  rewrite split_nl_app, above_lines, split_nl_lf, split_nl_app, split_nl_lf.
  rewrite (split_nl_nolf _ (no_lf_gb_text x Hx)), (split_nl_nolf _ (no_lf_pkg_line pkg Hp)).
  rewrite <- !app_assoc. reflexivity.
Qed.

Lemma noop_lines_notags t bp pkg : no_lf pkg = true ->
  file_lines Noop t bp None pkg = (markers t ++ bp_lines bp ++ [[]]) ++ [pkg_line pkg].
Proof.
  intros Hp. unfold file_lines, header_noop.
  replace ((above_constraint t bp ++ [] ++ [LF; LF]) ++ pkg_line pkg)
    with (above_constraint t bp ++ LF :: LF :: pkg_line pkg) by (rewrite <- !app_assoc; reflexivity).
  rewrite split_nl_app, above_lines, split_nl_lf, (split_nl_nolf _ (no_lf_pkg_line pkg Hp)).
  rewrite <- !app_assoc. reflexivity.
Qed.

Definition obp_quiet (bp : option str) : bool := match bp with Some b => quiet b | None => true end.

Lemma run_markers chk t : run chk false (markers t) = Some false.
Proof. destruct chk, t; vm_compute; reflexivity. Qed.

Lemma run_above t bp : obp_quiet bp = true -> run true false (markers t ++ bp_lines bp) = Some false.
Proof.
  intros Q. rewrite run_app, run_markers. destruct bp as [b|]; simpl in *; [|reflexivity].
  unfold quiet in Q. destruct (run true false (split_nl b)) as [[|]|]; try discriminate. reflexivity.
Qed.

Lemma run_snoc_blank chk ls : run chk false ls = Some false -> run chk false (ls ++ [[]]) = Some false.
Proof. intros H. rewrite run_app, H. destruct chk; reflexivity. Qed.

(* ================= go/printer's placement ================= *)
Fixpoint cstate (st pb : bool) (ls : list str) : bool * bool :=
  match ls with
  | [] => (st, pb)
  | l :: t =>
    let st' := match scan_line st (trim l) with RIn => true | _ => false end in
    if negb st && is_nil l then cstate false true t else cstate st' false t
  end.

Lemma collapse_app a : forall st pb b,
  collapse st pb (a ++ b) = collapse st pb a ++ collapse (fst (cstate st pb a)) (snd (cstate st pb a)) b.
Proof.
  induction a as [|l t IH]; intros st pb b; [reflexivity|]. simpl.
  destruct (negb st && is_nil l).
  - destruct pb; simpl; rewrite IH; reflexivity.
  - simpl. rewrite IH. reflexivity.
Qed.

Lemma cstate_run chk a : forall st pb st', run chk st a = Some st' -> fst (cstate st pb a) = st'.
Proof.
  induction a as [|l t IH]; intros st pb st' H; simpl in H; [injection H as <-; reflexivity|].
  simpl. destruct (chk && negb st && is_directive (trim l)); [discriminate|].
  destruct st; simpl.
  - destruct (scan_line true (trim l)); try discriminate; eapply IH; exact H.
  - destruct l as [|c l']; simpl.
    + eapply IH. exact H.
    + destruct (scan_line false (trim (c :: l'))); try discriminate; eapply IH; exact H.
Qed.

Lemma collapse_cons_nonnil l t pb :
  is_nil l = false -> scan_line false (trim l) = ROut -> collapse false pb (l :: t) = l :: collapse false false t.
Proof. intros N S. simpl. rewrite N, S. reflexivity. Qed.

Lemma scan_gobuild y : scan_line false (trim (GOBUILD ++ y)) = ROut.
Proof. unfold trim. rewrite rstrip_gobuild. reflexivity. Qed.

Lemma gb_canon_form x : exists y, gb_canon x = GOBUILD ++ y.
Proof.
  unfold gb_canon. destruct (parse_line _); [eexists; reflexivity | |];
    rewrite rstrip_gobuild; eexists; reflexivity.
Qed.

Lemma gb_canon_ok x e : parse_line (trim (gb_text x)) = LOk e -> gb_canon x = gb_text (go_string e).
Proof. intros H. unfold gb_canon. change (GOBUILD ++ x20 :: x) with (gb_text x). rewrite trim_rstrip, H. reflexivity. Qed.

Definition lead (l : str) : bool := is_nil l || is_slash l.

Lemma lead_split_app ls : forall p q, lead_split ls = (p, q) -> p ++ q = ls.
Proof.
  induction ls as [|l t IH]; intros p q H; simpl in H; [injection H as <- <-; reflexivity|].
  destruct (is_nil l || is_slash l); [|injection H as <- <-; reflexivity].
  destruct (lead_split t) as [p0 q0]. specialize (IH p0 q0 eq_refl).
  destruct p0 as [|a p0'].
  - destruct (is_nil l); injection H as <- <-; simpl in *; rewrite IH; reflexivity.
  - injection H as <- <-. simpl. f_equal. exact IH.
Qed.

Lemma lead_split_lead ls : forall p q, lead_split ls = (p, q) -> forallb lead p = true.
Proof.
  induction ls as [|l t IH]; intros p q H; simpl in H; [injection H as <- <-; reflexivity|].
  destruct (is_nil l || is_slash l) eqn:L; [|injection H as <- <-; reflexivity].
  destruct (lead_split t) as [p0 q0]. specialize (IH p0 q0 eq_refl).
  destruct p0 as [|a p0'].
  - destruct (is_nil l) eqn:N; injection H as <- <-; simpl; [unfold lead; rewrite N|]; reflexivity.
  - injection H as <- <-. simpl. unfold lead at 1. rewrite L. exact IH.
Qed.

Lemma scan_slash l : is_slash l = true -> scan_line false (trim l) = ROut.
Proof.
  unfold is_slash. intros H. apply has_prefix_spec in H as [r ->].
  change (B "//" ++ r) with (x2f :: x2f :: r).
  rewrite trim_cons_nonws by reflexivity. rewrite rstrip_cons_nonws by reflexivity. reflexivity.
Qed.

Lemma run_lead chk p : forallb lead p = true -> forall s, run chk false p = Some s -> s = false.
Proof.
  induction p as [|l t IH]; intros F s H; simpl in *; [congruence|].
  apply andb_true_iff in F as [L F]. destruct (chk && true && is_directive (trim l)); [discriminate|].
  unfold lead in L. destruct l as [|c l'].
  - simpl in H. apply IH; assumption.
  - simpl in L. rewrite (scan_slash _ L) in H. apply IH; assumption.
Qed.

Lemma collapse_suffix_gb A gl :
  run true false A = Some false -> is_nil gl = false -> scan_line false (trim gl) = ROut ->
  collapse false false (A ++ [gl; []]) = collapse false false A ++ [gl; []].
Proof.
  intros H N S. rewrite collapse_app. rewrite (cstate_run true A false false false H).
  rewrite collapse_cons_nonnil by assumption. reflexivity.
Qed.

(* in every case the formatted file has the shape  A ++ gb :: [] :: Bq ++ [package clause]
   with A and Bq blank/comment-only, free of constraint lines and closed *)
Lemma place_shape L gl :
  run true false L = Some false -> gb_ok gl -> is_nil gl = false ->
  exists A Bq, place L gl = A ++ gl :: [] :: Bq /\
               run true false A = Some false /\ run true false Bq = Some false.
Proof.
  intros HL [G1 G2] N. unfold place. destruct (has_other L).
  - destruct (lead_split L) as [p q] eqn:E.
    pose proof (lead_split_app _ _ _ E) as EA. pose proof (lead_split_lead _ _ _ E) as EL.
    exists p, (collapse false false (q ++ [[]])). split; [reflexivity|].
    rewrite <- EA, run_app in HL. destruct (run true false p) as [s|] eqn:Rp; [|discriminate].
    pose proof (run_lead _ _ EL _ Rp) as ->. split; [reflexivity|].
    rewrite run_collapse. apply run_snoc_blank. exact HL.
  - exists (collapse false false (L ++ [[]])), []. split.
    + change (L ++ [[]; gl; []]) with (L ++ [[]] ++ [gl; []]). rewrite app_assoc.
      apply collapse_suffix_gb; [apply run_snoc_blank; exact HL | exact N | exact G2].
    + split; [|reflexivity]. rewrite run_collapse. apply run_snoc_blank. exact HL.
Qed.

Lemma run_fmt_L t bp : obp_quiet bp = true ->
  run true false (norm_lines (split_nl (above_constraint t bp))) = Some false.
Proof. intros Q. unfold norm_lines. rewrite run_norm, above_lines. apply run_above. exact Q. Qed.

(* ================= C17: effectiveness of the constraint ================= *)
Definition is_noop (f : formatter) : bool := match f with Noop => true | _ => false end.

Theorem constraint_effective f t bp x e pkg tags :
  obp_quiet bp = true -> no_lf x = true -> no_lf pkg = true ->
  parse_line (trim (gb_text x)) = LOk e ->
  (is_noop f = false -> wf_tags e = true /\ no_dneg e = true /\ small e = true) ->
  should_build tags (file_lines f t bp (Some x) pkg) = of_bool (eval tags e).
Proof.
  intros Q Hx Hp P G.
  assert (Fmt : is_noop f = false ->
          should_build tags (fmt_lines t bp (Some x) ++ [pkg_line pkg]) = of_bool (eval tags e)).
  { intros NF. destruct (G NF) as [W [D Sm]]. unfold fmt_lines.
    rewrite (gb_canon_ok x e P).
    destruct (place_shape _ (gb_text (go_string e)) (run_fmt_L t bp Q) (gb_ok_text _) eq_refl) as [A [Bq [E [RA RB]]]].
    rewrite E, <- app_assoc. simpl.
    rewrite (should_build_shape tags A _ Bq _ RA RB (gb_ok_text _) (code_pkg pkg)).
    destruct (parse_line_canon e W D Sm) as [e' [P' Q']]. rewrite P', Q'. reflexivity. }
  destruct f; [|apply Fmt; reflexivity|apply Fmt; reflexivity].
  rewrite noop_lines_tags by assumption. rewrite (app_assoc (markers t) (bp_lines bp) [[]]).
  rewrite (should_build_shape tags _ (gb_text x) [] _ (run_snoc_blank _ _ (run_above t bp Q)) eq_refl (gb_ok_text x) (code_pkg pkg)).
  rewrite P. reflexivity.
Qed.

Lemma collapse_nil_end st pb : collapse st pb [] = [].
Proof. reflexivity. Qed.

Theorem no_constraint_included f t bp pkg tags :
  obp_quiet bp = true -> no_lf pkg = true ->
  should_build tags (file_lines f t bp None pkg) = Included.
Proof.
  intros Q Hp.
  assert (Fmt : should_build tags (fmt_lines t bp None ++ [pkg_line pkg]) = Included).
  { unfold fmt_lines. apply should_build_noconstraint; [|apply code_pkg].
    rewrite run_collapse. apply run_snoc_blank. apply run_fmt_L. exact Q. }
  destruct f; try exact Fmt.
  rewrite noop_lines_notags by assumption.
  apply should_build_noconstraint; [|apply code_pkg].
  rewrite app_assoc. apply run_snoc_blank. apply run_above. exact Q.
Qed.

Lemma gb_canon_gb_ok x : gb_ok (gb_canon x) /\ is_nil (gb_canon x) = false.
Proof.
  unfold gb_canon. change (GOBUILD ++ x20 :: x) with (gb_text x).
  destruct (parse_line _).
  - split; [apply gb_ok_text | reflexivity].
  - split; [unfold gb_ok; rewrite trim_rstrip; apply gb_ok_text | unfold gb_text; rewrite rstrip_gobuild; reflexivity].
  - split; [unfold gb_ok; rewrite trim_rstrip; apply gb_ok_text | unfold gb_text; rewrite rstrip_gobuild; reflexivity].
Qed.

Theorem constraint_followed_by_blank f t bp x pkg :
  obp_quiet bp = true -> no_lf x = true -> no_lf pkg = true ->
  gobuild_followed_by_blank false (file_lines f t bp (Some x) pkg) = true.
Proof.
  intros Q Hx Hp.
  assert (Fmt : gobuild_followed_by_blank false (fmt_lines t bp (Some x) ++ [pkg_line pkg]) = true).
  { unfold fmt_lines. destruct (gb_canon_gb_ok x) as [GO N].
    destruct (place_shape _ (gb_canon x) (run_fmt_L t bp Q) GO N) as [A [Bq [E [RA RB]]]].
    rewrite E, <- app_assoc. simpl. apply followed_shape; assumption. }
  destruct f; try exact Fmt.
  rewrite noop_lines_tags by assumption.
  apply followed_shape; [|apply gb_ok_text].
  rewrite app_assoc. apply run_snoc_blank. apply run_above. exact Q.
Qed.

(* ================= C17: the marker ================= *)
Lemma norm_M1 rest : norm_lines (M1 :: rest) = M1 :: collapse false false (map rstrip rest).
Proof.
  unfold norm_lines. simpl map. replace (rstrip M1) with M1 by (vm_compute; reflexivity).
  apply collapse_cons_nonnil; vm_compute; reflexivity.
Qed.

Lemma collapse_M1 rest pb : collapse false pb (M1 :: rest) = M1 :: collapse false false rest.
Proof. apply collapse_cons_nonnil; vm_compute; reflexivity. Qed.

Lemma is_generated_M1 rest : is_generated false (M1 :: rest) = true.
Proof. apply (is_generated_after [] false rest). reflexivity. Qed.

Lemma run_gb_blank gl : gb_ok gl -> run false false [gl; []] = Some false.
Proof. intros [_ G]. simpl. rewrite G. reflexivity. Qed.

(* no hypothesis on the boilerplate or on the tag text *)
Theorem marker_present f t bp tags pkg :
  no_lf pkg = true -> is_generated false (file_lines f t bp tags pkg) = true.
Proof.
  intros Hp.
  assert (Fmt : is_generated false (fmt_lines t bp tags ++ [pkg_line pkg]) = true).
  { unfold fmt_lines. rewrite above_lines. unfold markers. cbn [app]. rewrite norm_M1.
    set (R := collapse false false (map rstrip (M2 :: M3 t :: bp_lines bp))).
    destruct tags as [x|].
    - unfold place. destruct (has_other (M1 :: R)).
      + destruct (lead_split (M1 :: R)) as [p q] eqn:E. pose proof (lead_split_app _ _ _ E) as EA.
        destruct p as [|l p'].
        * simpl in EA. subst q. cbn [app]. rewrite collapse_M1.
          apply (is_generated_after [gb_canon x; []] false). apply run_gb_blank. apply gb_canon_gb_ok.
        * simpl in EA. injection EA as -> _. apply is_generated_M1.
      + cbn [app]. rewrite collapse_M1. apply is_generated_M1.
    - cbn [app]. rewrite collapse_M1. apply is_generated_M1. }
  destruct f; try exact Fmt.
  unfold file_lines, header_noop, above_constraint, marker_text.
  rewrite <- !app_assoc. cbn [app]. rewrite split_nl_app. rewrite (split_nl_nolf M1) by (vm_compute; reflexivity).
  apply is_generated_M1.
Qed.

(* ================= C17: the boilerplate ================= *)
Theorem boilerplate_verbatim_noop t b tags :
  header Noop t (Some b) tags =
  (marker_text t ++ [LF]) ++ b ++
  (match tags with Some x => LF :: LF :: GOBUILD ++ x20 :: x | None => [] end ++ [LF; LF]).
Proof. unfold header, header_noop, above_constraint. rewrite <- !app_assoc. reflexivity. Qed.

Definition is_some {A} (o : option A) : bool := match o with Some _ => true | None => false end.

Lemma scan_in_lstrip l : scan_line true (lstrip l) = scan_line true l.
Proof.
  induction l as [|c t IH]; [reflexivity|]. simpl. destruct (is_ws c) eqn:W; [|reflexivity].
  rewrite IH. destruct c; try discriminate; reflexivity.
Qed.

Lemma line_stable_rstrip l : line_stable l = true -> rstrip l = l.
Proof. unfold line_stable. rewrite andb_true_iff. intros [H _]. apply seqb_eq. exact H. Qed.

Lemma stable_rstrip ls : forall st pb, stable_lines st pb ls = true -> map rstrip ls = ls.
Proof.
  induction ls as [|l t IH]; intros st pb H; [reflexivity|]. simpl in H.
  apply andb_true_iff in H as [L H]. simpl. rewrite (line_stable_rstrip l L). f_equal.
  destruct st as [[sh inner]|].
  - destruct (seqb l (B " */")); [destruct sh; try discriminate; eapply IH; exact H|].
    destruct (seqb l (B "*/")); [destruct sh; try discriminate; apply andb_true_iff in H as [_ H]; eapply IH; exact H|].
    destruct (scan_line true l); try discriminate.
    destruct (is_nil l); [eapply IH; exact H|].
    destruct (starts_star l); [destruct sh; try discriminate; eapply IH; exact H|].
    destruct (flush_line l); [destruct sh; try discriminate; eapply IH; exact H | discriminate].
  - destruct (is_nil l); [apply andb_true_iff in H as [_ H]; eapply IH; exact H|].
    destruct (is_slash l); [eapply IH; exact H|].
    destruct (has_prefix l (B "/*")); [|discriminate].
    match type of H with context [scan_line true ?z] => destruct (scan_line true z) end;
      try discriminate; [apply andb_true_iff in H as [_ H]|]; eapply IH; exact H.
Qed.

Lemma stable_collapse ls : forall st pb, stable_lines st pb ls = true -> collapse (is_some st) pb ls = ls.
Proof.
  induction ls as [|l t IH]; intros st pb H; [reflexivity|]. simpl in H.
  apply andb_true_iff in H as [L H]. pose proof (line_stable_rstrip l L) as RS.
  destruct st as [[sh inner]|]; simpl is_some; cbn [collapse negb andb].
  - (* inside a block comment *)
    f_equal.
    destruct (seqb l (B " */")) eqn:E1.
    { apply seqb_eq in E1. subst l. destruct sh; try discriminate; apply (IH None false H). }
    destruct (seqb l (B "*/")) eqn:E2.
    { apply seqb_eq in E2. subst l. destruct sh; try discriminate. apply andb_true_iff in H as [_ H]. apply (IH None false H). }
    assert (S : scan_line true (trim l) = scan_line true l) by (unfold trim; rewrite RS; apply scan_in_lstrip).
    rewrite S. destruct (scan_line true l); try discriminate.
    destruct (is_nil l); [apply (IH (Some (sh, inner)) false H)|].
    destruct (starts_star l); [destruct sh; try discriminate; apply (IH (Some (BStar, true)) false H)|].
    destruct (flush_line l); [destruct sh; try discriminate; apply (IH (Some (BFlush, true)) false H) | discriminate].
  - destruct l as [|c l'].
    + simpl in H. apply andb_true_iff in H as [P H]. apply negb_true_iff in P. subst pb.
      simpl. f_equal. apply (IH None true H).
    + cbn [is_nil] in *. f_equal.
      destruct (is_slash (c :: l')) eqn:SL.
      { rewrite (scan_slash _ SL). apply (IH None false H). }
      destruct (has_prefix (c :: l') (B "/*")) eqn:HP; [|discriminate].
      apply has_prefix_spec in HP as [r Er]. change (B "/*" ++ r) with (x2f :: x2a :: r) in Er.
      injection Er as -> ->. cbn [skipn] in H. cbn iota in H.
      assert (T : trim (x2f :: x2a :: r) = x2f :: x2a :: r).
      { unfold trim. rewrite RS. reflexivity. }
      rewrite T. change (scan_line false (x2f :: x2a :: r)) with (scan_line true r).
      destruct (scan_line true r); try discriminate.
      * apply andb_true_iff in H as [_ H]. apply (IH None false H).
      * apply (IH (Some (BUnknown, false)) false H).
Qed.

Lemma stable_collapse_out ls pb : stable_lines None pb ls = true -> collapse false pb ls = ls.
Proof. apply (stable_collapse ls None pb). Qed.

Lemma stable_markers t ls : stable_lines None false (markers t ++ ls) = stable_lines None false ls.
Proof. destruct t; reflexivity. Qed.

Lemma lead_split_cons_slash l t :
  is_nil l = false -> is_slash l = true -> fst (lead_split t) = [] -> lead_split (l :: t) = ([], l :: t).
Proof.
  intros N S F. simpl. rewrite N, S. simpl. destruct (lead_split t) as [p q] eqn:E.
  simpl in F. subst p. apply lead_split_app in E. simpl in E. subst q. reflexivity.
Qed.

Lemma has_other_markers t ls : has_other (markers t ++ ls) = has_other ls.
Proof. destruct t; reflexivity. Qed.

Lemma lead_split_markers t ls : fst (lead_split ls) = [] -> lead_split (markers t ++ ls) = ([], markers t ++ ls).
Proof.
  intros F. unfold markers. simpl app.
  assert (F3 : lead_split (M3 t :: ls) = ([], M3 t :: ls)) by (apply lead_split_cons_slash; [destruct t; reflexivity | destruct t; reflexivity | exact F]).
  assert (F2 : lead_split (M2 :: M3 t :: ls) = ([], M2 :: M3 t :: ls)) by (apply lead_split_cons_slash; [reflexivity | reflexivity | rewrite F3; reflexivity]).
  apply lead_split_cons_slash; [reflexivity | reflexivity | rewrite F2; reflexivity].
Qed.

(* under a formatter the lines of a guarded boilerplate stay together, right after the marker *)
Lemma fmt_lines_verbatim t b tags : fmt_verbatim_guard b = true ->
  exists P X, fmt_lines t (Some b) tags = P ++ (markers t ++ split_nl b) ++ X.
Proof.
  unfold fmt_verbatim_guard. rewrite andb_true_iff. intros [ST NS].
  assert (STL : stable_lines None false (markers t ++ split_nl b) = true) by (rewrite stable_markers; exact ST).
  assert (EL : norm_lines (split_nl (above_constraint t (Some b))) = markers t ++ split_nl b).
  { rewrite above_lines. simpl bp_lines. unfold norm_lines. rewrite (stable_rstrip _ _ _ STL).
    apply (stable_collapse_out _ false STL). }
  assert (App : forall Y, exists X, collapse false false ((markers t ++ split_nl b) ++ Y) = (markers t ++ split_nl b) ++ X).
  { intros Y. rewrite collapse_app. rewrite (stable_collapse_out _ false STL). eexists. reflexivity. }
  unfold fmt_lines. rewrite EL. destruct tags as [x|].
  - unfold place. rewrite has_other_markers. unfold no_split in NS. destruct (has_other (split_nl b)).
    + simpl in NS. destruct (fst (lead_split (split_nl b))) eqn:F; [|discriminate].
      rewrite (lead_split_markers t _ F). destruct (App [[]]) as [X EX]. rewrite EX.
      exists [gb_canon x; []], X. reflexivity.
    + destruct (App [[]; gb_canon x; []]) as [X EX]. rewrite EX. exists [], X. reflexivity.
  - destruct (App [[]]) as [X EX]. rewrite EX. exists [], X. reflexivity.
Qed.

Theorem boilerplate_verbatim_fmt f t b tags : fmt_verbatim_guard b = true ->
  exists pre post, header f t (Some b) tags = pre ++ b ++ post.
Proof.
  intros G. destruct f.
  - eexists. eexists. apply boilerplate_verbatim_noop.
  - destruct (fmt_lines_verbatim t b tags G) as [P [X E]]. unfold header. rewrite E.
    rewrite !unlines_app, unlines_split. exists (unlines P ++ unlines (markers t)), ([LF] ++ unlines X).
    rewrite <- !app_assoc. reflexivity.
  - destruct (fmt_lines_verbatim t b tags G) as [P [X E]]. unfold header. rewrite E.
    rewrite !unlines_app, unlines_split. exists (unlines P ++ unlines (markers t)), ([LF] ++ unlines X).
    rewrite <- !app_assoc. reflexivity.
Qed.

(* ================= parsed expressions have well-formed tags ================= *)
Definition tok_wf (t : token) : bool := match t with TTag s => wf_tag s | _ => true end.
Definition toks_wf (ts : list token) : bool := forallb tok_wf ts.

Lemma flush_wf cur k ts : forallb is_tag_char cur = true ->
  flush cur k = Some ts -> (forall ts', k = Some ts' -> toks_wf ts' = true) -> toks_wf ts = true.
Proof.
  intros C F K. destruct cur as [|c cur']; simpl in F.
  - apply K. exact F.
  - destruct k as [ts'|]; [|discriminate]. injection F as <-. simpl. rewrite (K ts' eq_refl).
    unfold wf_tag. simpl is_nil. simpl negb. rewrite C. reflexivity.
Qed.

Lemma ocons_wf t k ts' : tok_wf t = true -> (forall ts, k = Some ts -> toks_wf ts = true) ->
  ocons t k = Some ts' -> toks_wf ts' = true.
Proof. intros T K H. destruct k as [ts|]; [|discriminate]. injection H as <-. simpl. rewrite T. apply K. reflexivity. Qed.

Lemma lex_wf_n n : forall s cur ts, length s <= n ->
  forallb is_tag_char cur = true -> lex cur s = Some ts -> toks_wf ts = true.
Proof.
  induction n as [|n IH]; intros s cur ts L C H.
  - destruct s; [|simpl in L; lia]. simpl in H.
    eapply flush_wf; [exact C | exact H |]. intros ts' E. injection E as <-. reflexivity.
  - destruct s as [|c t].
    { simpl in H. eapply flush_wf; [exact C | exact H |]. intros ts' E. injection E as <-. reflexivity. }
    simpl in L. simpl in H. destruct (is_tag_char c) eqn:TC.
    + eapply (IH t); [lia | | exact H]. rewrite forallb_app, C. simpl. rewrite TC. reflexivity.
    + assert (R : forall ts', lex [] t = Some ts' -> toks_wf ts' = true) by (intros ts' E; eapply (IH t []); [lia | reflexivity | exact E]).
      destruct c; try discriminate;
        try (eapply flush_wf; [exact C | exact H |]; intros ts' E; first [apply R; exact E | eapply ocons_wf; [ | | exact E]; [reflexivity | exact R]]).
      * destruct t as [|c2 t']; [simpl in H; discriminate|]. destruct c2; try (simpl in H; discriminate).
        eapply flush_wf; [exact C | exact H |]. intros ts' E. eapply ocons_wf; [ | | exact E]; [reflexivity|].
        intros ts2 E2. eapply (IH t' []); [simpl in L; lia | reflexivity | exact E2].
      * destruct t as [|c2 t']; [simpl in H; discriminate|]. destruct c2; try (simpl in H; discriminate).
        eapply flush_wf; [exact C | exact H |]. intros ts' E. eapply ocons_wf; [ | | exact E]; [reflexivity|].
        intros ts2 E2. eapply (IH t' []); [simpl in L; lia | reflexivity | exact E2].
Qed.

Lemma lex_wf s ts : lex [] s = Some ts -> toks_wf ts = true.
Proof. intros H. eapply (lex_wf_n (length s) s []); [lia | reflexivity | exact H]. Qed.

Definition acc_wf (acc : option expr) : bool := match acc with Some a => wf_tags a | None => true end.

Lemma parse_wf_step n :
  (forall acc ts x r, toks_wf ts = true -> acc_wf acc = true -> or_from n acc ts = POk x r -> wf_tags x = true /\ toks_wf r = true) /\
  (forall acc ts x r, toks_wf ts = true -> acc_wf acc = true -> and_from n acc ts = POk x r -> wf_tags x = true /\ toks_wf r = true) /\
  (forall ts x r, toks_wf ts = true -> p_not n ts = POk x r -> wf_tags x = true /\ toks_wf r = true).
Proof.
  induction n as [|n [IHo [IHa IHn]]].
  - repeat split; intros; simpl in *; discriminate.
  - assert (Hatom : forall ts x r, toks_wf ts = true -> atom (or_from n None) ts = POk x r -> wf_tags x = true /\ toks_wf r = true).
    { intros ts x r W H. destruct ts as [|[s| | | | |] t]; simpl in H; try discriminate.
      - injection H as <- <-. simpl in W. apply andb_true_iff in W as [W1 W2]. split; assumption.
      - destruct (or_from n None t) as [y r0| |] eqn:E; try discriminate.
        destruct r0 as [|[s| | | | |] r1]; try discriminate. injection H as <- <-.
        apply IHo in E; [|exact W|reflexivity]. destruct E as [E1 E2]. split; [exact E1 | exact E2]. }
    repeat split.
    + simpl in H1. destruct (and_from n None ts) as [y r0| |] eqn:E; try discriminate.
      apply IHa in E; [|assumption|reflexivity]. destruct E as [E1 E2].
      assert (CW : wf_tags (comb Or acc y) = true) by (destruct acc; simpl in *; [rewrite H0|]; assumption).
      destruct r0 as [|[s| | | | |] r1]; try (injection H1 as <- <-; assumption).
      apply IHo in H1; [destruct H1; assumption | exact E2 | exact CW].
    + simpl in H1. destruct (and_from n None ts) as [y r0| |] eqn:E; try discriminate.
      apply IHa in E; [|assumption|reflexivity]. destruct E as [E1 E2].
      assert (CW : wf_tags (comb Or acc y) = true) by (destruct acc; simpl in *; [rewrite H0|]; assumption).
      destruct r0 as [|[s| | | | |] r1]; try (injection H1 as <- <-; assumption).
      apply IHo in H1; [destruct H1; assumption | exact E2 | exact CW].
    + simpl in H1. destruct (p_not n ts) as [y r0| |] eqn:E; try discriminate.
      apply IHn in E; [|assumption]. destruct E as [E1 E2].
      assert (CW : wf_tags (comb And acc y) = true) by (destruct acc; simpl in *; [rewrite H0|]; assumption).
      destruct r0 as [|[s| | | | |] r1]; try (injection H1 as <- <-; assumption).
      apply IHa in H1; [destruct H1; assumption | exact E2 | exact CW].
    + simpl in H1. destruct (p_not n ts) as [y r0| |] eqn:E; try discriminate.
      apply IHn in E; [|assumption]. destruct E as [E1 E2].
      assert (CW : wf_tags (comb And acc y) = true) by (destruct acc; simpl in *; [rewrite H0|]; assumption).
      destruct r0 as [|[s| | | | |] r1]; try (injection H1 as <- <-; assumption).
      apply IHa in H1; [destruct H1; assumption | exact E2 | exact CW].
    + change (p_not (S n) ts) with
        (match ts with
         | TNot :: TNot :: _ => PErr
         | TNot :: r => match atom (or_from n None) r with POk x r' => POk (Not x) r' | o => o end
         | _ => atom (or_from n None) ts end) in H0.
      destruct ts as [|[s| | | | |] t]; try (apply Hatom in H0; [destruct H0; assumption | exact H]).
      destruct t as [|[s| | | | |] t']; try discriminate;
        match type of H0 with
        | match atom ?f ?l with _ => _ end = _ =>
          destruct (atom f l) as [y r0| |] eqn:E; try discriminate; injection H0 as <- <-;
          apply Hatom in E; [destruct E; assumption | exact H]
        end.
    + change (p_not (S n) ts) with
        (match ts with
         | TNot :: TNot :: _ => PErr
         | TNot :: r => match atom (or_from n None) r with POk x r' => POk (Not x) r' | o => o end
         | _ => atom (or_from n None) ts end) in H0.
      destruct ts as [|[s| | | | |] t]; try (apply Hatom in H0; [destruct H0; assumption | exact H]).
      destruct t as [|[s| | | | |] t']; try discriminate;
        match type of H0 with
        | match atom ?f ?l with _ => _ end = _ =>
          destruct (atom f l) as [y r0| |] eqn:E; try discriminate; injection H0 as <- <-;
          apply Hatom in E; [destruct E; assumption | exact H]
        end.
Qed.

Lemma parse_expr_wf s e : parse_expr s = LOk e -> wf_tags e = true.
Proof.
  unfold parse_expr. destruct (lex [] s) as [ts|] eqn:L; [|discriminate].
  destruct (Nat.ltb max_size (calls ts)); [discriminate|].
  destruct (or_from (fuel_for ts) None ts) as [x r| |] eqn:E; try discriminate.
  destruct r; [|discriminate]. intros H. injection H as <-.
  apply (proj1 (parse_wf_step _)) in E; [apply E | eapply lex_wf; exact L | reflexivity].
Qed.

Lemma parse_line_wf l e : parse_line l = LOk e -> wf_tags e = true.
Proof.
  unfold parse_line. destruct (has_prefix l GOBUILD); [|discriminate].
  destruct (Nat.eqb _ _); [discriminate|]. apply parse_expr_wf.
Qed.

(* ================= final forms ================= *)
Theorem constraint_effective_parsed f t bp x e pkg tags :
  obp_quiet bp = true -> no_lf x = true -> no_lf pkg = true ->
  parse_line (trim (gb_text x)) = LOk e ->
  (is_noop f = false -> no_dneg e = true /\ small e = true) ->
  should_build tags (file_lines f t bp (Some x) pkg) = of_bool (eval tags e).
Proof.
  intros Q Hx Hp P G. apply constraint_effective; try assumption.
  intros NF. destruct (G NF) as [D Sm]. repeat split; try assumption. eapply parse_line_wf. exact P.
Qed.

(* every expression has a text (its Go String()) that the go command reads back with the same meaning *)
Theorem every_expression_has_a_text e :
  wf_tags e = true -> no_dneg e = true -> small e = true ->
  no_lf (go_string e) = true /\
  exists e', parse_line (trim (gb_text (go_string e))) = LOk e' /\ equiv e' e.
Proof.
  intros W D Sm. split; [|apply parse_line_canon; assumption].
  destruct (parse_line_canon e W D Sm) as [e' [P _]].
  (* a text that lexes contains no newline *)
  rewrite trim_gb_go_string in P by exact W. unfold parse_line, gb_text in P.
  rewrite has_prefix_gobuild, skipn_gobuild in P.
  clear P. unfold go_string.
  assert (T : forall ts, toks_ok false ts = true \/ toks_ok true ts = true -> no_lf (render ts) = true).
  { induction ts as [|t r IH]; intros H; [reflexivity|].
    change (render (t :: r)) with (tok_str t ++ render r). unfold no_lf. rewrite forallb_app.
    apply andb_true_iff. split.
    - destruct t; try reflexivity. simpl in H.
      assert (WT : wf_tag s = true) by (destruct H as [H|H]; [apply andb_true_iff in H as [H _]; exact H | discriminate]).
      unfold wf_tag in WT. apply andb_true_iff in WT as [_ A]. simpl tok_str.
      clear -A. induction s as [|c s IHs]; [reflexivity|]. simpl in *. apply andb_true_iff in A as [A1 A2].
      rewrite (IHs A2), andb_true_r. destruct c; try reflexivity. vm_compute in A1. discriminate.
    - apply IH. destruct t; simpl in H; destruct H as [H|H]; try discriminate;
        try (left; exact H); try (right; apply andb_true_iff in H as [_ H]; exact H). }
  apply T. left. apply go_toks_ok. exact W.
Qed.

(* witnesses of the three guarded classes *)
Lemma dneg_witness :
  let x := B "!(!foo)" in
  exists e, parse_line (trim (gb_text x)) = LOk e /\ no_dneg e = false /\
            should_build (fun _ => true) (file_lines Gofmt Testify None (Some x) (B "mocks")) = BadConstraint /\
            should_build (fun _ => true) (file_lines Noop Testify None (Some x) (B "mocks")) = Included.
Proof. eexists. vm_compute. repeat split. Qed.

Lemma directive_witness :
  let b := B "//go:build bar" in
  comment_only b = true /\ quiet b = false /\
  should_build (fun _ => true) (file_lines Noop Testify (Some b) (Some (B "foo")) (B "mocks")) = MultipleGoBuild.
Proof. vm_compute. repeat split. Qed.

Fixpoint is_infix (p s : str) : bool :=
  has_prefix s p || match s with [] => false | _ :: t => is_infix p t end.

Lemma is_infix_spec p s : is_infix p s = true <-> exists pre post, s = pre ++ p ++ post.
Proof.
  induction s as [|c t IH]; cbn [is_infix].
  - rewrite orb_false_r. split.
    + intros H. apply has_prefix_spec in H as [r E]. exists [], r. exact E.
    + intros [pre [post E]]. destruct pre; [|discriminate]. apply has_prefix_spec. exists post. exact E.
  - rewrite orb_true_iff, IH. split.
    + intros [H|[pre [post E]]].
      * apply has_prefix_spec in H as [r E]. exists [], r. exact E.
      * exists (c :: pre), post. rewrite E. reflexivity.
    + intros [pre [post E]]. destruct pre as [|d pre].
      * left. apply has_prefix_spec. exists post. exact E.
      * right. injection E as _ E. exists pre, post. exact E.
Qed.

Lemma split_witness :
  let b := B "// a" ++ [LF; LF] ++ B "/* b */" in
  quiet b = true /\ fmt_verbatim_guard b = false /\
  is_infix b (header Gofmt Testify (Some b) (Some (B "foo"))) = false /\
  is_infix b (header Noop Testify (Some b) (Some (B "foo"))) = true.
Proof. vm_compute. repeat split. Qed.

Lemma trailing_ws_witness :
  let b := B "// a " in
  quiet b = true /\ fmt_verbatim_guard b = false /\
  is_infix b (header Goimports Matryer (Some b) None) = false.
Proof. vm_compute. repeat split. Qed.

(* ================= regeneration histories ================= *)
Lemma regen_last body old hist s :
  regen body old (hist ++ [(true, s)]) = Some (render_file body s).
Proof.
  unfold regen. rewrite fold_left_app. simpl. unfold write_step.
  destruct (fold_left _ hist old); reflexivity.
Qed.

Lemma regen_last_prefix body old hist s :
  exists rest, regen body old (hist ++ [(true, s)]) =
               Some ((header (s_fmt s) (s_tmpl s) (s_bp s) (s_tags s) ++ pkg_line (s_pkg s)) ++ rest).
Proof. exists (body s). rewrite regen_last. unfold render_file. rewrite <- app_assoc. reflexivity. Qed.

Lemma write_step_no_force body c s : write_step body (Some c) false s = (Some c, WExists).
Proof. reflexivity. Qed.

Lemma write_step_fresh body force s : write_step body None force s = (Some (render_file body s), WOk).
Proof. reflexivity. Qed.

(* ================= several files in one run ================= *)
Lemma run_all_independent body fsys pre j post :
  nth (length pre) (run_all body fsys (pre ++ j :: post)) None =
  option_map (render_file body) (job_settings fsys j).
Proof.
  unfold run_all. rewrite map_app. simpl.
  rewrite app_nth2 by (rewrite map_length; lia). rewrite map_length, Nat.sub_diag. reflexivity.
Qed.

Lemma run_all_length body fsys jobs : length (run_all body fsys jobs) = length jobs.
Proof. apply map_length. Qed.
