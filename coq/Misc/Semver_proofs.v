(* Proofs about Misc/Semver.v: the comparison is a strict total order on everything the
   parser can return; pre-release < release; metadata ignored; print/parse round trip. *)
From Coq Require Import NArith Decimal DecimalN DecimalFacts.
From Mk Require Import Lib.Bytes Misc.Semver.

Local Open Scope N_scope.

(* ---------- bytes <-> Decimal.uint ---------- *)
Lemma digit_of_byte_is_digit b d : digit_of_byte b = Some d -> is_digit b = true.
Proof. unfold is_digit; intros ->; reflexivity. Qed.

Lemma uint_of_bytes_digits s u : uint_of_bytes s = Some u -> all_digits s = true.
Proof.
  revert u; induction s as [|b t IH]; simpl; intros u H; [reflexivity|].
  destruct (digit_of_byte b) as [d|] eqn:Eb; [|discriminate].
  destruct (uint_of_bytes t) as [u'|] eqn:Et; [|discriminate].
  unfold all_digits in *. simpl. rewrite (digit_of_byte_is_digit _ _ Eb), (IH _ eq_refl). reflexivity.
Qed.

Lemma digits_uint_of_bytes s : all_digits s = true -> exists u, uint_of_bytes s = Some u.
Proof.
  unfold all_digits. induction s as [|b t IH]; simpl; intros H; [eauto|].
  apply andb_true_iff in H as [Hb Ht]. destruct (IH Ht) as [u Eu]. rewrite Eu.
  unfold is_digit in Hb. destruct (digit_of_byte b); [eauto | discriminate].
Qed.

Lemma bytes_of_uint_of_bytes s u : uint_of_bytes s = Some u -> bytes_of_uint u = s.
Proof.
  revert u; induction s as [|b t IH]; simpl; intros u H.
  - injection H as <-. reflexivity.
  - destruct (digit_of_byte b) as [d|] eqn:Eb; [|discriminate].
    destruct (uint_of_bytes t) as [u'|] eqn:Et; [|discriminate].
    injection H as <-. specialize (IH _ eq_refl).
    destruct b; simpl in Eb; try discriminate; injection Eb as <-; simpl; rewrite IH; reflexivity.
Qed.

Lemma uint_of_bytes_of_uint u : uint_of_bytes (bytes_of_uint u) = Some u.
Proof. induction u; simpl; try rewrite IHu; reflexivity. Qed.

Lemma to_uint_nonnil n : N.to_uint n <> Nil.
Proof.
  intros H. pose proof (Unsigned.to_of (N.to_uint n)) as T.
  rewrite Unsigned.of_to in T. rewrite H in T. vm_compute in T. discriminate.
Qed.

Lemma print_uint_nonempty n : print_uint n <> [].
Proof.
  unfold print_uint. pose proof (to_uint_nonnil n) as H.
  destruct (N.to_uint n); simpl; congruence.
Qed.

Lemma print_uint_digits n : all_digits (print_uint n) = true.
Proof. unfold print_uint. eapply uint_of_bytes_digits. apply uint_of_bytes_of_uint. Qed.

Lemma parse_print_uint n : n < two64 -> parse_uint (print_uint n) = Some n.
Proof.
  intros Hn. unfold parse_uint. pose proof (print_uint_nonempty n) as Hne.
  destruct (print_uint n) eqn:E; [congruence|]. rewrite <- E.
  unfold print_uint. rewrite uint_of_bytes_of_uint, Unsigned.of_to.
  apply N.ltb_lt in Hn. rewrite Hn. reflexivity.
Qed.

Lemma parse_uint_bound s n : parse_uint s = Some n -> n < two64.
Proof.
  unfold parse_uint. destruct s; [discriminate|].
  destruct (uint_of_bytes _); [|discriminate].
  destruct (N.ltb_spec (N.of_uint u) two64); [|discriminate]. congruence.
Qed.

Lemma parse_uint_digits s n : parse_uint s = Some n -> all_digits s = true /\ s <> [].
Proof.
  unfold parse_uint. destruct s as [|b t]; [discriminate|].
  destruct (uint_of_bytes (b :: t)) eqn:E; [|discriminate]. intros _.
  split; [eapply uint_of_bytes_digits; exact E | discriminate].
Qed.

(* a well-formed numeric identifier is a normalised decimal *)
Lemma wf_ident_unorm x u : wf_ident x = true -> uint_of_bytes x = Some u -> unorm u = u.
Proof.
  intros W E. pose proof (uint_of_bytes_digits _ _ E) as D.
  destruct x as [|b t]; [discriminate|]. unfold wf_ident in W. rewrite D in W. simpl in W.
  simpl in E. destruct (digit_of_byte b) as [d|] eqn:Eb; [|discriminate].
  destruct (uint_of_bytes t) as [u'|] eqn:Et; [|discriminate]. injection E as <-.
  destruct (beqb b c_0) eqn:E0.
  - apply beqb_eq in E0; subst b. destruct t; [|discriminate].
    simpl in Et. injection Et as <-. simpl in Eb. injection Eb as <-. reflexivity.
  - destruct b; simpl in Eb; try discriminate; injection Eb as <-; reflexivity.
Qed.

Lemma parse_uint_inj x y n :
  wf_ident x = true -> wf_ident y = true -> parse_uint x = Some n -> parse_uint y = Some n -> x = y.
Proof.
  intros Wx Wy Hx Hy. unfold parse_uint in *.
  destruct x as [|bx tx]; [discriminate|]. destruct y as [|by_ ty]; [discriminate|].
  destruct (uint_of_bytes (bx :: tx)) as [ux|] eqn:Ex; [|discriminate].
  destruct (uint_of_bytes (by_ :: ty)) as [uy|] eqn:Ey; [|discriminate].
  destruct (N.of_uint ux <? two64); [|discriminate].
  destruct (N.of_uint uy <? two64); [|discriminate].
  injection Hx as Hx. injection Hy as Hy.
  assert (unorm ux = unorm uy) as U by (apply Unsigned.of_inj; congruence).
  rewrite (wf_ident_unorm _ _ Wx Ex), (wf_ident_unorm _ _ Wy Ey) in U. subst uy.
  rewrite <- (bytes_of_uint_of_bytes _ _ Ex), <- (bytes_of_uint_of_bytes _ _ Ey). reflexivity.
Qed.

(* ---------- comparePrePart ---------- *)
Lemma seqb_sym a b : seqb a b = seqb b a.
Proof.
  destruct (seqb a b) eqn:E.
  - apply seqb_eq in E; subst. symmetry. apply seqb_refl.
  - symmetry. apply seqb_neq. apply seqb_neq in E. congruence.
Qed.

(* "comes first" among distinct identifiers: numbers by value, before all non-numbers,
   non-numbers bytewise *)
Definition plt (x y : str) : bool :=
  match parse_uint x, parse_uint y with
  | Some a, Some b => N.ltb a b
  | Some _, None => true
  | None, Some _ => false
  | None, None => sltb x y
  end.

Lemma wf_ident_nonempty x : wf_ident x = true -> x <> [].
Proof. destruct x; [discriminate | discriminate]. Qed.

Lemma cmp_part_spec x y : x <> [] -> y <> [] ->
  cmp_part x y = if seqb x y then Eq else if plt y x then Gt else Lt.
Proof.
  intros Hx Hy. unfold cmp_part, plt. destruct (seqb x y); [reflexivity|].
  destruct x; [congruence|]. destruct y; [congruence|].
  destruct (parse_uint (b0 :: y)), (parse_uint (b :: x)); reflexivity.
Qed.

Lemma cmp_part_refl x : cmp_part x x = Eq.
Proof. unfold cmp_part. rewrite seqb_refl. reflexivity. Qed.

Lemma cmp_part_eq x y : cmp_part x y = Eq -> x = y.
Proof.
  unfold cmp_part. destruct (seqb x y) eqn:E; [intros _; apply seqb_eq; exact E|].
  destruct x, y; try discriminate.
  destruct (parse_uint (b0 :: y)), (parse_uint (b :: x)); try discriminate;
  match goal with |- context [if ?c then _ else _] => destruct c end; discriminate.
Qed.

Lemma plt_irrefl x : plt x x = false.
Proof. unfold plt. destruct (parse_uint x); [apply N.ltb_irrefl | apply sltb_irrefl]. Qed.

Lemma plt_trans x y z : plt x y = true -> plt y z = true -> plt x z = true.
Proof.
  unfold plt. destruct (parse_uint x), (parse_uint y), (parse_uint z); try congruence.
  - rewrite !N.ltb_lt. lia.
  - apply sltb_trans.
Qed.

Lemma plt_total x y : wf_ident x = true -> wf_ident y = true -> x <> y ->
  plt x y = false -> plt y x = true.
Proof.
  intros Wx Wy Hne. unfold plt.
  destruct (parse_uint x) as [a|] eqn:Ex, (parse_uint y) as [b|] eqn:Ey; try congruence.
  - rewrite N.ltb_ge, N.ltb_lt. intros H.
    assert (a <> b) by (intros ->; apply Hne; eapply parse_uint_inj; eauto). lia.
  - intros H. destruct (sltb y x) eqn:E; [reflexivity|]. exfalso. apply Hne. apply sltb_total; assumption.
Qed.

Lemma plt_asym x y : plt x y = true -> plt y x = false.
Proof.
  intros H. destruct (plt y x) eqn:E; [|reflexivity].
  pose proof (plt_trans _ _ _ H E) as T. rewrite plt_irrefl in T. discriminate.
Qed.

Lemma cmp_part_antisym x y : wf_ident x = true -> wf_ident y = true ->
  cmp_part y x = CompOpp (cmp_part x y).
Proof.
  intros Wx Wy. pose proof (wf_ident_nonempty _ Wx) as Nx. pose proof (wf_ident_nonempty _ Wy) as Ny.
  rewrite (cmp_part_spec x y), (cmp_part_spec y x) by assumption.
  rewrite (seqb_sym y x). destruct (seqb x y) eqn:E; [reflexivity|].
  apply seqb_neq in E.
  destruct (plt y x) eqn:P.
  - rewrite (plt_asym _ _ P). reflexivity.
  - rewrite (plt_total y x); auto.
Qed.

Lemma cmp_part_lt x y : x <> [] -> y <> [] -> (cmp_part x y = Lt <-> x <> y /\ plt y x = false).
Proof.
  intros Nx Ny. rewrite cmp_part_spec by assumption.
  destruct (seqb x y) eqn:E.
  - apply seqb_eq in E. split; [discriminate | intros [H _]; contradiction].
  - apply seqb_neq in E. destruct (plt y x); split; try discriminate; try tauto. intros [_ H]; discriminate.
Qed.

Lemma cmp_part_trans x y z : wf_ident x = true -> wf_ident y = true -> wf_ident z = true ->
  cmp_part x y = Lt -> cmp_part y z = Lt -> cmp_part x z = Lt.
Proof.
  intros Wx Wy Wz. pose proof (wf_ident_nonempty _ Wx) as Nx.
  pose proof (wf_ident_nonempty _ Wy) as Ny. pose proof (wf_ident_nonempty _ Wz) as Nz.
  rewrite !cmp_part_lt by assumption. intros [Hxy Pxy] [Hyz Pyz].
  pose proof (plt_total _ _ Wy Wx ltac:(congruence) Pxy) as Lxy.
  pose proof (plt_total _ _ Wz Wy ltac:(congruence) Pyz) as Lyz.
  pose proof (plt_trans _ _ _ Lxy Lyz) as Lxz. split.
  - intros ->. rewrite plt_irrefl in Lxz. discriminate.
  - apply plt_asym. exact Lxz.
Qed.

(* ---------- comparePrerelease on lists of well-formed identifiers ---------- *)
Definition wfl (l : list str) : bool := forallb wf_ident l.

Lemma cmp_rest_l_wf a : wfl a = true -> cmp_rest_l a = match a with [] => Eq | _ => Gt end.
Proof.
  destruct a as [|x a]; [reflexivity|]. simpl. intros H. apply andb_true_iff in H as [Wx _].
  destruct x; [discriminate|]. reflexivity.
Qed.
Lemma cmp_rest_r_wf b : wfl b = true -> cmp_rest_r b = match b with [] => Eq | _ => Lt end.
Proof.
  destruct b as [|y b]; [reflexivity|]. simpl. intros H. apply andb_true_iff in H as [Wy _].
  destruct y; [discriminate|]. reflexivity.
Qed.

Lemma cmp_parts_refl a : wfl a = true -> cmp_parts a a = Eq.
Proof.
  induction a as [|x a IH]; simpl; intros H; [reflexivity|].
  apply andb_true_iff in H as [_ Wa]. rewrite cmp_part_refl. auto.
Qed.

Lemma cmp_parts_eq a b : wfl a = true -> wfl b = true -> cmp_parts a b = Eq -> a = b.
Proof.
  revert b; induction a as [|x a IH]; intros b Wa Wb H.
  - simpl in H. rewrite cmp_rest_r_wf in H by assumption. destruct b; [reflexivity | discriminate].
  - destruct b as [|y b].
    + simpl in H. change (cmp_rest_l (x :: a) = Eq) in H. rewrite cmp_rest_l_wf in H by assumption. discriminate.
    + simpl in H. simpl in Wa, Wb. apply andb_true_iff in Wa as [Wx Wa]. apply andb_true_iff in Wb as [Wy Wb].
      destruct (cmp_part x y) eqn:E; try discriminate.
      apply cmp_part_eq in E. subst. f_equal. auto.
Qed.

Lemma cmp_parts_antisym a b : wfl a = true -> wfl b = true -> cmp_parts b a = CompOpp (cmp_parts a b).
Proof.
  revert b; induction a as [|x a IH]; intros b Wa Wb.
  - destruct b as [|y b]; [reflexivity|].
    change (cmp_rest_l (y :: b) = CompOpp (cmp_rest_r (y :: b))).
    rewrite cmp_rest_l_wf, cmp_rest_r_wf by assumption. reflexivity.
  - destruct b as [|y b].
    + change (cmp_rest_r (x :: a) = CompOpp (cmp_rest_l (x :: a))).
      rewrite cmp_rest_l_wf, cmp_rest_r_wf by assumption. reflexivity.
    + simpl in Wa, Wb. apply andb_true_iff in Wa as [Wx Wa]. apply andb_true_iff in Wb as [Wy Wb].
      simpl. rewrite (cmp_part_antisym x y) by assumption.
      destruct (cmp_part x y); simpl; auto.
Qed.

Lemma cmp_parts_trans a b c : wfl a = true -> wfl b = true -> wfl c = true ->
  cmp_parts a b = Lt -> cmp_parts b c = Lt -> cmp_parts a c = Lt.
Proof.
  revert b c; induction a as [|x a IH]; intros b c Wa Wb Wc Hab Hbc.
  - simpl in Hab. rewrite cmp_rest_r_wf in Hab by assumption. destruct b as [|y b]; [discriminate|].
    destruct c as [|z c].
    + change (cmp_rest_l (y :: b) = Lt) in Hbc. rewrite cmp_rest_l_wf in Hbc by assumption. discriminate.
    + change (cmp_rest_r (z :: c) = Lt). rewrite cmp_rest_r_wf by assumption. reflexivity.
  - destruct b as [|y b].
    { change (cmp_rest_l (x :: a) = Lt) in Hab. rewrite cmp_rest_l_wf in Hab by assumption. discriminate. }
    destruct c as [|z c].
    { change (cmp_rest_l (y :: b) = Lt) in Hbc. rewrite cmp_rest_l_wf in Hbc by assumption. discriminate. }
    simpl in Wa, Wb, Wc. apply andb_true_iff in Wa as [Wx Wa]. apply andb_true_iff in Wb as [Wy Wb].
    apply andb_true_iff in Wc as [Wz Wc]. simpl in Hab, Hbc |- *.
    destruct (cmp_part x y) eqn:Exy; try discriminate.
    + apply cmp_part_eq in Exy. subst y.
      destruct (cmp_part x z) eqn:Exz; try discriminate; [eauto | reflexivity].
    + destruct (cmp_part y z) eqn:Eyz; try discriminate.
      * apply cmp_part_eq in Eyz. subst z. rewrite Exy. reflexivity.
      * rewrite (cmp_part_trans x y z) by assumption. reflexivity.
Qed.

(* ---------- split / join ---------- *)
Lemma split_on_nonnil c s : split_on c s <> [].
Proof.
  induction s as [|b t IH]; simpl; [discriminate|].
  destruct (beqb b c); [discriminate|]. destruct (split_on c t); [contradiction | discriminate].
Qed.

Lemma join_split c s : join_with c (split_on c s) = s.
Proof.
  induction s as [|b t IH]; simpl; [reflexivity|].
  destruct (beqb b c) eqn:E.
  - apply beqb_eq in E; subst b. pose proof (split_on_nonnil c t) as H.
    destruct (split_on c t) eqn:S; [contradiction|]. simpl. rewrite <- IH. reflexivity.
  - pose proof (split_on_nonnil c t) as H. destruct (split_on c t) as [|p ps] eqn:S; [contradiction|].
    simpl in IH |- *. destruct ps; simpl; rewrite <- IH; reflexivity.
Qed.

Lemma split_on_inj c a b : split_on c a = split_on c b -> a = b.
Proof. intros H. rewrite <- (join_split c a), <- (join_split c b), H. reflexivity. Qed.

(* ---------- pre-release strings ---------- *)
Definition wf_pre (p : str) : bool :=
  match p with [] => true | _ => wfl (split_on c_dot p) end.

Lemma wf_unfold v : wf v = wf_pre (pre v).
Proof. unfold wf, wf_pre. destruct (pre v); reflexivity. Qed.

Lemma cmp_pre_refl p : wf_pre p = true -> cmp_pre p p = Eq.
Proof. destruct p; [reflexivity|]. intros H. apply cmp_parts_refl. exact H. Qed.

Lemma cmp_pre_eq a b : wf_pre a = true -> wf_pre b = true -> cmp_pre a b = Eq -> a = b.
Proof.
  destruct a as [|x a], b as [|y b]; simpl; try discriminate; [reflexivity|].
  intros Wa Wb H. apply (split_on_inj c_dot). apply cmp_parts_eq; assumption.
Qed.

Lemma cmp_pre_antisym a b : wf_pre a = true -> wf_pre b = true -> cmp_pre b a = CompOpp (cmp_pre a b).
Proof.
  destruct a as [|x a], b as [|y b]; try reflexivity.
  intros Wa Wb. apply cmp_parts_antisym; assumption.
Qed.

Lemma cmp_pre_trans a b c : wf_pre a = true -> wf_pre b = true -> wf_pre c = true ->
  cmp_pre a b = Lt -> cmp_pre b c = Lt -> cmp_pre a c = Lt.
Proof.
  destruct a as [|x a], b as [|y b], c as [|z c]; try discriminate; try reflexivity.
  intros Wa Wb Wc. apply cmp_parts_trans; assumption.
Qed.

(* ---------- Version.Compare ---------- *)
Lemma compare_refl v : wf v = true -> compare v v = Eq.
Proof. intros W. rewrite wf_unfold in W. unfold compare. rewrite !N.compare_refl. apply cmp_pre_refl. exact W. Qed.

Lemma compare_eq a b : wf a = true -> wf b = true -> (compare a b = Eq <-> eqv a b).
Proof.
  intros Wa Wb. rewrite wf_unfold in Wa, Wb. unfold compare, eqv. split.
  - destruct (N.compare_spec (major a) (major b)); try discriminate.
    destruct (N.compare_spec (minor a) (minor b)); try discriminate.
    destruct (N.compare_spec (patch a) (patch b)); try discriminate.
    intros HE. apply cmp_pre_eq in HE; auto.
  - intros (-> & -> & -> & E). rewrite !N.compare_refl. rewrite <- E. apply cmp_pre_refl. exact Wa.
Qed.

Lemma compare_antisym a b : wf a = true -> wf b = true -> compare b a = CompOpp (compare a b).
Proof.
  intros Wa Wb. rewrite wf_unfold in Wa, Wb. unfold compare.
  rewrite (N.compare_antisym (major a) (major b)), (N.compare_antisym (minor a) (minor b)),
          (N.compare_antisym (patch a) (patch b)), (cmp_pre_antisym (pre a) (pre b)) by assumption.
  destruct (major a ?= major b); simpl; try reflexivity.
  destruct (minor a ?= minor b); simpl; try reflexivity.
  destruct (patch a ?= patch b); simpl; reflexivity.
Qed.

Lemma lt_trans a b c : wf a = true -> wf b = true -> wf c = true ->
  lt a b -> lt b c -> lt a c.
Proof.
  intros Wa Wb Wc. rewrite wf_unfold in Wa, Wb, Wc. unfold lt, compare.
  destruct (N.compare_spec (major a) (major b)) as [E1|L1|G1]; try discriminate;
  destruct (N.compare_spec (major b) (major c)) as [E2|L2|G2]; try discriminate;
  destruct (N.compare_spec (major a) (major c)) as [E3|L3|G3]; try lia; try reflexivity.
  destruct (N.compare_spec (minor a) (minor b)) as [E4|L4|G4]; try discriminate;
  destruct (N.compare_spec (minor b) (minor c)) as [E5|L5|G5]; try discriminate;
  destruct (N.compare_spec (minor a) (minor c)) as [E6|L6|G6]; try lia; try reflexivity.
  destruct (N.compare_spec (patch a) (patch b)) as [E7|L7|G7]; try discriminate;
  destruct (N.compare_spec (patch b) (patch c)) as [E8|L8|G8]; try discriminate;
  destruct (N.compare_spec (patch a) (patch c)) as [E9|L9|G9]; try lia; try reflexivity.
  apply cmp_pre_trans; assumption.
Qed.

Lemma gt_lt a b : wf a = true -> wf b = true -> (gt a b <-> lt b a).
Proof.
  intros Wa Wb. unfold gt, lt. rewrite (compare_antisym a b Wa Wb).
  destruct (compare a b); simpl; split; congruence.
Qed.

Lemma gt_trans a b c : wf a = true -> wf b = true -> wf c = true -> gt a b -> gt b c -> gt a c.
Proof.
  intros Wa Wb Wc H1 H2. apply gt_lt in H1, H2; auto. apply gt_lt; auto.
  apply (lt_trans c b a); assumption.
Qed.

Lemma lt_irrefl a : wf a = true -> ~ lt a a.
Proof. intros W. unfold lt. rewrite compare_refl by assumption. discriminate. Qed.

Lemma trichotomy a b : wf a = true -> wf b = true ->
  (lt a b /\ ~ eqv a b /\ ~ lt b a) \/ (~ lt a b /\ eqv a b /\ ~ lt b a) \/ (~ lt a b /\ ~ eqv a b /\ lt b a).
Proof.
  intros Wa Wb. pose proof (compare_eq a b Wa Wb) as E. unfold lt.
  rewrite (compare_antisym a b Wa Wb). destruct (compare a b); simpl.
  - right; left. split; [discriminate|]. split; [apply E; reflexivity | discriminate].
  - left. split; [reflexivity|]. split; [|discriminate]. intros H. apply E in H. discriminate.
  - right; right. split; [discriminate|]. split; [|reflexivity]. intros H. apply E in H. discriminate.
Qed.

(* equal precedence is a congruence for the comparison (so [lt] is a strict total order
   on the quotient, i.e. on versions up to build metadata) *)
Lemma compare_eqv_l a a' b : eqv a a' -> compare a b = compare a' b.
Proof. intros (E1 & E2 & E3 & E4). unfold compare. rewrite E1, E2, E3, E4. reflexivity. Qed.
Lemma compare_eqv_r a b b' : eqv b b' -> compare a b = compare a b'.
Proof. intros (E1 & E2 & E3 & E4). unfold compare. rewrite E1, E2, E3, E4. reflexivity. Qed.

Definition with_meta (v : version) (m : str) : version :=
  {| major := major v; minor := minor v; patch := patch v; pre := pre v; meta := m |}.
Definition release_of (v : version) : version :=
  {| major := major v; minor := minor v; patch := patch v; pre := []; meta := meta v |}.

Lemma meta_ignored a b m : compare (with_meta a m) b = compare a b /\ compare a (with_meta b m) = compare a b.
Proof. split; reflexivity. Qed.

Lemma pre_lt_release v : pre v <> [] -> lt v (release_of v).
Proof.
  intros H. unfold lt, compare. simpl. rewrite !N.compare_refl.
  destruct (pre v); [congruence | reflexivity].
Qed.

(* a pre-release of X.Y.Z is above every version below X.Y.Z: it sits immediately under
   its release *)
Lemma gtb_gt a b : gtb a b = true <-> gt a b.
Proof. unfold gtb, gt. destruct (compare a b); split; congruence. Qed.
Lemma ltb_lt a b : ltb a b = true <-> lt a b.
Proof. unfold ltb, lt. destruct (compare a b); split; congruence. Qed.

(* ---------- the parser returns well-formed, valid versions ---------- *)
Lemma pre_ok_wf p : idents_ok p = true -> pre_ok p = true -> wfl (split_on c_dot p) = true.
Proof.
  unfold idents_ok, pre_ok, wfl. generalize (split_on c_dot p) as l.
  induction l as [|x l IH]; simpl; [reflexivity|]. intros H1 H2.
  apply andb_true_iff in H1 as [I1 I2]. apply andb_true_iff in H2 as [P1 P2].
  rewrite (IH I2 P2), andb_true_r.
  destruct x as [|b t]; [discriminate|]. unfold pre_part_ok in P1. unfold wf_ident.
  destruct (all_digits (b :: t)) eqn:D; [|reflexivity]. simpl.
  destruct t; [rewrite andb_false_r; reflexivity|]. rewrite andb_true_r. exact P1.
Qed.

Lemma num_or_zero_bound o n : num_or_zero o = Some n -> n < two64.
Proof. destruct o; simpl; [apply parse_uint_bound | intros H; injection H as <-; reflexivity]. Qed.

Lemma parse_valid_wf s v : parse s = Some v -> valid v = true /\ wf v = true.
Proof.
  unfold parse, parse_body.
  destruct (span_digits (strip_v s)) as [mj r1]. destruct mj as [|m0 mj]; [discriminate|].
  destruct (opt_dot_num r1) as [mn r2]. destruct (opt_dot_num r2) as [pt r3].
  destruct (parse_tail r3) as [[p m]|] eqn:ET; [|discriminate].
  destruct (parse_uint (m0 :: mj)) as [a|] eqn:Ea; [|discriminate].
  destruct (num_or_zero mn) as [b|] eqn:Eb; [|discriminate].
  destruct (num_or_zero pt) as [c|] eqn:Ec; [|discriminate].
  destruct (match p with [] => true | _ => pre_ok p end) eqn:EP; [|discriminate].
  intros H. injection H as <-.
  assert (Hp : p = [] \/ (p <> [] /\ idents_ok p = true)).
  { unfold parse_tail in ET. destruct r3 as [|b0 t]; [injection ET as <- <-; auto|].
    destruct (beqb b0 c_dash).
    - destruct (break_on c_plus t) as [p' m']. destruct (idents_ok p') eqn:I; [|discriminate].
      destruct p' as [|q p']; [discriminate|].
      destruct m' as [m'|]; [destruct (idents_ok m'); [|discriminate]|]; injection ET as <- <-; right; split; auto; discriminate.
    - destruct (beqb b0 c_plus); [|discriminate]. destruct (idents_ok t); [|discriminate]. injection ET as <- <-. auto. }
  assert (Hm : m = [] \/ idents_ok m = true).
  { unfold parse_tail in ET. destruct r3 as [|b0 t]; [injection ET as <- <-; auto|].
    destruct (beqb b0 c_dash).
    - destruct (break_on c_plus t) as [p' m']. destruct (idents_ok p'); [|discriminate].
      destruct m' as [m'|]; [destruct (idents_ok m') eqn:I; [|discriminate]|]; injection ET as <- <-; auto.
    - destruct (beqb b0 c_plus); [|discriminate]. destruct (idents_ok t) eqn:I; [|discriminate]. injection ET as <- <-. auto. }
  unfold valid, wf. simpl.
  apply parse_uint_bound in Ea. apply num_or_zero_bound in Eb. apply num_or_zero_bound in Ec.
  apply N.ltb_lt in Ea, Eb, Ec. rewrite Ea, Eb, Ec. simpl.
  destruct Hp as [->|[Hne Hi]].
  - simpl. split; [|reflexivity]. destruct Hm as [->|Hm]; [reflexivity|]. destruct m; [reflexivity | exact Hm].
  - destruct p as [|q p]; [congruence|]. rewrite Hi, EP. simpl. split.
    + destruct Hm as [->|Hm]; [reflexivity|]. destruct m; [reflexivity | exact Hm].
    + apply (pre_ok_wf (q :: p)); assumption.
Qed.

Lemma parse_wf s v : parse s = Some v -> wf v = true.
Proof. intros H. apply (parse_valid_wf s v H). Qed.
Lemma parse_valid s v : parse s = Some v -> valid v = true.
Proof. intros H. apply (parse_valid_wf s v H). Qed.

Lemma v0_wf : wf v0 = true.
Proof. reflexivity. Qed.

(* ---------- print / parse round trip ---------- *)
Definition starts_nondigit (r : str) : Prop :=
  match r with [] => True | b :: _ => is_digit b = false end.

Lemma span_digits_app d r : all_digits d = true -> starts_nondigit r -> span_digits (d ++ r) = (d, r).
Proof.
  unfold all_digits. induction d as [|b d IH]; simpl; intros D R.
  - destruct r as [|c r]; [reflexivity|]. simpl in R |- *. rewrite R. reflexivity.
  - apply andb_true_iff in D as [Db Dd]. rewrite Db, (IH Dd R). reflexivity.
Qed.

Lemma opt_dot_num_app d r : all_digits d = true -> d <> [] -> starts_nondigit r ->
  opt_dot_num (c_dot :: d ++ r) = (Some d, r).
Proof.
  intros D Hne R. unfold opt_dot_num. change (beqb c_dot c_dot) with true. cbv iota.
  rewrite (span_digits_app d r D R). destruct d; [congruence | reflexivity].
Qed.

Lemma forallb_split_chars f c s :
  forallb (forallb f) (split_on c s) = true -> forallb (fun b => beqb b c || f b) s = true.
Proof.
  induction s as [|b t IH]; simpl; [reflexivity|].
  destruct (beqb b c) eqn:E; simpl.
  - exact IH.
  - pose proof (split_on_nonnil c t) as Hn. destruct (split_on c t) as [|p ps]; [contradiction|].
    simpl in IH |- *. intros H. apply andb_true_iff in H as [H1 H2]. apply andb_true_iff in H1 as [Hb Hp].
    rewrite Hb. simpl. apply IH. rewrite Hp, H2. reflexivity.
Qed.

Lemma ident_ok_allowed x : ident_ok x = true -> forallb is_allowed x = true.
Proof. destruct x; [discriminate | exact (fun H => H)]. Qed.

Lemma idents_ok_chars s : idents_ok s = true -> forallb (fun b => beqb b c_dot || is_allowed b) s = true.
Proof.
  unfold idents_ok. intros H. apply forallb_split_chars.
  revert H. generalize (split_on c_dot s). induction l as [|x l IH]; simpl; [reflexivity|].
  intros H. apply andb_true_iff in H as [H1 H2]. rewrite (ident_ok_allowed _ H1), (IH H2). reflexivity.
Qed.

Lemma idents_ok_no_plus s : idents_ok s = true -> forallb (fun b => negb (beqb b c_plus)) s = true.
Proof.
  intros H. apply idents_ok_chars in H. rewrite forallb_forall in *. intros b Hb. specialize (H b Hb).
  destruct (beqb b c_plus) eqn:E; [|reflexivity]. apply beqb_eq in E; subst b. vm_compute in H. discriminate.
Qed.

Lemma break_on_none c p : forallb (fun b => negb (beqb b c)) p = true -> break_on c p = (p, None).
Proof.
  induction p as [|b p IH]; simpl; [reflexivity|]. intros H. apply andb_true_iff in H as [Hb Hp].
  destruct (beqb b c); [discriminate|]. rewrite (IH Hp). reflexivity.
Qed.
Lemma break_on_some c p m : forallb (fun b => negb (beqb b c)) p = true -> break_on c (p ++ c :: m) = (p, Some m).
Proof.
  induction p as [|b p IH]; simpl; intros H.
  - rewrite (proj2 (beqb_eq c c) eq_refl). reflexivity.
  - apply andb_true_iff in H as [Hb Hp]. destruct (beqb b c); [discriminate|]. rewrite (IH Hp). reflexivity.
Qed.

Definition pre_str (v : version) : str := match pre v with [] => [] | p => c_dash :: p end.
Definition meta_str (v : version) : str := match meta v with [] => [] | m => c_plus :: m end.

Lemma parse_tail_print v : valid v = true -> parse_tail (pre_str v ++ meta_str v) = Some (pre v, meta v).
Proof.
  unfold valid, pre_str, meta_str. intros V.
  apply andb_true_iff in V as [V Vm]. apply andb_true_iff in V as [_ Vp].
  destruct (pre v) as [|q p] eqn:Ep, (meta v) as [|n m] eqn:Em.
  - reflexivity.
  - simpl. change (beqb c_plus c_dash) with false. change (beqb c_plus c_plus) with true. cbv iota.
    rewrite Vm. reflexivity.
  - apply andb_true_iff in Vp as [Ip _]. rewrite app_nil_r. unfold parse_tail.
    change (beqb c_dash c_dash) with true. cbv iota.
    rewrite (break_on_none c_plus (q :: p) (idents_ok_no_plus _ Ip)). rewrite Ip. reflexivity.
  - apply andb_true_iff in Vp as [Ip _]. unfold parse_tail.
    change ((c_dash :: q :: p) ++ c_plus :: n :: m) with (c_dash :: ((q :: p) ++ c_plus :: n :: m)).
    change (beqb c_dash c_dash) with true. cbv iota.
    rewrite (break_on_some c_plus (q :: p) (n :: m) (idents_ok_no_plus _ Ip)). rewrite Ip, Vm. reflexivity.
Qed.

Lemma tail_starts_nondigit v : starts_nondigit (pre_str v ++ meta_str v).
Proof. unfold pre_str, meta_str. destruct (pre v), (meta v); simpl; auto. Qed.

Lemma print_uint_head n : exists b t, print_uint n = b :: t /\ is_digit b = true.
Proof.
  pose proof (print_uint_nonempty n) as Hn. pose proof (print_uint_digits n) as Hd.
  destruct (print_uint n) as [|b t]; [congruence|]. exists b, t. split; [reflexivity|].
  unfold all_digits in Hd. simpl in Hd. apply andb_true_iff in Hd as [H _]. exact H.
Qed.

Theorem parse_print v : valid v = true -> parse (print v) = Some v.
Proof.
  intros V. pose proof (parse_tail_print v V) as HT. pose proof (tail_starts_nondigit v) as HS.
  unfold valid in V. apply andb_true_iff in V as [V _]. apply andb_true_iff in V as [V Vp].
  apply andb_true_iff in V as [V Vc]. apply andb_true_iff in V as [Va Vb].
  apply N.ltb_lt in Va, Vb, Vc.
  assert (P : print v = print_uint (major v) ++ c_dot :: print_uint (minor v) ++ c_dot :: print_uint (patch v) ++ (pre_str v ++ meta_str v)).
  { unfold print, pre_str, meta_str. reflexivity. }
  rewrite P. unfold parse.
  assert (strip_v (print_uint (major v) ++ c_dot :: print_uint (minor v) ++ c_dot :: print_uint (patch v) ++ pre_str v ++ meta_str v)
          = print_uint (major v) ++ c_dot :: print_uint (minor v) ++ c_dot :: print_uint (patch v) ++ pre_str v ++ meta_str v) as ->.
  { destruct (print_uint_head (major v)) as (b & t & Eh & Hb). rewrite Eh. simpl.
    destruct (beqb b c_v) eqn:E; [|reflexivity]. apply beqb_eq in E; subst b. vm_compute in Hb. discriminate. }
  unfold parse_body.
  rewrite (span_digits_app (print_uint (major v))) by (first [apply print_uint_digits | reflexivity]).
  pose proof (print_uint_nonempty (major v)) as Hne. destruct (print_uint (major v)) as [|b' t'] eqn:Em; [congruence|]. rewrite <- Em.
  rewrite (opt_dot_num_app (print_uint (minor v))) by (first [apply print_uint_digits | apply print_uint_nonempty | reflexivity]).
  rewrite (opt_dot_num_app (print_uint (patch v))) by (first [apply print_uint_digits | apply print_uint_nonempty | exact HS]).
  rewrite HT. simpl num_or_zero.
  rewrite !parse_print_uint by assumption.
  assert ((match pre v with [] => true | _ :: _ => pre_ok (pre v) end) = true) as ->.
  { destruct (pre v); [reflexivity|]. apply andb_true_iff in Vp as [_ H]. exact H. }
  destruct v; reflexivity.
Qed.

Local Open Scope nat_scope.
(* tag names: "v" ++ String() has at least three dot-separated parts *)
Lemma split_on_app_c_length c a r : length (split_on c (a ++ c :: r)) >= S (length (split_on c r)).
Proof.
  induction a as [|b a IH]; simpl.
  - rewrite (proj2 (beqb_eq c c) eq_refl). simpl. lia.
  - destruct (beqb b c); simpl; [lia|].
    pose proof (split_on_nonnil c (a ++ c :: r)) as Hn.
    destruct (split_on c (a ++ c :: r)); [contradiction|]. simpl in *. lia.
Qed.
Lemma split_on_length_pos c s : length (split_on c s) >= 1.
Proof. pose proof (split_on_nonnil c s). destruct (split_on c s); [contradiction | simpl; lia]. Qed.

Lemma print_three_parts v pfx : length (split_on c_dot (pfx ++ print v)) >= 3.
Proof.
  unfold print. rewrite app_assoc.
  pose proof (split_on_app_c_length c_dot (pfx ++ print_uint (major v))
     (print_uint (minor v) ++ c_dot :: print_uint (patch v) ++ (match pre v with [] => [] | p => c_dash :: p end) ++ (match meta v with [] => [] | m => c_plus :: m end))) as H1.
  pose proof (split_on_app_c_length c_dot (print_uint (minor v))
     (print_uint (patch v) ++ (match pre v with [] => [] | p => c_dash :: p end) ++ (match meta v with [] => [] | m => c_plus :: m end))) as H2.
  pose proof (split_on_length_pos c_dot (print_uint (patch v) ++ (match pre v with [] => [] | p => c_dash :: p end) ++ (match meta v with [] => [] | m => c_plus :: m end))) as H3.
  lia.
Qed.

(* the leading "v" is skipped by the parser *)
Lemma parse_v s : (match s with b :: _ => beqb b c_v = false | [] => True end) -> parse (c_v :: s) = parse s.
Proof.
  intros H. unfold parse. f_equal. unfold strip_v at 1. change (beqb c_v c_v) with true. cbv iota.
  destruct s as [|b t]; [reflexivity|]. simpl. rewrite H. reflexivity.
Qed.

Lemma parse_v_print v : valid v = true -> parse (c_v :: print v) = Some v.
Proof.
  intros V. rewrite parse_v; [apply parse_print; exact V|].
  unfold print. destruct (print_uint_head (major v)) as (b & t & Eh & Hb). rewrite Eh. simpl.
  destruct (beqb b c_v) eqn:E; [|reflexivity]. apply beqb_eq in E; subst b. vm_compute in Hb. discriminate.
Qed.

(* ---------- the library's comparison is semver.org precedence, up to the uint64 limit ---------- *)
Lemma parse_uint_small x : small_ident x = true -> parse_uint x = num_unb x.
Proof.
  unfold small_ident, parse_uint, num_unb. destruct x as [|b t]; [reflexivity|].
  destruct (uint_of_bytes (b :: t)); [|reflexivity]. intros ->. reflexivity.
Qed.

Lemma cmp_part_is_spec x y : wf_ident x = true -> wf_ident y = true ->
  small_ident x = true -> small_ident y = true -> cmp_part x y = spec_cmp_ident x y.
Proof.
  intros Wx Wy Sx Sy. rewrite cmp_part_spec by (apply wf_ident_nonempty; assumption).
  unfold plt, spec_cmp_ident. pose proof (parse_uint_small x Sx) as Px. pose proof (parse_uint_small y Sy) as Py.
  rewrite <- Px, <- Py.
  destruct (seqb x y) eqn:E.
  - apply seqb_eq in E. subst y. destruct (parse_uint x); [rewrite N.compare_refl; reflexivity | reflexivity].
  - apply seqb_neq in E.
    destruct (parse_uint x) as [a|] eqn:Ex, (parse_uint y) as [b|] eqn:Ey; try reflexivity.
    + assert (a <> b) as Hne by (intros ->; apply E; eapply parse_uint_inj; eauto).
      destruct (N.ltb_spec b a) as [L|L].
      * symmetry. apply N.compare_gt_iff. exact L.
      * symmetry. apply N.compare_lt_iff. lia.
    + destruct (sltb y x) eqn:L.
      * rewrite (sltb_asym _ _ L). reflexivity.
      * destruct (sltb x y) eqn:L2; [reflexivity|]. exfalso. apply E. apply sltb_total; assumption.
Qed.


Lemma cmp_parts_is_spec a b : wfl a = true -> wfl b = true ->
  forallb small_ident a = true -> forallb small_ident b = true -> cmp_parts a b = spec_cmp_idents a b.
Proof.
  revert b; induction a as [|x a IH]; intros b Wa Wb Sa Sb.
  - simpl. rewrite cmp_rest_r_wf by assumption. destruct b; reflexivity.
  - destruct b as [|y b].
    + change (cmp_rest_l (x :: a) = Gt). rewrite cmp_rest_l_wf by assumption. reflexivity.
    + simpl in Wa, Wb, Sa, Sb. apply andb_true_iff in Wa as [Wx Wa]. apply andb_true_iff in Wb as [Wy Wb].
      apply andb_true_iff in Sa as [Sx Sa]. apply andb_true_iff in Sb as [Sy Sb].
      simpl. rewrite (cmp_part_is_spec x y) by assumption. rewrite IH by assumption. reflexivity.
Qed.

Lemma compare_is_spec a b : wf a = true -> wf b = true -> small a = true -> small b = true ->
  compare a b = spec_compare a b.
Proof.
  unfold wf, small, compare, spec_compare, cmp_pre, spec_cmp_pre. intros Wa Wb Sa Sb.
  destruct (pre a) as [|p ps], (pre b) as [|q qs]; try reflexivity.
  rewrite (cmp_parts_is_spec _ _ Wa Wb Sa Sb). reflexivity.
Qed.
